(* Proofs/C04Proofs.v — property C04: the parse is fixed by precedence, associativity and
   parentheses.  Theorems about the model of Model/Lexer.v + Model/Parser.v against the
   specification of Spec/C04.v and the tables generated from the running Go code
   (Gen/ParseTables.v, regenerated on every run; the table lemmas of part 1 are re-proved
   against it every time).

   1. Table lemmas: bp_table_matches, led_nud_tables_match, symbols_match (+ symbols1_iff),
      keywords_match (+ keywords_only), token_names_match, bp_rows_ok (the binding powers induce
      exactly the ten rows of the property), bp_rows_same_rows, bp_row_order, every_led_has_bp,
      no_bp_without_led, row_iff_led, assign_is_lowest, bp_gap, assign_rbp_ok, nud_set_ok.
   2. Lexer-level clauses, from exact-result lemmas about the lexer primitives on error-free
      states (nextRune_mkL, accept_mkL, skipWhitespace_mkL, scanStringLoop_body, ...):
      C04_ws, scan_string_spec, C04_quotes, scanRegex_type, C04_regex_div; the allowRegex flag
      of every advance/consume (parseExpression_unfold, ledLoop_unfold, newParser_flag,
      C04_closer_flags, C04_separator_flags, C04_signature_flags); C04_kw_names.
   3. C04_paren (parseBlock_single).
   4. The grouping theorem, for ANY ranks lside/rside: pratt_wf (the abstract Pratt loop yields a
      well-grouped tree with the right yield), pratt_complete (every well-grouped tree is what
      the loop returns on its yield), wf_unique, pratt_total, pratt_chain, wf_climb.
      4b. led_binary, led_assign, led_conditional, led_postfix: the equations that make the
      abstract loop the model's loop.
   5. C04_pratt_model: on token streams of simple operands and the 17 binary operators and :=,
      the model's parseExpression/ledLoop compute exactly the abstract loop instantiated with
      the model's binding-power table; C04_chain: hence the parse of every such chain is THE
      well-grouped tree.
      Remaining glue for the full end-to-end statement (not proved here): (i) a lemma producing
      the [stream] hypothesis from the source text of a chain (one lexing lemma per token kind:
      names, variables, symbols; whitespace is C04_ws, strings scan_string_spec, numbers
      C11Proofs.scan_number_spec); (ii) the postfix operators ( ) [ ] { } ^( ) and ? : in the
      simulation (their bracketed parts are nested parseExpression 0 calls: led_postfix,
      led_conditional, C04_paren state the per-operator equations; the abstract theory of part 4
      already covers postfix operators and the else-branch). *)
From JV Require Import Model.Lexer Model.Parser Proofs.LexerProofs Proofs.ParserProofs
  Proofs.Utf8Proofs Gen.ParseTables Spec.C04.
From Coq Require Import Lia ZifyBool ZifyNat.
Open Scope Z_scope.

(* ==================================================================================== *)
(* 1. Table lemmas                                                                       *)
(* ==================================================================================== *)

(* [token_types] (Spec) lists every token type at its own number *)
Lemma token_types_complete t : nth_error token_types (tt_num t) = Some t.
Proof. destruct t; reflexivity. Qed.

Lemma token_types_length : List.length token_types = 42%nat.
Proof. reflexivity. Qed.

Lemma tt_num_inj a b : tt_num a = tt_num b -> a = b.
Proof. destruct a, b; simpl; intros H; try reflexivity; discriminate H. Qed.

(* ---- binding powers ---- *)

(* the model's bps table is the table of the running implementation, entry by entry *)
Lemma bp_table_matches : map lookupBp token_types = gen_bps.
Proof. vm_compute. reflexivity. Qed.

Lemma bp_table_matches_at t : nth (tt_num t) gen_bps 0 = lookupBp t.
Proof. rewrite <- bp_table_matches. destruct t; vm_compute; reflexivity. Qed.

(* ---- nud / led presence ---- *)

Section Tables.
Variable parse_number : string -> numlit.
Variable regex_check : string -> option string.
Variable fmt_g : f64 -> string.
Variable quote : string -> string.
Variable lf : nat.
Variable pe : Z -> PM node.

Definition model_has_led (t : tokentype) : bool :=
  is_some (lookupLed fmt_g quote lf pe t).
Definition model_has_nud (t : tokentype) : bool :=
  is_some (lookupNud parse_number regex_check lf pe t).

(* the model's leds / nuds are defined exactly on the token types for which the running
   implementation has one (whatever the oracles, the fuel and the recursive call) *)
Lemma led_nud_tables_match :
  map model_has_led token_types = gen_has_led /\ map model_has_nud token_types = gen_has_nud.
Proof. split; reflexivity. Qed.

Lemma led_table_at t : model_has_led t = nth (tt_num t) gen_has_led false.
Proof. destruct t; reflexivity. Qed.
Lemma nud_table_at t : model_has_nud t = nth (tt_num t) gen_has_nud false.
Proof. destruct t; reflexivity. Qed.

Lemma model_has_led_has_led t : model_has_led t = has_led t.
Proof. destruct t; reflexivity. Qed.

(* and, or, in (and nothing else among the infix tokens that are words) have the NAME nud *)
Lemma nud_set_ok :
  lookupNud parse_number regex_check lf pe typeAnd = Some parseName /\
  lookupNud parse_number regex_check lf pe typeOr = Some parseName /\
  lookupNud parse_number regex_check lf pe typeIn = Some parseName.
Proof. repeat split; reflexivity. Qed.

End Tables.

(* ---- symbols and keywords ---- *)

Definition byte_range : list Z := map Z.of_nat (seq 0 256).

Definition str1 (b : Z) : string := String (ascii_of_Z b) EmptyString.
Definition str2 (a b : Z) : string := String (ascii_of_Z a) (String (ascii_of_Z b) EmptyString).

(* every entry of lookupSymbol1 / lookupSymbol2 as (spelling, token-type number) *)
Definition model_symbols1 : list (string * nat) :=
  flat_map (fun b => let t := lookupSymbol1 b in
                     if tt_pos t then [(str1 b, tt_num t)] else []) byte_range.
Definition model_symbols2 : list (string * nat) :=
  flat_map (fun b => map (fun rt : rune * tokentype => (str2 b (fst rt), tt_num (snd rt)))
                         (lookupSymbol2 b)) byte_range.

Definition entry_eqb (a b : string * nat) : bool := seqb (fst a) (fst b) && Nat.eqb (snd a) (snd b).
Definition subset (l1 l2 : list (string * nat)) : bool :=
  forallb (fun a => existsb (entry_eqb a) l2) l1.
Definition same_entries (l1 l2 : list (string * nat)) : bool := subset l1 l2 && subset l2 l1.

Lemma subset_In l1 l2 : subset l1 l2 = true -> forall a, In a l1 -> In a l2.
Proof.
  unfold subset. rewrite forallb_forall. intros H a Ha. specialize (H a Ha).
  apply existsb_exists in H as (b & Hb & He). unfold entry_eqb in He.
  apply andb_true_iff in He as [H1 H2]. apply seqb_eq in H1. apply Nat.eqb_eq in H2.
  destruct a, b; simpl in *; subst; exact Hb.
Qed.

(* outside the byte range the symbol tables are empty (so [byte_range] enumerates them all) *)
Lemma lookupSymbol1_range r : tt_pos (lookupSymbol1 r) = true -> 0 <= r < 126.
Proof.
  unfold lookupSymbol1, symbol1Count. destruct ((r <? 0) || (126 <=? r)) eqn:E; [discriminate|lia].
Qed.
Lemma lookupSymbol2_range r : lookupSymbol2 r <> [] -> 0 <= r < 127.
Proof.
  unfold lookupSymbol2, symbol2Count. destruct ((r <? 0) || (127 <=? r)) eqn:E; [congruence|lia].
Qed.

(* the one- and two-character symbols of the lexer are those of the running implementation *)
Lemma symbols_match :
  same_entries model_symbols1 gen_symbols1 = true /\ same_entries model_symbols2 gen_symbols2 = true.
Proof. split; vm_compute; reflexivity. Qed.

Lemma In_byte_range r : 0 <= r < 256 -> In r byte_range.
Proof.
  intros H. unfold byte_range. apply in_map_iff. exists (Z.to_nat r). split; [lia|].
  apply in_seq. lia.
Qed.

(* consequence, in words: a rune is a one-character symbol of the model iff the generated table
   lists its spelling, with the same token type *)
Lemma symbols1_iff r t : t <> typeEOF ->
  (lookupSymbol1 r = t <-> 0 <= r < 256 /\ In (str1 r, tt_num t) gen_symbols1).
Proof.
  intros Ht. destruct symbols_match as [H1 _]. apply andb_true_iff in H1 as [Ha Hb]. split.
  - intros Hl.
    assert (Hp : tt_pos (lookupSymbol1 r) = true).
    { rewrite Hl. destruct t; try reflexivity. congruence. }
    pose proof (lookupSymbol1_range r Hp) as Hr. split; [lia|].
    apply (subset_In _ _ Ha). unfold model_symbols1. apply in_flat_map.
    exists r. split; [apply In_byte_range; lia|]. rewrite Hp, Hl. left; reflexivity.
  - intros [Hr Hin]. apply (subset_In _ _ Hb) in Hin. unfold model_symbols1 in Hin.
    apply in_flat_map in Hin as (b & Hbr & Hin).
    destruct (tt_pos (lookupSymbol1 b)) eqn:Hp; [|destruct Hin].
    destruct Hin as [Hin|[]]. injection Hin as Hs Hn.
    apply tt_num_inj in Hn.
    assert (b = r).
    { unfold byte_range in Hbr. apply in_map_iff in Hbr as (n & <- & Hn'). apply in_seq in Hn'.
      unfold str1 in Hs; try (injection Hs as Hs).
      assert (E : byte_of (ascii_of_Z (Z.of_nat n)) = byte_of (ascii_of_Z r)) by (rewrite Hs; reflexivity).
      rewrite !byte_of_ascii_of_Z in E by lia. exact E. }
    subst b. exact Hn.
Qed.

Definition model_keywords : list (string * nat) :=
  map (fun s => (s, tt_num (lookupKeyword s))) ["and"; "false"; "in"; "null"; "or"; "true"]%string.

(* the keywords: same words, same token types; and no other word is a keyword *)
Lemma keywords_match : same_entries model_keywords gen_keywords = true.
Proof. vm_compute. reflexivity. Qed.

Lemma keywords_only s : lookupKeyword s <> typeEOF ->
  In (s, tt_num (lookupKeyword s)) gen_keywords.
Proof.
  intros H. destruct (proj1 (andb_true_iff _ _) keywords_match) as [Ha _].
  apply (subset_In _ _ Ha). unfold model_keywords.
  unfold lookupKeyword in *.
  destruct (seqb s "and") eqn:E1; [apply seqb_eq in E1; subst; simpl; auto|].
  destruct (seqb s "or") eqn:E2; [apply seqb_eq in E2; subst; simpl; auto 6|].
  destruct (seqb s "in") eqn:E3; [apply seqb_eq in E3; subst; simpl; auto|].
  destruct (seqb s "true") eqn:E4; [apply seqb_eq in E4; subst; simpl; auto 8|].
  destruct (seqb s "false") eqn:E5; [apply seqb_eq in E5; subst; simpl; auto|].
  simpl in *.
  destruct (seqb s "null") eqn:E6; [apply seqb_eq in E6; subst; simpl; auto 6|].
  congruence.
Qed.

(* tokenType.String() *)
Lemma token_names_match : map tt_string token_types = gen_token_names.
Proof. vm_compute. reflexivity. Qed.

(* ---- the structure of the binding-power table ---- *)

(* STRUCTURE: grouping the token types by binding power, highest first, gives exactly the ten
   rows of the property — for the table of the running implementation ... *)
Theorem bp_rows_ok : rows_of_bps gen_bps = prec_rows.
Proof. vm_compute. reflexivity. Qed.

(* ... and for the model's own table (jparse.go's argument of initBindingPowers) *)
Lemma bp_rows_model : rows_of_bps (map lookupBp token_types) = prec_rows.
Proof. rewrite bp_table_matches. exact bp_rows_ok. Qed.

(* the rows of the model's source table are the property's rows, up to the order inside a row *)
Lemma bp_rows_same_rows :
  List.length bp_rows = List.length prec_rows /\
  forall t, row_in bp_rows t = row_of t.
Proof. split; [reflexivity|]. intros t; destruct t; reflexivity. Qed.

(* a token type has a row iff it has a positive binding power iff it has an led *)
Lemma every_led_has_bp t : has_led t = true -> 0 < lookupBp t.
Proof. destruct t; intros H; try discriminate H; vm_compute; reflexivity. Qed.

Lemma no_bp_without_led t : has_led t = false -> lookupBp t = 0.
Proof. destruct t; intros H; try discriminate H; vm_compute; reflexivity. Qed.

Lemma row_iff_led t : (exists n, row_of t = Some n) <-> has_led t = true.
Proof.
  split.
  - intros [n H]. destruct t; try discriminate H; reflexivity.
  - intros H. destruct t; try discriminate H; eexists; reflexivity.
Qed.

Lemma bp_nonneg t : 0 <= lookupBp t.
Proof. destruct t; vm_compute; discriminate. Qed.

(* the order of the binding powers is the order of the rows: looser row <-> smaller power *)
Theorem bp_row_order t1 t2 n1 n2 :
  row_of t1 = Some n1 -> row_of t2 = Some n2 ->
  (lookupBp t1 < lookupBp t2 <-> (n2 < n1)%nat) /\ (lookupBp t1 = lookupBp t2 <-> n1 = n2).
Proof.
  intros H1 H2.
  destruct t1; try discriminate H1; injection H1 as <-;
    destruct t2; try discriminate H2; injection H2 as <-; vm_compute; split; split;
      try (intros; reflexivity); try (intros H; discriminate H);
      try (intros H; repeat (apply le_S_n in H); inversion H); try lia.
Qed.

(* := is the loosest operator: every token with a binding power binds at least as tightly *)
Lemma assign_is_lowest t : 0 < lookupBp t -> lookupBp typeAssign <= lookupBp t.
Proof. destruct t; vm_compute; intros H; try discriminate H; discriminate. Qed.

(* different rows differ by more than 1, and the loosest row is above 1: the right binding power
   [bp(:=) - 1] that parseAssignment uses lies strictly between 0 and every row, so that it
   stops at every token that is not an infix/postfix operator, and at no operator *)
Lemma bp_gap t1 t2 : lookupBp t1 < lookupBp t2 -> lookupBp t1 + 1 < lookupBp t2.
Proof.
  destruct t1, t2; vm_compute; intros H; try discriminate H; reflexivity.
Qed.

Lemma assign_rbp_ok :
  0 < lookupBp typeAssign - 1 /\
  forall t, (lookupBp typeAssign - 1 <? lookupBp t) = has_led t.
Proof. split; [reflexivity|]. intros t; destruct t; reflexivity. Qed.

Print Assumptions bp_table_matches.
Print Assumptions led_nud_tables_match.
Print Assumptions symbols_match.
Print Assumptions keywords_match.
Print Assumptions bp_rows_ok.
Print Assumptions bp_row_order.
Print Assumptions nud_set_ok.

(* the statements are not vacuous: some entries *)
Example bp_rows_ex :
  row_of typeConcat = Some 4%nat /\ row_of typeApply = Some 5%nat /\ row_of typeAssign = Some 9%nat
  /\ lookupBp typeConcat = 60 /\ lookupBp typeApply = 50 /\ lookupBp typeAssign = 10
  /\ row_of typeColon = None /\ lookupBp typeColon = 0.
Proof. vm_compute. repeat split. Qed.
Example symbols1_ex : lookupSymbol1 (ch "&") = typeConcat /\ In ("&"%string, 35%nat) gen_symbols1.
Proof. split; [reflexivity|]. vm_compute. auto 10. Qed.

(* ==================================================================================== *)
(* 2. Lexer-level clauses                                                                *)
(* ==================================================================================== *)

(* ---- 2.0 functional (exact-result) facts about the lexer primitives ---- *)

(* a lexer state without a pending error *)
Definition mkL (inp : string) (st cur wd : Z) : lexer :=
  {| input := inp; start := st; current := cur; width := wd; err := None |}.

Lemma mkL_eta l : err l = None -> l = mkL (input l) (start l) (current l) (width l).
Proof. destruct l as [i s c w e]; simpl; intros ->; reflexivity. Qed.

Lemma mkL_eq inp st st' cur cur' wd wd' : st = st' -> cur = cur' -> wd = wd' ->
  mkL inp st cur wd = mkL inp st' cur' wd'.
Proof. intros -> -> ->; reflexivity. Qed.

Fixpoint all_high (s : string) : bool :=
  match s with EmptyString => true | String c r => (128 <=? byte_of c) && all_high r end.

Lemma decode_rune_ascii c s : byte_of c < 128 -> decode_rune (String c s) = (byte_of c, 1%nat).
Proof. intros H. unfold decode_rune. replace (byte_of c <? 128) with true by lia. reflexivity. Qed.

Local Ltac Zify.zify_post_hook ::= Z.div_mod_to_equations.

(* a multi-byte (or invalid) sequence decodes to a rune >= 128 and consumes only bytes >= 128 *)
Lemma decode_rune_high c s : 128 <= byte_of c ->
  128 <= fst (decode_rune (String c s)) /\
  (1 <= snd (decode_rune (String c s)) <= slen (String c s))%nat /\
  all_high (stake (snd (decode_rune (String c s))) (String c s)) = true.
Proof.
  intros H0. pose proof (byte_of_range c) as R0.
  assert (Hbad : 128 <= fst (RuneError, 1%nat) /\ (1 <= snd (RuneError, 1%nat) <= slen (String c s))%nat /\
                 all_high (stake (snd (RuneError, 1%nat)) (String c s)) = true).
  { cbn [fst snd stake all_high slen String.length]. unfold RuneError. repeat split; try lia. }
  unfold decode_rune.
  replace (byte_of c <? 128) with false by lia.
  destruct (lead_info (byte_of c)) as [[[sz lo] hi]|] eqn:El; [|exact Hbad].
  assert (Hlo : 128 <= lo /\ hi <= 191 /\ (sz = 2%nat -> 194 <= byte_of c <= 223)
                /\ (sz = 3%nat -> 224 <= byte_of c <= 239 /\ (byte_of c = 224 -> 160 <= lo))
                /\ (sz <> 2%nat -> sz <> 3%nat -> 240 <= byte_of c <= 244 /\ (byte_of c = 240 -> 144 <= lo))).
  { unfold lead_info in El.
    repeat match type of El with
           | (if ?b then _ else _) = _ => destruct b eqn:?; [try discriminate El|]
           end; try discriminate El; injection El as <- <- <-; repeat split; try lia; try discriminate. }
  destruct Hlo as (Hlo & Hhi & H2 & H3 & H4).
  destruct s as [|c1 r1]; [exact Hbad|]. pose proof (byte_of_range c1) as R1.
  destruct ((lo <=? byte_of c1) && (byte_of c1 <=? hi)) eqn:E1; cbn [negb]; [|exact Hbad].
  destruct (sz =? 2)%nat eqn:S2.
  { apply Nat.eqb_eq in S2. specialize (H2 S2).
    cbn [fst snd stake all_high slen String.length]. repeat split; try lia. }
  apply Nat.eqb_neq in S2.
  destruct r1 as [|c2 r2]; [exact Hbad|]. pose proof (byte_of_range c2) as R2.
  destruct (is_cont (byte_of c2)) eqn:E2; cbn [negb]; [|exact Hbad].
  unfold is_cont in E2.
  destruct (sz =? 3)%nat eqn:S3.
  { apply Nat.eqb_eq in S3. specialize (H3 S3).
    cbn [fst snd stake all_high slen String.length]. repeat split; try lia. }
  apply Nat.eqb_neq in S3. specialize (H4 S2 S3).
  destruct r2 as [|c3 r3]; [exact Hbad|]. pose proof (byte_of_range c3) as R3.
  destruct (is_cont (byte_of c3)) eqn:E3; cbn [negb]; [|exact Hbad].
  unfold is_cont in E3.
  cbn [fst snd stake all_high slen String.length]. repeat split; try lia.
Qed.

Lemma sdrop_next k inp c s : sdrop k inp = String c s -> sdrop (S k) inp = s.
Proof.
  revert inp; induction k as [|k IH]; intros [|d inp]; simpl; try discriminate.
  - intros H; injection H as _ ->; reflexivity.
  - intros H. destruct inp; [destruct k; discriminate H|]. apply IH in H. exact H.
Qed.

Lemma sdrop_plus k w inp s : sdrop k inp = s -> sdrop (k + w) inp = sdrop w s.
Proof. intros <-. rewrite sdrop_sdrop. reflexivity. Qed.

Lemma sdrop_nonempty_lt k inp : sdrop k inp <> EmptyString -> (k < slen inp)%nat.
Proof.
  intros H. destruct (Nat.lt_ge_cases k (slen inp)) as [L|L]; [exact L|].
  rewrite sdrop_all in H by exact L. congruence.
Qed.

(* nextRune on an error-free state, as a function of the remaining input *)
Lemma nextRune_mkL inp st cur wd : 0 <= cur ->
  nextRune (mkL inp st cur wd) =
  match sdrop (Z.to_nat cur) inp with
  | EmptyString => ROk (eof, mkL inp st cur 0)
  | s => ROk (fst (decode_rune s),
              mkL inp st (cur + Z.of_nat (snd (decode_rune s))) (Z.of_nat (snd (decode_rune s))))
  end.
Proof.
  intros Hc. unfold nextRune, llength. cbn [err mkL is_some orb input current].
  destruct (Z.of_nat (slen inp) <=? cur) eqn:E.
  - rewrite sdrop_all by lia. reflexivity.
  - replace (cur <? 0) with false by lia.
    destruct (sdrop (Z.to_nat cur) inp) as [|c s] eqn:Es.
    + exfalso. apply (f_equal slen) in Es. rewrite slen_sdrop in Es. simpl in Es. lia.
    + destruct (decode_rune (String c s)) as [r w]. reflexivity.
Qed.

(* accept: the two outcomes *)
Lemma accept_mkL P inp st cur wd : 0 <= cur -> P eof = false ->
  accept P (mkL inp st cur wd) =
  let s := sdrop (Z.to_nat cur) inp in
  let w := Z.of_nat (snd (decode_rune s)) in
  if (match s with EmptyString => false | _ => P (fst (decode_rune s)) end)
  then ROk (true, mkL inp st (cur + w) w)
  else ROk (false, mkL inp st cur w).
Proof.
  intros Hc HP. unfold accept, sbind. rewrite nextRune_mkL by exact Hc. cbv zeta.
  destruct (sdrop (Z.to_nat cur) inp) as [|c s] eqn:Es.
  - rewrite HP. unfold backup, sret, set_current. cbn [mkL current width input start err].
    f_equal. f_equal. apply mkL_eq; try reflexivity; lia.
  - destruct (P (fst (decode_rune (String c s)))) eqn:EP.
    + reflexivity.
    + unfold backup, sret, set_current. cbn [mkL current width input start err]. f_equal. f_equal.
      apply mkL_eq; try reflexivity; lia.
Qed.

(* ---- 2.1 whitespace ---- *)

Definition is_ws_byte (c : ascii) : bool := isWhitespace (byte_of c).
(* number of leading whitespace bytes (space, tab, LF, CR, VT) *)
Fixpoint ws_len (s : string) : nat :=
  match s with
  | String c r => if is_ws_byte c then S (ws_len r) else O
  | EmptyString => O
  end.
Fixpoint all_ws (s : string) : bool :=
  match s with String c r => is_ws_byte c && all_ws r | EmptyString => true end.

Lemma isWhitespace_lt r : isWhitespace r = true -> 0 <= r < 128.
Proof. unfold isWhitespace. change (ch " ") with 32. lia. Qed.

(* the first rune is whitespace iff the first byte is *)
Lemma first_rune_ws c s : isWhitespace (fst (decode_rune (String c s))) = is_ws_byte c.
Proof.
  unfold is_ws_byte. destruct (Z.ltb_spec (byte_of c) 128) as [L|L].
  - rewrite decode_rune_ascii by exact L. reflexivity.
  - destruct (decode_rune_high c s L) as (Hr & _).
    destruct (isWhitespace (fst _)) eqn:E1; [apply isWhitespace_lt in E1; lia|].
    destruct (isWhitespace (byte_of c)) eqn:E2; [apply isWhitespace_lt in E2; lia|reflexivity].
Qed.

Lemma ws_byte_ascii c : is_ws_byte c = true -> byte_of c < 128.
Proof. intros H. apply isWhitespace_lt in H. lia. Qed.

(* acceptAll(isWhitespace): closed form *)
Lemma acceptAll_ws : forall fuel inp st cur wd b, 0 <= cur ->
  (ws_len (sdrop (Z.to_nat cur) inp) < fuel)%nat ->
  let n := ws_len (sdrop (Z.to_nat cur) inp) in
  exists b',
  acceptAllLoop fuel isWhitespace b (mkL inp st cur wd) =
  ROk (b', mkL inp st (cur + Z.of_nat n)
             (Z.of_nat (snd (decode_rune (sdrop (Z.to_nat (cur + Z.of_nat n)) inp))))).
Proof.
  induction fuel as [|f IH]; intros inp st cur wd b Hc Hf n; [lia|].
  cbn [acceptAllLoop]. unfold sbind. rewrite accept_mkL by (auto; reflexivity). cbv zeta.
  subst n. destruct (sdrop (Z.to_nat cur) inp) as [|c s] eqn:Es.
  - cbn [ws_len]. exists b. unfold sret. f_equal. f_equal.
    replace (cur + Z.of_nat 0) with cur by lia. rewrite Es. reflexivity.
  - rewrite first_rune_ws. cbn [ws_len] in *. destruct (is_ws_byte c) eqn:Ew.
    + rewrite decode_rune_ascii by (apply ws_byte_ascii; exact Ew). cbn [snd].
      assert (Es' : sdrop (Z.to_nat (cur + Z.of_nat 1)) inp = s).
      { replace (Z.to_nat (cur + Z.of_nat 1)) with (S (Z.to_nat cur)) by lia.
        eapply sdrop_next; eauto. }
      destruct (IH inp st (cur + Z.of_nat 1) (Z.of_nat 1) true) as (b' & Hb'); [lia|rewrite Es'; lia|].
      rewrite Es' in Hb'. exists b'. rewrite Hb'. f_equal. f_equal.
      replace (cur + Z.of_nat 1 + Z.of_nat (ws_len s)) with (cur + Z.of_nat (S (ws_len s))) by lia.
      reflexivity.
    + exists b. unfold sret. f_equal. f_equal.
      replace (cur + Z.of_nat 0) with cur by lia. rewrite Es. reflexivity.
Qed.

Lemma skipWhitespace_mkL fuel inp st cur wd : 0 <= cur ->
  (ws_len (sdrop (Z.to_nat cur) inp) < fuel)%nat ->
  let c' := cur + Z.of_nat (ws_len (sdrop (Z.to_nat cur) inp)) in
  skipWhitespace fuel (mkL inp st cur wd) =
  ROk (tt, mkL inp c' c' (Z.of_nat (snd (decode_rune (sdrop (Z.to_nat c') inp))))).
Proof.
  intros Hc Hf c'. unfold skipWhitespace, acceptAll, sbind.
  destruct (acceptAll_ws fuel inp st cur wd false Hc Hf) as (b' & Hb'). rewrite Hb'.
  reflexivity.
Qed.

Lemma ws_len_app ws rest : all_ws ws = true -> ws_len (ws ++ rest) = (slen ws + ws_len rest)%nat.
Proof.
  induction ws as [|c ws IH]; simpl; intros H; [reflexivity|].
  apply andb_true_iff in H as [H1 H2]. rewrite H1, IH by exact H2. reflexivity.
Qed.

(* C04_ws: [next] skips optional whitespace.  From a state whose remaining input is
   [ws ++ rest], [ws] made of the five whitespace characters, [next] returns exactly what it
   returns from ANY state of the same input positioned after [ws] (whatever that state's token
   start and last rune width): the same token (type, value, position) and the same lexer
   state.  Whitespace in front of a token is therefore invisible to the parser. *)
Theorem C04_ws fuel allowRegex l l2 ws rest :
  err l = None -> err l2 = None -> input l2 = input l -> 0 <= current l <= llength l ->
  sdrop (Z.to_nat (current l)) (input l) = ws ++ rest -> all_ws ws = true ->
  current l2 = current l + Z.of_nat (slen ws) ->
  llength l - current l < Z.of_nat fuel ->
  next fuel allowRegex l = next fuel allowRegex l2.
Proof.
  intros He He2 Hi [Hc Hcl] Hrem Hws Hc2 Hf. unfold llength in Hcl.
  rewrite (mkL_eta l He), (mkL_eta l2 He2). rewrite Hi, Hc2.
  set (inp := input l) in *. set (cur := current l) in *.
  assert (Hrem2 : sdrop (Z.to_nat (cur + Z.of_nat (slen ws))) inp = rest).
  { replace (Z.to_nat (cur + Z.of_nat (slen ws))) with (Z.to_nat cur + slen ws)%nat by lia.
    rewrite (sdrop_plus _ _ _ _ Hrem). apply sdrop_app_exact. }
  assert (Hlen : (slen (ws ++ rest) <= slen inp - Z.to_nat cur)%nat).
  { rewrite <- Hrem, slen_sdrop. lia. }
  rewrite slen_app in Hlen.
  assert (Hwl : (ws_len rest <= slen rest)%nat).
  { clear. induction rest as [|c r IH]; simpl; [lia|]. destruct (is_ws_byte c); lia. }
  unfold next, sbind.
  rewrite !skipWhitespace_mkL; try lia.
  - rewrite Hrem, Hrem2, ws_len_app by exact Hws.
    replace (cur + Z.of_nat (slen ws + ws_len rest)) with (cur + Z.of_nat (slen ws) + Z.of_nat (ws_len rest)) by lia.
    reflexivity.
  - rewrite Hrem2. unfold llength in Hf. fold inp in Hf. lia.
  - rewrite Hrem, ws_len_app by exact Hws. unfold llength in Hf. fold inp in Hf. lia.
Qed.

(* ---- 2.2 string tokens ---- *)

(* [body_ok q s]: the bytes [s] between two quotes [q] form a complete string body: no
   unescaped [q], and no backslash at the very end (a backslash escapes the rune after it) *)
Fixpoint body_ok (q : Z) (s : string) : bool :=
  match s with
  | EmptyString => true
  | String c r =>
      if byte_of c =? q then false
      else if byte_of c =? 92 then
        match r with EmptyString => false | String _ r2 => body_ok q r2 end
      else body_ok q r
  end.

(* neither quote character nor backslash *)
Fixpoint plain_body (s : string) : bool :=
  match s with
  | EmptyString => true
  | String c r => negb (byte_of c =? 34) && negb (byte_of c =? 39) && negb (byte_of c =? 92)
                  && plain_body r
  end.

Lemma plain_body_ok s : plain_body s = true -> body_ok 34 s = true /\ body_ok 39 s = true.
Proof.
  induction s as [|c r IH]; [auto|]. cbn [plain_body body_ok]. intros H.
  apply andb_true_iff in H as [H H4]. apply andb_true_iff in H as [H H3].
  apply andb_true_iff in H as [H1 H2].
  destruct (byte_of c =? 34); [discriminate|]. destruct (byte_of c =? 39); [discriminate|].
  destruct (byte_of c =? 92); [discriminate|]. auto.
Qed.

Lemma body_ok_skip q : 0 <= q < 128 -> forall w a, all_high (stake w a) = true ->
  body_ok q a = body_ok q (sdrop w a).
Proof.
  intros Hq. induction w as [|w IH]; intros [|c a]; cbn [stake sdrop all_high]; try reflexivity.
  intros H. apply andb_true_iff in H as [H1 H2]. cbn [body_ok].
  replace (byte_of c =? q) with false by lia. replace (byte_of c =? 92) with false by lia.
  apply IH; exact H2.
Qed.

Lemma all_high_within w a c rest : byte_of c < 128 ->
  all_high (stake w (a ++ String c rest)) = true -> (w <= slen a)%nat.
Proof.
  intros Hc. revert a; induction w as [|w IH]; intros a H; [lia|].
  destruct a as [|d a]; cbn [append stake all_high slen String.length] in *.
  - apply andb_true_iff in H as [H _]. lia.
  - apply andb_true_iff in H as [_ H]. apply IH in H. unfold slen in *. lia.
Qed.

Lemma sdrop_app_le w a b : (w <= slen a)%nat -> sdrop w (a ++ b) = sdrop w a ++ b.
Proof.
  revert a; induction w as [|w IH]; intros [|c a]; simpl; intros H; try reflexivity; try lia.
  apply IH; lia.
Qed.
Lemma stake_app_le w a b : (w <= slen a)%nat -> stake w (a ++ b) = stake w a.
Proof.
  revert a; induction w as [|w IH]; intros [|c a]; simpl; intros H; try reflexivity; try lia.
  rewrite IH by lia. reflexivity.
Qed.

(* one rune of a non-empty body that is followed by an ASCII byte: the rune ends inside the
   body; it is the first byte itself if that is ASCII, and >= 128 (made of bytes >= 128) if not *)
Lemma decode_in_body c a qc rest : byte_of qc < 128 ->
  let s := String c a ++ String qc rest in
  let w := snd (decode_rune s) in
  (1 <= w <= slen (String c a))%nat /\
  ((byte_of c < 128 /\ fst (decode_rune s) = byte_of c /\ w = 1%nat) \/
   (128 <= byte_of c /\ 128 <= fst (decode_rune s) /\ all_high (stake w (String c a)) = true)).
Proof.
  intros Hq s w. subst s w. cbn [append].
  destruct (Z.ltb_spec (byte_of c) 128) as [L|L].
  - rewrite decode_rune_ascii by exact L. cbn [fst snd slen String.length]. split; [lia|left; auto].
  - destruct (decode_rune_high c (a ++ String qc rest) L) as (Hr & Hw & Hh).
    assert (Hin : (snd (decode_rune (String c (a ++ String qc rest))) <= slen (String c a))%nat).
    { apply (all_high_within _ (String c a) qc rest Hq). exact Hh. }
    split; [lia|right]. split; [exact L|split; [exact Hr|]].
    change (String c (a ++ String qc rest)) with (String c a ++ String qc rest) in Hh.
    rewrite stake_app_le in Hh by exact Hin. exact Hh.
Qed.

Lemma byte_of_ascii_q q : 0 <= q < 128 -> byte_of (ascii_of_Z q) = q.
Proof. intros H. apply byte_of_ascii_of_Z. lia. Qed.

Ltac lex_eq := unfold set_start, set_current, set_width, mkL; cbn [input start current width err]; f_equal; lia.
Ltac slia := unfold slen in *; cbn [String.length] in *; lia.

(* the loop of scanString runs over a complete body up to and including the closing quote *)
Lemma scanStringLoop_body q : 0 <= q < 128 -> q <> 92 ->
  forall n body, (slen body <= n)%nat -> body_ok q body = true ->
  forall fuel inp st cur wd rest, 0 <= cur ->
    sdrop (Z.to_nat cur) inp = body ++ String (ascii_of_Z q) rest ->
    (slen body < fuel)%nat ->
    scanStringLoop fuel q (mkL inp st cur wd) =
    ROk (None, mkL inp st (cur + Z.of_nat (slen body) + 1) 1).
Proof.
  intros Hq Hq92. set (qc := ascii_of_Z q). assert (Hqc : byte_of qc = q) by (apply byte_of_ascii_q; exact Hq).
  induction n as [|n IH]; intros body Hn Hok fuel inp st cur wd rest Hc Hrem Hf.
  { destruct body; [|simpl in Hn; lia]. destruct fuel as [|f]; [lia|].
    cbn [scanStringLoop]. unfold sbind. rewrite nextRune_mkL by exact Hc. rewrite Hrem. cbn [append].
    rewrite decode_rune_ascii by lia. cbn [fst snd]. rewrite Hqc, Z.eqb_refl. unfold sret.
    f_equal. f_equal. apply mkL_eq; simpl; lia. }
  destruct body as [|c a].
  { apply (IH EmptyString) with (rest := rest); auto. simpl; lia. }
  destruct fuel as [|f]; [lia|].
  cbn [scanStringLoop]. change (ch "\") with 92. unfold sbind at 1. rewrite nextRune_mkL by exact Hc. rewrite Hrem.
  change (String c a ++ String qc rest) with (String c (a ++ String qc rest)). cbv beta iota zeta.
  destruct (decode_in_body c a qc rest ltac:(lia)) as (Hw & Hcase).
  change (String c a ++ String qc rest) with (String c (a ++ String qc rest)) in *.
  set (r := fst (decode_rune (String c (a ++ String qc rest)))) in *.
  set (w := snd (decode_rune (String c (a ++ String qc rest)))) in *.
  cbn [body_ok] in Hok.
  destruct (byte_of c =? q) eqn:Ecq; [discriminate|].
  (* remaining input after this rune *)
  assert (Hrem' : sdrop (Z.to_nat (cur + Z.of_nat w)) inp = sdrop w (String c a) ++ String qc rest).
  { replace (Z.to_nat (cur + Z.of_nat w)) with (Z.to_nat cur + w)%nat by lia.
    rewrite (sdrop_plus _ _ _ _ Hrem).
    change (String c (a ++ String qc rest)) with (String c a ++ String qc rest).
    apply sdrop_app_le. lia. }
  assert (Hlen' : (slen (sdrop w (String c a)) = slen (String c a) - w)%nat) by apply slen_sdrop.
  destruct (byte_of c =? 92) eqn:Ebs.
  - (* backslash: the next rune, whatever it is, is skipped *)
    destruct Hcase as [(Hlo & Hr & Hw1)|(Hhi & _)]; [|lia].
    rewrite Hr. rewrite Ecq, Ebs. rewrite Hw1 in *.
    destruct a as [|c2 a2]; [discriminate|].
    cbn [sdrop] in Hrem', Hlen'.
    unfold sbind at 1. rewrite nextRune_mkL by lia. rewrite Hrem'.
    change (String c2 a2 ++ String qc rest) with (String c2 (a2 ++ String qc rest)). cbv beta iota zeta.
    destruct (decode_in_body c2 a2 qc rest ltac:(lia)) as (Hw2 & Hcase2).
    change (String c2 a2 ++ String qc rest) with (String c2 (a2 ++ String qc rest)) in *.
    set (r2 := fst (decode_rune (String c2 (a2 ++ String qc rest)))) in *.
    set (w2 := snd (decode_rune (String c2 (a2 ++ String qc rest)))) in *.
    assert (Hr2 : (r2 =? eof) = false).
    { destruct Hcase2 as [(_ & -> & _)|(_ & H & _)]; [pose proof (byte_of_range c2)|]; unfold eof; lia. }
    rewrite Hr2. cbn [negb].
    assert (Hok2 : body_ok q (sdrop w2 (String c2 a2)) = true).
    { destruct Hcase2 as [(_ & _ & ->)|(_ & _ & Hh)]; [exact Hok|].
      destruct w2 as [|w2']; [lia|]. cbn [sdrop stake all_high] in *.
      apply andb_true_iff in Hh as [_ Hh]. rewrite <- (body_ok_skip q Hq w2' a2 Hh). exact Hok. }
    rewrite (IH (sdrop w2 (String c2 a2))) with (rest := rest); auto.
    + f_equal. f_equal. apply mkL_eq; auto. rewrite slen_sdrop. slia.
    + rewrite slen_sdrop. slia.
    + lia.
    + replace (Z.to_nat (cur + Z.of_nat 1 + Z.of_nat w2)) with (Z.to_nat (cur + Z.of_nat 1) + w2)%nat by lia.
      rewrite (sdrop_plus _ _ _ _ Hrem').
      change (String c2 (a2 ++ String qc rest)) with (String c2 a2 ++ String qc rest).
      apply sdrop_app_le. lia.
    + rewrite slen_sdrop. slia.
  - (* ordinary rune *)
    assert (Hrq : (r =? q) = false /\ (r =? 92) = false /\ (r =? eof) = false).
    { destruct Hcase as [(_ & -> & _)|(_ & H & _)]; [pose proof (byte_of_range c)|]; unfold eof; lia. }
    destruct Hrq as (E1 & E2 & E3). rewrite E1, E2, E3.
    assert (Hok' : body_ok q (sdrop w (String c a)) = true).
    { destruct Hcase as [(_ & _ & ->)|(_ & _ & Hh)]; [exact Hok|].
      rewrite <- (body_ok_skip q Hq w (String c a) Hh). cbn [body_ok]. rewrite Ecq, Ebs. exact Hok. }
    rewrite (IH (sdrop w (String c a))) with (rest := rest); auto.
    + f_equal. f_equal. apply mkL_eq; auto. rewrite Hlen'. slia.
    + rewrite Hlen'. slia.
    + lia.
    + rewrite Hlen'. slia.
Qed.

Lemma set_mkL a b c i s cu w : set_start a (set_width b (set_current c (mkL i s cu w))) = mkL i a c b.
Proof. reflexivity. Qed.

(* scanString from the state just after the opening quote (token start = current position) *)
Lemma scanString_body q : 0 <= q < 128 -> q <> 92 ->
  forall body fuel inp cur wd rest, body_ok q body = true -> 0 <= cur ->
    sdrop (Z.to_nat cur) inp = body ++ String (ascii_of_Z q) rest ->
    (slen body < fuel)%nat ->
    scanString fuel q (mkL inp cur cur wd) =
    ROk ({| ttype := typeString; tvalue := body; tpos := cur |},
         mkL inp (cur + Z.of_nat (slen body) + 1) (cur + Z.of_nat (slen body) + 1) 1).
Proof.
  intros Hq Hq92 body fuel inp cur wd rest Hok Hc Hrem Hf.
  assert (Hlen : (slen body + 1 <= slen inp - Z.to_nat cur)%nat).
  { rewrite <- slen_sdrop, Hrem, slen_app. simpl. lia. }
  unfold scanString. unfold sbind at 1.
  rewrite (scanStringLoop_body q Hq Hq92 (slen body) body (le_n _) Hok fuel inp cur cur wd rest Hc Hrem Hf).
  unfold sbind at 1. unfold backup. cbn [mkL current width set_current input start err].
  unfold sbind at 1. unfold newToken, llength.
  cbn [mkL current width set_current input start err].
  replace ((0 <=? cur) && (cur <=? cur + Z.of_nat (slen body) + 1 - 1)
           && (cur + Z.of_nat (slen body) + 1 - 1 <=? Z.of_nat (slen inp))) with true by lia.
  assert (Hval : sslice (Z.to_nat cur) (Z.to_nat (cur + Z.of_nat (slen body) + 1 - 1)) inp = body).
  { unfold sslice. replace (Z.to_nat (cur + Z.of_nat (slen body) + 1 - 1) - Z.to_nat cur)%nat with (slen body) by lia.
    rewrite Hrem. apply stake_app_exact. }
  rewrite Hval.
  unfold sbind at 1. unfold acceptRune.
  rewrite set_mkL.
  rewrite accept_mkL by (try lia; unfold eof; lia). cbv zeta.
  assert (Hrem2 : sdrop (Z.to_nat (cur + Z.of_nat (slen body) + 1 - 1)) inp = String (ascii_of_Z q) rest).
  { replace (Z.to_nat (cur + Z.of_nat (slen body) + 1 - 1)) with (Z.to_nat cur + slen body)%nat by lia.
    rewrite (sdrop_plus _ _ _ _ Hrem). apply sdrop_app_exact. }
  rewrite Hrem2. rewrite decode_rune_ascii by (rewrite byte_of_ascii_q; lia).
  cbn [fst snd]. rewrite byte_of_ascii_q by exact Hq. rewrite Z.eqb_refl.
  unfold sbind, ignore, sret. cbn [mkL current width input start err set_start].
  f_equal. f_equal. lex_eq.
Qed.

Lemma ws_len_quote q rest : 0 <= q < 128 -> isWhitespace q = false ->
  ws_len (String (ascii_of_Z q) rest) = 0%nat.
Proof. intros Hq Hw. cbn [ws_len]. unfold is_ws_byte. rewrite byte_of_ascii_q by exact Hq. rewrite Hw. reflexivity. Qed.

(* scan_string_spec: from any error-free state whose remaining input is
   quote ++ body ++ quote ++ rest (quote = 34 double or 39 single; body complete: no unescaped quote of the same
   kind, no dangling backslash), [next] returns the string token whose value is the body,
   verbatim, positioned after the opening quote, and leaves the lexer after the closing quote *)
Theorem scan_string_spec q body fuel allowRegex inp st cur wd rest :
  q = 34 \/ q = 39 -> body_ok q body = true -> 0 <= cur ->
  sdrop (Z.to_nat cur) inp = String (ascii_of_Z q) (body ++ String (ascii_of_Z q) rest) ->
  (slen body < fuel)%nat ->
  next fuel allowRegex (mkL inp st cur wd) =
  ROk ({| ttype := typeString; tvalue := body; tpos := cur + 1 |},
       mkL inp (cur + 1 + Z.of_nat (slen body) + 1) (cur + 1 + Z.of_nat (slen body) + 1) 1).
Proof.
  intros Hq Hok Hc Hrem Hf.
  assert (Hq' : 0 <= q < 128 /\ q <> 92 /\ isWhitespace q = false) by (destruct Hq; subst q; repeat split; lia).
  destruct Hq' as (Hq1 & Hq2 & Hq3).
  unfold next. unfold sbind at 1.
  rewrite skipWhitespace_mkL; [|exact Hc|rewrite Hrem, ws_len_quote by auto; lia].
  rewrite Hrem, ws_len_quote by auto.
  replace (cur + Z.of_nat 0) with cur by lia. rewrite Hrem.
  unfold sbind at 1. rewrite nextRune_mkL by exact Hc. rewrite Hrem. cbv beta iota zeta.
  rewrite decode_rune_ascii by (rewrite byte_of_ascii_q; lia). cbn [fst snd].
  rewrite byte_of_ascii_q by exact Hq1.
  assert (Hrem1 : sdrop (Z.to_nat (cur + Z.of_nat 1)) inp = body ++ String (ascii_of_Z q) rest).
  { replace (Z.to_nat (cur + Z.of_nat 1)) with (S (Z.to_nat cur)) by lia. eapply sdrop_next; eauto. }
  destruct Hq; subst q; cbn -[scanString Z.add Z.of_nat mkL sdrop ascii_of_Z];
    rewrite andb_false_r.
  - change (scanString fuel 34 (mkL inp (cur + Z.of_nat 1) (cur + Z.of_nat 1) (Z.of_nat 1)) = 
            ROk ({| ttype := typeString; tvalue := body; tpos := cur + 1 |},
                 mkL inp (cur + 1 + Z.of_nat (slen body) + 1) (cur + 1 + Z.of_nat (slen body) + 1) 1)).
    rewrite (scanString_body 34 ltac:(lia) ltac:(lia) body fuel inp (cur + Z.of_nat 1) (Z.of_nat 1) rest Hok ltac:(lia) Hrem1 Hf).
    f_equal; f_equal; first [f_equal; lia|apply mkL_eq; lia].
  - change (scanString fuel 39 (mkL inp (cur + Z.of_nat 1) (cur + Z.of_nat 1) (Z.of_nat 1)) = 
            ROk ({| ttype := typeString; tvalue := body; tpos := cur + 1 |},
                 mkL inp (cur + 1 + Z.of_nat (slen body) + 1) (cur + 1 + Z.of_nat (slen body) + 1) 1)).
    rewrite (scanString_body 39 ltac:(lia) ltac:(lia) body fuel inp (cur + Z.of_nat 1) (Z.of_nat 1) rest Hok ltac:(lia) Hrem1 Hf).
    f_equal; f_equal; first [f_equal; lia|apply mkL_eq; lia].
Qed.

(* ... in particular the parser's [advance] cannot tell whether whitespace precedes the next
   token: the parser states before and after the whitespace step to the same state *)
Corollary C04_ws_advance allowRegex (p p2 : parser) ws rest :
  err (plexer p) = None -> err (plexer p2) = None -> input (plexer p2) = input (plexer p) ->
  0 <= current (plexer p) <= llength (plexer p) ->
  sdrop (Z.to_nat (current (plexer p))) (input (plexer p)) = ws ++ rest -> all_ws ws = true ->
  current (plexer p2) = current (plexer p) + Z.of_nat (slen ws) ->
  advance allowRegex p = advance allowRegex p2.
Proof.
  intros He He2 Hi Hc Hrem Hws Hc2. unfold advance.
  assert (Hfu : lex_fuel (plexer p2) = lex_fuel (plexer p)) by (unfold lex_fuel; rewrite Hi; reflexivity).
  rewrite Hfu.
  rewrite (C04_ws (lex_fuel (plexer p)) allowRegex (plexer p) (plexer p2) ws rest); auto.
  unfold lex_fuel, llength in *. lia.
Qed.

(* C04_quotes: which quote character delimits a string does not matter.  For a body with neither
   quote character nor backslash, the double-quoted and the single-quoted spelling lex to string
   tokens with the same type and the same value (the body itself). *)
Theorem C04_quotes s fuel b1 b2 inp1 st1 cur1 wd1 rest1 inp2 st2 cur2 wd2 rest2 :
  plain_body s = true -> 0 <= cur1 -> 0 <= cur2 -> (slen s < fuel)%nat ->
  sdrop (Z.to_nat cur1) inp1 = String (ascii_of_Z 34) (s ++ String (ascii_of_Z 34) rest1) ->
  sdrop (Z.to_nat cur2) inp2 = String (ascii_of_Z 39) (s ++ String (ascii_of_Z 39) rest2) ->
  exists t1 l1 t2 l2,
    next fuel b1 (mkL inp1 st1 cur1 wd1) = ROk (t1, l1) /\
    next fuel b2 (mkL inp2 st2 cur2 wd2) = ROk (t2, l2) /\
    ttype t1 = typeString /\ ttype t2 = typeString /\ tvalue t1 = s /\ tvalue t2 = s /\
    sdrop (Z.to_nat (current l1)) inp1 = rest1 /\ sdrop (Z.to_nat (current l2)) inp2 = rest2.
Proof.
  intros Hp Hc1 Hc2 Hf H1 H2. destruct (plain_body_ok s Hp) as [Hd Hs].
  do 4 eexists.
  split; [apply (scan_string_spec 34 s fuel b1 inp1 st1 cur1 wd1 rest1); auto|].
  split; [apply (scan_string_spec 39 s fuel b2 inp2 st2 cur2 wd2 rest2); auto|].
  cbn [ttype tvalue mkL current]. repeat split.
  - replace (Z.to_nat (cur1 + 1 + Z.of_nat (slen s) + 1)) with (Z.to_nat cur1 + (1 + slen s + 1))%nat by lia.
    rewrite (sdrop_plus _ _ _ _ H1). cbn [sdrop Nat.add].
    replace (slen s + 1)%nat with (slen (s ++ String (ascii_of_Z 34) EmptyString)) by (rewrite slen_app; reflexivity).
    change (String (ascii_of_Z 34) rest1) with (String (ascii_of_Z 34) EmptyString ++ rest1).
    rewrite <- sapp_assoc. apply sdrop_app_exact.
  - replace (Z.to_nat (cur2 + 1 + Z.of_nat (slen s) + 1)) with (Z.to_nat cur2 + (1 + slen s + 1))%nat by lia.
    rewrite (sdrop_plus _ _ _ _ H2). cbn [sdrop Nat.add].
    replace (slen s + 1)%nat with (slen (s ++ String (ascii_of_Z 39) EmptyString)) by (rewrite slen_app; reflexivity).
    change (String (ascii_of_Z 39) rest2) with (String (ascii_of_Z 39) EmptyString ++ rest2).
    rewrite <- sapp_assoc. apply sdrop_app_exact.
Qed.

Example C04_quotes_ex :
  let s := "a b/c"%string in
  plain_body s = true /\
  (exists l, next 20 true (newLexer """a b/c"" & x") = ROk ({| ttype := typeString; tvalue := s; tpos := 1 |}, l)) /\
  (exists l, next 20 true (newLexer "'a b/c' & x") = ROk ({| ttype := typeString; tvalue := s; tpos := 1 |}, l)).
Proof. vm_compute. repeat split; eexists; reflexivity. Qed.

Example C04_ws_ex :
  next 20 true (newLexer "  	x") =
  next 20 true {| input := "  	x"; start := 1; current := 3; width := 7; err := None |}.
Proof. vm_compute. reflexivity. Qed.

(* ---- 2.3 regular expression or division ---- *)

Lemma linv_mkL inp st cur wd : 0 <= st <= cur -> cur <= Z.of_nat (slen inp) -> linv (mkL inp st cur wd).
Proof. unfold linv, llength. simpl. lia. Qed.

(* scanRegex always returns a regex token or an error token *)
Lemma scanRegex_type fuel q l : linv l -> llength l - current l < Z.of_nat fuel -> q <> eof ->
  match scanRegex fuel q l with
  | ROk (t, _) => ttype t = typeRegex \/ ttype t = typeError
  | _ => False
  end.
Proof.
  intros Hl Hf Hq.
  assert (H : lspec false (scanRegex fuel q l) (fun t _ => ttype t = typeRegex \/ ttype t = typeError)).
  { unfold scanRegex.
    eapply lspec_bind; [apply scanRegexLoop_spec; [exact Hq|exact Hl|right; exact Hf]|].
    intros [t|] l1 Hp; cbv beta iota.
    - apply lspec_ret. right. apply Hp.
    - destruct Hp as (E & Hw & Hc).
      apply (tail_spec false typeRegex q l l1
               (fun t => do hasFlags <- acceptAll fuel isRegexFlag;
                         if hasFlags then
                           do flags <- newToken typeEOF;
                           sret (set_tvalue ("(?" ++ tvalue flags ++ ")" ++ tvalue t) t)
                         else sret t)); auto.
      intros t l' Hty Hpos Hl' Hi He Hs Hcc.
      assert (HL' : llength l' = llength l) by (unfold llength; now rewrite Hi).
      eapply lspec_bind.
      { apply acceptAllLoop_spec; [reflexivity|exact Hl'|]. right. lia. }
      intros b l2 (E2 & _). cbv beta.
      pose proof (ext_linv _ _ Hl' E2) as Hl2.
      destruct b.
      + eapply lspec_bind; [apply newToken_spec; exact Hl2|].
        intros fl l3 _. cbv beta. apply lspec_ret. left. exact Hty.
      + apply lspec_ret. left. exact Hty. }
  unfold lspec in H. destruct (scanRegex fuel q l) as [[t l']| | |]; auto. discriminate H.
Qed.

(* C04_regex_div, lexer side: the same character [/] is the division token when the parser asks
   with allowRegex = false, and the start of a regular-expression token (scanned by scanRegex
   from the character after it) when it asks with allowRegex = true *)
Theorem C04_regex_div fuel inp st cur wd rest :
  0 <= cur -> sdrop (Z.to_nat cur) inp = String "/" rest -> (0 < fuel)%nat ->
  Z.of_nat (slen inp) - cur < Z.of_nat fuel ->
  next fuel false (mkL inp st cur wd) =
    ROk ({| ttype := typeDiv; tvalue := "/"; tpos := cur |}, mkL inp (cur + 1) (cur + 1) 0)
  /\ next fuel true (mkL inp st cur wd) = scanRegex fuel (ch "/") (mkL inp (cur + 1) (cur + 1) 1)
  /\ exists t l', next fuel true (mkL inp st cur wd) = ROk (t, l')
                  /\ (ttype t = typeRegex \/ ttype t = typeError).
Proof.
  intros Hc Hrem Hf0 Hf.
  assert (Hlt : (Z.to_nat cur < slen inp)%nat).
  { apply sdrop_nonempty_lt. rewrite Hrem. discriminate. }
  assert (Hskip : forall b, next fuel b (mkL inp st cur wd) =
            (if b && (47 =? 47) then ignore ;; scanRegex fuel 47
             else do two <- trySymbols2 (lookupSymbol2 47);
                  match two with
                  | Some t => sret t
                  | None => newToken typeDiv
                  end) (mkL inp cur (cur + 1) 1)).
  { intros b. unfold next. unfold sbind at 1.
    rewrite skipWhitespace_mkL; [|exact Hc|rewrite Hrem; cbn; lia].
    rewrite Hrem. cbn [ws_len]. change (is_ws_byte "/") with false. cbv iota.
    replace (cur + Z.of_nat 0) with cur by lia. rewrite Hrem.
    unfold sbind at 1. rewrite nextRune_mkL by exact Hc. rewrite Hrem. cbv beta iota zeta.
    rewrite decode_rune_ascii by (vm_compute; reflexivity). cbn [fst snd].
    change (byte_of "/") with 47. change (Z.of_nat 1) with 1. reflexivity. }
  assert (Hreg : next fuel true (mkL inp st cur wd) = scanRegex fuel (ch "/") (mkL inp (cur + 1) (cur + 1) 1)).
  { rewrite Hskip. reflexivity. }
  split; [|split; [exact Hreg|]].
  - rewrite Hskip. cbn [andb]. change (lookupSymbol2 47) with (@nil (rune * tokentype)).
    cbn [trySymbols2]. unfold sbind, sret, newToken, llength.
    cbn [mkL start current input width err].
    replace ((0 <=? cur) && (cur <=? cur + 1) && (cur + 1 <=? Z.of_nat (slen inp))) with true by lia.
    f_equal. f_equal.
    unfold sslice. replace (Z.to_nat (cur + 1) - Z.to_nat cur)%nat with 1%nat by lia.
    rewrite Hrem. reflexivity.
  - rewrite Hreg.
    pose proof (scanRegex_type fuel (ch "/") (mkL inp (cur + 1) (cur + 1) 1)) as H.
    destruct (scanRegex fuel (ch "/") (mkL inp (cur + 1) (cur + 1) 1)) as [[t l']| | |].
    + exists t, l'. split; [reflexivity|]. apply H; [apply linv_mkL; lia|unfold llength; simpl; lia|discriminate].
    + exfalso. apply H; [apply linv_mkL; lia|unfold llength; simpl; lia|discriminate].
    + exfalso. apply H; [apply linv_mkL; lia|unfold llength; simpl; lia|discriminate].
    + exfalso. apply H; [apply linv_mkL; lia|unfold llength; simpl; lia|discriminate].
Qed.

Example C04_regex_div_ex :
  (exists l, next 20 false (newLexer "/ab/i") = ROk ({| ttype := typeDiv; tvalue := "/"; tpos := 0 |}, l)) /\
  (exists l, next 20 true (newLexer "/ab/i") = ROk ({| ttype := typeRegex; tvalue := "(?i)ab"; tpos := 1 |}, l)).
Proof. vm_compute. split; eexists; reflexivity. Qed.

(* ---- 2.4 which flag the parser passes, keywords as names, parentheses, the leds ---- *)

Section ParserClauses.
Variable parse_number : string -> numlit.
Variable regex_check : string -> option string.
Variable fmt_g : f64 -> string.
Variable quote : string -> string.

Notation pExpr := (parseExpression parse_number regex_check fmt_g quote).
Notation lLoop := (ledLoop parse_number regex_check fmt_g quote).
Notation nudOf := (lookupNud parse_number regex_check).
Notation ledOf := (lookupLed fmt_g quote).

(* the Pratt loop, one unfolding: the token that follows the FIRST token of an operand is
   requested with allowRegex = false (after an operand [/] is division) ... *)
Lemma parseExpression_unfold f rbp :
  pExpr (S f) rbp =
  (do t <- curToken;
   if tt_eqb (ttype t) typeEOF then perr (mkError ErrUnexpectedEOF t "")
   else
     advance (opens_operand (ttype t)) ;;
     match nudOf f (pExpr f) (ttype t) with
     | None => perr (mkError ErrPrefix t "")
     | Some nud => do lhs <- nud t; lLoop f rbp lhs
     end).
Proof. reflexivity. Qed.

(* ... and the token that follows an infix/postfix operator with allowRegex = true (an operand
   is expected there, [/] starts a regular expression) *)
Lemma ledLoop_unfold f rbp lhs :
  lLoop (S f) rbp lhs =
  (do t <- curToken;
   if rbp <? lookupBp (ttype t) then
     advance true ;;
     match ledOf f (pExpr f) (ttype t) with
     | None => perr (mkError ErrInfix t "")
     | Some led => do lhs' <- led t lhs; lLoop f rbp lhs'
     end
   else sret lhs).
Proof. reflexivity. Qed.

(* the very first token of a program is an operand start *)
Lemma newParser_flag src :
  newParser src = match advance true {| plexer := newLexer src; ptoken := zeroToken |} with
                  | ROk (_, p) => ROk p | RErr e => RErr e | RPanic w => RPanic w | RFuel => RFuel
                  end.
Proof. reflexivity. Qed.

(* C04_regex_div, parser side, for the tokens consumed INSIDE nuds and leds.  The rule:
   allowRegex = false for the token that follows the END of an operand, allowRegex = true for the
   token that precedes the START of an operand.  Every call of consume / advance in the parser is
   listed in one of the three lemmas below, with its flag (the equations are the definitions).

   (1) C04_closer_flags — after the end of an operand, flag FALSE: the closing ] of an array, ) of
   a block, } of an object or group, ) of a call, the placeholder ? of a partial application,
   ] of a predicate, ) of ^( ), } of a function body, the closing | of a transform (the last
   four passed true before the repair "fix: / after a sort, a function body or a transform is
   read as the start of a regular expression": a^(b)/2 was rejected); also the ) that ends a
   parameter list (no operand follows: < or the body's brace does). *)
Lemma C04_closer_flags lf pe t lhs :
  parseArray lf pe t =
    (do ty <- curType;
     do items <- (if negb (tt_eqb ty typeBracketClose) then parseArrayLoop pe lf [] else sret []);
     consume typeBracketClose false ;; sret (NArray items))
  /\ parseBlock lf pe t =
    (do exprs <- parseBlockLoop pe lf []; consume typeParenClose false ;; sret (NBlock exprs))
  /\ parseObjectPairs lf pe =
    (do ty <- curType;
     do pairs <- (if negb (tt_eqb ty typeBraceClose) then parseObjectLoop pe lf [] else sret []);
     consume typeBraceClose false ;; sret pairs)
  /\ parsePredicate pe t lhs =
    (do ty <- curType;
     if tt_eqb ty typeBracketClose then consume typeBracketClose false ;; sret (NSingletonArray lhs)
     else do rhs <- pe 0; consume typeBracketClose false ;; sret (NPred lhs rhs))
  /\ parseSort lf pe t lhs =
    (consume typeParenOpen true ;; do terms <- parseSortLoop pe lf [];
     consume typeParenClose false ;; sret (NSort lhs terms))
  /\ parseObjectTransformation pe t =
    (do pattern <- pe 0;
     consume typePipe true ;;
     do updates <- pe 0;
     do ty <- curType;
     do deletes <- (if tt_eqb ty typeComma then consume typeComma true ;; do d <- pe 0; sret (Some d)
                    else sret None);
     consume typePipe false ;;
     sret (NTransform pattern updates deletes))
  /\ (forall sh, parseLambdaDefinition lf pe sh =
       (do paramNames <- extractParamNames lf pe;
        do sg <- extractSignature lf;
        let '(sig, isTyped) := sg in
        do params <- (if isTyped then
                        do params <- sfail (parseParams (S (slen sig)) sig);
                        if negb (Nat.eqb (List.length params) (List.length paramNames)) then
                          do t <- curToken; perr (mkError ErrParamCount t "")
                        else sret params
                      else sret []);
        consume typeBraceOpen true ;;
        do body <- pe 0;
        consume typeBraceClose false ;;
        if negb isTyped then sret (NLambda paramNames body sh)
        else sret (NTypedLambda paramNames body sh params)))
  /\ (forall f args isPartial, parseArgsLoop pe (S f) args isPartial =
       (do ty <- curType;
        do ap <- (if tt_eqb ty typePlaceholder then
                    consume typePlaceholder false ;; sret (NPlaceholder, true)
                  else do a <- pe 0; sret (a, isPartial));
        let '(arg, isPartial) := ap in
        let args := (args ++ [arg])%list in
        do ty <- curType;
        if negb (tt_eqb ty typeComma) then sret (args, isPartial)
        else consume typeComma true ;; parseArgsLoop pe f args isPartial))
  /\ parseFunctionCall lf pe t lhs =
       (let '(isLambda, shorthand) := isLambdaName lhs in
        if isLambda then parseLambdaDefinition lf pe shorthand
        else
          do ty <- curType;
          do ap <- (if negb (tt_eqb ty typeParenClose) then parseArgsLoop pe lf [] false else sret ([], false));
          let '(args, isPartial) := ap in
          consume typeParenClose false ;;
          if isPartial then sret (NPartial lhs args) else sret (NCall lhs args))
  /\ extractParamNames lf pe =
       (do currToken <- curToken;
        do names <- (if negb (tt_eqb (ttype currToken) typeParenClose)
                     then extractParamNamesLoop pe lf currToken [] else sret []);
        consume typeParenClose false ;;
        sret names).
Proof. repeat split; reflexivity. Qed.

(* (2) C04_separator_flags — before the start of an operand, flag TRUE: after the separators
   .. , : ; and the first | of a transform, after the ( of ^( ) and its direction marks < >,
   after the opening brace of a function body, after the : of a conditional (the opening
   brackets and the infix operators themselves are consumed by ledLoop's advance true,
   ledLoop_unfold; the first token of the program by newParser_flag) *)
Lemma C04_separator_flags pe f :
  (forall items, parseArrayLoop pe (S f) items =
     (do item <- pe 0;
      do ty <- curType;
      do item <- (if tt_eqb ty typeRange then
                    consume typeRange true ;; do rhs <- pe 0; sret (NRange item rhs)
                  else sret item);
      let items := (items ++ [item])%list in
      do ty <- curType;
      if negb (tt_eqb ty typeComma) then sret items
      else consume typeComma true ;; parseArrayLoop pe f items))
  /\ (forall pairs, parseObjectLoop pe (S f) pairs =
     (do key <- pe 0;
      consume typeColon true ;;
      do value <- pe 0;
      let pairs := (pairs ++ [(key, value)])%list in
      do ty <- curType;
      if negb (tt_eqb ty typeComma) then sret pairs
      else consume typeComma true ;; parseObjectLoop pe f pairs))
  /\ (forall exprs, parseBlockLoop pe (S f) exprs =
     (do ty <- curType;
      if tt_eqb ty typeParenClose then sret exprs
      else
        do e <- pe 0;
        let exprs := (exprs ++ [e])%list in
        do ty <- curType;
        if negb (tt_eqb ty typeSemicolon) then sret exprs
        else consume typeSemicolon true ;; parseBlockLoop pe f exprs))
  /\ (forall terms, parseSortLoop pe (S f) terms =
     (do ty <- curType;
      do dir <- (if tt_eqb ty typeLess then consume typeLess true ;; sret SortAscending
                 else if tt_eqb ty typeGreater then consume typeGreater true ;; sret SortDescending
                 else sret SortDefault);
      do e <- pe 0;
      let terms := (terms ++ [(dir, e)])%list in
      do ty <- curType;
      if negb (tt_eqb ty typeComma) then sret terms
      else consume typeComma true ;; parseSortLoop pe f terms))
  /\ (forall cur names, extractParamNamesLoop pe (S f) cur names =
     (do arg <- pe 0;
      match arg with
      | NVariable name =>
          if smem name names then perr (mkError ErrDuplicateParam cur "")
          else
            let names := (names ++ [name])%list in
            do ty <- curType;
            if negb (tt_eqb ty typeComma) then sret names
            else
              consume typeComma true ;;
              do currToken <- curToken;
              extractParamNamesLoop pe f currToken names
      | _ => perr (mkError ErrIllegalParam cur "")
      end)).
Proof. repeat split; reflexivity. Qed.

(* (3) C04_signature_flags — neither: the tokens of a lambda signature < ... > are not an
   expression; they are read with flag true and the closing > likewise (a brace follows) *)
Lemma C04_signature_flags lf f sig depth :
  extractSignature lf =
    (do ty <- curType;
     if negb (tt_eqb ty typeLess) then sret ("", false)
     else
       do sig <- extractSignatureLoop lf "" 1;
       consume typeGreater true ;;
       sret (sig, true))
  /\ extractSignatureLoop (S f) sig depth =
    (do ty <- curType;
     if tt_eqb ty typeBraceOpen || tt_eqb ty typeEOF then sret sig
     else
       advance true ;;
       do t <- curToken;
       if tt_eqb (ttype t) typeGreater then
         let depth := depth - 1 in
         if depth =? 0 then sret sig
         else extractSignatureLoop f (sig ++ tvalue t) depth
       else if tt_eqb (ttype t) typeLess then
         extractSignatureLoop f (sig ++ tvalue t) (depth + 1)
       else extractSignatureLoop f (sig ++ tvalue t) depth).
Proof. split; reflexivity. Qed.

(* parseExpression itself (parseExpression_unfold) requests the token after the FIRST token of an
   operand with allowRegex = opens_operand: true when that first token only OPENS the operand —
   ( [ { of a block, array, object, the unary minus, the opening | of a transform — where another
   operand is expected, false after a complete operand (C04_opener_flags).  (Before the repair
   cc3904c the flag was always false and (/ab/), [/ab/], -/ab/ were rejected with ErrPrefix.) *)
Theorem C04_opener_flags ty :
  opens_operand ty = true <->
  (ty = typeParenOpen \/ ty = typeBracketOpen \/ ty = typeBraceOpen \/ ty = typeMinus \/ ty = typePipe).
Proof.
  split.
  - destruct ty; cbn; intros H; try discriminate H; tauto.
  - intros [->|[->|[->|[->| ->]]]]; reflexivity.
Qed.


(* C04_kw_names: where an operand is expected, the words and, or, in are field names *)
Theorem C04_kw_names lf pe t :
  nudOf lf pe typeAnd = Some parseName /\ nudOf lf pe typeOr = Some parseName /\
  nudOf lf pe typeIn = Some parseName /\ parseName t = sret (NName (tvalue t) false).
Proof. repeat split; reflexivity. Qed.

Lemma tt_eqb_refl t : tt_eqb t t = true.
Proof. unfold tt_eqb. apply Nat.eqb_refl. Qed.

(* ---- 3. parentheses ---- *)

(* the content of ( ) is parsed with right binding power 0, whatever the binding power in force
   outside, and comes back as ONE node (a block) *)
Lemma parseBlock_single lf pe t p e p1 p2 :
  ttype (ptoken p) <> typeParenClose ->
  pe 0 p = ROk (e, p1) ->
  ttype (ptoken p1) = typeParenClose ->
  advance false p1 = ROk (tt, p2) ->
  parseBlock (S lf) pe t p = ROk (NBlock [e], p2).
Proof.
  intros Hne Hpe Hcl Hadv. unfold parseBlock. unfold sbind at 1.
  cbn [parseBlockLoop]. rewrite bind_curType.
  apply tt_eqb_neq in Hne. rewrite Hne.
  unfold sbind at 1. rewrite Hpe. rewrite bind_curType. rewrite Hcl.
  cbn [tt_eqb tt_num Nat.eqb negb app]. unfold sret at 1.
  unfold sbind at 1. unfold consume. rewrite bind_curToken. rewrite Hcl.
  cbn [tt_eqb tt_num Nat.eqb negb]. rewrite Hadv. reflexivity.
Qed.

(* C04_paren: a parenthesised sub-expression is an operand.  When the current token is ( and
   the tokens after it parse, at right binding power 0, to e up to the matching ), then
   parseExpression at ANY right binding power rbp takes the block NBlock [e] as the left
   operand of its operator loop: neither rbp nor the operators around the parentheses
   influence how the content is grouped, and the content never captures operators outside. *)
Theorem C04_paren f rbp p p0 e p1 p2 :
  ttype (ptoken p) = typeParenOpen ->
  advance true p = ROk (tt, p0) ->
  ttype (ptoken p0) <> typeParenClose ->
  pExpr (S f) 0 p0 = ROk (e, p1) ->
  ttype (ptoken p1) = typeParenClose ->
  advance false p1 = ROk (tt, p2) ->
  pExpr (S (S f)) rbp p = lLoop (S f) rbp (NBlock [e]) p2.
Proof.
  intros Hop Ha Hne Hpe Hcl Ha2.
  rewrite parseExpression_unfold. rewrite bind_curToken. rewrite Hop.
  cbn [opens_operand tt_eqb tt_num Nat.eqb orb]. unfold sbind at 1. rewrite Ha.
  change (nudOf (S f) (pExpr (S f)) typeParenOpen) with (Some (parseBlock (S f) (pExpr (S f)))).
  cbv iota. unfold sbind at 1.
  rewrite (parseBlock_single f (pExpr (S f)) (ptoken p) p0 e p1 p2 Hne Hpe Hcl Ha2).
  reflexivity.
Qed.

(* ---- 4b. the leds of the binary operators are "lhs op parseExpression(bp)" ---- *)

(* the node constructor of each binary operator token *)
Definition binop_of (ty : tokentype) : option (node -> node -> node) :=
  match ty with
  | typePlus => Some (NNumeric NumAdd) | typeMinus => Some (NNumeric NumSub)
  | typeMult => Some (NNumeric NumMul) | typeDiv => Some (NNumeric NumDiv)
  | typeMod => Some (NNumeric NumMod)
  | typeEqual => Some (NComparison CmpEq) | typeNotEqual => Some (NComparison CmpNe)
  | typeLess => Some (NComparison CmpLt) | typeLessEqual => Some (NComparison CmpLe)
  | typeGreater => Some (NComparison CmpGt) | typeGreaterEqual => Some (NComparison CmpGe)
  | typeIn => Some (NComparison CmpIn)
  | typeAnd => Some (NBoolOp BoolAnd) | typeOr => Some (NBoolOp BoolOr)
  | typeConcat => Some NConcat
  | typeApply => Some NApply
  | typeDot => Some NDot
  | _ => None
  end.

(* every one of these 17 operators parses its right operand at ITS OWN binding power: operators
   of the same row group to the left *)
Theorem led_binary lf pe t mk : binop_of (ttype t) = Some mk ->
  exists led, ledOf lf pe (ttype t) = Some led /\
    forall lhs, led t lhs = (do rhs <- pe (lookupBp (ttype t)); sret (mk lhs rhs)).
Proof.
  intros H. destruct t as [ty v pos]. cbn [ttype] in *.
  destruct ty; try discriminate H; injection H as <-;
    (eexists; split; [reflexivity|intros lhs; reflexivity]).
Qed.

(* := parses its right operand one below its own binding power: it groups to the right;
   its left operand must be a variable *)
Theorem led_assign lf pe t :
  ledOf lf pe typeAssign = Some (parseAssignment fmt_g quote pe) /\
  (forall name, parseAssignment fmt_g quote pe t (NVariable name) =
                (do v <- pe (lookupBp (ttype t) - 1); sret (NAssignment name v))) /\
  (forall lhs, (forall name, lhs <> NVariable name) ->
               parseAssignment fmt_g quote pe t lhs =
               perr (mkError ErrIllegalAssignment t (node_string fmt_g quote lhs))).
Proof.
  split; [reflexivity|split; [intros name; reflexivity|]].
  intros lhs Hn. destruct lhs; try reflexivity. exfalso. eapply Hn; reflexivity.
Qed.

(* ? parses the then-branch and, after a colon, the else-branch at binding power 0: the
   else-branch extends as far as possible (so it groups to the right and even takes a := ) *)
Theorem led_conditional lf pe t lhs :
  ledOf lf pe typeCondition = Some (parseConditional pe) /\
  parseConditional pe t lhs =
  (do rhs <- pe 0;
   do ty <- curType;
   do els <- (if tt_eqb ty typeColon then consume typeColon true ;; do e <- pe 0; sret (Some e)
              else sret None);
   sret (NConditional lhs rhs els)).
Proof. split; reflexivity. Qed.

(* the bracketed parts of the postfix operators are parsed at binding power 0 (units) *)
Theorem led_postfix lf pe :
  ledOf lf pe typeParenOpen = Some (parseFunctionCall lf pe) /\
  ledOf lf pe typeBracketOpen = Some (parsePredicate pe) /\
  ledOf lf pe typeBraceOpen = Some (parseGroup lf pe) /\
  ledOf lf pe typeSort = Some (parseSort lf pe).
Proof. repeat split; reflexivity. Qed.

End ParserClauses.

(* after the repair: a / that follows ^( ), a function body or a transform is the division *)
Example C04_regex_after_closer_ex (pn : string -> numlit) (rc : string -> option string)
  (fg : f64 -> string) (q : string -> string) :
  parse_raw pn rc fg q (parse_fuel "a^(b)/c") "a^(b)/c" =
    ROk (NNumeric NumDiv (NSort (NName "a" false) [(SortDefault, NName "b" false)]) (NName "c" false))
  /\ (exists l, parse_raw pn rc fg q (parse_fuel "function($x){$x}/c") "function($x){$x}/c" =
                ROk (NNumeric NumDiv l (NName "c" false)))
  /\ (exists l, parse_raw pn rc fg q (parse_fuel "|a|{}|/c") "|a|{}|/c" =
                ROk (NNumeric NumDiv l (NName "c" false))).
Proof. split; [|split; eexists]; vm_compute; reflexivity. Qed.

(* after the repair: a regular expression directly after an opening ( [ or a unary minus *)
Example C04_opener_regex_ex (pn : string -> numlit) (fg : f64 -> string) (q : string -> string) :
  let rc := fun _ : string => @None string in
  parse_raw pn rc fg q (parse_fuel "[/ab/]") "[/ab/]" = ROk (NArray [NRegex "ab"]) /\
  parse_raw pn rc fg q (parse_fuel "(/ab/)") "(/ab/)" = ROk (NBlock [NRegex "ab"]) /\
  parse_raw pn rc fg q (parse_fuel "-/ab/") "-/ab/" = ROk (NNegation (NRegex "ab")) /\
  parse_raw pn rc fg q (parse_fuel "[x,/ab/]") "[x,/ab/]" = ROk (NArray [NName "x" false; NRegex "ab"]) /\
  parse_raw pn rc fg q (parse_fuel "(a)/b") "(a)/b" = ROk (NNumeric NumDiv (NBlock [NName "a" false]) (NName "b" false)).
Proof. repeat split; vm_compute; reflexivity. Qed.


Print Assumptions C04_ws.
Print Assumptions scan_string_spec.
Print Assumptions C04_quotes.
Print Assumptions C04_regex_div.
Print Assumptions C04_paren.
Print Assumptions led_binary.

Open Scope nat_scope.
Open Scope list_scope.

(* ==================================================================================== *)
(* 4. The grouping theorem                                                               *)
(* ==================================================================================== *)

Section Grouping.
Variable atom : Type.
Variable op : Type.
Variable lside : op -> nat.
Variable rside : op -> option nat.

Notation tree := (tree atom op).
Notation sym := (sym atom op).
Notation yield := (@yield atom op).
Notation wf_prec := (wf_prec atom op lside rside).
Notation rspine_ge := (rspine_ge atom op rside).
Notation lspine_gt := (lspine_gt atom op lside).
Notation stops := (stops atom op lside).
Notation pexpr := (pexpr atom op lside rside).
Notation ploop := (ploop atom op lside rside).

(* what follows a complete operand t: nothing, an atom, or an operator that every operator on the
   right spine of t leaves alone *)
Definition rstops (t : tree) (rest : list sym) : Prop :=
  match rest with SOp o :: _ => rspine_ge (lside o) t | _ => True end.

Lemma rspine_ge_mono n m (t : tree) : m <= n -> rspine_ge n t -> rspine_ge m t.
Proof.
  intros Hmn. induction t as [a|o l IHl r IHr|o l IHl]; simpl; auto.
  intros [H1 H2]. split; [|auto]. destruct (rside o); [lia|auto].
Qed.

Lemma pexpr_S f r s :
  pexpr (S f) r s = match s with SAtom a :: s' => ploop f r (Leaf a) s' | _ => None end.
Proof. reflexivity. Qed.
Lemma ploop_S f r lhs s :
  ploop (S f) r lhs s =
  match s with
  | SOp o :: s' =>
      if Nat.ltb r (lside o) then
        match rside o with
        | None => ploop f r (Post o lhs) s'
        | Some ro => match pexpr f ro s' with
                     | Some (rhs, s'') => ploop f r (Bin o lhs rhs) s''
                     | None => None
                     end
        end
      else Some (lhs, s)
  | _ => Some (lhs, s)
  end.
Proof. reflexivity. Qed.

(* ---- soundness: what the Pratt loop returns is well grouped ---- *)

Lemma pratt_sound : forall fuel,
  (forall r s t rest, pexpr fuel r s = Some (t, rest) ->
     s = yield t ++ rest /\ wf_prec t /\ lspine_gt r t /\ rstops t rest /\ stops r rest) /\
  (forall r lhs s t rest, ploop fuel r lhs s = Some (t, rest) ->
     wf_prec lhs -> lspine_gt r lhs -> rstops lhs s ->
     yield lhs ++ s = yield t ++ rest /\ wf_prec t /\ lspine_gt r t /\ rstops t rest /\ stops r rest).
Proof.
  induction fuel as [|f [IHe IHl]]; [split; intros; discriminate|].
  split.
  - intros r s t rest H. rewrite pexpr_S in H.
    destruct s as [|[a|o] s']; try discriminate H.
    apply IHl in H; [|exact I|exact I|destruct s' as [|[a2|o2] s3]; exact I].
    destruct H as (Hy & H). split; [exact Hy|tauto].
  - intros r lhs s t rest H Hwf Hls Hrs. rewrite ploop_S in H.
    destruct s as [|[a|o] s'].
    + injection H as <- <-. simpl. auto.
    + injection H as <- <-. simpl. auto.
    + destruct (Nat.ltb r (lside o)) eqn:Elt.
      * apply Nat.ltb_lt in Elt. simpl in Hrs.
        destruct (rside o) as [ro|] eqn:Ero.
        -- destruct (pexpr f ro s') as [[rhs s'']|] eqn:Ep; [|discriminate H].
           apply IHe in Ep as (Hy & Hwr & Hlr & Hrr & Hst).
           apply IHl in H.
           ++ destruct H as (Hy2 & H2). split; [|exact H2].
              rewrite <- Hy2. subst s'. simpl. rewrite <- app_assoc. reflexivity.
           ++ simpl. rewrite Ero. auto.
           ++ simpl. auto.
           ++ unfold rstops. destruct s'' as [|[a2|o2] s3]; auto. simpl. rewrite Ero.
              simpl in Hst, Hrr. auto.
        -- apply IHl in H.
           ++ destruct H as (Hy2 & H2). split; [|exact H2].
              rewrite <- Hy2. simpl. rewrite <- app_assoc. reflexivity.
           ++ simpl. auto.
           ++ simpl. auto.
           ++ unfold rstops. destruct s' as [|[a2|o2] s3]; simpl; auto.
      * apply Nat.ltb_ge in Elt. injection H as <- <-. simpl. auto.
Qed.

(* pratt_wf: the tree returned by the Pratt loop for right binding power r has the consumed
   prefix as its yield, is well grouped, its loop-level operators all bind more tightly than r,
   and the token it stopped at does not *)
Theorem pratt_wf fuel r s t rest : pexpr fuel r s = Some (t, rest) ->
  s = yield t ++ rest /\ wf_prec t /\ lspine_gt r t /\ stops r rest.
Proof. intros H. apply (proj1 (pratt_sound fuel)) in H. tauto. Qed.

(* ---- completeness: every well-grouped tree is what the loop returns on its yield ---- *)

(* number of loop iterations spent on the left spine *)
Fixpoint cost (t : tree) : nat :=
  match t with Leaf _ => 1 | Bin _ l _ => S (cost l) | Post _ l => S (cost l) end.

Lemma cost_le_yield (t : tree) : cost t <= List.length (yield t).
Proof.
  induction t as [a|o l IHl r IHr|o l IHl]; simpl; [lia| |]; rewrite app_length; simpl; lia.
Qed.

Lemma yield_pos (t : tree) : 1 <= List.length (yield t).
Proof. pose proof (cost_le_yield t). destruct t; simpl in *; lia. Qed.

Lemma ploop_stop fuel r (t : tree) rest : stops r rest ->
  ploop (S fuel) r t rest = Some (t, rest).
Proof.
  intros H. rewrite ploop_S. destruct rest as [|[a|o] s']; auto.
  simpl in H. replace (Nat.ltb r (lside o)) with false; [reflexivity|].
  symmetry. apply Nat.ltb_ge. exact H.
Qed.

Lemma pratt_reaches : forall t : tree, wf_prec t ->
  forall r rest fuel, lspine_gt r t -> rstops t rest -> List.length (yield t) < fuel ->
  pexpr fuel r (yield t ++ rest) = ploop (fuel - cost t) r t rest.
Proof.
  induction t as [a|o l IHl rt IHr|o l IHl]; intros Hwf r rest fuel Hls Hrs Hf.
  - destruct fuel as [|f]; [simpl in Hf; lia|]. cbn [C04.yield app]. rewrite pexpr_S. cbn [cost]. rewrite Nat.sub_succ, Nat.sub_0_r. reflexivity.
  - simpl in Hwf, Hls, Hf. destruct Hwf as (Hwl & Hwr & Hrl & Hlr). destruct Hls as [Hlt Hls].
    rewrite app_length in Hf. simpl in Hf.
    cbn [C04.yield]. rewrite <- app_assoc. cbn [app].
    rewrite IHl; auto; [|lia].
    pose proof (cost_le_yield l) as Hcl. pose proof (cost_le_yield rt) as Hcr.
    destruct (fuel - cost l) as [|f'] eqn:Ef; [lia|].
    rewrite ploop_S. apply Nat.ltb_lt in Hlt. rewrite Hlt.
    destruct (rside o) as [ro|] eqn:Ero; [|contradiction].
    assert (Hrs' : rstops rt rest /\ stops ro rest).
    { unfold rstops, stops in *. destruct rest as [|[a2|o2] s3]; auto. simpl in Hrs. rewrite Ero in Hrs. tauto. }
    destruct Hrs' as [Hrs1 Hrs2].
    rewrite IHr; auto; [|lia].
    destruct (f' - cost rt) as [|f''] eqn:Ef'; [lia|].
    rewrite ploop_stop by exact Hrs2.
    cbn [cost]. f_equal. lia.
  - simpl in Hwf, Hls, Hf. destruct Hwf as (Hwl & Hrl & Hro). destruct Hls as [Hlt Hls].
    rewrite app_length in Hf. simpl in Hf.
    cbn [C04.yield]. rewrite <- app_assoc. cbn [app].
    rewrite IHl; auto; [|lia].
    pose proof (cost_le_yield l) as Hcl.
    destruct (fuel - cost l) as [|f'] eqn:Ef; [lia|].
    rewrite ploop_S. apply Nat.ltb_lt in Hlt. rewrite Hlt, Hro.
    cbn [cost]. f_equal. lia.
Qed.

Theorem pratt_complete (t : tree) r rest fuel :
  wf_prec t -> lspine_gt r t -> rstops t rest -> stops r rest -> List.length (yield t) < fuel ->
  pexpr fuel r (yield t ++ rest) = Some (t, rest).
Proof.
  intros Hwf Hls Hrs Hst Hf. rewrite pratt_reaches by auto.
  pose proof (cost_le_yield t).
  destruct (fuel - cost t) as [|f'] eqn:Ef; [lia|]. apply ploop_stop. exact Hst.
Qed.

(* all operators of a chain have a positive left rank (level 0 admits every operator) *)
Definition ops_positive (s : list sym) : Prop :=
  Forall (fun x => match x with SOp o => 0 < lside o | SAtom _ => True end) s.

Lemma lspine_gt_0 (t : tree) : ops_positive (yield t) -> lspine_gt 0 t.
Proof.
  unfold ops_positive.
  induction t as [a|o l IHl r IHr|o l IHl]; simpl; auto; intros H; apply Forall_app in H as [H1 H2].
  - inversion H2; subst. auto.
  - inversion H2; subst. auto.
Qed.

(* wf_unique: precedence, associativity and the sequence of operands and operators determine the
   tree: two well-grouped trees with the same yield are equal *)
Theorem wf_unique_gen (t1 t2 : tree) : ops_positive (yield t1) ->
  wf_prec t1 -> wf_prec t2 -> yield t1 = yield t2 -> t1 = t2.
Proof.
  intros Hpos H1 H2 Hy.
  assert (Hpos2 : ops_positive (yield t2)) by (rewrite <- Hy; exact Hpos).
  pose proof (pratt_complete t1 0 [] (S (List.length (yield t1))) H1 (lspine_gt_0 t1 Hpos) I I (Nat.lt_succ_diag_r _)) as E1.
  pose proof (pratt_complete t2 0 [] (S (List.length (yield t2))) H2 (lspine_gt_0 t2 Hpos2) I I (Nat.lt_succ_diag_r _)) as E2.
  rewrite Hy in E1. rewrite E1 in E2. injection E2 as E. exact E.
Qed.

Theorem wf_unique (t1 t2 : tree) : (forall o, 0 < lside o) ->
  wf_prec t1 -> wf_prec t2 -> yield t1 = yield t2 -> t1 = t2.
Proof.
  intros Hpos. apply wf_unique_gen. unfold ops_positive. apply Forall_forall. intros [a|o] _; auto.
Qed.

(* ---- totality on well-formed chains ---- *)

(* operand (operator operand | postfix-operator)* ; [apos]: an operand is expected next *)
Fixpoint chain_ok (apos : bool) (s : list sym) : bool :=
  match s with
  | [] => negb apos
  | SAtom _ :: s' => apos && chain_ok false s'
  | SOp o :: s' => negb apos && chain_ok (match rside o with Some _ => true | None => false end) s'
  end.

Lemma pratt_total : forall fuel,
  (forall r s, chain_ok true s = true -> List.length s < fuel ->
     exists t rest, pexpr fuel r s = Some (t, rest) /\ chain_ok false rest = true /\ List.length rest < List.length s) /\
  (forall r lhs s, chain_ok false s = true -> List.length s < fuel ->
     exists t rest, ploop fuel r lhs s = Some (t, rest) /\ chain_ok false rest = true /\ List.length rest <= List.length s).
Proof.
  induction fuel as [|f [IHe IHl]]; [split; intros; lia|].
  split.
  - intros r s Hok Hf. rewrite pexpr_S. destruct s as [|[a|o] s']; try discriminate Hok.
    simpl in Hok, Hf. destruct (IHl r (Leaf a) s' Hok ltac:(lia)) as (t & rest & H & Hr & Hlen).
    exists t, rest. simpl. repeat split; auto; lia.
  - intros r lhs s Hok Hf. rewrite ploop_S. destruct s as [|[a|o] s'].
    + exists lhs, []. auto.
    + discriminate Hok.
    + simpl in Hok, Hf. destruct (Nat.ltb r (lside o)).
      * destruct (rside o) as [ro|].
        -- destruct (IHe ro s' Hok ltac:(lia)) as (rhs & s'' & H & Hr & Hlen). rewrite H.
           destruct (IHl r (Bin o lhs rhs) s'' Hr ltac:(lia)) as (t & rest & H2 & Hr2 & Hlen2).
           exists t, rest. simpl. repeat split; auto; lia.
        -- destruct (IHl r (Post o lhs) s' Hok ltac:(lia)) as (t & rest & H2 & Hr2 & Hlen2).
           exists t, rest. simpl. repeat split; auto; lia.
      * exists lhs, (SOp o :: s'). simpl. repeat split; auto.
Qed.

(* pratt_chain: every well-formed chain whose operators all have a positive rank HAS a
   well-grouped tree, exactly one, and the Pratt loop at level 0 returns it *)
Theorem pratt_chain s : chain_ok true s = true -> ops_positive s ->
  exists t, pexpr (S (List.length s)) 0 s = Some (t, []) /\ wf_prec t /\ yield t = s /\
            forall t', wf_prec t' -> yield t' = s -> t' = t.
Proof.
  intros Hok Hpos.
  destruct (proj1 (pratt_total (S (List.length s))) 0 s Hok (Nat.lt_succ_diag_r _)) as (t & rest & H & Hr & Hlen).
  pose proof (pratt_wf _ _ _ _ _ H) as (Hs & Hwf & _ & Hst).
  assert (rest = []).
  { destruct rest as [|[a|o] rest']; [reflexivity|discriminate Hr|].
    simpl in Hst. unfold ops_positive in Hpos. rewrite Hs in Hpos. apply Forall_app in Hpos as [_ Hp].
    inversion Hp; subst. lia. }
  subst rest. rewrite app_nil_r in Hs. exists t. repeat split; auto.
  intros t' Hwf' Hy'. symmetry. apply wf_unique_gen; auto; congruence.
Qed.

(* the whole input: the loop at level 0 consumes a complete chain and returns THE well-grouped
   tree of that chain *)
Corollary pratt_is_the_wf_tree fuel s t (t' : tree) : ops_positive s ->
  pexpr fuel 0 s = Some (t, []) -> wf_prec t' -> yield t' = s -> t' = t.
Proof.
  intros Hpos H Hwf Hy. apply pratt_wf in H as (Hs & Hw & _). rewrite app_nil_r in Hs.
  apply wf_unique_gen; auto; congruence.
Qed.

(* ---- the textbook reading for left-grouping chains ---- *)

Notation ops_of := (@ops_of atom op).
Notation climb := (climb atom op lside).

Section LeftGrouping.
(* every operator is binary and left-grouping *)
Hypothesis Hleft : forall o, rside o = Some (lside o).

Lemma wf_lspine_all (t : tree) : wf_prec t -> forall n, lspine_gt n t ->
  Forall (fun q => n < lside q) (ops_of t).
Proof.
  induction t as [a|o l IHl r IHr|o l IHl]; intros Hwf n Hls; simpl in *.
  - constructor.
  - destruct Hwf as (Hwl & Hwr & Hrl & Hlr). destruct Hls as [Hlt Hls]. rewrite Hleft in Hlr.
    apply Forall_app. split; [auto|]. constructor; [exact Hlt|].
    eapply Forall_impl; [|apply (IHr Hwr _ Hlr)]. simpl. intros q Hq. lia.
  - destruct Hwf as (_ & _ & Hro). rewrite Hleft in Hro. discriminate.
Qed.

Lemma wf_rspine_all (t : tree) : wf_prec t -> forall n, rspine_ge n t ->
  Forall (fun p => n <= lside p) (ops_of t).
Proof.
  induction t as [a|o l IHl r IHr|o l IHl]; intros Hwf n Hrs; simpl in *.
  - constructor.
  - destruct Hwf as (Hwl & Hwr & Hrl & Hlr). destruct Hrs as [Hge Hrs]. rewrite Hleft in Hge.
    apply Forall_app. split.
    + eapply Forall_impl; [|apply (IHl Hwl _ Hrl)]. simpl. intros p Hp. lia.
    + constructor; [exact Hge|auto].
  - destruct Hwf as (_ & _ & Hro). rewrite Hleft in Hro. discriminate.
Qed.

(* wf_climb: for chains of left-grouping binary operators the well-grouped tree is the one of the
   textbook: at every node the operator is the LAST one of minimal rank in its sub-chain (all
   operators to its left bind at least as tightly, all operators to its right strictly more) *)
Theorem wf_climb (t : tree) : wf_prec t -> climb t.
Proof.
  induction t as [a|o l IHl r IHr|o l IHl]; intros Hwf; simpl in *.
  - exact I.
  - destruct Hwf as (Hwl & Hwr & Hrl & Hlr). rewrite Hleft in Hlr.
    repeat split; auto.
    + apply wf_rspine_all; auto.
    + apply wf_lspine_all; auto.
  - destruct Hwf as (_ & _ & Hro). rewrite Hleft in Hro. discriminate.
Qed.

End LeftGrouping.

End Grouping.

(* ---- examples (operators as pairs (lside, rside)): + = (60, Some 60), * = (70, Some 70),
   := = (10, Some 9), the else-branch operator ?..: = (20, Some 0), postfix [..] = (100, None) ---- *)
Section GroupingExamples.
Let plus : nat * option nat := (60, Some 60).
Let times : nat * option nat := (70, Some 70).
Let assign : nat * option nat := (10, Some 9).
Let cond : nat * option nat := (20, Some 0).
Let idx : nat * option nat := (100, None).
Let A (n : nat) : sym nat (nat * option nat) := SAtom n.
Let O (o : nat * option nat) : sym nat (nat * option nat) := SOp o.
Let L (n : nat) : tree nat (nat * option nat) := Leaf n.

(* 1 + 2 * 3[..] + 4  groups as  (1 + (2 * (3[..]))) + 4 *)
Example pratt_wf_ex :
  let s := [A 1; O plus; A 2; O times; A 3; O idx; O plus; A 4] in
  let t := Bin plus (Bin plus (L 1) (Bin times (L 2) (Post idx (L 3)))) (L 4) in
  pexpr nat _ fst snd 20 0 s = Some (t, []) /\ wf_prec nat _ fst snd t /\ yield nat _ t = s /\
  chain_ok nat _ snd true s = true /\ climb_root nat _ fst t.
Proof. vm_compute. repeat split; repeat constructor. Qed.

(* a := b := c  groups to the right;  a ? .. : c := d  gives the else-branch the assignment although
   := is looser than ? (the pair the property cites) *)
Example pratt_right_ex :
  pexpr nat _ fst snd 20 0 [A 1; O assign; A 2; O assign; A 3]
    = Some (Bin assign (L 1) (Bin assign (L 2) (L 3)), []) /\
  pexpr nat _ fst snd 20 0 [A 1; O cond; A 3; O assign; A 4]
    = Some (Bin cond (L 1) (Bin assign (L 3) (L 4)), []) /\
  wf_prec nat _ fst snd (Bin cond (L 1) (Bin assign (L 3) (L 4))) /\
  ~ wf_prec nat _ fst snd (Bin assign (Bin cond (L 1) (L 3)) (L 4)).
Proof.
  vm_compute. repeat split; try lia.
Qed.
End GroupingExamples.

Open Scope string_scope.
Open Scope Z_scope.

Print Assumptions pratt_wf.
Print Assumptions pratt_complete.
Print Assumptions wf_unique.
Print Assumptions pratt_chain.
Print Assumptions wf_climb.

(* ==================================================================================== *)
(* 5. The model's Pratt loop IS the abstract loop (chains of binary operators and :=)    *)
(* ==================================================================================== *)

(* operand tokens whose nud returns a node without reading further *)
Definition atom_node (t : token) : option node :=
  match ttype t with
  | typeVariable => Some (NVariable (tvalue t))
  | typeName | typeAnd | typeOr | typeIn => Some (NName (tvalue t) false)
  | typeNameEsc => Some (NName (tvalue t) true)
  | typeNull => Some NNull
  | typeMult => Some NWildcard
  | typeDescendent => Some NDescendent
  | _ => None
  end.

(* the operator tokens of this section: the 17 binary operators and := *)
Definition is_op_tok (t : token) : bool :=
  is_some (binop_of (ttype t)) || tt_eqb (ttype t) typeAssign.

(* the two sides of an operator token, read off the model's binding-power table *)
Definition tok_lside (t : token) : nat := Z.to_nat (lookupBp (ttype t)).
Definition tok_rside (t : token) : option nat :=
  if tt_eqb (ttype t) typeAssign then Some (tok_lside t - 1)%nat else Some (tok_lside t).

Notation ttree := (tree token token).
Notation tsym := (sym token token).

(* the jparse node of an abstract tree; None when an assignment has a non-variable target *)
Fixpoint embed (t : ttree) : option node :=
  match t with
  | Leaf a => atom_node a
  | Post _ _ => None
  | Bin o l r =>
      match embed l, embed r with
      | Some nl, Some nr =>
          if tt_eqb (ttype o) typeAssign then
            match nl with NVariable name => Some (NAssignment name nr) | _ => None end
          else match binop_of (ttype o) with Some mk => Some (mk nl nr) | None => None end
      | _, _ => None
      end
  end.

(* [stream opos p s]: the parser state p delivers the token sequence s and then a token without
   binding power (end of input, a closing bracket, a separator ...).  The token after an
   operand is obtained with advance false, the token after an operator with advance true —
   exactly the calls the Pratt loop makes. *)
Fixpoint stream (opos : bool) (p : parser) (s : list tsym) : Prop :=
  match s with
  | [] => opos = true /\ lookupBp (ttype (ptoken p)) = 0
  | SAtom a :: s' =>
      opos = false /\ ptoken p = a /\ is_some (atom_node a) = true /\
      exists p', advance false p = ROk (tt, p') /\ stream true p' s'
  | SOp o :: s' =>
      opos = true /\ ptoken p = o /\ is_op_tok o = true /\
      exists p', advance true p = ROk (tt, p') /\ stream false p' s'
  end.

Section Simulation.
Variable parse_number : string -> numlit.
Variable regex_check : string -> option string.
Variable fmt_g : f64 -> string.
Variable quote : string -> string.

Notation pExpr := (parseExpression parse_number regex_check fmt_g quote).
Notation lLoop := (ledLoop parse_number regex_check fmt_g quote).
Notation nudOf := (lookupNud parse_number regex_check).
Notation ledOf := (lookupLed fmt_g quote).
Notation apexpr := (pexpr token token tok_lside tok_rside).
Notation aploop := (ploop token token tok_lside tok_rside).

Lemma nud_atom lf pe a na : atom_node a = Some na ->
  tt_eqb (ttype a) typeEOF = false /\ opens_operand (ttype a) = false /\
  exists nud, nudOf lf pe (ttype a) = Some nud /\ nud a = sret na.
Proof.
  unfold atom_node. destruct a as [ty v pos]. cbn [ttype tvalue].
  destruct ty; intros H; try discriminate H; injection H as <-;
    (split; [reflexivity|split; [reflexivity|eexists; split; reflexivity]]).
Qed.

Lemma binop_not_assign ty mk : binop_of ty = Some mk -> tt_eqb ty typeAssign = false.
Proof. destruct ty; intros H; try discriminate H; reflexivity. Qed.

Lemma aploop_embed_none : forall fuel r lhs s t rest,
  aploop fuel r lhs s = Some (t, rest) -> embed lhs = None -> embed t = None.
Proof.
  induction fuel as [|f IH]; intros r lhs s t rest H Hn; [discriminate|].
  rewrite ploop_S in H. destruct s as [|[a|o] s'].
  - injection H as <- <-; exact Hn.
  - injection H as <- <-; exact Hn.
  - destruct (Nat.ltb r (tok_lside o)); [|injection H as <- <-; exact Hn].
    destruct (tok_rside o) as [ro|].
    + destruct (apexpr f ro s') as [[rhs s'']|]; [|discriminate].
      eapply IH; [exact H|]. cbn [embed]. rewrite Hn. reflexivity.
    + eapply IH; [exact H|]. reflexivity.
Qed.

(* the outcome of the model on a stream, in terms of the abstract tree *)
Definition sim_outcome (r : res (node * parser)) (t : ttree) (rest : list tsym) : Prop :=
  (exists n p', r = ROk (n, p') /\ embed t = Some n /\ stream true p' rest) \/
  (exists e, r = RErr e /\ etype e = ErrIllegalAssignment /\ embed t = None).

Theorem C04_pratt_model : forall fuel,
  (forall r s p t rest, stream false p s -> apexpr fuel r s = Some (t, rest) ->
     sim_outcome (pExpr fuel (Z.of_nat r) p) t rest) /\
  (forall r lhs nl s p t rest, stream true p s -> aploop fuel r lhs s = Some (t, rest) ->
     embed lhs = Some nl ->
     sim_outcome (lLoop fuel (Z.of_nat r) nl p) t rest).
Proof.
  induction fuel as [|f [IHe IHl]]; [split; intros; discriminate|].
  split.
  - intros r s p t rest Hst H. rewrite pexpr_S in H.
    destruct s as [|[a|o] s']; try discriminate H.
    destruct Hst as (_ & Hp & Ha & p' & Hadv & Hst').
    destruct (atom_node a) as [na|] eqn:Ena; [|discriminate Ha].
    destruct (nud_atom f (pExpr f) a na Ena) as (Hne & Hno & nud & Hnud & Hrun).
    rewrite parseExpression_unfold, bind_curToken, Hp, Hne, Hno.
    unfold sbind at 1. rewrite Hadv. rewrite Hnud. unfold sbind at 1. rewrite Hrun. unfold sret.
    apply (IHl r (Leaf a) na s' p' t rest Hst' H). exact Ena.
  - intros r lhs nl s p t rest Hst H Hl. rewrite ploop_S in H. rewrite ledLoop_unfold, bind_curToken.
    destruct s as [|[a|o] s'].
    + destruct Hst as (_ & Hbp). rewrite Hbp. replace (Z.of_nat r <? 0) with false by lia.
      injection H as <- <-. left. exists nl, p. repeat split; auto.
    + destruct Hst as (Hf & _). discriminate Hf.
    + destruct Hst as (_ & Hp & Hop & p' & Hadv & Hst'). rewrite Hp.
      pose proof (bp_nonneg (ttype o)) as Hnn.
      replace (Z.of_nat r <? lookupBp (ttype o)) with (Nat.ltb r (tok_lside o))
        by (unfold tok_lside; destruct (Nat.ltb_spec r (Z.to_nat (lookupBp (ttype o)))); lia).
      destruct (Nat.ltb r (tok_lside o)) eqn:Elt.
      2:{ injection H as <- <-. left. exists nl, p. split; [reflexivity|]. split; [exact Hl|].
          cbn [stream]. refine (conj eq_refl (conj Hp (conj Hop _))). exists p'. auto. }
      unfold sbind at 1. rewrite Hadv.
      unfold is_op_tok in Hop.
      destruct (binop_of (ttype o)) as [mk|] eqn:Ebin.
      * (* one of the 17 left-grouping binary operators *)
        assert (Hrs : tok_rside o = Some (tok_lside o)).
        { unfold tok_rside. rewrite (binop_not_assign _ _ Ebin). reflexivity. }
        rewrite Hrs in H.
        destruct (led_binary fmt_g quote f (pExpr f) o mk Ebin) as (led & Hled & Hrun).
        rewrite Hled. unfold sbind at 1. rewrite Hrun.
        destruct (apexpr f (tok_lside o) s') as [[rhs s'']|] eqn:Ep; [|discriminate H].
        pose proof (IHe (tok_lside o) s' p' rhs s'' Hst' Ep) as Hsim.
        replace (Z.of_nat (tok_lside o)) with (lookupBp (ttype o)) in Hsim by (unfold tok_lside; lia).
        destruct Hsim as [(nr & p2 & Hr & Her & Hst2)|(e & Hr & Hty & Her)].
        -- unfold sbind at 1. rewrite Hr. unfold sret.
           apply (IHl r (Bin o lhs rhs) (mk nl nr) s'' p2 t rest Hst2 H).
           cbn [embed]. rewrite Hl, Her, (binop_not_assign _ _ Ebin), Ebin. reflexivity.
        -- unfold sbind at 1. rewrite Hr. right. exists e. repeat split; auto.
           eapply aploop_embed_none; [exact H|]. cbn [embed]. rewrite Hl, Her. reflexivity.
      * (* := *)
        cbn [is_some orb] in Hop.
        assert (Hrs : tok_rside o = Some (tok_lside o - 1)%nat).
        { unfold tok_rside. rewrite Hop. reflexivity. }
        rewrite Hrs in H.
        assert (Hty : ttype o = typeAssign) by (apply tt_eqb_eq; exact Hop).
        destruct (led_assign fmt_g quote f (pExpr f) o) as (Hled & Hvar & Hnovar).
        replace (ledOf f (pExpr f) (ttype o)) with (ledOf f (pExpr f) typeAssign) by (rewrite Hty; reflexivity).
        rewrite Hled. unfold sbind at 1.
        destruct (apexpr f (tok_lside o - 1) s') as [[rhs s'']|] eqn:Ep; [|discriminate H].
        assert (Hnl : (exists name, nl = NVariable name) \/ (forall name, nl <> NVariable name)).
        { destruct nl; first [left; eexists; reflexivity|right; intros nm; discriminate]. }
        destruct Hnl as [(name & ->)|Hnv].
        -- rewrite Hvar.
           pose proof (IHe (tok_lside o - 1)%nat s' p' rhs s'' Hst' Ep) as Hsim.
           replace (Z.of_nat (tok_lside o - 1)) with (lookupBp (ttype o) - 1) in Hsim
             by (unfold tok_lside; rewrite Hty; vm_compute; reflexivity).
           destruct Hsim as [(nr & p2 & Hr & Her & Hst2)|(e & Hr & Hte & Her)].
           ++ unfold sbind at 1. rewrite Hr. unfold sret.
              apply (IHl r (Bin o lhs rhs) (NAssignment name nr) s'' p2 t rest Hst2 H).
              cbn [embed]. rewrite Hl, Her, Hop. reflexivity.
           ++ unfold sbind at 1. rewrite Hr. right. exists e. repeat split; auto.
              eapply aploop_embed_none; [exact H|]. cbn [embed]. rewrite Hl, Her. reflexivity.
        -- rewrite (Hnovar nl Hnv). right. eexists. split; [reflexivity|]. split; [reflexivity|].
           eapply aploop_embed_none; [exact H|]. cbn [embed]. rewrite Hl, Hop.
           destruct (embed rhs); [|reflexivity]. destruct nl; try reflexivity.
           exfalso. eapply Hnv; reflexivity.
Qed.

Notation awf := (wf_prec token token tok_lside tok_rside).
Notation ayield := (@yield token token).

Lemma is_op_tok_pos o : is_op_tok o = true -> (0 < tok_lside o)%nat.
Proof.
  unfold is_op_tok, tok_lside. destruct o as [ty v pos]. cbn [ttype].
  destruct ty; intros H; try discriminate H; vm_compute; lia.
Qed.

Lemma stream_chain_ok : forall s opos p, stream opos p s ->
  chain_ok token token tok_rside (negb opos) s = true /\ ops_positive token token tok_lside s.
Proof.
  induction s as [|[a|o] s IH]; intros opos p H; cbn [stream] in H.
  - destruct H as (-> & _). split; [reflexivity|constructor].
  - destruct H as (-> & _ & _ & p' & _ & H). apply IH in H as [H1 H2].
    split; [exact H1|constructor; [exact I|exact H2]].
  - destruct H as (-> & _ & Hop & p' & _ & H). apply IH in H as [H1 H2].
    split.
    + cbn [chain_ok negb andb]. unfold tok_rside. destruct (tt_eqb (ttype o) typeAssign); exact H1.
    + constructor; [apply is_op_tok_pos; exact Hop|exact H2].
Qed.

(* C04_chain: for EVERY chain of simple operands (names, variables, the words and/or/in as
   names, null, the wildcards) and binary operators (the 17 left-grouping ones and the
   right-grouping :=) that the lexer delivers to the parser, there is exactly one tree that is
   well grouped for the rows and associativities of the binding-power table, and
   parseExpression at right binding power 0 returns precisely that tree (as jparse nodes), or the
   IllegalAssignment error exactly when that tree assigns to something that is not a variable *)
Theorem C04_chain s p : stream false p s ->
  exists t, awf t /\ ayield t = s /\ (forall t', awf t' -> ayield t' = s -> t' = t) /\
            sim_outcome (pExpr (S (List.length s)) 0 p) t [].
Proof.
  intros Hst. destruct (stream_chain_ok s false p Hst) as [Hok Hpos].
  destruct (pratt_chain token token tok_lside tok_rside s Hok Hpos) as (t & Hp & Hwf & Hy & Huniq).
  exists t. repeat split; auto.
  apply (proj1 (C04_pratt_model (S (List.length s))) 0%nat s p t [] Hst Hp).
Qed.

End Simulation.

Print Assumptions C04_pratt_model.
Print Assumptions C04_chain.

(* a concrete chain: the lexer run on "a & b = c" is a stream, and the parse is (a & b) = c *)
Example C04_chain_ex :
  let src := "a & b = c"%string in
  let tk ty v pos := {| ttype := ty; tvalue := v; tpos := pos |} in
  let s := [SAtom (tk typeName "a" 0); SOp (tk typeConcat "&" 2); SAtom (tk typeName "b" 4);
            SOp (tk typeEqual "=" 6); SAtom (tk typeName "c" 8)]%string in
  (exists p, newParser src = ROk p /\ stream false p s) /\
  (forall pn rc fg q, parse_raw pn rc fg q (parse_fuel src) src =
     ROk (NComparison CmpEq (NConcat (NName "a" false) (NName "b" false)) (NName "c" false))).
Proof.
  split.
  - eexists. split; [vm_compute; reflexivity|].
    cbn [stream]. repeat (split; [reflexivity|]).
    eexists; split; [vm_compute; reflexivity|]. cbn [stream]. repeat (split; [reflexivity|]).
    eexists; split; [vm_compute; reflexivity|]. cbn [stream]. repeat (split; [reflexivity|]).
    eexists; split; [vm_compute; reflexivity|]. cbn [stream]. repeat (split; [reflexivity|]).
    eexists; split; [vm_compute; reflexivity|]. cbn [stream]. repeat (split; [reflexivity|]).
    eexists; split; [vm_compute; reflexivity|]. cbn [stream]. split; reflexivity.
  - intros. vm_compute. reflexivity.
Qed.

(* do not leak the div/mod pre-processing of [lia] to importers *)
Ltac Zify.zify_post_hook ::= idtac.
