(* Proofs/C19Final.v — the inverse laws of LibDateProofs instantiated with the real integer formatter
   (format_integer = FormatNumber(float64(n), layout, default format), Model/LibDispatch.v): the
   hypotheses fi_year / fi_2 / fi_4 about FormatNumber are PROVED here (finite domains, by complete
   evaluation lifted with forallb_forall), so the laws hold unconditionally for the built-ins
   $fromMillis / $toMillis of the model. *)
From Coq Require Import ZArith List String Ascii Bool Lia ZifyBool.
From JV Require Import Base.Bytes Base.Utf8 Base.Res Model.LibDate Model.LibFormatDate Model.LibDispatch Spec.C19
  Proofs.LibDateProofs.
Import ListNotations.
Open Scope Z_scope.

Definition zrange (lo n : Z) : list Z := map (fun i => lo + Z.of_nat i) (seq 0 (Z.to_nat n)).

Lemma zrange_in lo n z : lo <= z < lo + n -> In z (zrange lo n).
Proof.
  intros H. unfold zrange. apply in_map_iff. exists (Z.to_nat (z - lo)). split; [lia|].
  apply in_seq. lia.
Qed.

Definition lres_str_eqb (a : lres string) (b : string) : bool :=
  match a with LOk s => seqb s b | _ => false end.
Lemma lres_str_eqb_ok a b : lres_str_eqb a b = true -> a = LOk b.
Proof. destruct a; cbn; try discriminate. intros H. apply seqb_eq in H. now subst. Qed.

Lemma fi_2_all : forallb (fun n => lres_str_eqb (format_integer n "01") (dig2 n)) (zrange 0 100) = true.
Proof. vm_compute. reflexivity. Qed.
Lemma fi_4_all : forallb (fun n => lres_str_eqb (format_integer n "0001") (dig4 n)) (zrange 0 10000) = true.
Proof. vm_compute. reflexivity. Qed.
Lemma fi_year_all : forallb (fun n => lres_str_eqb (format_integer n "1") (dig4 n)) (zrange 1000 9000) = true.
Proof. vm_compute. reflexivity. Qed.

Theorem format_integer_2 n : 0 <= n <= 99 -> format_integer n "01" = LOk (dig2 n).
Proof.
  intros H. apply lres_str_eqb_ok.
  exact (proj1 (forallb_forall _ _) fi_2_all n (zrange_in 0 100 n ltac:(lia))).
Qed.
Theorem format_integer_4 n : 0 <= n <= 9999 -> format_integer n "0001" = LOk (dig4 n).
Proof.
  intros H. apply lres_str_eqb_ok.
  exact (proj1 (forallb_forall _ _) fi_4_all n (zrange_in 0 10000 n ltac:(lia))).
Qed.
Theorem format_integer_year n : 1000 <= n <= 9999 -> format_integer n "1" = LOk (dig4 n).
Proof.
  intros H. apply lres_str_eqb_ok.
  exact (proj1 (forallb_forall _ _) fi_year_all n (zrange_in 1000 9000 n ltac:(lia))).
Qed.

(* $toMillis($fromMillis(ms, (), tz)) = ms for every instant whose local year is 1000..9999 and every
   valid time zone (or none), for the model's built-ins — no hypothesis about FormatNumber left *)
Theorem C19_inverse_default ms tz off :
  (tz = None /\ off = 0) \/ (exists s, tz = Some s /\ tz_denotes s off) ->
  1000 <= local_year ms off <= 9999 ->
  exists text, from_millis format_integer ms None tz = LOk text /\
               to_millis format_integer text None None = LOk ms.
Proof.
  exact (to_millis_from_millis_default_partial format_integer format_integer_year format_integer_2 ms tz off).
Qed.
Print Assumptions C19_inverse_default.


(* the same through the explicit picture [Y0001]-[M01]-[D01]T[H01]:[m01]:[s01].[f001][Z01:01] *)
Theorem C19_inverse_explicit ms tz off :
  (tz = None /\ off = 0) \/ (exists s, tz = Some s /\ tz_denotes s off) ->
  0 <= local_year ms off <= 9999 ->
  exists text, from_millis format_integer ms (Some explicit_picture) tz = LOk text /\
               to_millis format_integer text (Some explicit_picture) tz = LOk ms.
Proof.
  exact (to_millis_from_millis_explicit_partial format_integer format_integer_4 format_integer_2 ms tz off).
Qed.
Print Assumptions C19_inverse_explicit.
Print Assumptions format_integer_2.

(* the hypotheses are met by a concrete instant and zone *)
Example C19_inverse_ex :
  exists text, from_millis format_integer 1538323085762 None (Some "+0530"%string) = LOk text /\
               to_millis format_integer text None None = LOk 1538323085762.
Proof.
  apply (C19_inverse_default 1538323085762 (Some "+0530"%string) 19800).
  - right. exists "+0530"%string. split; [reflexivity|].
    exists "+"%char, "0"%char, "5"%char, "3"%char, "0"%char. vm_compute. repeat split; auto; discriminate.
  - vm_compute. split; discriminate.
Qed.
