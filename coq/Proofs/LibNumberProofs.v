(* Proofs/LibNumberProofs.v — theorems about Model/LibNumber.v (jlib/number.go, FormatBase).

   1. number_accepts_iff : the hand-written recogniser [re_number] accepts exactly the
      language  -? digit+ (. digit+)? ([eE] [+-]? digit+)?   (for all strings).
      number_of_string_rejects / number_of_string_accepts : $number on strings.
   4. format_base_spec   : FormatBase is an error exactly when the rounded radix is outside
      2..36 and otherwise the positional numeral of int64(Round(value)).  *)
From Coq Require Import ZArith Bool List Ascii String Lia ZifyBool.
From JV.Base Require Import Bytes Utf8 F64 Res.
From JV.Model Require Import LibNumber.
Open Scope string_scope.

(* ------------------------------------------------------------------------------------ *)
(* 1. the language of reNumber                                                           *)
(* ------------------------------------------------------------------------------------ *)

Fixpoint all_dig (s : string) : bool :=
  match s with EmptyString => true | String c r => is_dig c && all_dig r end.

(* digit+ *)
Definition digs1 (s : string) : Prop := s <> "" /\ all_dig s = true.

(*  -? digit+ (. digit+)? ([eE] [+-]? digit+)?  *)
Definition number_lang (s : string) : Prop :=
  exists sign ip fp ep,
    s = sign ++ ip ++ fp ++ ep /\
    (sign = "" \/ sign = "-") /\
    digs1 ip /\
    (fp = "" \/ exists d, fp = "." ++ d /\ digs1 d) /\
    (ep = "" \/ exists e sg d, ep = String e (sg ++ d) /\ (e = "e" \/ e = "E")%char /\
                               (sg = "" \/ sg = "-" \/ sg = "+") /\ digs1 d).

Ltac spl := repeat match goal with |- _ /\ _ => split end.

(* the rest does not start with a digit *)
Definition nodig_head (r : string) : Prop :=
  match r with EmptyString => True | String c _ => is_dig c = false end.

Lemma skip_digits_split s :
  exists d, s = d ++ skip_digits s /\ all_dig d = true /\ nodig_head (skip_digits s).
Proof.
  induction s as [|c r IH]; simpl.
  - exists ""; simpl; auto.
  - destruct (is_dig c) eqn:Hc.
    + destruct IH as (d & Hd & Ha & Hn). exists (String c d); simpl. rewrite Hc, Ha.
      split; [congruence|auto].
    + exists ""; simpl. rewrite Hc; auto.
Qed.

Lemma skip_digits_app d r :
  all_dig d = true -> nodig_head r -> skip_digits (d ++ r) = r.
Proof.
  induction d as [|c d IH]; simpl; intros Ha Hn.
  - destruct r as [|c r]; simpl in *; auto. now rewrite Hn.
  - apply andb_true_iff in Ha as [Hc Ha]. rewrite Hc. auto.
Qed.

Lemma digits1_app d r : digs1 d -> nodig_head r -> digits1 (d ++ r) = Some r.
Proof.
  intros [Hne Ha] Hn. destruct d as [|c d]; [congruence|]. unfold digits1. simpl in *.
  apply andb_true_iff in Ha as [Hc Ha]. rewrite Hc. f_equal. now apply skip_digits_app.
Qed.

Lemma digits1_split s r :
  digits1 s = Some r -> exists d, s = d ++ r /\ digs1 d /\ nodig_head r.
Proof.
  destruct s as [|c s]; simpl; [discriminate|].
  destruct (is_dig c) eqn:Hc; [|discriminate]. intros [= <-].
  destruct (skip_digits_split s) as (d & Hd & Ha & Hn).
  exists (String c d). unfold digs1. simpl. rewrite Hc, Ha. spl; auto; congruence.
Qed.

Lemma is_e_iff c : is_e c = true <-> (c = "e" \/ c = "E")%char.
Proof.
  unfold is_e. rewrite orb_true_iff, !Ascii.eqb_eq. tauto.
Qed.
Lemma is_pm_iff c : is_pm c = true <-> (c = "-" \/ c = "+")%char.
Proof.
  unfold is_pm. rewrite orb_true_iff, !Ascii.eqb_eq. tauto.
Qed.
Lemma is_e_nodig c : is_e c = true -> is_dig c = false.
Proof. intros H. apply is_e_iff in H as [->| ->]; reflexivity. Qed.
Lemma is_pm_nodig c : is_pm c = true -> is_dig c = false.
Proof. intros H. apply is_pm_iff in H as [->| ->]; reflexivity. Qed.
Lemma is_dig_not_pm c : is_dig c = true -> is_pm c = false.
Proof. intros H. destruct (is_pm c) eqn:E; auto. apply is_pm_nodig in E. congruence. Qed.

(* [-+]?digit+ at the end of the string *)
Definition exp_tail (s : string) : Prop :=
  exists sg d, s = sg ++ d /\ (sg = "" \/ sg = "-" \/ sg = "+") /\ digs1 d.

Lemma app_nil_r_s (s : string) : s ++ "" = s.
Proof. induction s; simpl; congruence. Qed.

Lemma match_exp_iff s : match_exp s = true <-> exp_tail s.
Proof.
  unfold match_exp, exp_tail. split.
  - intros H. destruct s as [|c r]; [simpl in H; discriminate|].
    destruct (is_pm c) eqn:Hpm.
    + destruct (digits1 r) as [[|? ?]|] eqn:Hd; try discriminate.
      apply digits1_split in Hd as (d & -> & Hd & _). rewrite app_nil_r_s.
      apply is_pm_iff in Hpm. exists (String c ""), d. simpl. intuition (subst; auto).
    + destruct (digits1 (String c r)) as [[|? ?]|] eqn:Hd; try discriminate.
      apply digits1_split in Hd as (d & Heq & Hd & _). rewrite app_nil_r_s in Heq.
      exists "", d. simpl. intuition.
  - intros (sg & d & -> & Hsg & Hd).
    assert (Hd1 : digits1 d = Some "").
    { rewrite <- (app_nil_r_s d) at 1. apply digits1_app; simpl; auto. }
    destruct Hsg as [->|[->| ->]]; simpl.
    + destruct d as [|c d]; [destruct Hd; congruence|].
      assert (is_dig c = true) by (destruct Hd as [_ Ha]; simpl in Ha; now apply andb_true_iff in Ha).
      rewrite (is_dig_not_pm c H). now rewrite Hd1.
    + now rewrite Hd1.
    + now rewrite Hd1.
Qed.

(* (. digit+)? ([eE] [+-]? digit+)? at the end of the string *)
Definition frac_exp_tail (s : string) : Prop :=
  exists fp ep, s = fp ++ ep /\
    (fp = "" \/ exists d, fp = "." ++ d /\ digs1 d) /\
    (ep = "" \/ exists e t, ep = String e t /\ (e = "e" \/ e = "E")%char /\ exp_tail t).

Lemma match_after_int_iff s : match_after_int s = true <-> frac_exp_tail s.
Proof.
  unfold frac_exp_tail. split.
  - intros H. destruct s as [|c r]; simpl in H.
    + exists "", "". simpl; auto.
    + destruct (Ascii.eqb c ".") eqn:Hdot.
      * apply Ascii.eqb_eq in Hdot; subst c.
        destruct (digits1 r) as [rest|] eqn:Hd; [|discriminate].
        apply digits1_split in Hd as (d & -> & Hd & Hn).
        destruct rest as [|c2 r2].
        -- exists ("." ++ d), "". rewrite !app_nil_r_s. simpl. split; auto. split; eauto.
        -- destruct (is_e c2) eqn:He; [|discriminate].
           exists ("." ++ d), (String c2 r2). simpl. split; auto. split; [eauto|].
           right. exists c2, r2. split; auto. split; [now apply is_e_iff|now apply match_exp_iff].
      * destruct (is_e c) eqn:He; [|discriminate].
        exists "", (String c r). simpl. split; auto. split; auto.
        right. exists c, r. split; auto. split; [now apply is_e_iff|now apply match_exp_iff].
  - intros (fp & ep & -> & Hfp & Hep).
    assert (Hep' : match_after_int ep = true).
    { destruct Hep as [->|(e & t & -> & He & Ht)]; [reflexivity|].
      simpl. replace (Ascii.eqb e ".") with false
        by (destruct He as [->| ->]; reflexivity).
      apply is_e_iff in He. rewrite He. now apply match_exp_iff. }
    destruct Hfp as [->|(d & -> & Hd)]; [exact Hep'|].
    simpl.
    assert (Hn : nodig_head ep).
    { destruct Hep as [->|(e & t & -> & He & _)]; simpl; auto.
      apply is_e_nodig. now apply is_e_iff. }
    rewrite (digits1_app d ep Hd Hn).
    destruct Hep as [->|(e & t & -> & He & Ht)]; [reflexivity|].
    apply is_e_iff in He. rewrite He. now apply match_exp_iff.
Qed.

Lemma frac_exp_tail_nodig s : frac_exp_tail s -> nodig_head s.
Proof.
  intros (fp & ep & -> & Hfp & Hep).
  destruct Hfp as [->|(d & -> & _)]; simpl; auto.
  destruct Hep as [->|(e & t & -> & He & _)]; simpl; auto.
  apply is_e_nodig. now apply is_e_iff.
Qed.

Lemma re_number_iff_tail s :
  re_number s = true <->
  exists sign ip rest, s = sign ++ ip ++ rest /\ (sign = "" \/ sign = "-") /\ digs1 ip /\
                       frac_exp_tail rest.
Proof.
  unfold re_number. split.
  - intros H.
    destruct s as [|c r]; [simpl in H; discriminate|].
    destruct (Ascii.eqb c "-") eqn:Hm.
    + apply Ascii.eqb_eq in Hm; subst c.
      destruct (digits1 r) as [rest|] eqn:Hd; [|discriminate].
      apply digits1_split in Hd as (d & -> & Hd & _).
      exists "-", d, rest. simpl. spl; auto. now apply match_after_int_iff.
    + destruct (digits1 (String c r)) as [rest|] eqn:Hd; [|discriminate].
      apply digits1_split in Hd as (d & Heq & Hd & _).
      exists "", d, rest. simpl. spl; auto. now apply match_after_int_iff.
  - intros (sign & ip & rest & -> & Hs & Hip & Hrest).
    pose proof (frac_exp_tail_nodig _ Hrest) as Hn.
    pose proof (digits1_app ip rest Hip Hn) as Hd.
    destruct Hs as [->| ->]; simpl.
    + destruct ip as [|c ip]; [destruct Hip; congruence|].
      assert (Hc : is_dig c = true)
        by (destruct Hip as [_ Ha]; simpl in Ha; now apply andb_true_iff in Ha).
      simpl. replace (Ascii.eqb c "-") with false.
      * change (String c ip ++ rest) with (String c (ip ++ rest)) in Hd.
        rewrite Hd. now apply match_after_int_iff.
      * destruct (Ascii.eqb c "-") eqn:E; auto. apply Ascii.eqb_eq in E; subst c. discriminate.
    + rewrite Hd. now apply match_after_int_iff.
Qed.

(* THEOREM 1: the recogniser accepts exactly the language of the regular expression
   ^-?(([0-9]+))(\.[0-9]+)?([Ee][-+]?[0-9]+)?$ *)
Theorem number_accepts_iff s : re_number s = true <-> number_lang s.
Proof.
  rewrite re_number_iff_tail. unfold number_lang, frac_exp_tail, exp_tail. split.
  - intros (sign & ip & rest & -> & Hs & Hip & fp & ep & -> & Hfp & Hep).
    exists sign, ip, fp, ep. spl; auto.
    destruct Hep as [->|(e & t & -> & He & sg & d & -> & Hsg & Hd)]; auto.
    right. exists e, sg, d. auto.
  - intros (sign & ip & fp & ep & -> & Hs & Hip & Hfp & Hep).
    exists sign, ip, (fp ++ ep). spl; auto.
    exists fp, ep. spl; auto.
    destruct Hep as [->|(e & sg & d & -> & He & Hsg & Hd)]; auto.
    right. exists e, (sg ++ d). spl; auto. exists sg, d. auto.
Qed.
Print Assumptions number_accepts_iff.

Example number_lang_ex : number_lang "-12.50E+3".
Proof.
  exists "-", "12", ".50", "E+3".
  split; [reflexivity|]. split; [now right|]. split; [split; [discriminate|reflexivity]|].
  split.
  - right. exists "50". split; [reflexivity|split; [discriminate|reflexivity]].
  - right. exists "E"%char, "+", "3". split; [reflexivity|]. split; [now right|].
    split; [now right; right|]. split; [discriminate|reflexivity].
Qed.
Example number_lang_ex_neg : ~ number_lang "1.".
Proof. rewrite <- number_accepts_iff. discriminate. Qed.

Section NumberOfString.
  Variable parse_float_fn : string -> pfres.

  (* $number rejects every string outside the language ... *)
  Theorem number_of_string_rejects s :
    ~ number_lang s -> exists t, number_of_string parse_float_fn s = LErr t.
  Proof.
    intros H. unfold number_of_string. destruct (re_number s) eqn:E.
    - exfalso. apply H. now apply number_accepts_iff.
    - eauto.
  Qed.

  (* ... and on a string of the language returns what ParseFloat returns, or an error when
     ParseFloat reports a range error (e.g. "1e999") *)
  Theorem number_of_string_accepts s :
    number_lang s ->
    number_of_string parse_float_fn s =
      match parse_float_fn s with
      | PfOk x => LOk x
      | _ => LErr "unable to cast to a number"
      end.
  Proof.
    intros H. apply number_accepts_iff in H. unfold number_of_string. now rewrite H.
  Qed.
End NumberOfString.
Print Assumptions number_of_string_rejects.
Print Assumptions number_of_string_accepts.

(* ------------------------------------------------------------------------------------ *)
(* 4. FormatBase                                                                         *)
(* ------------------------------------------------------------------------------------ *)
From JV.Base Require Import Decimal.
From JV.Model Require Import LibNumberInst.
Open Scope Z_scope.

(* value of a digit character 0-9 a-z *)
Definition dval (c : ascii) : option Z :=
  let b := byte_of c in
  if (48 <=? b) && (b <=? 57) then Some (b - 48)
  else if (97 <=? b) && (b <=? 122) then Some (b - 87)
  else None.

(* positional value of a digit string in base [base], most significant digit first *)
Fixpoint eval_digits (base : Z) (s : string) (acc : Z) : option Z :=
  match s with
  | EmptyString => Some acc
  | String c r =>
      match dval c with
      | Some d => if d <? base then eval_digits base r (acc * base + d) else None
      | None => None
      end
  end.

(* the integer denoted by a numeral: optional minus sign, then at least one digit *)
Definition eval_numeral (base : Z) (s : string) : option Z :=
  match s with
  | EmptyString => None
  | String c r =>
      if Ascii.eqb c "-" then
        match r with
        | EmptyString => None
        | _ => option_map Z.opp (eval_digits base r 0)
        end
      else eval_digits base s 0
  end.

Lemma dval_digit_char d : 0 <= d < 36 -> dval (digit_char d) = Some d.
Proof.
  intros H.
  assert (Hall : forallb (fun n => match dval (digit_char (Z.of_nat n)) with
                                   | Some v => v =? Z.of_nat n | None => false end)
                         (seq 0 36) = true) by (vm_compute; reflexivity).
  rewrite forallb_forall in Hall.
  specialize (Hall (Z.to_nat d)). rewrite Z2Nat.id in Hall by lia.
  assert (Hin : In (Z.to_nat d) (seq 0 36)) by (apply in_seq; lia).
  specialize (Hall Hin). destruct (dval (digit_char d)) as [v|]; [|discriminate].
  f_equal. lia.
Qed.

Lemma int_digits_denotes base : 2 <= base <= 36 ->
  forall fuel z acc v0, 0 <= z < 2 ^ Z.of_nat fuel ->
    exists k, eval_digits base (int_digits fuel z base acc) v0 =
              eval_digits base acc (v0 * base ^ k + z) /\ 0 <= k.
Proof.
  intros Hb. induction fuel as [|f IH]; intros z acc v0 Hz.
  - simpl in Hz. exists 0. assert (z = 0) by lia. subst z. simpl. split; [f_equal; lia|lia].
  - cbn [int_digits]. destruct (z <? base) eqn:Hlt.
    + exists 1. simpl eval_digits. rewrite Z.mod_small by lia.
      rewrite dval_digit_char by lia. rewrite Hlt. split; [f_equal; lia|lia].
    + assert (Hq : 0 <= z / base < 2 ^ Z.of_nat f).
      { split; [apply Z.div_pos; lia|].
        apply Z.div_lt_upper_bound; [lia|].
        rewrite Nat2Z.inj_succ, Z.pow_succ_r in Hz by lia. nia. }
      destruct (IH (z / base) (String (digit_char (z mod base)) acc) v0 Hq) as (k & Hk & Hk0).
      exists (k + 1). rewrite Hk. simpl eval_digits.
      assert (Hm : 0 <= z mod base < base) by (apply Z.mod_pos_bound; lia).
      rewrite dval_digit_char by lia.
      replace (z mod base <? base) with true by lia.
      split; [|lia]. f_equal. rewrite Z.pow_add_r by lia.
      pose proof (Z.div_mod z base ltac:(lia)). nia.
Qed.

Lemma log2_fuel z : 0 <= z -> 0 <= z < 2 ^ Z.of_nat (S (Z.to_nat (Z.log2 z))).
Proof.
  intros Hz. split; [lia|].
  rewrite Nat2Z.inj_succ, Z2Nat.id by apply Z.log2_nonneg.
  destruct (Z.eq_dec z 0) as [->|Hne]; [reflexivity|].
  apply Z.log2_spec. lia.
Qed.

Lemma int_digits_nonempty fuel z base acc :
  int_digits (S fuel) z base acc <> EmptyString.
Proof.
  revert z acc. induction fuel as [|f IH]; intros z acc; cbn [int_digits].
  - destruct (z <? base); discriminate.
  - destruct (z <? base); [discriminate|]. apply IH.
Qed.

Lemma int_digits_head_not_minus base : 2 <= base <= 36 ->
  forall fuel z acc c r, 0 <= z ->
    int_digits (S fuel) z base acc = String c r -> Ascii.eqb c "-" = false.
Proof.
  intros Hb. induction fuel as [|f IH]; intros z acc c r Hz; cbn [int_digits].
  - assert (Hd : forall d, 0 <= d < 36 -> Ascii.eqb (digit_char d) "-" = false).
    { intros d Hd. pose proof (dval_digit_char d Hd) as E.
      destruct (Ascii.eqb (digit_char d) "-") eqn:E2; auto.
      apply Ascii.eqb_eq in E2. rewrite E2 in E. discriminate. }
    assert (Hm : 0 <= z mod base < base) by (apply Z.mod_pos_bound; lia).
    destruct (z <? base); intros [= <- _]; apply Hd; lia.
  - assert (Hd : forall d, 0 <= d < 36 -> Ascii.eqb (digit_char d) "-" = false).
    { intros d Hd. pose proof (dval_digit_char d Hd) as E.
      destruct (Ascii.eqb (digit_char d) "-") eqn:E2; auto.
      apply Ascii.eqb_eq in E2. rewrite E2 in E. discriminate. }
    assert (Hm : 0 <= z mod base < base) by (apply Z.mod_pos_bound; lia).
    destruct (z <? base).
    + intros [= <- _]; apply Hd; lia.
    + apply IH. apply Z.div_pos; lia.
Qed.

(* strconv.FormatInt as re-implemented in Base/Decimal.v writes the positional numeral:
   its output, read back as a base-[base] numeral over 0-9a-z with an optional minus sign,
   is the input *)
Theorem format_int_denotes z base :
  2 <= base <= 36 -> eval_numeral base (format_int z base) = Some z.
Proof.
  intros Hb. unfold format_int. destruct (z <? 0) eqn:Hneg.
  - unfold eval_numeral. replace (Ascii.eqb "-" "-") with true by reflexivity.
    destruct (int_digits _ (- z) base "") eqn:E.
    + exfalso. eapply int_digits_nonempty; eauto.
    + rewrite <- E.
      destruct (int_digits_denotes base Hb _ (- z) "" 0 (log2_fuel (- z) ltac:(lia)))
        as (k & Hk & _).
      rewrite Hk. simpl. f_equal. lia.
  - unfold eval_numeral.
    destruct (int_digits _ z base "") eqn:E.
    + exfalso. eapply int_digits_nonempty; eauto.
    + rewrite (int_digits_head_not_minus base Hb _ z "" a s ltac:(lia) E).
      rewrite <- E.
      destruct (int_digits_denotes base Hb _ z "" 0 (log2_fuel z ltac:(lia))) as (k & Hk & _).
      rewrite Hk. simpl. f_equal.
Qed.
Print Assumptions format_int_denotes.

Section FormatBase.
  Variable parse_float_fn : string -> pfres.
  Variable format_int_fn : Z -> Z -> string.
  Variable shortest_fn : f64 -> Z * Z.
  Hypothesis format_int_fn_denotes :
    forall z base, 2 <= base <= 36 -> eval_numeral base (format_int_fn z base) = Some z.

  Let rnd := round parse_float_fn format_int_fn shortest_fn.
  Let fbase := format_base parse_float_fn format_int_fn shortest_fn.

  Definition radix_of (base : option f64) : Z :=
    match base with Some b => go_int (rnd b None) | None => 10 end.

  (* THEOREM 4: FormatBase is an error exactly when the radix (the second argument rounded
     by Round and converted with int(), default 10) is outside 2..36; otherwise its result
     is a numeral over 0-9a-z with an optional minus sign that denotes, in that radix,
     int64(Round(value)). *)
  Theorem format_base_spec value base :
    let radix := radix_of base in
    (2 <= radix <= 36 ->
       exists s, fbase value base = LOk s /\
                 eval_numeral radix s = Some (go_int (rnd value None))) /\
    (~ 2 <= radix <= 36 -> exists t, fbase value base = LErr t).
  Proof.
    intros radix. subst fbase. unfold format_base. fold rnd. fold (radix_of base). fold radix.
    split; intros H.
    - replace ((radix <? 2) || (36 <? radix)) with false by lia.
      eexists; split; [reflexivity|]. now apply format_int_fn_denotes.
    - replace ((radix <? 2) || (36 <? radix)) with true by lia. eauto.
  Qed.

End FormatBase.

(* the closed instance used by the evaluator *)
Theorem go_format_base_spec value base :
  let radix := match base with Some b => go_int (go_round b None) | None => 10 end in
  (2 <= radix <= 36 ->
     exists s, go_format_base value base = LOk s /\
               eval_numeral radix s = Some (go_int (go_round value None))) /\
  (~ 2 <= radix <= 36 -> exists t, go_format_base value base = LErr t).
Proof.
  exact (format_base_spec go_parse_float format_int go_shortest format_int_denotes value base).
Qed.
Print Assumptions go_format_base_spec.

Example go_format_base_ex :
  go_format_base (f_of_Z 255) (Some (f_of_Z 16)) = LOk "ff" /\
  eval_numeral 16 "ff" = Some 255 /\
  go_format_base (f_of_Z (-255)) (Some (f_of_Z 2)) = LOk "-11111111" /\
  (exists t, go_format_base (f_of_Z 255) (Some (f_of_Z 37)) = LErr t).
Proof. repeat split; try (vm_compute; reflexivity). eexists. vm_compute. reflexivity. Qed.

(* ------------------------------------------------------------------------------------ *)
(* 5. Round is half-to-even on the decimal digits (after the repair).                     *)
(*    The shortest numeral of |x| is m * 10^k (m a positive integer without trailing zero); *)
(*    rounding at the p-th fraction digit drops d = -(k+p) digits: q = RNE(m / 10^d), and   *)
(*    the result is the double nearest to q * 10^-p (strconv.ParseFloat, proved correctly   *)
(*    rounded in DecimalProofs).  rne_div_spec is the integer half of the statement.        *)
(*    (Before the repair the scaled value was rounded to a double first: round_false_tie.)  *)
(* ------------------------------------------------------------------------------------ *)
Definition rne_div (m pw : Z) : Z :=
  let q := m / pw in let r := m mod pw in
  if (pw <? 2 * r) || ((2 * r =? pw) && Z.odd q) then q + 1 else q.

(* q = rne_div m pw is an integer nearest to m / pw, and the even one of the two when m / pw is
   exactly half-way *)
Theorem rne_div_spec m pw : 0 < pw -> 0 <= m ->
  let q := rne_div m pw in
  2 * Z.abs (q * pw - m) <= pw /\ (2 * Z.abs (q * pw - m) = pw -> Z.even q = true).
Proof.
  intros Hpw Hm. unfold rne_div. cbv zeta.
  pose proof (Z.div_mod m pw ltac:(lia)) as E. pose proof (Z.mod_pos_bound m pw Hpw) as B.
  set (q0 := m / pw) in *. set (r := m mod pw) in *.
  destruct (pw <? 2 * r) eqn:C1; cbn [orb].
  - split; [nia|]. intros H. exfalso. nia.
  - destruct (2 * r =? pw) eqn:C2; cbn [andb].
    + destruct (Z.odd q0) eqn:O.
      * split; [nia|]. intros _. rewrite Z.even_add, <- Z.negb_odd, O. reflexivity.
      * split; [nia|]. intros _. rewrite <- Z.negb_odd, O. reflexivity.
    + split; [nia|]. intros H. exfalso. nia.
Qed.
Print Assumptions rne_div_spec.

(* Round, for a finite non-zero x whose rounding position lies inside its digits, is the double that
   ParseFloat reads from  rne_div m 10^d  followed by the exponent -p  (sign restored) *)
Theorem go_round_digits x p m k :
  feqb x fzero = false -> is_nan x = false -> is_inf x = false ->
  go_shortest (fabs x) = (m, k) ->
  p <= 400 -> k + p < 0 -> -400 <= p -> - (k + p) <= Z.of_nat (slen (format_int m 10)) ->
  let q := rne_div m (10 ^ (- (k + p))) in
  go_round x (Some p) =
    if q =? 0 then fzero
    else match go_parse_float (format_int q 10 ++ "e" ++ format_int (- p) 10) with
         | PfOk res => if is_inf res then x else if fltb x fzero then fopp res else res
         | _ => x
         end.
Proof.
  intros Hz Hn Hi Hs Hp1 Hk Hp2 Hd. cbv zeta. unfold go_round, round. rewrite Hz, Hn, Hi. cbn [orb].
  rewrite Hs. unfold itoa.
  replace (400 <? p) with false by lia. replace (0 <=? k + p) with false by lia. cbn [orb].
  replace (p <? -400) with false by lia.
  replace (Z.of_nat (slen (format_int m 10)) <? - (k + p)) with false by lia. cbn [orb].
  unfold rne_div, pow10_small. reflexivity.
Qed.
Print Assumptions go_round_digits.

Definition dec (s : string) : f64 := match parse_float s with PFOk x => x | _ => S754_nan end.

(* repaired (math.Round instead of floor(x + 0.5)): the predecessor of 0.5 rounds to 0,
   $round(450359962737049.7, 1) is unchanged *)
Example round_pred_half_repaired :
  go_round (dec "0.49999999999999994") None = fzero /\
  go_round (dec "-0.49999999999999994") None = fzero /\
  go_format_base (dec "0.49999999999999994") None = LOk "0"%string /\
  go_round (dec "450359962737049.7") (Some 1) = dec "450359962737049.7".
Proof. repeat split; vm_compute; reflexivity. Qed.

(* REPAIRED: 225179981368524.94 (shortest form 2.2517998136852494e+14) shifted by one place is
   2251799813685249.4; the old code read that back as the double ...249.5, took it for a tie and
   returned 225179981368525; rounding on the digits gives 225179981368524.9 *)
Example round_false_tie_repaired :
  format_float_g (dec "225179981368524.94") = "2.2517998136852494e+14"%string /\
  go_round (dec "225179981368524.94") (Some 1) = dec "225179981368524.9".
Proof. split; vm_compute; reflexivity. Qed.

(* int64(float64) of a value beyond 2^63 is the amd64 "integer indefinite" value *)
Example format_base_defect_overflow :
  go_format_base (dec "1e19") None = LOk "-9223372036854775808"%string.
Proof. vm_compute. reflexivity. Qed.

(* ties of the shortest decimal value do go to even, at positive and negative precision *)
Example round_ties_to_even :
  go_round (dec "2.5") None = dec "2" /\ go_round (dec "3.5") None = dec "4" /\
  go_round (dec "-2.5") None = dec "-2" /\ go_round (dec "1.005") (Some 2) = dec "1" /\
  go_round (dec "2.675") (Some 2) = dec "2.68" /\ go_round (dec "25") (Some (-1)) = dec "20" /\
  go_round (dec "35") (Some (-1)) = dec "40".
Proof. repeat split; vm_compute; reflexivity. Qed.
