(* Proofs/MonadFacts.v — facts about the evaluator's state/error monad [M] and its list
   combinators, shared by the property proofs. *)
From JV Require Import Model.Value Model.LibCore.
Local Open Scope list_scope.

Lemma bind_ok {A B} (m : M A) (f : A -> M B) w b w2 :
  bind m f w = Ok b w2 <-> exists a w1, m w = Ok a w1 /\ f a w1 = Ok b w2.
Proof.
  unfold bind. split.
  - destruct (m w) as [a w1| | | |] eqn:E; intro H; try discriminate. eauto.
  - intros (a & w1 & E & H). now rewrite E.
Qed.

Lemma bind_err {A B} (m : M A) (f : A -> M B) w e :
  bind m f w = Err e <-> m w = Err e \/ exists a w1, m w = Ok a w1 /\ f a w1 = Err e.
Proof.
  unfold bind. split.
  - destruct (m w) as [a w1| e'| | |] eqn:E; intro H; try discriminate.
    + right. eauto.
    + left. inversion H. reflexivity.
  - intros [E|(a & w1 & E & H)]; now rewrite E.
Qed.

Lemma ret_ok {A} (a b : A) w w' : ret a w = Ok b w' <-> a = b /\ w = w'.
Proof. unfold ret. split; [intro H; inversion H; auto | intros [-> ->]; reflexivity]. Qed.

Lemma bind_ret_l {A B} (a : A) (f : A -> M B) w : bind (ret a) f w = f a w.
Proof. reflexivity. Qed.

(* a chain of successful evaluations threading the world left to right *)
Inductive steps {A B} (f : A -> M B) : list A -> world -> list B -> world -> Prop :=
| steps_nil w : steps f [] w [] w
| steps_cons x r w y w1 ys w2 :
    f x w = Ok y w1 -> steps f r w1 ys w2 -> steps f (x :: r) w (y :: ys) w2.

Lemma mapM_ok {A B} (f : A -> M B) l : forall w ys w',
  mapM f l w = Ok ys w' <-> steps f l w ys w'.
Proof.
  induction l as [|x r IH]; intros w ys w'; cbn [mapM].
  - rewrite ret_ok. split.
    + intros [<- <-]. constructor.
    + intro H; inversion H; subst; auto.
  - rewrite bind_ok. split.
    + intros (y & w1 & E & H). apply bind_ok in H as (ys' & w2 & E2 & H).
      apply ret_ok in H as [<- <-]. econstructor; eauto. now apply IH.
    + intro H; inversion H; subst. exists y, w1. split; auto.
      apply bind_ok. exists ys0, w'. split; [now apply IH | reflexivity].
Qed.

Lemma steps_length {A B} (f : A -> M B) l w ys w' : steps f l w ys w' -> List.length ys = List.length l.
Proof. induction 1; simpl; congruence. Qed.

(* a sub-evaluator that always succeeds with [g x] and leaves the world alone *)
Definition pure_ev {A B} (f : A -> M B) (g : A -> B) : Prop := forall x w, f x w = Ok (g x) w.

Lemma mapM_pure {A B} (f : A -> M B) g l w : pure_ev f g -> mapM f l w = Ok (map g l) w.
Proof.
  intro P. induction l as [|x r IH]; cbn [mapM map]; [reflexivity|].
  unfold bind at 1. rewrite P. unfold bind at 1. rewrite IH. reflexivity.
Qed.

Lemma foldM_ok_nil {A B} (f : B -> A -> M B) acc w : foldM f acc [] w = Ok acc w.
Proof. reflexivity. Qed.

Lemma foldM_cons {A B} (f : B -> A -> M B) acc x r w :
  foldM f acc (x :: r) w = bind (f acc x) (fun acc' => foldM f acc' r) w.
Proof. reflexivity. Qed.

Lemma somes_map_Some {A} (l : list A) : somes (map Some l) = l.
Proof. induction l; simpl; congruence. Qed.

Lemma somes_app {A} (l1 l2 : list (option A)) : somes (l1 ++ l2) = somes l1 ++ somes l2.
Proof. unfold somes. now rewrite flat_map_app. Qed.
