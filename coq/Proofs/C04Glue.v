(* Proofs/C04Glue.v — glue (i) of Proofs/C04Proofs.v and the end-to-end statement of property
   C04 for chains: from the SOURCE TEXT of a chain of simple operands and binary operators to
   the result of parse_raw.

   1. Exact-result lexing lemmas, one per token kind, from any error-free lexer state whose
      remaining input is  whitespace ++ token text ++ rest :
        next_eof   (end of input), next_word (names and the keywords and/or/in/null/true/false),
        next_var   ($name), next_sym1 / next_sym2 (one- and two-character symbols),
        next_op    (the 18 operators  + - * / % = != < <= > >= & ~> . and or in :=  with
                    allowRegex = false), next_num (non-negative integer literals, from
                    C11Proofs.scan_json_number), next_str (double-quoted strings without
                    escapes, from C04Proofs.scan_string_spec); whitespace is skipped with
                    skipWhitespace_mkL / C04_ws.
      Names are as general as the lexer allows for ASCII: first byte [name_start], further bytes
      [name_byte] (not whitespace, not a symbol byte); ident_word_ok shows that every
      [A-Za-z_][A-Za-z0-9_]* is one.  "function" is an ordinary name for the lexer and for the
      name nud, so it is not excluded.
   2. pratt_modelG / chainG: C04Proofs.C04_pratt_model re-proved for a stream predicate that
      exposes the final parser state (C04Proofs.stream only says that the token after the chain
      has binding power 0, parse_raw needs that it is the end of input) and for an arbitrary
      operand class [atomf] (C04Proofs.atom_node has no numbers, strings and booleans).  With
      Q := True, atomf := atom_node it is C04_pratt_model; C04Proofs.v is not modified.
   3. Chain texts: [text items tail] is  ws1 tok1 ws2 tok2 ... wsn tokn tail  where the tokens
      alternate operand / operator (first and last an operand), every ws and the tail are runs
      of whitespace (space, tab, LF, CR, VT), possibly empty; whitespace is REQUIRED only
      between two words (name / variable / and / or / in next to each other, or and/or/in
      before a number or a string) and between a number and a directly following dot
      ([chain_text_ok], a boolean).  [toks 0 items] is the token sequence with positions.
      C04_chain_stream: newParser on the text gives a state p0 with  stream false p0 (toks 0 items)
      (glue (i), stated with the frozen C04Proofs.stream for chains without literals;
      chain_streamG is the same for all chains with the extended operand class).
   4. C04_end_to_end (any fuel above the number of tokens), C04_end_to_end_parse_fuel,
      C04_end_to_end_names (in terms of C04Proofs.embed, chains without literals),
      C04_end_to_end_spaced (tokens separated by single spaces), C04_parse_of_tree.
   5. ident_word_ok and Examples.

   Not covered (the statements above are for the class described, nothing is assumed):
   * a dot operator written directly after a number literal ("1.a"; the lexer does split it
     into 1 . a, but C11Proofs.number_stop, used here, excludes a following dot; "1 .a" is
     covered);
   * number literals with fraction or exponent, number literals the conversion oracle rejects
     (then the parse is a number error, not a tree), single-quoted strings, strings with
     escapes, names with non-ASCII bytes or backquotes, the wildcard operands * and **;
   * operators that are not binary infix (the postfix ( ) [ ] { } ^( ) and ? :) — glue (ii) of
     C04Proofs.v. *)
From JV Require Import Model.Lexer Model.Parser Proofs.LexerProofs Proofs.ParserProofs
  Proofs.Utf8Proofs Gen.ParseTables Spec.C04 Proofs.C04Proofs Spec.C11 Proofs.C11Proofs.
From Coq Require Import Lia ZifyBool ZifyNat.
Open Scope Z_scope.

(* ==================================================================================== *)
(* 1. Exact-result lexing lemmas                                                         *)
(* ==================================================================================== *)

(* ---- byte classes ---- *)

(* a byte that is (the start of) a one- or two-character symbol of the lexer *)
Definition sym_byte (c : ascii) : bool :=
  tt_pos (lookupSymbol1 (byte_of c)) || negb (is_nil (lookupSymbol2 (byte_of c))).

(* a byte that scanName keeps inside a name: ASCII, not whitespace, not a symbol *)
Definition name_byte (c : ascii) : bool :=
  (byte_of c <? 128) && negb (is_ws_byte c) && negb (sym_byte c).

Fixpoint name_bytes (s : string) : bool :=
  match s with EmptyString => true | String c r => name_byte c && name_bytes r end.

(* what may follow a name / variable / keyword: end of input, whitespace or a symbol *)
Definition word_end (rest : string) : bool :=
  match rest with EmptyString => true | String d _ => is_ws_byte d || sym_byte d end.

Lemma sym_byte_ascii d : sym_byte d = true -> byte_of d < 128.
Proof.
  unfold sym_byte. intros H. apply orb_true_iff in H as [H|H].
  - apply lookupSymbol1_range in H. lia.
  - assert (lookupSymbol2 (byte_of d) <> []) by (destruct (lookupSymbol2 (byte_of d)); [discriminate|congruence]).
    apply lookupSymbol2_range in H0. lia.
Qed.

Lemma name_byte_facts c : name_byte c = true ->
  byte_of c < 128 /\ isWhitespace (byte_of c) = false /\
  tt_pos (lookupSymbol1 (byte_of c)) = false /\ is_nil (lookupSymbol2 (byte_of c)) = true.
Proof.
  unfold name_byte, sym_byte, is_ws_byte. intros H.
  apply andb_true_iff in H as [H H3]. apply andb_true_iff in H as [H1 H2].
  destruct (isWhitespace (byte_of c)); [discriminate|].
  destruct (tt_pos (lookupSymbol1 (byte_of c))); [discriminate|].
  destruct (is_nil (lookupSymbol2 (byte_of c))); [|discriminate].
  repeat split; lia.
Qed.

Lemma sdrop_step k inp c s : 0 <= k -> sdrop (Z.to_nat k) inp = String c s ->
  sdrop (Z.to_nat (k + Z.of_nat 1)) inp = s.
Proof.
  intros Hk H. replace (Z.to_nat (k + Z.of_nat 1)) with (S (Z.to_nat k)) by lia.
  eapply sdrop_next; eauto.
Qed.

Lemma sdrop_bound k inp a b : sdrop k inp = (a ++ b)%string -> a <> EmptyString ->
  (k + slen a + slen b = slen inp)%nat.
Proof.
  intros H Ha. apply (f_equal slen) in H. rewrite slen_sdrop, slen_app in H.
  destruct a; [congruence|]. simpl in *. lia.
Qed.

(* ---- scanName ---- *)

(* the loop of scanName, not in its first iteration, runs over name bytes up to a word end *)
Lemma scanNameLoop_word : forall w fuel inp st cur wd rest, 0 <= cur ->
  sdrop (Z.to_nat cur) inp = (w ++ rest)%string -> name_bytes w = true -> word_end rest = true ->
  (slen w < fuel)%nat ->
  scanNameLoop fuel false (mkL inp st cur wd) =
  ROk (tt, mkL inp st (cur + Z.of_nat (slen w)) (match rest with EmptyString => 0 | _ => 1 end)).
Proof.
  induction w as [|c w IH]; intros fuel inp st cur wd rest Hc Hrem Hn He Hf.
  - destruct fuel as [|f]; [simpl in Hf; lia|]. cbn [append] in Hrem.
    cbn [scanNameLoop]. unfold sbind at 1. rewrite nextRune_mkL by exact Hc. rewrite Hrem.
    destruct rest as [|d r].
    + replace (eof =? eof) with true by reflexivity. unfold sret. f_equal. f_equal.
      apply mkL_eq; simpl; lia.
    + cbv beta iota zeta. cbn [word_end] in He.
      assert (Hd : byte_of d < 128).
      { apply orb_true_iff in He as [He|He]; [apply ws_byte_ascii; exact He|apply sym_byte_ascii; exact He]. }
      rewrite decode_rune_ascii by exact Hd. cbn [fst snd].
      pose proof (byte_of_range d) as Rd.
      replace (byte_of d =? eof) with false by (unfold eof; lia).
      cbn [negb andb].
      fold (is_ws_byte d).
      change (tt_pos (lookupSymbol1 (byte_of d)) || negb (is_nil (lookupSymbol2 (byte_of d)))) with (sym_byte d).
      assert (Hb : backup (mkL inp st (cur + Z.of_nat 1) (Z.of_nat 1)) =
                   ROk (tt, mkL inp st (cur + Z.of_nat (slen EmptyString)) 1)).
      { unfold backup. change (slen EmptyString) with 0%nat. f_equal. f_equal. lex_eq. }
      destruct (is_ws_byte d); [exact Hb|]. cbn [orb] in He. rewrite He. exact Hb.
  - destruct fuel as [|f]; [simpl in Hf; lia|]. cbn [append] in Hrem.
    cbn [name_bytes] in Hn. apply andb_true_iff in Hn as [Hn1 Hn2].
    destruct (name_byte_facts c Hn1) as (Hc1 & Hc2 & Hc3 & Hc4).
    cbn [scanNameLoop]. unfold sbind at 1. rewrite nextRune_mkL by exact Hc. rewrite Hrem.
    cbv beta iota zeta. rewrite decode_rune_ascii by exact Hc1. cbn [fst snd].
    pose proof (byte_of_range c) as Rc.
    replace (byte_of c =? eof) with false by (unfold eof; lia).
    rewrite Hc2, Hc3, Hc4. cbn [negb andb orb].
    rewrite (IH f inp st (cur + Z.of_nat 1) (Z.of_nat 1) rest); auto; try lia.
    + f_equal. f_equal. apply mkL_eq; auto. cbn [slen String.length]. unfold slen. lia.
    + apply (sdrop_step _ _ _ _ Hc Hrem).
    + simpl in Hf. unfold slen in *. lia.
Qed.

(* newToken on an error-free state with valid bounds *)
Lemma newToken_mkL ty inp st cur wd : 0 <= st <= cur -> cur <= Z.of_nat (slen inp) ->
  newToken ty (mkL inp st cur wd) =
  ROk ({| ttype := ty; tvalue := sslice (Z.to_nat st) (Z.to_nat cur) inp; tpos := st |},
       mkL inp cur cur 0).
Proof.
  intros H1 H2. unfold newToken, llength. cbn [mkL input start current width err].
  replace ((0 <=? st) && (st <=? cur) && (cur <=? Z.of_nat (slen inp))) with true by lia.
  reflexivity.
Qed.

Lemma sslice_text st inp w rest : 0 <= st -> sdrop (Z.to_nat st) inp = (w ++ rest)%string ->
  sslice (Z.to_nat st) (Z.to_nat (st + Z.of_nat (slen w))) inp = w.
Proof.
  intros Hs H. unfold sslice.
  replace (Z.to_nat (st + Z.of_nat (slen w)) - Z.to_nat st)%nat with (slen w) by lia.
  rewrite H. apply stake_app_exact.
Qed.

(* ---- the dispatch of [next] after the whitespace and the first rune ---- *)

Definition next_k (fuel : nat) (allowRegex : bool) (c : rune) : LM token :=
  if c =? eof then eofToken
  else if allowRegex && (c =? ch "/") then (ignore ;; scanRegex fuel c)
  else
    do two <- trySymbols2 (lookupSymbol2 c);
    match two with
    | Some t => sret t
    | None =>
        let tt1 := lookupSymbol1 c in
        if tt_pos tt1 then newToken tt1
        else if (c =? ch """") || (c =? ch "'") then (ignore ;; scanString fuel c)
        else if (ch "0" <=? c) && (c <=? ch "9") then (backup ;; scanNumber fuel)
        else if c =? ch "`" then (ignore ;; scanEscapedName fuel c)
        else ((fun l => ROk (tt, set_current (start l) l)) ;; scanName fuel)
    end.

Lemma next_eq fuel flag :
  next fuel flag = (skipWhitespace fuel ;; do c <- nextRune; next_k fuel flag c).
Proof. reflexivity. Qed.

Lemma ws_len_all ws : all_ws ws = true -> ws_len ws = slen ws.
Proof.
  intros H. pose proof (ws_len_app ws EmptyString H) as E. rewrite sapp_nil_r in E.
  rewrite E. simpl. lia.
Qed.

(* whitespace, then an ASCII non-whitespace byte c: [next] continues with [next_k] on c *)
Lemma next_start fuel flag inp st cur wd ws c rest : 0 <= cur ->
  sdrop (Z.to_nat cur) inp = (ws ++ String c rest)%string -> all_ws ws = true ->
  is_ws_byte c = false -> byte_of c < 128 -> (slen ws < fuel)%nat ->
  next fuel flag (mkL inp st cur wd) =
  next_k fuel flag (byte_of c)
    (mkL inp (cur + Z.of_nat (slen ws)) (cur + Z.of_nat (slen ws) + 1) 1).
Proof.
  intros Hc Hrem Hws Hnw Hasc Hf.
  assert (Hwl : ws_len (ws ++ String c rest) = slen ws).
  { rewrite ws_len_app by exact Hws. cbn [ws_len]. rewrite Hnw. lia. }
  assert (Hrem0 : sdrop (Z.to_nat (cur + Z.of_nat (slen ws))) inp = String c rest).
  { replace (Z.to_nat (cur + Z.of_nat (slen ws))) with (Z.to_nat cur + slen ws)%nat by lia.
    rewrite (sdrop_plus _ _ _ _ Hrem). apply sdrop_app_exact. }
  rewrite next_eq. unfold sbind at 1.
  rewrite skipWhitespace_mkL; [|exact Hc|rewrite Hrem, Hwl; exact Hf].
  rewrite Hrem, Hwl. rewrite Hrem0.
  unfold sbind at 1. rewrite nextRune_mkL by lia. rewrite Hrem0. cbv beta iota zeta.
  rewrite decode_rune_ascii by exact Hasc. cbn [fst snd].
  f_equal.
Qed.

(* end of input (after optional whitespace) *)
Lemma next_eof fuel flag inp st cur wd ws : 0 <= cur ->
  sdrop (Z.to_nat cur) inp = ws -> all_ws ws = true -> (slen ws < fuel)%nat ->
  next fuel flag (mkL inp st cur wd) =
  ROk ({| ttype := typeEOF; tvalue := ""; tpos := cur + Z.of_nat (slen ws) |},
       mkL inp (cur + Z.of_nat (slen ws)) (cur + Z.of_nat (slen ws)) 0).
Proof.
  intros Hc Hrem Hws Hf.
  assert (Hrem0 : sdrop (Z.to_nat (cur + Z.of_nat (slen ws))) inp = EmptyString).
  { replace (Z.to_nat (cur + Z.of_nat (slen ws))) with (Z.to_nat cur + slen ws)%nat by lia.
    rewrite (sdrop_plus _ _ _ _ Hrem). rewrite <- (sapp_nil_r ws) at 2. apply sdrop_app_exact. }
  rewrite next_eq. unfold sbind at 1.
  rewrite skipWhitespace_mkL; [|exact Hc|rewrite Hrem, ws_len_all by exact Hws; exact Hf].
  rewrite Hrem, ws_len_all by exact Hws. rewrite Hrem0.
  unfold sbind at 1. rewrite nextRune_mkL by lia. rewrite Hrem0.
  unfold next_k. replace (eof =? eof) with true by reflexivity.
  reflexivity.
Qed.

(* ---- names, keywords, variables ---- *)

(* a byte that can start a (non-variable, unquoted) name *)
Definition name_start (c : ascii) : bool :=
  name_byte c && negb (byte_of c =? 34) && negb (byte_of c =? 39) && negb (byte_of c =? 96)
  && negb (byte_of c =? 36) && negb ((48 <=? byte_of c) && (byte_of c <=? 57)).

Definition word_ok (w : string) : bool :=
  match w with EmptyString => false | String c r => name_start c && name_bytes r end.

(* the token type of a word: keyword or name *)
Definition word_type (w : string) : tokentype :=
  if tt_pos (lookupKeyword w) then lookupKeyword w else typeName.

Lemma name_start_facts c : name_start c = true ->
  name_byte c = true /\ byte_of c <> 34 /\ byte_of c <> 39 /\ byte_of c <> 96 /\ byte_of c <> 36 /\
  ((48 <=? byte_of c) && (byte_of c <=? 57)) = false.
Proof.
  unfold name_start. intros H.
  do 5 (apply andb_true_iff in H as [H ?]).
  repeat split; try lia; try exact H.
Qed.

Lemma scanNameLoop_first c w fuel inp st cur wd rest : 0 <= cur ->
  sdrop (Z.to_nat cur) inp = (String c w ++ rest)%string -> name_byte c = true ->
  name_bytes w = true -> word_end rest = true -> (slen (String c w) < fuel)%nat ->
  forall first,
  scanNameLoop fuel first (mkL inp st cur wd) =
  ROk (tt, mkL inp st (cur + Z.of_nat (slen (String c w))) (match rest with EmptyString => 0 | _ => 1 end)).
Proof.
  intros Hc Hrem Hn1 Hn2 He Hf first.
  destruct first.
  2:{ apply scanNameLoop_word; auto. cbn [name_bytes]. rewrite Hn1, Hn2. reflexivity. }
  destruct fuel as [|f]; [lia|]. cbn [append] in Hrem.
  destruct (name_byte_facts c Hn1) as (Hc1 & Hc2 & Hc3 & Hc4).
  cbn [scanNameLoop]. unfold sbind at 1. rewrite nextRune_mkL by exact Hc. rewrite Hrem.
  cbv beta iota zeta. rewrite decode_rune_ascii by exact Hc1. cbn [fst snd].
  pose proof (byte_of_range c) as Rc.
  replace (byte_of c =? eof) with false by (unfold eof; lia).
  rewrite Hc2. cbn [negb andb].
  rewrite (scanNameLoop_word w f inp st (cur + Z.of_nat 1) (Z.of_nat 1) rest); auto; try lia.
  - f_equal. f_equal. apply mkL_eq; auto. cbn [slen String.length]. unfold slen. lia.
  - apply (sdrop_step _ _ _ _ Hc Hrem).
  - simpl in Hf. unfold slen in *. lia.
Qed.

(* scanName on a word that does not start with $ *)
Lemma scanName_word c w fuel inp cur wd rest : 0 <= cur ->
  sdrop (Z.to_nat cur) inp = (String c w ++ rest)%string -> name_byte c = true -> byte_of c <> 36 ->
  name_bytes w = true -> word_end rest = true -> (slen (String c w) < fuel)%nat ->
  scanName fuel (mkL inp cur cur wd) =
  ROk ({| ttype := word_type (String c w); tvalue := String c w; tpos := cur |},
       mkL inp (cur + Z.of_nat (slen (String c w))) (cur + Z.of_nat (slen (String c w))) 0).
Proof.
  intros Hc Hrem Hn1 Hd Hn2 He Hf.
  destruct (name_byte_facts c Hn1) as (Hc1 & Hc2 & Hc3 & Hc4).
  pose proof (sdrop_bound _ _ _ _ Hrem ltac:(discriminate)) as Hb.
  unfold scanName. unfold sbind at 1. unfold acceptRune.
  rewrite accept_mkL by (try exact Hc; reflexivity). rewrite Hrem. cbn [append]. cbv beta iota zeta.
  rewrite decode_rune_ascii by exact Hc1. cbn [fst snd].
  replace (byte_of c =? ch "$") with false by (change (ch "$") with 36; lia).
  unfold sbind at 1. unfold sret at 1. unfold sbind at 1. cbn [negb].
  rewrite (scanNameLoop_first c w fuel inp cur cur (Z.of_nat 1) rest Hc Hrem Hn1 Hn2 He Hf true).
  unfold sbind at 1.
  rewrite newToken_mkL by lia.
  rewrite (sslice_text cur inp (String c w) rest Hc Hrem).
  cbn [tvalue]. unfold word_type. destruct (tt_pos (lookupKeyword (String c w))); reflexivity.
Qed.

(* [next] on a name or keyword *)
Theorem next_word fuel flag inp st cur wd ws w rest : 0 <= cur ->
  sdrop (Z.to_nat cur) inp = (ws ++ w ++ rest)%string -> all_ws ws = true ->
  word_ok w = true -> word_end rest = true -> (slen inp < fuel)%nat ->
  next fuel flag (mkL inp st cur wd) =
  ROk ({| ttype := word_type w; tvalue := w; tpos := cur + Z.of_nat (slen ws) |},
       mkL inp (cur + Z.of_nat (slen ws) + Z.of_nat (slen w))
               (cur + Z.of_nat (slen ws) + Z.of_nat (slen w)) 0).
Proof.
  intros Hc Hrem Hws Hw He Hf.
  destruct w as [|c w]; [discriminate|]. cbn [word_ok] in Hw. apply andb_true_iff in Hw as [Hs Hn2].
  destruct (name_start_facts c Hs) as (Hn1 & H34 & H39 & H96 & H36 & Hdig).
  destruct (name_byte_facts c Hn1) as (Hc1 & Hc2 & Hc3 & Hc4).
  pose proof (byte_of_range c) as Rc.
  assert (Hlen : (Z.to_nat cur + slen ws + slen (String c w ++ rest) = slen inp)%nat).
  { apply (f_equal slen) in Hrem. rewrite slen_sdrop, !slen_app in Hrem. rewrite slen_app.
    simpl in *. lia. }
  rewrite slen_app in Hlen.
  assert (Hrem0 : sdrop (Z.to_nat (cur + Z.of_nat (slen ws))) inp = (String c w ++ rest)%string).
  { replace (Z.to_nat (cur + Z.of_nat (slen ws))) with (Z.to_nat cur + slen ws)%nat by lia.
    rewrite (sdrop_plus _ _ _ _ Hrem). apply sdrop_app_exact. }
  cbn [append] in Hrem.
  rewrite (next_start fuel flag inp st cur wd ws c (w ++ rest) Hc Hrem Hws Hc2 Hc1 ltac:(lia)).
  unfold next_k.
  replace (byte_of c =? eof) with false by (unfold eof; lia).
  assert (H47 : (byte_of c =? ch "/") = false).
  { destruct (byte_of c =? ch "/") eqn:E; [|reflexivity]. apply Z.eqb_eq in E. rewrite E in Hc3.
    vm_compute in Hc3. discriminate Hc3. }
  rewrite H47, andb_false_r.
  destruct (lookupSymbol2 (byte_of c)); [|discriminate Hc4].
  cbn [trySymbols2]. unfold sbind at 1. unfold sret at 1. cbv beta iota zeta.
  rewrite Hc3.
  replace ((byte_of c =? ch """") || (byte_of c =? ch "'")) with false
    by (change (ch """") with 34; change (ch "'") with 39; lia).
  change (ch "0") with 48. change (ch "9") with 57. rewrite Hdig.
  replace (byte_of c =? ch "`") with false by (change (ch "`") with 96; lia).
  unfold sbind at 1. unfold set_current. cbn [mkL input start current width err].
  change ({| input := inp; start := cur + Z.of_nat (slen ws); current := cur + Z.of_nat (slen ws);
             width := 1; err := None |}) with (mkL inp (cur + Z.of_nat (slen ws)) (cur + Z.of_nat (slen ws)) 1).
  rewrite (scanName_word c w fuel inp (cur + Z.of_nat (slen ws)) 1 rest); auto; try lia.
Qed.

(* [next] on a variable: $ followed by name bytes (possibly none) *)
Theorem next_var fuel flag inp st cur wd ws w rest : 0 <= cur ->
  sdrop (Z.to_nat cur) inp = (ws ++ String "$" w ++ rest)%string -> all_ws ws = true ->
  name_bytes w = true -> word_end rest = true -> (slen inp < fuel)%nat ->
  next fuel flag (mkL inp st cur wd) =
  ROk ({| ttype := typeVariable; tvalue := w; tpos := cur + Z.of_nat (slen ws) + 1 |},
       mkL inp (cur + Z.of_nat (slen ws) + 1 + Z.of_nat (slen w))
               (cur + Z.of_nat (slen ws) + 1 + Z.of_nat (slen w)) 0).
Proof.
  intros Hc Hrem Hws Hn He Hf.
  assert (Hlen : (Z.to_nat cur + slen ws + slen (String "$" w ++ rest) = slen inp)%nat).
  { apply (f_equal slen) in Hrem. rewrite slen_sdrop, !slen_app in Hrem. rewrite slen_app.
    simpl in *. lia. }
  rewrite slen_app in Hlen. cbn [slen String.length] in Hlen. fold (slen w) in Hlen.
  set (c0 := cur + Z.of_nat (slen ws)) in *.
  assert (Hrem0 : sdrop (Z.to_nat c0) inp = (String "$" w ++ rest)%string).
  { subst c0. replace (Z.to_nat (cur + Z.of_nat (slen ws))) with (Z.to_nat cur + slen ws)%nat by lia.
    rewrite (sdrop_plus _ _ _ _ Hrem). apply sdrop_app_exact. }
  cbn [append] in Hrem, Hrem0.
  assert (Hrem1 : sdrop (Z.to_nat (c0 + Z.of_nat 1)) inp = (w ++ rest)%string).
  { apply (sdrop_step c0 inp "$"%char); [lia|exact Hrem0]. }
  rewrite (next_start fuel flag inp st cur wd ws "$"%char (w ++ rest) Hc Hrem Hws eq_refl ltac:(reflexivity) ltac:(lia)).
  fold c0.
  change (byte_of "$") with 36.
  unfold next_k.
  change (36 =? eof) with false. change (36 =? ch "/") with false. rewrite andb_false_r.
  change (lookupSymbol2 36) with (@nil (rune * tokentype)).
  cbn [trySymbols2]. unfold sbind at 1. unfold sret at 1. cbv beta iota zeta.
  change (lookupSymbol1 36) with typeEOF. change (tt_pos typeEOF) with false.
  change ((36 =? ch """") || (36 =? ch "'")) with false.
  change ((ch "0" <=? 36) && (36 <=? ch "9")) with false.
  change (36 =? ch "`") with false. cbv iota.
  unfold sbind at 1. unfold set_current. cbn [mkL input start current width err].
  change ({| input := inp; start := c0; current := c0; width := 1; err := None |}) with (mkL inp c0 c0 1).
  unfold scanName. unfold sbind at 1. unfold acceptRune.
  rewrite accept_mkL by (try lia; reflexivity). rewrite Hrem0. cbv beta iota zeta.
  rewrite decode_rune_ascii by reflexivity. cbn [fst snd].
  change (byte_of "$" =? ch "$") with true. cbv iota.
  unfold sbind at 1. unfold sbind at 1. unfold ignore at 1.
  cbn [mkL input start current width err].
  change (set_start (c0 + Z.of_nat 1) (mkL inp c0 (c0 + Z.of_nat 1) (Z.of_nat 1)))
    with (mkL inp (c0 + Z.of_nat 1) (c0 + Z.of_nat 1) (Z.of_nat 1)).
  cbn [negb].
  rewrite (scanNameLoop_word w fuel inp (c0 + Z.of_nat 1) (c0 + Z.of_nat 1) (Z.of_nat 1) rest); auto; try lia.
  unfold sbind at 1.
  rewrite newToken_mkL by lia.
  rewrite (sslice_text (c0 + Z.of_nat 1) inp w rest ltac:(lia) Hrem1).
  unfold sret, set_ttype. cbn [ttype tvalue tpos].
  reflexivity.
Qed.

(* ---- symbols ---- *)

(* what may follow a one-character symbol so that it is not read as a two-character one:
   an ASCII byte other than = . > * (whitespace and the first byte of an operand qualify) *)
Definition after_sym_ok (rest : string) : bool :=
  match rest with
  | EmptyString => false
  | String d _ => (byte_of d <? 128) && negb (byte_of d =? 61) && negb (byte_of d =? 46)
                  && negb (byte_of d =? 62) && negb (byte_of d =? 42)
  end.

Lemma lookupSymbol2_cases r :
  lookupSymbol2 r = [] \/
  exists x ty, lookupSymbol2 r = [(x, ty)] /\ (x = 61 \/ x = 46 \/ x = 62 \/ x = 42).
Proof.
  unfold lookupSymbol2. destruct ((r <? 0) || (symbol2Count <=? r)); [left; reflexivity|].
  unfold symbols2.
  repeat match goal with
         | |- context [if ?b then _ else _] => destruct b
         end;
    first [left; reflexivity | right; eexists; eexists; split; [reflexivity|vm_compute; auto]].
Qed.

(* [next] on a one-character symbol *)
Theorem next_sym1 fuel flag inp st cur wd ws c rest : 0 <= cur ->
  sdrop (Z.to_nat cur) inp = (ws ++ String c rest)%string -> all_ws ws = true ->
  is_ws_byte c = false -> byte_of c < 128 -> tt_pos (lookupSymbol1 (byte_of c)) = true ->
  flag && (byte_of c =? ch "/") = false -> after_sym_ok rest = true -> (slen inp < fuel)%nat ->
  next fuel flag (mkL inp st cur wd) =
  ROk ({| ttype := lookupSymbol1 (byte_of c); tvalue := String c EmptyString;
          tpos := cur + Z.of_nat (slen ws) |},
       mkL inp (cur + Z.of_nat (slen ws) + 1) (cur + Z.of_nat (slen ws) + 1) 0).
Proof.
  intros Hc Hrem Hws Hnw Hasc Hs1 Hflag Haft Hf.
  assert (Hlen : (Z.to_nat cur + slen ws + slen (String c rest) = slen inp)%nat).
  { apply (f_equal slen) in Hrem. rewrite slen_sdrop, !slen_app in Hrem. simpl in *. lia. }
  cbn [slen String.length] in Hlen. fold (slen rest) in Hlen.
  set (c0 := cur + Z.of_nat (slen ws)) in *.
  assert (Hrem0 : sdrop (Z.to_nat c0) inp = (String c EmptyString ++ rest)%string).
  { subst c0. replace (Z.to_nat (cur + Z.of_nat (slen ws))) with (Z.to_nat cur + slen ws)%nat by lia.
    rewrite (sdrop_plus _ _ _ _ Hrem). apply sdrop_app_exact. }
  assert (Hrem1 : sdrop (Z.to_nat (c0 + Z.of_nat 1)) inp = rest).
  { apply (sdrop_step c0 inp c); [lia|exact Hrem0]. }
  pose proof (byte_of_range c) as Rc.
  rewrite (next_start fuel flag inp st cur wd ws c rest Hc Hrem Hws Hnw Hasc ltac:(lia)).
  fold c0. unfold next_k.
  replace (byte_of c =? eof) with false by (unfold eof; lia).
  rewrite Hflag.
  assert (Htry : exists w', trySymbols2 (lookupSymbol2 (byte_of c)) (mkL inp c0 (c0 + 1) 1) =
                            ROk (None, mkL inp c0 (c0 + 1) w')).
  { destruct (lookupSymbol2_cases (byte_of c)) as [E|(x & ty & E & Hx)]; rewrite E.
    - exists 1. reflexivity.
    - cbn [trySymbols2]. unfold sbind at 1. unfold acceptRune.
      rewrite accept_mkL by (try lia; unfold eof; lia).
      change (c0 + 1) with (c0 + Z.of_nat 1). rewrite Hrem1. cbv beta iota zeta.
      destruct rest as [|d r]; [discriminate Haft|]. cbn [after_sym_ok] in Haft.
      rewrite decode_rune_ascii by lia. cbn [fst snd].
      replace (byte_of d =? x) with false by lia.
      exists (Z.of_nat 1). reflexivity. }
  destruct Htry as (w' & Htry). unfold sbind at 1. rewrite Htry.
  rewrite Hs1.
  rewrite newToken_mkL by lia.
  change (c0 + 1) with (c0 + Z.of_nat (slen (String c EmptyString))).
  rewrite (sslice_text c0 inp (String c EmptyString) rest ltac:(lia) Hrem0).
  reflexivity.
Qed.

(* [next] on a two-character symbol *)
Theorem next_sym2 fuel flag inp st cur wd ws c d ty rest : 0 <= cur ->
  sdrop (Z.to_nat cur) inp = (ws ++ String c (String d rest))%string -> all_ws ws = true ->
  is_ws_byte c = false -> byte_of c < 128 -> byte_of d < 128 ->
  lookupSymbol2 (byte_of c) = [(byte_of d, ty)] ->
  flag && (byte_of c =? ch "/") = false -> (slen inp < fuel)%nat ->
  next fuel flag (mkL inp st cur wd) =
  ROk ({| ttype := ty; tvalue := String c (String d EmptyString);
          tpos := cur + Z.of_nat (slen ws) |},
       mkL inp (cur + Z.of_nat (slen ws) + 2) (cur + Z.of_nat (slen ws) + 2) 0).
Proof.
  intros Hc Hrem Hws Hnw Hasc Hascd Hs2 Hflag Hf.
  assert (Hlen : (Z.to_nat cur + slen ws + slen (String c (String d rest)) = slen inp)%nat).
  { apply (f_equal slen) in Hrem. rewrite slen_sdrop, !slen_app in Hrem. simpl in *. lia. }
  cbn [slen String.length] in Hlen. fold (slen rest) in Hlen.
  set (c0 := cur + Z.of_nat (slen ws)) in *.
  assert (Hrem0 : sdrop (Z.to_nat c0) inp = (String c (String d EmptyString) ++ rest)%string).
  { subst c0. replace (Z.to_nat (cur + Z.of_nat (slen ws))) with (Z.to_nat cur + slen ws)%nat by lia.
    rewrite (sdrop_plus _ _ _ _ Hrem). apply sdrop_app_exact. }
  assert (Hrem1 : sdrop (Z.to_nat (c0 + Z.of_nat 1)) inp = String d rest).
  { apply (sdrop_step c0 inp c); [lia|exact Hrem0]. }
  pose proof (byte_of_range c) as Rc. pose proof (byte_of_range d) as Rd.
  rewrite (next_start fuel flag inp st cur wd ws c (String d rest) Hc Hrem Hws Hnw Hasc ltac:(lia)).
  fold c0. unfold next_k.
  replace (byte_of c =? eof) with false by (unfold eof; lia).
  rewrite Hflag. rewrite Hs2.
  cbn [trySymbols2]. unfold sbind at 1. unfold sbind at 1. unfold acceptRune.
  rewrite accept_mkL by (try lia; unfold eof; lia).
  change (c0 + 1) with (c0 + Z.of_nat 1). rewrite Hrem1. cbv beta iota zeta.
  rewrite decode_rune_ascii by lia. cbn [fst snd]. rewrite Z.eqb_refl.
  unfold sbind at 1.
  rewrite newToken_mkL by lia.
  replace (c0 + Z.of_nat 1 + Z.of_nat 1) with (c0 + Z.of_nat (slen (String c (String d EmptyString))))
    by (cbn [slen String.length]; lia).
  rewrite (sslice_text c0 inp (String c (String d EmptyString)) rest ltac:(lia) Hrem0).
  unfold sret. f_equal.
Qed.

(* ---- the 18 operators of a chain ---- *)

Inductive opk :=
| OpPlus | OpMinus | OpMult | OpDiv | OpMod | OpEq | OpNe | OpLt | OpLe | OpGt | OpGe
| OpConcat | OpApply | OpDot | OpAnd | OpOr | OpIn | OpAssign.

Definition op_text (o : opk) : string :=
  match o with
  | OpPlus => "+" | OpMinus => "-" | OpMult => "*" | OpDiv => "/" | OpMod => "%"
  | OpEq => "=" | OpNe => "!=" | OpLt => "<" | OpLe => "<=" | OpGt => ">" | OpGe => ">="
  | OpConcat => "&" | OpApply => "~>" | OpDot => "." | OpAnd => "and" | OpOr => "or"
  | OpIn => "in" | OpAssign => ":="
  end.

Definition op_type (o : opk) : tokentype :=
  match o with
  | OpPlus => typePlus | OpMinus => typeMinus | OpMult => typeMult | OpDiv => typeDiv
  | OpMod => typeMod | OpEq => typeEqual | OpNe => typeNotEqual | OpLt => typeLess
  | OpLe => typeLessEqual | OpGt => typeGreater | OpGe => typeGreaterEqual
  | OpConcat => typeConcat | OpApply => typeApply | OpDot => typeDot | OpAnd => typeAnd
  | OpOr => typeOr | OpIn => typeIn | OpAssign => typeAssign
  end.

(* the operators spelled as words *)
Definition op_word (o : opk) : bool :=
  match o with OpAnd | OpOr | OpIn => true | _ => false end.

(* [next], called with allowRegex = false (as after an operand), on an operator *)
Theorem next_op o fuel inp st cur wd ws rest : 0 <= cur ->
  sdrop (Z.to_nat cur) inp = (ws ++ op_text o ++ rest)%string -> all_ws ws = true ->
  (if op_word o then word_end rest else after_sym_ok rest) = true -> (slen inp < fuel)%nat ->
  next fuel false (mkL inp st cur wd) =
  ROk ({| ttype := op_type o; tvalue := op_text o; tpos := cur + Z.of_nat (slen ws) |},
       mkL inp (cur + Z.of_nat (slen ws) + Z.of_nat (slen (op_text o)))
               (cur + Z.of_nat (slen ws) + Z.of_nat (slen (op_text o))) 0).
Proof.
  intros Hc Hrem Hws Hrest Hf.
  destruct o; cbn [op_word] in Hrest; cbn [op_text op_type] in *;
    first
      [ exact (next_word fuel false inp st cur wd ws _ rest Hc Hrem Hws eq_refl Hrest Hf)
      | cbn [append] in Hrem;
        first
          [ exact (next_sym1 fuel false inp st cur wd ws _ rest Hc Hrem Hws eq_refl ltac:(reflexivity) eq_refl eq_refl Hrest Hf)
          | exact (next_sym2 fuel false inp st cur wd ws _ _ _ rest Hc Hrem Hws eq_refl ltac:(reflexivity) ltac:(reflexivity) eq_refl eq_refl Hf) ] ].
Qed.


(* ---- number and string literals (with leading whitespace) ---- *)

Lemma next_skip_ws fuel flag inp st cur wd ws rest : 0 <= cur <= Z.of_nat (slen inp) ->
  sdrop (Z.to_nat cur) inp = (ws ++ rest)%string -> all_ws ws = true -> (slen inp < fuel)%nat ->
  next fuel flag (mkL inp st cur wd) = next fuel flag (mkL inp st (cur + Z.of_nat (slen ws)) wd).
Proof.
  intros Hc Hrem Hws Hf.
  apply (C04_ws fuel flag (mkL inp st cur wd) (mkL inp st (cur + Z.of_nat (slen ws)) wd) ws rest);
    try reflexivity; cbn [mkL input current]; unfold llength; cbn [mkL input]; auto; lia.
Qed.

(* [next] on a non-negative integer literal: 0, or a non-zero digit followed by digits *)
Theorem next_num fuel flag inp st cur wd ws t rest : 0 <= cur ->
  sdrop (Z.to_nat cur) inp = (ws ++ t ++ rest)%string -> all_ws ws = true ->
  jint t = true -> number_stop rest = true -> (slen inp < fuel)%nat ->
  next fuel flag (mkL inp st cur wd) =
  ROk ({| ttype := typeNumber; tvalue := t; tpos := cur + Z.of_nat (slen ws) |},
       mkL inp (cur + Z.of_nat (slen ws) + Z.of_nat (slen t))
               (cur + Z.of_nat (slen ws) + Z.of_nat (slen t)) 0).
Proof.
  intros Hc Hrem Hws Hj Hstop Hf.
  assert (Hne : t <> EmptyString) by (destruct t; [discriminate Hj|discriminate]).
  assert (Hlen : (Z.to_nat cur + slen ws + slen (t ++ rest) = slen inp)%nat).
  { apply (f_equal slen) in Hrem. rewrite slen_sdrop, !slen_app in Hrem. rewrite slen_app.
    destruct t; [congruence|]. simpl in *. lia. }
  assert (Hrem0 : sdrop (Z.to_nat (cur + Z.of_nat (slen ws))) inp = (t ++ rest)%string).
  { replace (Z.to_nat (cur + Z.of_nat (slen ws))) with (Z.to_nat cur + slen ws)%nat by lia.
    rewrite (sdrop_plus _ _ _ _ Hrem). apply sdrop_app_exact. }
  rewrite (next_skip_ws fuel flag inp st cur wd ws (t ++ rest)) by (auto; lia).
  apply (scan_json_number fuel flag inp st (cur + Z.of_nat (slen ws)) wd t rest); auto; try lia.
  pose proof (jn_parts t EmptyString EmptyString Hj eq_refl eq_refl) as J.
  cbn [append] in J. rewrite sapp_nil_r in J. exact J.
Qed.

Definition dq : ascii := """"%char.

(* a string body without double quote and without backslash *)
Fixpoint str_plain (s : string) : bool :=
  match s with
  | EmptyString => true
  | String c r => negb (byte_of c =? 34) && negb (byte_of c =? 92) && str_plain r
  end.

Lemma str_plain_facts s : str_plain s = true -> body_ok 34 s = true /\ no_bs s = true.
Proof.
  induction s as [|c r IH]; [auto|]. cbn [str_plain body_ok no_bs]. intros H.
  apply andb_true_iff in H as [H H3]. apply andb_true_iff in H as [H1 H2].
  destruct (byte_of c =? 34); [discriminate|]. destruct (byte_of c =? 92); [discriminate|].
  destruct (IH H3). auto.
Qed.

(* [next] on a double-quoted string literal without escapes *)
Theorem next_str fuel flag inp st cur wd ws b rest : 0 <= cur ->
  sdrop (Z.to_nat cur) inp = (ws ++ String dq (b ++ String dq rest))%string -> all_ws ws = true ->
  str_plain b = true -> (slen inp < fuel)%nat ->
  next fuel flag (mkL inp st cur wd) =
  ROk ({| ttype := typeString; tvalue := b; tpos := cur + Z.of_nat (slen ws) + 1 |},
       mkL inp (cur + Z.of_nat (slen ws) + 1 + Z.of_nat (slen b) + 1)
               (cur + Z.of_nat (slen ws) + 1 + Z.of_nat (slen b) + 1) 1).
Proof.
  intros Hc Hrem Hws Hb Hf. destruct (str_plain_facts b Hb) as [Hbody _].
  assert (Hlen : (Z.to_nat cur + slen ws + slen (String dq (b ++ String dq rest)) = slen inp)%nat).
  { apply (f_equal slen) in Hrem. rewrite slen_sdrop, !slen_app in Hrem. simpl in *. lia. }
  cbn [slen String.length] in Hlen. fold (slen (b ++ String dq rest)) in Hlen. rewrite slen_app in Hlen.
  assert (Hrem0 : sdrop (Z.to_nat (cur + Z.of_nat (slen ws))) inp = String dq (b ++ String dq rest)).
  { replace (Z.to_nat (cur + Z.of_nat (slen ws))) with (Z.to_nat cur + slen ws)%nat by lia.
    rewrite (sdrop_plus _ _ _ _ Hrem). apply sdrop_app_exact. }
  rewrite (next_skip_ws fuel flag inp st cur wd ws (String dq (b ++ String dq rest))) by (auto; lia).
  change dq with (ascii_of_Z 34) in Hrem0.
  apply (scan_string_spec 34 b fuel flag inp st (cur + Z.of_nat (slen ws)) wd rest); auto; lia.
Qed.
(* ==================================================================================== *)
(* 2. The simulation of C04Proofs part 5, with the final parser state exposed            *)
(* ==================================================================================== *)

(* C04Proofs.stream only records that the token after the chain has no binding power, and
   C04_pratt_model returns SOME final state with that property.  parse_raw needs to know that
   the final token is the end of input, so the simulation is re-proved here for a stream
   predicate with an arbitrary condition Q on the final parser state (and, at no extra cost,
   for an arbitrary operand class atomf whose nuds return a node without reading further).
   With Q := True and atomf := atom_node this is exactly C04_pratt_model. *)
Section SimG.
Variable parse_number : string -> numlit.
Variable regex_check : string -> option string.
Variable fmt_g : f64 -> string.
Variable quote : string -> string.

Notation pExpr := (parseExpression parse_number regex_check fmt_g quote).
Notation lLoop := (ledLoop parse_number regex_check fmt_g quote).
Notation nudOf := (lookupNud parse_number regex_check).
Notation ledOf := (lookupLed fmt_g quote).
Notation apexpr := (pexpr token token tok_lside tok_rside).
Notation aploop := (ploop token token tok_lside tok_rside).

Variable atomf : token -> option node.
Hypothesis atomf_nud : forall lf pe a na, atomf a = Some na ->
  tt_eqb (ttype a) typeEOF = false /\ opens_operand (ttype a) = false /\
  exists nud, nudOf lf pe (ttype a) = Some nud /\ nud a = sret na.
Variable Q : parser -> Prop.

Fixpoint embedG (t : ttree) : option node :=
  match t with
  | Leaf a => atomf a
  | Post _ _ => None
  | Bin o l r =>
      match embedG l, embedG r with
      | Some nl, Some nr =>
          if tt_eqb (ttype o) typeAssign then
            match nl with NVariable name => Some (NAssignment name nr) | _ => None end
          else match binop_of (ttype o) with Some mk => Some (mk nl nr) | None => None end
      | _, _ => None
      end
  end.

Fixpoint streamG (opos : bool) (p : parser) (s : list tsym) : Prop :=
  match s with
  | [] => opos = true /\ lookupBp (ttype (ptoken p)) = 0 /\ Q p
  | SAtom a :: s' =>
      opos = false /\ ptoken p = a /\ is_some (atomf a) = true /\
      exists p', advance false p = ROk (tt, p') /\ streamG true p' s'
  | SOp o :: s' =>
      opos = true /\ ptoken p = o /\ is_op_tok o = true /\
      exists p', advance true p = ROk (tt, p') /\ streamG false p' s'
  end.

Lemma aploop_embedG_none : forall fuel r lhs s t rest,
  aploop fuel r lhs s = Some (t, rest) -> embedG lhs = None -> embedG t = None.
Proof.
  induction fuel as [|f IH]; intros r lhs s t rest H Hn; [discriminate|].
  rewrite ploop_S in H. destruct s as [|[a|o] s'].
  - injection H as <- <-; exact Hn.
  - injection H as <- <-; exact Hn.
  - destruct (Nat.ltb r (tok_lside o)); [|injection H as <- <-; exact Hn].
    destruct (tok_rside o) as [ro|].
    + destruct (apexpr f ro s') as [[rhs s'']|]; [|discriminate].
      eapply IH; [exact H|]. cbn [embedG]. rewrite Hn. reflexivity.
    + eapply IH; [exact H|]. reflexivity.
Qed.

Definition sim_outcomeG (r : res (node * parser)) (t : ttree) (rest : list tsym) : Prop :=
  (exists n p', r = ROk (n, p') /\ embedG t = Some n /\ streamG true p' rest) \/
  (exists e, r = RErr e /\ etype e = ErrIllegalAssignment /\ embedG t = None).

Theorem pratt_modelG : forall fuel,
  (forall r s p t rest, streamG false p s -> apexpr fuel r s = Some (t, rest) ->
     sim_outcomeG (pExpr fuel (Z.of_nat r) p) t rest) /\
  (forall r lhs nl s p t rest, streamG true p s -> aploop fuel r lhs s = Some (t, rest) ->
     embedG lhs = Some nl ->
     sim_outcomeG (lLoop fuel (Z.of_nat r) nl p) t rest).
Proof.
  induction fuel as [|f [IHe IHl]]; [split; intros; discriminate|].
  split.
  - intros r s p t rest Hst H. rewrite pexpr_S in H.
    destruct s as [|[a|o] s']; try discriminate H.
    destruct Hst as (_ & Hp & Ha & p' & Hadv & Hst').
    destruct (atomf a) as [na|] eqn:Ena; [|discriminate Ha].
    destruct (atomf_nud f (pExpr f) a na Ena) as (Hne & Hno & nud & Hnud & Hrun).
    rewrite parseExpression_unfold, bind_curToken, Hp, Hne, Hno.
    unfold sbind at 1. rewrite Hadv. rewrite Hnud. unfold sbind at 1. rewrite Hrun. unfold sret.
    apply (IHl r (Leaf a) na s' p' t rest Hst' H). exact Ena.
  - intros r lhs nl s p t rest Hst H Hl. rewrite ploop_S in H. rewrite ledLoop_unfold, bind_curToken.
    destruct s as [|[a|o] s'].
    + destruct Hst as (_ & Hbp & HQ). rewrite Hbp. replace (Z.of_nat r <? 0) with false by lia.
      injection H as <- <-. left. exists nl, p. repeat split; auto.
    + destruct Hst as (Hf & _). discriminate Hf.
    + destruct Hst as (_ & Hp & Hop & p' & Hadv & Hst'). rewrite Hp.
      pose proof (bp_nonneg (ttype o)) as Hnn.
      replace (Z.of_nat r <? lookupBp (ttype o)) with (Nat.ltb r (tok_lside o))
        by (unfold tok_lside; destruct (Nat.ltb_spec r (Z.to_nat (lookupBp (ttype o)))); lia).
      destruct (Nat.ltb r (tok_lside o)) eqn:Elt.
      2:{ injection H as <- <-. left. exists nl, p. split; [reflexivity|]. split; [exact Hl|].
          cbn [streamG]. refine (conj eq_refl (conj Hp (conj Hop _))). exists p'. auto. }
      unfold sbind at 1. rewrite Hadv.
      unfold is_op_tok in Hop.
      destruct (binop_of (ttype o)) as [mk|] eqn:Ebin.
      * assert (Hrs : tok_rside o = Some (tok_lside o)).
        { unfold tok_rside. rewrite (binop_not_assign _ _ Ebin). reflexivity. }
        rewrite Hrs in H.
        destruct (led_binary fmt_g quote f (pExpr f) o mk Ebin) as (led & Hled & Hrun).
        rewrite Hled. unfold sbind at 1. rewrite Hrun.
        destruct (apexpr f (tok_lside o) s') as [[rhs s'']|] eqn:Ep; [|discriminate H].
        pose proof (IHe (tok_lside o) s' p' rhs s'' Hst' Ep) as Hsim.
        replace (Z.of_nat (tok_lside o)) with (lookupBp (ttype o)) in Hsim by (unfold tok_lside; lia).
        destruct Hsim as [(nr & p2 & Hr & Her & Hst2)|(e & Hr & Hty & Her)].
        -- unfold sbind at 1. rewrite Hr. unfold sret.
           apply (IHl r (Bin o lhs rhs) (mk nl nr) s'' p2 t rest Hst2 H).
           cbn [embedG]. rewrite Hl, Her, (binop_not_assign _ _ Ebin), Ebin. reflexivity.
        -- unfold sbind at 1. rewrite Hr. right. exists e. repeat split; auto.
           eapply aploop_embedG_none; [exact H|]. cbn [embedG]. rewrite Hl, Her. reflexivity.
      * cbn [is_some orb] in Hop.
        assert (Hrs : tok_rside o = Some (tok_lside o - 1)%nat).
        { unfold tok_rside. rewrite Hop. reflexivity. }
        rewrite Hrs in H.
        assert (Hty : ttype o = typeAssign) by (apply tt_eqb_eq; exact Hop).
        destruct (led_assign fmt_g quote f (pExpr f) o) as (Hled & Hvar & Hnovar).
        replace (ledOf f (pExpr f) (ttype o)) with (ledOf f (pExpr f) typeAssign) by (rewrite Hty; reflexivity).
        rewrite Hled. unfold sbind at 1.
        destruct (apexpr f (tok_lside o - 1) s') as [[rhs s'']|] eqn:Ep; [|discriminate H].
        assert (Hnl : (exists name, nl = NVariable name) \/ (forall name, nl <> NVariable name)).
        { destruct nl; first [left; eexists; reflexivity|right; intros nm; discriminate]. }
        destruct Hnl as [(name & ->)|Hnv].
        -- rewrite Hvar.
           pose proof (IHe (tok_lside o - 1)%nat s' p' rhs s'' Hst' Ep) as Hsim.
           replace (Z.of_nat (tok_lside o - 1)) with (lookupBp (ttype o) - 1) in Hsim
             by (unfold tok_lside; rewrite Hty; vm_compute; reflexivity).
           destruct Hsim as [(nr & p2 & Hr & Her & Hst2)|(e & Hr & Hte & Her)].
           ++ unfold sbind at 1. rewrite Hr. unfold sret.
              apply (IHl r (Bin o lhs rhs) (NAssignment name nr) s'' p2 t rest Hst2 H).
              cbn [embedG]. rewrite Hl, Her, Hop. reflexivity.
           ++ unfold sbind at 1. rewrite Hr. right. exists e. repeat split; auto.
              eapply aploop_embedG_none; [exact H|]. cbn [embedG]. rewrite Hl, Her. reflexivity.
        -- rewrite (Hnovar nl Hnv). right. eexists. split; [reflexivity|]. split; [reflexivity|].
           eapply aploop_embedG_none; [exact H|]. cbn [embedG]. rewrite Hl, Hop.
           destruct (embedG rhs); [|reflexivity]. destruct nl; try reflexivity.
           exfalso. eapply Hnv; reflexivity.
Qed.

Lemma op_tok_pos o : is_op_tok o = true -> (0 < tok_lside o)%nat.
Proof.
  unfold is_op_tok, tok_lside. destruct o as [ty v pos]. cbn [ttype].
  destruct ty; intros H; try discriminate H; vm_compute; lia.
Qed.

Lemma streamG_chain_ok : forall s opos p, streamG opos p s ->
  chain_ok token token tok_rside (negb opos) s = true /\ ops_positive token token tok_lside s.
Proof.
  induction s as [|[a|o] s IH]; intros opos p H; cbn [streamG] in H.
  - destruct H as (-> & _). split; [reflexivity|constructor].
  - destruct H as (-> & _ & _ & p' & _ & H). apply IH in H as [H1 H2].
    split; [exact H1|constructor; [exact I|exact H2]].
  - destruct H as (-> & _ & Hop & p' & _ & H). apply IH in H as [H1 H2].
    split.
    + cbn [chain_ok negb andb]. unfold tok_rside. destruct (tt_eqb (ttype o) typeAssign); exact H1.
    + constructor; [apply op_tok_pos; exact Hop|exact H2].
Qed.

(* the chain theorem with any sufficient fuel and the final state exposed *)
Theorem chainG s p fuel : streamG false p s -> (List.length s < fuel)%nat ->
  exists t, wf_prec token token tok_lside tok_rside t /\ @yield token token t = s /\
            (forall t', wf_prec token token tok_lside tok_rside t' -> @yield token token t' = s -> t' = t) /\
            sim_outcomeG (pExpr fuel 0 p) t [].
Proof.
  intros Hst Hf. destruct (streamG_chain_ok s false p Hst) as [Hok Hpos]. cbn [negb] in Hok.
  destruct (proj1 (pratt_total token token tok_lside tok_rside fuel) 0%nat s Hok Hf)
    as (t & rest & H & Hr & Hlen).
  pose proof (pratt_wf _ _ _ _ _ _ _ _ _ H) as (Hs & Hwf & _ & Hstop).
  assert (rest = []).
  { destruct rest as [|[a|o] rest']; [reflexivity|discriminate Hr|].
    simpl in Hstop. unfold ops_positive in Hpos. rewrite Hs in Hpos. apply Forall_app in Hpos as [_ Hp].
    inversion Hp; subst. lia. }
  subst rest. rewrite app_nil_r in Hs. exists t. repeat split; auto.
  - intros t' Hwf' Hy'. symmetry.
    apply (wf_unique_gen token token tok_lside tok_rside); auto; congruence.
  - apply (proj1 (pratt_modelG fuel) 0%nat s p t [] Hst H).
Qed.

End SimG.


Lemma embedG_atom_node t : embedG atom_node t = embed t.
Proof.
  induction t as [a|o l IHl r IHr|o l IHl]; cbn [embedG embed]; [reflexivity| |reflexivity].
  rewrite IHl, IHr. reflexivity.
Qed.

(* ---- operands with literals: numbers the oracle converts, strings unescape accepts ---- *)

Definition atomX (pn : string -> numlit) (t : token) : option node :=
  match ttype t with
  | typeNumber => match pn (tvalue t) with NumOk x => Some (NNumber x) | _ => None end
  | typeString =>
      match unescape (S (slen (tvalue t))) (tvalue t) with
      | ROk (d, true) => Some (NString d)
      | _ => None
      end
  | typeBoolean =>
      if seqb (tvalue t) "true" then Some (NBoolean true)
      else if seqb (tvalue t) "false" then Some (NBoolean false) else None
  | _ => atom_node t
  end.

Lemma atomX_nud pn rc lf pe a na : atomX pn a = Some na ->
  tt_eqb (ttype a) typeEOF = false /\ opens_operand (ttype a) = false /\
  exists nud, lookupNud pn rc lf pe (ttype a) = Some nud /\ nud a = sret na.
Proof.
  intros H.
  destruct (tt_eqb (ttype a) typeNumber) eqn:En;
    [|destruct (tt_eqb (ttype a) typeString) eqn:Es; [|destruct (tt_eqb (ttype a) typeBoolean) eqn:Eb]].
  - apply tt_eqb_eq in En. unfold atomX in H. rewrite En in *.
    destruct (pn (tvalue a)) as [x| |] eqn:Ep; try discriminate H. injection H as <-.
    split; [reflexivity|]. split; [reflexivity|]. eexists. split; [reflexivity|].
    unfold parseNumber. rewrite Ep. reflexivity.
  - apply tt_eqb_eq in Es. unfold atomX in H. rewrite Es in *.
    destruct (unescape (S (slen (tvalue a))) (tvalue a)) as [[d [|]]| | |] eqn:Eu; try discriminate H.
    injection H as <-.
    split; [reflexivity|]. split; [reflexivity|]. eexists. split; [reflexivity|].
    unfold parseString, sbind, sfail. rewrite Eu. reflexivity.
  - apply tt_eqb_eq in Eb. unfold atomX in H. rewrite Eb in *.
    split; [reflexivity|]. split; [reflexivity|]. eexists. split; [reflexivity|].
    unfold parseBoolean.
    destruct (seqb (tvalue a) "true"); [injection H as <-; reflexivity|].
    destruct (seqb (tvalue a) "false"); [injection H as <-; reflexivity|discriminate H].
  - apply tt_eqb_neq in En. apply tt_eqb_neq in Es. apply tt_eqb_neq in Eb.
    assert (Ha : atom_node a = Some na).
    { unfold atomX in H. destruct (ttype a); try exact H; congruence. }
    apply (nud_atom pn rc lf pe a na Ha).
Qed.

(* the jparse node of a tree whose leaves may be literals *)
Definition embedX (pn : string -> numlit) : ttree -> option node := embedG (atomX pn).

(* on trees without number, string and boolean tokens this is C04Proofs.embed *)
Definition not_literal (sy : tsym) : Prop :=
  match sy with
  | SAtom a => ttype a <> typeNumber /\ ttype a <> typeString /\ ttype a <> typeBoolean
  | SOp _ => True
  end.

Lemma embedX_embed pn t : Forall not_literal (@yield token token t) -> embedX pn t = embed t.
Proof.
  unfold embedX.
  induction t as [a|o l IHl r IHr|o l IHl]; cbn [embedG embed yield]; intros H.
  - inversion H as [|x y Hx _]; subst. cbn [not_literal] in Hx. destruct Hx as (H1 & H2 & H3). unfold atomX.
    destruct (ttype a); try reflexivity; congruence.
  - apply Forall_app in H as [Hl Hr]. inversion Hr; subst.
    rewrite IHl, IHr by assumption. reflexivity.
  - reflexivity.
Qed.

(* ==================================================================================== *)
(* 3. Chain texts and their token sequences                                              *)
(* ==================================================================================== *)

(* Operands:
   OName w — a word w (first byte [name_start], the others [name_byte]: in particular every
             identifier made of ASCII letters, digits and underscores that does not start
             with a digit, see ident_word_ok); in operand position the words and, or, in are
             field names, and null, true, false are the literals;
   OVar w  — the variable $w, w any (possibly empty) sequence of name bytes;
   ONum t  — a non-negative integer literal t (0, or a non-zero digit followed by digits)
             that the number conversion oracle accepts;
   OStr b  — the double-quoted string literal with body b, b without quote and backslash. *)
Inductive operand := OName (w : string) | OVar (w : string) | ONum (t : string) | OStr (b : string).
Inductive piece := PAtom (a : operand) | POp (o : opk).

Definition ptext (pc : piece) : string :=
  match pc with
  | PAtom (OName w) => w
  | PAtom (OVar w) => String "$" w
  | PAtom (ONum t) => t
  | PAtom (OStr b) => String dq (b ++ String dq EmptyString)
  | POp o => op_text o
  end.

(* the token the lexer produces for a piece whose text starts at byte offset pos *)
Definition ptoken_of (pc : piece) (pos : Z) : token :=
  match pc with
  | PAtom (OName w) => {| ttype := word_type w; tvalue := w; tpos := pos |}
  | PAtom (OVar w) => {| ttype := typeVariable; tvalue := w; tpos := pos + 1 |}
  | PAtom (ONum t) => {| ttype := typeNumber; tvalue := t; tpos := pos |}
  | PAtom (OStr b) => {| ttype := typeString; tvalue := b; tpos := pos + 1 |}
  | POp o => {| ttype := op_type o; tvalue := op_text o; tpos := pos |}
  end.

Definition psym (pc : piece) (pos : Z) : tsym :=
  match pc with PAtom _ => SAtom (ptoken_of pc pos) | POp _ => SOp (ptoken_of pc pos) end.

Definition num_converts (pn : string -> numlit) (t : string) : bool :=
  match pn t with NumOk _ => true | _ => false end.

Definition piece_ok (pn : string -> numlit) (pc : piece) : bool :=
  match pc with
  | PAtom (OName w) => word_ok w
  | PAtom (OVar w) => name_bytes w
  | PAtom (ONum t) => jint t && num_converts pn t
  | PAtom (OStr b) => str_plain b
  | POp _ => true
  end.

Definition is_op (pc : piece) : bool := match pc with POp _ => true | PAtom _ => false end.

(* how the lexer finds the end of a piece *)
Inductive pkind := KWord | KNum | KStr | KSym.
Definition kind_of (pc : piece) : pkind :=
  match pc with
  | PAtom (OName _) | PAtom (OVar _) => KWord
  | PAtom (ONum _) => KNum
  | PAtom (OStr _) => KStr
  | POp o => if op_word o then KWord else KSym
  end.

(* what the text after a piece must look like for the piece to be lexed as intended *)
Definition after_ok (pc : piece) (rest : string) : bool :=
  match kind_of pc with
  | KWord => word_end rest
  | KNum => number_stop rest
  | KStr => true
  | KSym => after_sym_ok rest
  end.

(* a chain text: pieces, each preceded by a run of whitespace, and a trailing run *)
Definition item : Type := string * piece.

Fixpoint text (items : list item) (tail : string) : string :=
  match items with
  | [] => tail
  | (ws, pc) :: r => ws ++ ptext pc ++ text r tail
  end.

(* the token sequence of a chain text that starts at byte offset pos *)
Fixpoint toks (pos : Z) (items : list item) : list tsym :=
  match items with
  | [] => []
  | (ws, pc) :: r =>
      psym pc (pos + Z.of_nat (slen ws))
      :: toks (pos + Z.of_nat (slen ws) + Z.of_nat (slen (ptext pc))) r
  end.

(* may pc follow prev without whitespace in between?  Not after a word (a name, a variable,
   and/or/in) unless pc is a symbol; not a dot directly after a number *)
Definition tight_ok (prev pc : piece) : bool :=
  match kind_of prev with
  | KWord => match kind_of pc with KSym => true | _ => false end
  | KNum => match pc with POp OpDot => false | _ => true end
  | KStr | KSym => true
  end.
Definition gap_ok (prev : piece) (ws : string) (pc : piece) : bool :=
  negb (is_empty ws) || tight_ok prev pc.

(* [chain_wf prev items tail]: what may follow the piece prev: pieces alternate between
   operands and operators, the last one is an operand, all gaps are whitespace *)
Fixpoint chain_wf (pn : string -> numlit) (prev : piece) (items : list item) (tail : string) : bool :=
  match items with
  | [] => negb (is_op prev) && all_ws tail
  | (ws, pc) :: r =>
      all_ws ws && piece_ok pn pc && negb (Bool.eqb (is_op prev) (is_op pc)) && gap_ok prev ws pc
      && chain_wf pn pc r tail
  end.

(* a whole chain: optional whitespace, an operand, then (operator operand)*, optional whitespace *)
Definition chain_text_ok (pn : string -> numlit) (items : list item) (tail : string) : bool :=
  match items with
  | (ws, PAtom a) :: r => all_ws ws && piece_ok pn (PAtom a) && chain_wf pn (PAtom a) r tail
  | _ => false
  end.

Lemma ptext_nonempty pn pc : piece_ok pn pc = true -> (1 <= slen (ptext pc))%nat.
Proof.
  destruct pc as [[w|w|t|b]|o]; cbn [piece_ok ptext]; intros H.
  - destruct w; [discriminate H|]. simpl. lia.
  - simpl. lia.
  - destruct t; [discriminate H|]. simpl. lia.
  - simpl. lia.
  - destruct o; simpl; lia.
Qed.

Lemma toks_length : forall items pos, List.length (toks pos items) = List.length items.
Proof. induction items as [|[ws pc] r IH]; intros pos; cbn [toks List.length]; [reflexivity|]. rewrite IH. reflexivity. Qed.

Lemma chain_wf_length pn : forall items prev tail, chain_wf pn prev items tail = true ->
  (List.length items <= slen (text items tail))%nat.
Proof.
  induction items as [|[ws pc] r IH]; intros prev tail H; cbn [List.length text]; [lia|].
  cbn [chain_wf] in H. repeat (apply andb_true_iff in H as [H ?]).
  rewrite !slen_app. pose proof (ptext_nonempty pn pc ltac:(assumption)).
  pose proof (IH pc tail ltac:(assumption)). lia.
Qed.

(* ---- the text after a piece starts the way the lexing lemmas require ---- *)

Lemma ws_after_sym d r : is_ws_byte d = true -> after_sym_ok (String d r) = true.
Proof.
  unfold is_ws_byte, isWhitespace, after_sym_ok. change (ch " ") with 32. intros H. lia.
Qed.

Lemma ws_number_stop d r : is_ws_byte d = true -> number_stop (String d r) = true.
Proof.
  unfold is_ws_byte, isWhitespace, number_stop, headP, isDigit, isDot, isE.
  change (ch " ") with 32. change (ch "0") with 48. change (ch "9") with 57. intros H. lia.
Qed.

Lemma name_byte_after_sym c r : name_byte c = true -> after_sym_ok (String c r) = true.
Proof.
  intros H. destruct (name_byte_facts c H) as (H1 & _ & H3 & _).
  assert (forall x, tt_pos (lookupSymbol1 x) = true -> byte_of c <> x).
  { intros x Hx E. rewrite E in H3. congruence. }
  pose proof (H0 61 eq_refl). pose proof (H0 46 eq_refl). pose proof (H0 62 eq_refl).
  pose proof (H0 42 eq_refl). unfold after_sym_ok. lia.
Qed.

(* the first byte of an operand may directly follow a symbol operator *)
Lemma atom_after_sym pn a rest : piece_ok pn (PAtom a) = true ->
  after_sym_ok (ptext (PAtom a) ++ rest) = true.
Proof.
  destruct a as [w|w|t|b]; cbn [piece_ok ptext]; intros H.
  - destruct w as [|c w]; [discriminate H|]. cbn [word_ok] in H.
    apply andb_true_iff in H as [Hs _]. destruct (name_start_facts c Hs) as (Hn & _).
    cbn [append]. apply name_byte_after_sym. exact Hn.
  - reflexivity.
  - apply andb_true_iff in H as [H _]. destruct t as [|c t]; [discriminate H|]. cbn [jint] in H.
    cbn [append]. unfold after_sym_ok.
    destruct (byte_of c =? 48) eqn:E0; [lia|]. apply andb_true_iff in H as [H _]. lia.
  - reflexivity.
Qed.

Lemma first_ok_text pn pc r tail : chain_wf pn pc r tail = true ->
  after_ok pc (text r tail) = true.
Proof.
  destruct r as [|[ws pc'] r']; cbn [chain_wf text]; intros H.
  - apply andb_true_iff in H as [H1 H2].
    destruct pc as [a|o]; [|discriminate H1]. unfold after_ok.
    destruct tail as [|d t].
    + destruct a; reflexivity.
    + cbn [all_ws] in H2. apply andb_true_iff in H2 as [H2 _].
      destruct a; cbn [kind_of]; first [reflexivity | apply ws_number_stop; exact H2
                                       | cbn [word_end]; rewrite H2; reflexivity].
  - apply andb_true_iff in H as [H Hr]. apply andb_true_iff in H as [H Hgap].
    apply andb_true_iff in H as [H Halt]. apply andb_true_iff in H as [Hws Hok].
    destruct ws as [|d ws].
    + cbn [append]. unfold gap_ok in Hgap. cbn [is_empty negb orb] in Hgap.
      unfold after_ok. unfold tight_ok in Hgap.
      destruct pc as [a|o]; cbn [is_op] in Halt.
      * (* after an operand comes an operator *)
        destruct pc' as [a'|o']; [discriminate Halt|]. cbn [ptext].
        destruct a as [w|w|t|b]; cbn [kind_of] in *.
        -- destruct o'; try discriminate Hgap; reflexivity.
        -- destruct o'; try discriminate Hgap; reflexivity.
        -- destruct o'; try discriminate Hgap; reflexivity.
        -- reflexivity.
      * (* after an operator comes an operand *)
        destruct pc' as [a'|o']; [|discriminate Halt].
        cbn [kind_of] in *. destruct (op_word o).
        -- destruct a'; discriminate Hgap.
        -- apply (atom_after_sym pn a' (text r' tail) Hok).
    + cbn [all_ws] in Hws. apply andb_true_iff in Hws as [Hd _]. cbn [append]. unfold after_ok.
      destruct (kind_of pc);
        [cbn [word_end]; rewrite Hd; reflexivity|apply ws_number_stop; exact Hd|reflexivity
        |apply ws_after_sym; exact Hd].
Qed.

(* ---- the plainest chain texts: tokens separated by exactly one space ---- *)

Definition spaced_tail (l : list (opk * operand)) : list item :=
  flat_map (fun oa : opk * operand => [(" "%string, POp (fst oa)); (" "%string, PAtom (snd oa))]) l.
(* a0 o1 a1 o2 a2 ... *)
Definition spaced (a0 : operand) (l : list (opk * operand)) : list item :=
  (EmptyString, PAtom a0) :: spaced_tail l.

Lemma spaced_tail_wf pn : forall l a0,
  forallb (fun oa : opk * operand => piece_ok pn (PAtom (snd oa))) l = true ->
  chain_wf pn (PAtom a0) (spaced_tail l) EmptyString = true.
Proof.
  induction l as [|[o a] l IH]; intros a0 H; [reflexivity|].
  cbn [forallb snd] in H. apply andb_true_iff in H as [Ha Hl].
  unfold spaced_tail. cbn [flat_map fst snd app]. fold (spaced_tail l).
  cbn [chain_wf all_ws is_op Bool.eqb negb gap_ok is_empty orb].
  rewrite Ha. rewrite (IH a Hl). reflexivity.
Qed.

(* every single-space-separated chain of well-formed operands is a chain text *)
Lemma spaced_ok pn a0 l : piece_ok pn (PAtom a0) = true ->
  forallb (fun oa : opk * operand => piece_ok pn (PAtom (snd oa))) l = true ->
  chain_text_ok pn (spaced a0 l) EmptyString = true.
Proof.
  intros H0 Hl. unfold spaced, chain_text_ok. rewrite H0, (spaced_tail_wf pn l a0 Hl). reflexivity.
Qed.

(* ---- one [advance] over a piece ---- *)

Lemma word_type_not_error w : tt_eqb (word_type w) typeError = false.
Proof.
  unfold word_type. destruct (tt_pos (lookupKeyword w)); [|reflexivity].
  apply tt_eqb_neq. apply lookupKeyword_not_error.
Qed.

(* the width field of the lexer after a piece (the last rune read or un-read) *)
Definition pwidth (pc : piece) : Z := match pc with PAtom (OStr _) => 1 | _ => 0 end.

Lemma advance_piece pn src st cur wd t pc ws rest flag : 0 <= cur ->
  sdrop (Z.to_nat cur) src = (ws ++ ptext pc ++ rest)%string -> all_ws ws = true ->
  piece_ok pn pc = true -> after_ok pc rest = true ->
  (is_op pc = true -> flag = false) ->
  advance flag {| plexer := mkL src st cur wd; ptoken := t |} =
  ROk (tt, {| plexer := mkL src (cur + Z.of_nat (slen ws) + Z.of_nat (slen (ptext pc)))
                                (cur + Z.of_nat (slen ws) + Z.of_nat (slen (ptext pc))) (pwidth pc);
              ptoken := ptoken_of pc (cur + Z.of_nat (slen ws)) |}).
Proof.
  intros Hc Hrem Hws Hok Hrest Hflag.
  unfold advance. cbn [plexer]. unfold lex_fuel. cbn [mkL input]. unfold after_ok in Hrest.
  destruct pc as [[w|w|n|b]|o]; cbn [piece_ok kind_of ptext ptoken_of is_op pwidth] in *.
  - rewrite (next_word (S (S (slen src))) flag src st cur wd ws w rest Hc Hrem Hws Hok Hrest ltac:(lia)).
    cbn [ttype]. rewrite word_type_not_error. reflexivity.
  - rewrite (next_var (S (S (slen src))) flag src st cur wd ws w rest Hc Hrem Hws Hok Hrest ltac:(lia)).
    cbn [ttype]. change (tt_eqb typeVariable typeError) with false. cbv iota.
    f_equal. f_equal. f_equal. apply mkL_eq; cbn [slen String.length]; unfold slen; lia.
  - apply andb_true_iff in Hok as [Hok _].
    rewrite (next_num (S (S (slen src))) flag src st cur wd ws n rest Hc Hrem Hws Hok Hrest ltac:(lia)).
    reflexivity.
  - cbn [append] in Hrem. rewrite sapp_assoc in Hrem. cbn [append] in Hrem.
    rewrite (next_str (S (S (slen src))) flag src st cur wd ws b rest Hc Hrem Hws Hok ltac:(lia)).
    cbn [ttype]. change (tt_eqb typeString typeError) with false. cbv iota.
    f_equal. f_equal. f_equal. apply mkL_eq; try reflexivity;
      cbn [slen String.length]; fold (slen (b ++ String dq EmptyString)); rewrite slen_app;
      cbn [slen String.length]; lia.
  - rewrite (Hflag eq_refl).
    assert (Hrest' : (if op_word o then word_end rest else after_sym_ok rest) = true)
      by (destruct (op_word o); exact Hrest).
    rewrite (next_op o (S (S (slen src))) src st cur wd ws rest Hc Hrem Hws Hrest' ltac:(lia)).
    cbn [ttype]. destruct o; reflexivity.
Qed.

(* ---- the stream of a chain text ---- *)

(* the final parser state of a chain: the current token is the end of input *)
Definition at_eof (p : parser) : Prop := ttype (ptoken p) = typeEOF.

Lemma word_type_atom w pos : tt_eqb (word_type w) typeBoolean = false ->
  is_some (atom_node {| ttype := word_type w; tvalue := w; tpos := pos |}) = true /\
  word_type w <> typeNumber /\ word_type w <> typeString.
Proof.
  unfold word_type, lookupKeyword, atom_node. cbn [ttype].
  destruct (seqb w "and"); [repeat split; discriminate|].
  destruct (seqb w "or"); [repeat split; discriminate|].
  destruct (seqb w "in"); [repeat split; discriminate|].
  destruct (seqb w "true" || seqb w "false"); [intros H; discriminate H|].
  destruct (seqb w "null"); repeat split; discriminate.
Qed.

(* the only words that are boolean literals are true and false *)
Lemma word_type_boolean w : tt_eqb (word_type w) typeBoolean = true -> w = "true"%string \/ w = "false"%string.
Proof.
  intros H. apply tt_eqb_eq in H. unfold word_type in H.
  destruct (tt_pos (lookupKeyword w)); [|discriminate H]. apply lookupKeyword_bool. exact H.
Qed.

Lemma no_bs_unescape s f : no_bs s = true -> unescape (S f) s = ROk (s, true).
Proof.
  intros H. rewrite unescape_S. unfold index_byte. rewrite index_byte_from_none by exact H.
  reflexivity.
Qed.

Lemma piece_atom pn a pos : piece_ok pn (PAtom a) = true ->
  is_some (atomX pn (ptoken_of (PAtom a) pos)) = true.
Proof.
  destruct a as [w|w|t|b]; cbn [piece_ok ptoken_of]; intros H.
  - destruct (tt_eqb (word_type w) typeBoolean) eqn:Hb.
    + pose proof Hb as Hty. apply tt_eqb_eq in Hty. unfold atomX. cbn [ttype tvalue]. rewrite Hty.
      destruct (word_type_boolean w Hb) as [-> | ->]; reflexivity.
    + destruct (word_type_atom w pos Hb) as (Ha & Hn & Hs). apply tt_eqb_neq in Hb.
      unfold atomX. cbn [ttype] in *. destruct (word_type w); try exact Ha; congruence.
  - reflexivity.
  - apply andb_true_iff in H as [_ H]. unfold atomX, num_converts in *. cbn [ttype tvalue].
    destruct (pn t); [reflexivity|discriminate H|discriminate H].
  - unfold atomX. cbn [ttype tvalue]. destruct (str_plain_facts b H) as [_ Hnb].
    rewrite (no_bs_unescape b _ Hnb). reflexivity.
Qed.

Lemma piece_op o pos : is_op_tok (ptoken_of (POp o) pos) = true.
Proof. destruct o; reflexivity. Qed.

Lemma stream_items pn src : forall items prev pos st cur wd tail, 0 <= cur ->
  sdrop (Z.to_nat cur) src = text items tail -> chain_wf pn prev items tail = true ->
  piece_ok pn prev = true ->
  streamG (atomX pn) at_eof (is_op prev)
    {| plexer := mkL src st cur wd; ptoken := ptoken_of prev pos |}
    (psym prev pos :: toks cur items).
Proof.
  induction items as [|[ws pc] r IH]; intros prev pos st cur wd tail Hc Hrem Hwf Hprev.
  - cbn [chain_wf] in Hwf. apply andb_true_iff in Hwf as [Hp Htail].
    destruct prev as [a|o]; [|discriminate Hp].
    cbn [toks psym is_op streamG]. split; [reflexivity|]. split; [reflexivity|].
    split; [apply piece_atom; exact Hprev|].
    eexists. split.
    + unfold advance. cbn [plexer]. unfold lex_fuel. cbn [mkL input].
      cbn [text] in Hrem.
      assert (Hl : (slen tail <= slen src)%nat).
      { apply (f_equal slen) in Hrem. rewrite slen_sdrop in Hrem. lia. }
      rewrite (next_eof (S (S (slen src))) false src st cur wd tail Hc Hrem Htail ltac:(lia)).
      cbn [ttype]. change (tt_eqb typeEOF typeError) with false. cbv iota. reflexivity.
    + cbn [streamG ptoken ttype]. split; [reflexivity|]. split; reflexivity.
  - pose proof Hwf as Hwf0. cbn [chain_wf] in Hwf.
    apply andb_true_iff in Hwf as [Hwf Hr]. apply andb_true_iff in Hwf as [Hwf Hgap].
    apply andb_true_iff in Hwf as [Hwf Halt]. apply andb_true_iff in Hwf as [Hws Hok].
    cbn [text] in Hrem.
    pose proof (first_ok_text pn pc r tail Hr) as Hfirst.
    assert (Hadv : advance (is_op prev) {| plexer := mkL src st cur wd; ptoken := ptoken_of prev pos |} =
      ROk (tt, {| plexer := mkL src (cur + Z.of_nat (slen ws) + Z.of_nat (slen (ptext pc)))
                                    (cur + Z.of_nat (slen ws) + Z.of_nat (slen (ptext pc))) (pwidth pc);
                  ptoken := ptoken_of pc (cur + Z.of_nat (slen ws)) |})).
    { apply (advance_piece pn src st cur wd _ pc ws (text r tail)); auto.
      intros E. rewrite E in Halt. destruct (is_op prev); [discriminate Halt|reflexivity]. }
    assert (Hrem' : sdrop (Z.to_nat (cur + Z.of_nat (slen ws) + Z.of_nat (slen (ptext pc)))) src = text r tail).
    { replace (Z.to_nat (cur + Z.of_nat (slen ws) + Z.of_nat (slen (ptext pc))))
        with (Z.to_nat cur + slen (ws ++ ptext pc))%nat by (rewrite slen_app; lia).
      rewrite (sdrop_plus _ _ _ _ Hrem). rewrite <- sapp_assoc. apply sdrop_app_exact. }
    pose proof (IH pc (cur + Z.of_nat (slen ws))
                  (cur + Z.of_nat (slen ws) + Z.of_nat (slen (ptext pc)))
                  (cur + Z.of_nat (slen ws) + Z.of_nat (slen (ptext pc))) (pwidth pc) tail
                  ltac:(lia) Hrem' Hr Hok) as Hnext.
    cbn [toks].
    destruct prev as [a|o]; cbn [psym is_op streamG] in *.
    + split; [reflexivity|]. split; [reflexivity|]. split; [apply piece_atom; exact Hprev|].
      eexists. split; [exact Hadv|].
      destruct (is_op pc); [exact Hnext|discriminate Halt].
    + split; [reflexivity|]. split; [reflexivity|]. split; [apply piece_op|].
      eexists. split; [exact Hadv|].
      destruct (is_op pc); [discriminate Halt|exact Hnext].
Qed.

(* glue (i): the parser state after newParser on a chain text delivers the chain's tokens *)
Lemma chain_streamG pn items tail : chain_text_ok pn items tail = true ->
  exists p0, newParser (text items tail) = ROk p0 /\
             streamG (atomX pn) at_eof false p0 (toks 0 items).
Proof.
  destruct items as [|[ws0 [a0|o0]] r]; try discriminate. cbn [chain_text_ok]. intros H.
  apply andb_true_iff in H as [H Hwf]. apply andb_true_iff in H as [Hws Hok].
  set (src := text ((ws0, PAtom a0) :: r) tail).
  assert (Hrem : sdrop (Z.to_nat 0) src = (ws0 ++ ptext (PAtom a0) ++ text r tail)%string) by reflexivity.
  pose proof (first_ok_text pn (PAtom a0) r tail Hwf) as Hfirst.
  pose proof (advance_piece pn src 0 0 0 zeroToken (PAtom a0) ws0 (text r tail) true
                ltac:(lia) Hrem Hws Hok Hfirst ltac:(discriminate)) as Hadv.
  eexists. split.
  - unfold newParser. change (newLexer (text ((ws0, PAtom a0) :: r) tail)) with (mkL src 0 0 0).
    rewrite Hadv. reflexivity.
  - cbn [toks].
    apply (stream_items pn src r (PAtom a0) (0 + Z.of_nat (slen ws0))
             (0 + Z.of_nat (slen ws0) + Z.of_nat (slen (ptext (PAtom a0))))
             (0 + Z.of_nat (slen ws0) + Z.of_nat (slen (ptext (PAtom a0)))) (pwidth (PAtom a0)) tail);
      auto; try lia.
    replace (Z.to_nat (0 + Z.of_nat (slen ws0) + Z.of_nat (slen (ptext (PAtom a0)))))
      with (Z.to_nat 0 + slen (ws0 ++ ptext (PAtom a0)))%nat by (rewrite slen_app; lia).
    rewrite (sdrop_plus _ _ _ _ Hrem). rewrite <- sapp_assoc. apply sdrop_app_exact.
Qed.

(* chains without number, string and boolean literals *)
Definition lit_free_piece (pc : piece) : bool :=
  match pc with
  | PAtom (ONum _) | PAtom (OStr _) => false
  | PAtom (OName w) => negb (tt_eqb (word_type w) typeBoolean)
  | _ => true
  end.
Definition lit_free (items : list item) : bool := forallb (fun it => lit_free_piece (snd it)) items.

Lemma streamG_stream pn Q : forall s opos p, Forall not_literal s ->
  streamG (atomX pn) Q opos p s -> stream opos p s.
Proof.
  induction s as [|[a|o] s IH]; intros opos p HF H; cbn [streamG stream] in *.
  - destruct H as (H1 & H2 & _). auto.
  - destruct H as (H1 & H2 & H3 & p' & H4 & H5). inversion HF as [|x y Hx Hy]; subst.
    cbn [not_literal] in Hx. destruct Hx as (Hn & Hs & Hb).
    repeat split; auto.
    + unfold atomX in H3. destruct (ttype (ptoken p)); try exact H3; congruence.
    + exists p'. auto.
  - destruct H as (H1 & H2 & H3 & p' & H4 & H5). inversion HF; subst.
    repeat split; auto. exists p'. auto.
Qed.

Lemma toks_not_literal pn : forall items pos,
  forallb (fun it => piece_ok pn (snd it)) items = true -> lit_free items = true ->
  Forall not_literal (toks pos items).
Proof.
  induction items as [|[ws pc] r IH]; intros pos Hok Hl; cbn [toks]; [constructor|].
  cbn [forallb lit_free snd] in *. apply andb_true_iff in Hok as [Hok1 Hok2].
  unfold lit_free in Hl. cbn [forallb snd] in Hl. apply andb_true_iff in Hl as [Hl1 Hl2].
  constructor; [|apply IH; assumption].
  destruct pc as [[w|w|t|b]|o]; cbn [psym not_literal ptoken_of ttype]; try exact I;
    try discriminate Hl1.
  - cbn [lit_free_piece] in Hl1.
    assert (Hb : tt_eqb (word_type w) typeBoolean = false)
      by (destruct (tt_eqb (word_type w) typeBoolean); [discriminate Hl1|reflexivity]).
    destruct (word_type_atom w 0 Hb) as (_ & Hn & Hs). apply tt_eqb_neq in Hb. repeat split; assumption.
  - repeat split; discriminate.
Qed.

Lemma chain_pieces_ok pn : forall items prev tail, chain_wf pn prev items tail = true ->
  forallb (fun it => piece_ok pn (snd it)) items = true.
Proof.
  induction items as [|[ws pc] r IH]; intros prev tail H; [reflexivity|].
  cbn [chain_wf] in H. cbn [forallb snd].
  apply andb_true_iff in H as [H Hr]. apply andb_true_iff in H as [H _].
  apply andb_true_iff in H as [H _]. apply andb_true_iff in H as [_ Hok].
  rewrite Hok, (IH pc tail Hr). reflexivity.
Qed.

Lemma chain_text_pieces_ok pn items tail : chain_text_ok pn items tail = true ->
  forallb (fun it => piece_ok pn (snd it)) items = true.
Proof.
  destruct items as [|[ws0 [a0|o0]] r]; try discriminate. cbn [chain_text_ok]. intros H.
  apply andb_true_iff in H as [H Hwf]. apply andb_true_iff in H as [_ Hok].
  cbn [forallb snd]. rewrite Hok, (chain_pieces_ok pn r _ tail Hwf). reflexivity.
Qed.

(* C04_chain_stream: the [stream] hypothesis of C04Proofs.C04_pratt_model / C04_chain holds
   for the initial parser state of EVERY literal-free chain text: the lexer, called with the
   allowRegex flags the Pratt loop passes, delivers exactly the chain's tokens, then the end
   of input.  (C04Proofs.stream has no number and string tokens; for chains with literals
   the same statement holds for [streamG (atomX pn)]: chain_streamG.) *)
Theorem C04_chain_stream pn items tail :
  chain_text_ok pn items tail = true -> lit_free items = true ->
  exists p0, newParser (text items tail) = ROk p0 /\ stream false p0 (toks 0 items).
Proof.
  intros H Hl. destruct (chain_streamG pn items tail H) as (p0 & Hn & Hs).
  exists p0. split; [exact Hn|]. eapply streamG_stream; [|exact Hs].
  apply (toks_not_literal pn); [apply (chain_text_pieces_ok pn items tail H)|exact Hl].
Qed.

Print Assumptions C04_chain_stream.

(* ==================================================================================== *)
(* 4. End to end                                                                         *)
(* ==================================================================================== *)

Section EndToEnd.
Variable parse_number : string -> numlit.
Variable regex_check : string -> option string.
Variable fmt_g : f64 -> string.
Variable quote : string -> string.

Notation awf := (wf_prec token token tok_lside tok_rside).
Notation ayield := (@yield token token).

(* C04_end_to_end: for EVERY chain text (operands: names, the words and/or/in, null/true/false,
   variables, non-negative integer literals, escape-free double-quoted strings; operators: the 17 binary
   operators and := ; whitespace optional everywhere except between two words and between a
   number and a dot) there is exactly one tree over its token sequence that is well grouped for
   the model's binding-power table, and parse_raw returns that tree as jparse nodes, or the
   IllegalAssignment error exactly when the tree assigns to something that is not a variable.
   Any fuel above the number of tokens suffices. *)
Theorem C04_end_to_end items tail fuel : chain_text_ok parse_number items tail = true ->
  let src := text items tail in
  let s := toks 0 items in
  (List.length s < fuel)%nat ->
  exists t, awf t /\ ayield t = s /\ (forall t', awf t' -> ayield t' = s -> t' = t) /\
    match embedX parse_number t with
    | Some n => parse_raw parse_number regex_check fmt_g quote fuel src = ROk n
    | None => exists e, parse_raw parse_number regex_check fmt_g quote fuel src = RErr e /\
                        etype e = ErrIllegalAssignment
    end.
Proof.
  intros Hok src s Hf.
  destruct (chain_streamG parse_number items tail Hok) as (p0 & Hnew & Hst).
  destruct (chainG parse_number regex_check fmt_g quote (atomX parse_number)
              (atomX_nud parse_number regex_check) at_eof s p0 fuel Hst Hf)
    as (t & Hwf & Hy & Huniq & Hsim).
  exists t. split; [exact Hwf|]. split; [exact Hy|]. split; [exact Huniq|].
  unfold parse_raw. subst src. rewrite Hnew. cbn [rbind]. unfold embedX.
  destruct Hsim as [(n & p' & Hr & He & Hend)|(e & Hr & Hty & He)].
  - rewrite He, Hr. cbn [streamG] in Hend. destruct Hend as (_ & _ & Heof).
    unfold at_eof in Heof. rewrite Heof. reflexivity.
  - rewrite He, Hr. exists e. auto.
Qed.

Lemma chain_tokens_lt_fuel items tail : chain_text_ok parse_number items tail = true ->
  (List.length (toks 0 items) < parse_fuel (text items tail))%nat.
Proof.
  intros H. rewrite toks_length. unfold parse_fuel.
  destruct items as [|[ws0 [a0|o0]] r]; try discriminate. cbn [chain_text_ok] in H.
  apply andb_true_iff in H as [H Hwf]. apply andb_true_iff in H as [Hws Hok].
  pose proof (chain_wf_length _ r _ tail Hwf). pose proof (ptext_nonempty _ _ Hok).
  cbn [text List.length]. rewrite !slen_app. lia.
Qed.

(* ... in particular with the fuel [parse_fuel src] that Parse uses *)
Corollary C04_end_to_end_parse_fuel items tail :
  chain_text_ok parse_number items tail = true ->
  let src := text items tail in
  let s := toks 0 items in
  exists t, awf t /\ ayield t = s /\ (forall t', awf t' -> ayield t' = s -> t' = t) /\
    match embedX parse_number t with
    | Some n => parse_raw parse_number regex_check fmt_g quote (parse_fuel src) src = ROk n
    | None => exists e, parse_raw parse_number regex_check fmt_g quote (parse_fuel src) src = RErr e /\
                        etype e = ErrIllegalAssignment
    end.
Proof.
  intros H src s. apply C04_end_to_end; [exact H|]. apply chain_tokens_lt_fuel. exact H.
Qed.

(* the same for chains without literals, in terms of C04Proofs.embed *)
Corollary C04_end_to_end_names items tail :
  chain_text_ok parse_number items tail = true -> lit_free items = true ->
  let src := text items tail in
  let s := toks 0 items in
  exists t, awf t /\ ayield t = s /\ (forall t', awf t' -> ayield t' = s -> t' = t) /\
    match embed t with
    | Some n => parse_raw parse_number regex_check fmt_g quote (parse_fuel src) src = ROk n
    | None => exists e, parse_raw parse_number regex_check fmt_g quote (parse_fuel src) src = RErr e /\
                        etype e = ErrIllegalAssignment
    end.
Proof.
  intros H Hl src s.
  destruct (C04_end_to_end_parse_fuel items tail H) as (t & Hwf & Hy & Hu & Hres).
  exists t. split; [exact Hwf|]. split; [exact Hy|]. split; [exact Hu|].
  rewrite <- (embedX_embed parse_number t); [exact Hres|].
  rewrite Hy. apply (toks_not_literal parse_number); [|exact Hl].
  apply (chain_text_pieces_ok parse_number items tail H).
Qed.

(* the form used in the examples: THE well-grouped tree t0 of the tokens determines the result *)
Corollary C04_parse_of_tree items tail t0 : chain_text_ok parse_number items tail = true ->
  awf t0 -> ayield t0 = toks 0 items ->
  let src := text items tail in
  match embedX parse_number t0 with
  | Some n => parse_raw parse_number regex_check fmt_g quote (parse_fuel src) src = ROk n
  | None => exists e, parse_raw parse_number regex_check fmt_g quote (parse_fuel src) src = RErr e /\
                      etype e = ErrIllegalAssignment
  end.
Proof.
  intros H Hwf0 Hy0 src.
  destruct (C04_end_to_end_parse_fuel items tail H) as (t & Hwf & Hy & Hu & Hres).
  rewrite (Hu t0 Hwf0 Hy0). exact Hres.
Qed.

(* the plainest reading: operands and operators separated by exactly one space *)
Corollary C04_end_to_end_spaced a0 l : piece_ok parse_number (PAtom a0) = true ->
  forallb (fun oa : opk * operand => piece_ok parse_number (PAtom (snd oa))) l = true ->
  let src := text (spaced a0 l) EmptyString in
  let s := toks 0 (spaced a0 l) in
  exists t, awf t /\ ayield t = s /\ (forall t', awf t' -> ayield t' = s -> t' = t) /\
    match embedX parse_number t with
    | Some n => parse_raw parse_number regex_check fmt_g quote (parse_fuel src) src = ROk n
    | None => exists e, parse_raw parse_number regex_check fmt_g quote (parse_fuel src) src = RErr e /\
                        etype e = ErrIllegalAssignment
    end.
Proof.
  intros H0 Hl. apply C04_end_to_end_parse_fuel. apply spaced_ok; assumption.
Qed.

End EndToEnd.

Print Assumptions C04_end_to_end.
Print Assumptions C04_end_to_end_parse_fuel.
Print Assumptions C04_end_to_end_names.
Print Assumptions C04_parse_of_tree.
Print Assumptions C04_end_to_end_spaced.

(* ==================================================================================== *)
(* 5. The operand classes contain the usual identifiers; examples                        *)
(* ==================================================================================== *)

(* ASCII letters and underscore; then also digits *)
Definition ident_start (c : ascii) : bool :=
  ((97 <=? byte_of c) && (byte_of c <=? 122)) || ((65 <=? byte_of c) && (byte_of c <=? 90))
  || (byte_of c =? 95).
Definition ident_char (c : ascii) : bool :=
  ident_start c || ((48 <=? byte_of c) && (byte_of c <=? 57)).
Fixpoint ident_chars (s : string) : bool :=
  match s with EmptyString => true | String c r => ident_char c && ident_chars r end.
Definition ident_ok (w : string) : bool :=
  match w with EmptyString => false | String c r => ident_start c && ident_chars r end.

Lemma ident_start_name_start c : ident_start c = true -> name_start c = true.
Proof.
  destruct c as [[] [] [] [] [] [] [] []]; vm_compute; intros H; first [reflexivity|discriminate H].
Qed.

Lemma ident_char_name_byte c : ident_char c = true -> name_byte c = true.
Proof.
  destruct c as [[] [] [] [] [] [] [] []]; vm_compute; intros H; first [reflexivity|discriminate H].
Qed.

Lemma ident_chars_name_bytes s : ident_chars s = true -> name_bytes s = true.
Proof.
  induction s as [|c r IH]; [reflexivity|]. cbn [ident_chars name_bytes]. intros H.
  apply andb_true_iff in H as [H1 H2]. rewrite (ident_char_name_byte c H1), (IH H2). reflexivity.
Qed.

(* every identifier [A-Za-z_][A-Za-z0-9_]* is a word of the operand class (OName), and
   $identifier a variable (OVar) *)
Lemma ident_word_ok w : ident_ok w = true -> word_ok w = true.
Proof.
  destruct w as [|c r]; [discriminate|]. cbn [ident_ok word_ok]. intros H.
  apply andb_true_iff in H as [H1 H2].
  rewrite (ident_start_name_start c H1), (ident_chars_name_bytes r H2). reflexivity.
Qed.

Lemma ident_var_ok w : ident_chars w = true -> name_bytes w = true.
Proof. apply ident_chars_name_bytes. Qed.

Section Examples.
Variable pn : string -> numlit.
Variable rc : string -> option string.
Variable fg : f64 -> string.
Variable q : string -> string.

Let tk (ty : tokentype) (v : string) (pos : Z) : token := {| ttype := ty; tvalue := v; tpos := pos |}.
Let nm (v : string) : node := NName v false.

Ltac chain_example t0 n :=
  match goal with
  | |- parse_raw _ _ _ _ _ (text ?items ?tail) = _ =>
      let H := fresh "H" in
      pose proof (C04_parse_of_tree pn rc fg q items tail t0) as H;
      cbv zeta in H;
      change (embedX pn t0) with (Some n) in H;
      apply H; [vm_compute; reflexivity | vm_compute; repeat split; try exact I; lia | reflexivity]
  end.

(* a + b * c  is  a + (b * c) *)
Example ex_add_mul :
  let items := [("", PAtom (OName "a")); (" ", POp OpPlus); (" ", PAtom (OName "b"));
                (" ", POp OpMult); (" ", PAtom (OName "c"))]%string in
  text items "" = "a + b * c"%string /\
  parse_raw pn rc fg q (parse_fuel (text items "")) (text items "") =
  ROk (NNumeric NumAdd (nm "a") (NNumeric NumMul (nm "b") (nm "c"))).
Proof.
  intros items. split; [reflexivity|].
  chain_example
    (Bin (tk typePlus "+" 2) (Leaf (tk typeName "a" 0))
         (Bin (tk typeMult "*" 6) (Leaf (tk typeName "b" 4)) (Leaf (tk typeName "c" 8))))
    (NNumeric NumAdd (nm "a") (NNumeric NumMul (nm "b") (nm "c"))).
Qed.

(* a & b = c  is  (a & b) = c *)
Example ex_concat_eq :
  let items := [("", PAtom (OName "a")); (" ", POp OpConcat); (" ", PAtom (OName "b"));
                (" ", POp OpEq); (" ", PAtom (OName "c"))]%string in
  text items "" = "a & b = c"%string /\
  parse_raw pn rc fg q (parse_fuel (text items "")) (text items "") =
  ROk (NComparison CmpEq (NConcat (nm "a") (nm "b")) (nm "c")).
Proof.
  intros items. split; [reflexivity|].
  chain_example
    (Bin (tk typeEqual "=" 6)
         (Bin (tk typeConcat "&" 2) (Leaf (tk typeName "a" 0)) (Leaf (tk typeName "b" 4)))
         (Leaf (tk typeName "c" 8)))
    (NComparison CmpEq (NConcat (nm "a") (nm "b")) (nm "c")).
Qed.

(* a ~> f and b  is  (a ~> f) and b ; keyword operator, extra whitespace, trailing whitespace *)
Example ex_apply_and :
  let items := [(" ", PAtom (OName "a")); (" ", POp OpApply); ("  ", PAtom (OName "f"));
                (" ", POp OpAnd); (String (ascii_of_Z 9) "", PAtom (OName "b"))]%string in
  text items " " = (" a ~>  f and" ++ String (ascii_of_Z 9) "b ")%string /\
  parse_raw pn rc fg q (parse_fuel (text items " ")) (text items " ") =
  ROk (NBoolOp BoolAnd (NApply (nm "a") (nm "f")) (nm "b")).
Proof.
  intros items. split; [reflexivity|].
  chain_example
    (Bin (tk typeAnd "and" 9)
         (Bin (tk typeApply "~>" 3) (Leaf (tk typeName "a" 1)) (Leaf (tk typeName "f" 7)))
         (Leaf (tk typeName "b" 13)))
    (NBoolOp BoolAnd (NApply (nm "a") (nm "f")) (nm "b")).
Qed.

(* $x := $y := 1  is  $x := ($y := 1)  (given that the oracle converts 1) *)
Example ex_assign_right x1 : pn "1" = NumOk x1 ->
  let items := [("", PAtom (OVar "x")); (" ", POp OpAssign); (" ", PAtom (OVar "y"));
                (" ", POp OpAssign); (" ", PAtom (ONum "1"))]%string in
  text items "" = "$x := $y := 1"%string /\
  parse_raw pn rc fg q (parse_fuel (text items "")) (text items "") =
  ROk (NAssignment "x" (NAssignment "y" (NNumber x1))).
Proof.
  intros Hpn items. split; [reflexivity|].
  pose proof (C04_parse_of_tree pn rc fg q items ""
    (Bin (tk typeAssign ":=" 3) (Leaf (tk typeVariable "x" 1))
         (Bin (tk typeAssign ":=" 9) (Leaf (tk typeVariable "y" 7)) (Leaf (tk typeNumber "1" 12))))) as H.
  cbv zeta in H.
  assert (E : embedX pn
    (Bin (tk typeAssign ":=" 3) (Leaf (tk typeVariable "x" 1))
         (Bin (tk typeAssign ":=" 9) (Leaf (tk typeVariable "y" 7)) (Leaf (tk typeNumber "1" 12))))
    = Some (NAssignment "x" (NAssignment "y" (NNumber x1)))).
  { unfold embedX. cbn [embedG atomX tk ttype tvalue atom_node]. rewrite Hpn. reflexivity. }
  rewrite E in H. apply H.
  - vm_compute. rewrite Hpn. reflexivity.
  - vm_compute. repeat split; try exact I; lia.
  - reflexivity.
Qed.

(* no whitespace at all, a string literal:  $x:=a<=b&"s"  is  $x := (a <= (b & "s")) *)
Example ex_tight :
  let items := [("", PAtom (OVar "x")); ("", POp OpAssign); ("", PAtom (OName "a"));
                ("", POp OpLe); ("", PAtom (OName "b")); ("", POp OpConcat);
                ("", PAtom (OStr "s"))]%string in
  text items "" = "$x:=a<=b&""s"""%string /\
  parse_raw pn rc fg q (parse_fuel (text items "")) (text items "") =
  ROk (NAssignment "x" (NComparison CmpLe (nm "a") (NConcat (nm "b") (NString "s")))).
Proof.
  intros items. split; [reflexivity|].
  chain_example
    (Bin (tk typeAssign ":=" 2) (Leaf (tk typeVariable "x" 1))
         (Bin (tk typeLessEqual "<=" 5) (Leaf (tk typeName "a" 4))
              (Bin (tk typeConcat "&" 8) (Leaf (tk typeName "b" 7)) (Leaf (tk typeString "s" 10)))))
    (NAssignment "x" (NComparison CmpLe (nm "a") (NConcat (nm "b") (NString "s")))).
Qed.

(* a := b : the well-grouped tree assigns to a name, the parse is the IllegalAssignment error *)
Example ex_illegal_assignment :
  let items := [("", PAtom (OName "a")); (" ", POp OpAssign); (" ", PAtom (OName "b"))]%string in
  text items "" = "a := b"%string /\
  exists e, parse_raw pn rc fg q (parse_fuel (text items "")) (text items "") = RErr e /\
            etype e = ErrIllegalAssignment.
Proof.
  intros items. split; [reflexivity|].
  pose proof (C04_parse_of_tree pn rc fg q items ""
    (Bin (tk typeAssign ":=" 2) (Leaf (tk typeName "a" 0)) (Leaf (tk typeName "b" 5)))) as H.
  cbv zeta in H.
  change (embedX pn (Bin (tk typeAssign ":=" 2) (Leaf (tk typeName "a" 0)) (Leaf (tk typeName "b" 5))))
    with (@None node) in H.
  apply H; [vm_compute; reflexivity | vm_compute; repeat split; try exact I; lia | reflexivity].
Qed.

(* the stream hypothesis of C04Proofs.C04_chain, from the text *)
Example ex_stream :
  let items := [("", PAtom (OName "a")); (" ", POp OpConcat); (" ", PAtom (OName "b"));
                (" ", POp OpEq); (" ", PAtom (OName "c"))]%string in
  exists p0, newParser "a & b = c" = ROk p0 /\
    stream false p0 [SAtom (tk typeName "a" 0); SOp (tk typeConcat "&" 2); SAtom (tk typeName "b" 4);
                     SOp (tk typeEqual "=" 6); SAtom (tk typeName "c" 8)].
Proof.
  intros items. apply (C04_chain_stream pn items ""); reflexivity.
Qed.

(* the single-space rendering *)
Example ex_spaced :
  text (spaced (OName "a") [(OpPlus, OName "b"); (OpMult, OName "c")]) "" = "a + b * c"%string /\
  chain_text_ok pn (spaced (OName "a") [(OpPlus, OName "b"); (OpMult, OName "c")]) "" = true.
Proof. split; [reflexivity|]. apply spaced_ok; reflexivity. Qed.

End Examples.
