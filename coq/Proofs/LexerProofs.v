(* Proofs/LexerProofs.v — the lexer of Model/Lexer.v never indexes out of bounds, always makes
   progress, and terminates.

   Invariant: [linv l := 0 <= start l <= current l <= len(input l)]  ([width] is unconstrained:
   every [backup] in the code directly follows the [nextRune] that set [width], and the proofs
   treat those pairs together — [backup] alone does NOT preserve the invariant, which is exactly
   the defect repaired by commit a5f6e33).

   Per-operation specifications (all for states satisfying [linv]): nextRune_spec, accept_spec,
   acceptAllLoop_spec, newToken_spec, lexError_spec, scan*Loop_spec, scanString_spec,
   scanEscapedName_spec, scanRegex_spec, scanNumber_spec, scanNameLoop_spec, scanName_spec,
   trySymbols2_spec, and next_spec_af.  They are stated with a flag [af]: with [af = true] running out of
   fuel is tolerated (so they hold for EVERY fuel: nothing can make the lexer panic), with
   [af = false] it is not (enough fuel always yields a token).  Main theorems at the end. *)
From JV Require Import Model.Lexer.
From Coq Require Import Lia ZifyBool ZifyNat.
Open Scope Z_scope.

Definition linv (l : lexer) : Prop := 0 <= start l /\ start l <= current l /\ current l <= llength l.

Section AF.
(* [af = true]: running out of fuel is tolerated (used to show that NO amount of fuel can make
   the lexer panic); [af = false]: it is not (used to show that enough fuel always succeeds). *)
Variable af : bool.

Definition lspec {A} (r : res (A * lexer)) (Q : A -> lexer -> Prop) : Prop :=
  match r with ROk (a, l') => Q a l' | RFuel => af = true | _ => False end.

Definition fuel_ok (fuel : nat) (l : lexer) : Prop :=
  af = true \/ llength l - current l < Z.of_nat fuel.

Ltac fuel_tac :=
  match goal with
  | Hf : fuel_ok _ _ |- fuel_ok _ _ =>
      let H := fresh in destruct Hf as [H|H]; [left; exact H|right; unfold llength in *; lia]
  end.

Lemma lspec_bind {A B} (m : LM A) (k : A -> LM B) l (Q : A -> lexer -> Prop) (R : B -> lexer -> Prop) :
  lspec (m l) Q -> (forall a l', Q a l' -> lspec (k a l') R) -> lspec (sbind m k l) R.
Proof.
  unfold sbind, lspec. destruct (m l) as [[a l']| | |]; try contradiction; auto. intros HQ Hk. apply Hk, HQ.
Qed.

Lemma lspec_weaken {A} (r : res (A * lexer)) (Q R : A -> lexer -> Prop) :
  lspec r Q -> (forall a l', Q a l' -> R a l') -> lspec r R.
Proof. unfold lspec. destruct r as [[a l']| | |]; auto. Qed.

Lemma lspec_ret {A} (a : A) l (Q : A -> lexer -> Prop) : Q a l -> lspec (sret a l) Q.
Proof. auto. Qed.

Lemma decode_rune_nonneg s : 0 <= fst (decode_rune s).
Proof.
  assert (Hb : forall c, 0 <= byte_of c) by (intro c; unfold byte_of; lia).
  destruct s as [|c0 r0]; [simpl; unfold RuneError; lia|].
  unfold decode_rune.
  destruct (byte_of c0 <? 128); [simpl; apply Hb|].
  destruct (lead_info (byte_of c0)) as [[[sz lo] hi]|]; [|simpl; unfold RuneError; lia].
  destruct r0 as [|c1 r1]; [simpl; unfold RuneError; lia|].
  destruct (negb _); [simpl; unfold RuneError; lia|].
  destruct (sz =? 2)%nat.
  { simpl. pose proof (Z.mod_pos_bound (byte_of c0) 32). pose proof (Z.mod_pos_bound (byte_of c1) 64). lia. }
  destruct r1 as [|c2 r2]; [simpl; unfold RuneError; lia|].
  destruct (negb _); [simpl; unfold RuneError; lia|].
  destruct (sz =? 3)%nat.
  { simpl. pose proof (Z.mod_pos_bound (byte_of c0) 16). pose proof (Z.mod_pos_bound (byte_of c1) 64).
    pose proof (Z.mod_pos_bound (byte_of c2) 64). lia. }
  destruct r2 as [|c3 r3]; [simpl; unfold RuneError; lia|].
  destruct (negb _); [simpl; unfold RuneError; lia|].
  simpl. pose proof (Z.mod_pos_bound (byte_of c0) 8). pose proof (Z.mod_pos_bound (byte_of c1) 64).
  pose proof (Z.mod_pos_bound (byte_of c2) 64). pose proof (Z.mod_pos_bound (byte_of c3) 64). lia.
Qed.
Definition peekRune (l : lexer) : rune := match nextRune l with ROk (r, _) => r | _ => eof end.

Lemma peek_eq l l' : input l' = input l -> current l' = current l -> err l' = err l ->
  peekRune l' = peekRune l.
Proof.
  intros Hi Hc He. unfold peekRune, nextRune, llength. rewrite Hi, Hc, He.
  destruct (is_some (err l) || _); [reflexivity|].
  destruct (current l <? 0); [reflexivity|].
  destruct (decode_rune _) as [r w]. reflexivity.
Qed.

Lemma nextRune_spec l : linv l ->
  lspec (nextRune l) (fun r l' =>
    r = peekRune l /\ input l' = input l /\ start l' = start l /\ err l' = err l /\
    ((r = eof /\ current l' = current l /\ width l' = 0 /\ (err l <> None \/ current l = llength l)) \/
     (0 <= r /\ err l = None /\ current l < current l' /\ current l' <= llength l
      /\ width l' = current l' - current l))).
Proof.
  intros (H0 & H1 & H2). unfold peekRune, nextRune.
  destruct (is_some (err l) || (llength l <=? current l)) eqn:E.
  - simpl. repeat split; auto. left. repeat split; auto.
    apply orb_true_iff in E as [E|E].
    + left. destruct (err l); [discriminate|discriminate E].
    + right. lia.
  - apply orb_false_iff in E as [E1 E2].
    destruct (current l <? 0) eqn:E3; [lia|].
    pose proof (decode_rune_width (sdrop (Z.to_nat (current l)) (input l))) as Hw.
    pose proof (decode_rune_nonneg (sdrop (Z.to_nat (current l)) (input l))) as Hr.
    destruct (decode_rune _) as [r w]. simpl in *.
    assert (Hne : sdrop (Z.to_nat (current l)) (input l) <> "").
    { intro Hs. apply (f_equal slen) in Hs. rewrite slen_sdrop in Hs. simpl in Hs.
      unfold llength in *. lia. }
    specialize (Hw Hne). rewrite slen_sdrop in Hw. unfold llength in *.
    repeat split; auto. right. repeat split; try lia.
    destruct (err l); [discriminate|reflexivity].
Qed.
Definition ext (l l' : lexer) : Prop :=
  input l' = input l /\ start l' = start l /\ err l' = err l /\
  current l <= current l' /\ current l' <= llength l.

Lemma ext_refl l : linv l -> ext l l.
Proof. intros (H0 & H1 & H2). unfold ext. repeat split; auto; lia. Qed.

Lemma ext_llength l l' : ext l l' -> llength l' = llength l.
Proof. intros (Hi & _). unfold llength. now rewrite Hi. Qed.

Lemma ext_linv l l' : linv l -> ext l l' -> linv l'.
Proof.
  intros (H0 & H1 & H2) E. pose proof (ext_llength _ _ E) as HL.
  destruct E as (Hi & Hs & He & Hc & Hl). unfold linv. rewrite Hs, HL. lia.
Qed.

Lemma ext_trans l l1 l2 : ext l l1 -> ext l1 l2 -> ext l l2.
Proof.
  intros E1 E2. pose proof (ext_llength _ _ E1) as HL.
  destruct E1 as (Hi & Hs & He & Hc & Hl). destruct E2 as (Hi2 & Hs2 & He2 & Hc2 & Hl2).
  unfold ext. rewrite Hi2, Hs2, He2, Hi, Hs, He. repeat split; lia.
Qed.

Lemma accept_spec P l : linv l -> P eof = false ->
  lspec (accept P l) (fun b l' =>
    b = P (peekRune l) /\ ext l l' /\
    (b = true -> current l < current l') /\ (b = false -> current l' = current l)).
Proof.
  intros Hl HP. unfold accept.
  eapply lspec_bind; [apply nextRune_spec; exact Hl|].
  intros r l1 (Hr & Hi & Hs & He & Hcase). cbv beta.
  destruct Hl as (H0 & H1 & H2).
  destruct (P r) eqn:EP.
  - apply lspec_ret. subst r. rewrite EP.
    destruct Hcase as [(Heof & _)|(Hr0 & Herr & Hc1 & Hc2 & Hw)].
    + rewrite Heof in EP. congruence.
    + repeat split; auto; try lia; try discriminate.
  - unfold sbind, backup, sret, lspec. simpl. subst r. rewrite EP.
    unfold ext; simpl.
    destruct Hcase as [(Heof & Hc & Hw & _)|(Hr0 & Herr & Hc1 & Hc2 & Hw)];
      repeat split; auto; try lia; try discriminate.
Qed.

Lemma acceptAllLoop_spec P fuel : P eof = false -> forall b l, linv l ->
  fuel_ok fuel l ->
  lspec (acceptAllLoop fuel P b l) (fun b' l' =>
    ext l l' /\ P (peekRune l') = false /\ (b' = false -> b = false /\ current l' = current l)
    /\ (b' = true -> b = true \/ current l < current l')).
Proof.
  intros HP. induction fuel as [|f IH]; intros b l Hl Hf.
  - destruct Hl as (H0 & H1 & H2). destruct Hf as [Hf|Hf]; [exact Hf|lia].
  - cbn [acceptAllLoop].
    eapply lspec_bind; [apply accept_spec; auto|].
    intros ok l1 (Hok & E1 & Ht & Hfl). cbv beta.
    destruct ok.
    + specialize (Ht eq_refl).
      eapply lspec_weaken.
      * apply IH; [eapply ext_linv; eauto|]. pose proof (ext_llength _ _ E1). fuel_tac.
      * intros b' l' (E2 & HP' & Hb' & Hb''). refine (conj _ (conj _ (conj _ _))).
        -- eapply ext_trans; eauto.
        -- exact HP'.
        -- intro Hb; apply Hb' in Hb as [Hb _]; discriminate.
        -- intro Hb. right. destruct E2 as (_ & _ & _ & Hc & _). lia.
    + specialize (Hfl eq_refl). apply lspec_ret. refine (conj _ (conj _ (conj _ _))); auto.
      rewrite (peek_eq l l1); auto; destruct E1 as (Hi & Hs & He & _); auto.
Qed.
Definition ewf (len : Z) (e : perror) : Prop := (1 <= etype e <= 27)%nat /\ 0 <= epos e <= len.

Definition scan_post (l : lexer) (t : token) (l' : lexer) : Prop :=
  input l' = input l /\ linv l' /\ current l <= current l' /\ 0 <= tpos t <= llength l
  /\ (ttype t = typeError -> exists e, err l' = Some e /\ ewf (llength l) e)
  /\ (ttype t <> typeError -> err l' = err l)
  /\ (ttype t = typeBoolean -> tvalue t = "true" \/ tvalue t = "false").

Lemma newToken_spec ty l : linv l ->
  lspec (newToken ty l) (fun t l' =>
    ttype t = ty /\ tpos t = start l
    /\ tvalue t = sslice (Z.to_nat (start l)) (Z.to_nat (current l)) (input l)
    /\ input l' = input l /\ err l' = err l /\ start l' = current l /\ current l' = current l).
Proof.
  intros (H0 & H1 & H2). unfold newToken.
  replace ((0 <=? start l) && (start l <=? current l) && (current l <=? llength l)) with true by lia.
  simpl. repeat split; auto.
Qed.

Lemma lexError_spec l0 l typ hint : linv l0 -> linv l -> input l = input l0 -> current l0 <= current l ->
  (1 <= typ <= 27)%nat ->
  lspec (lexError typ hint l) (fun t l' => scan_post l0 t l' /\ ttype t = typeError).
Proof.
  intros Hl0 Hl Hi Hc Ht. unfold lexError.
  eapply lspec_bind; [apply newToken_spec; exact Hl|].
  intros t l1 (Hty & Hpos & Hval & Hi1 & He1 & Hs1 & Hc1). cbv beta.
  unfold lspec, scan_post, linv, llength in *. simpl.
  rewrite Hi1, Hs1, Hc1, Hi, Hpos. destruct Hl as (A & B & C). rewrite Hi in C.
  split; [|exact Hty].
  refine (conj eq_refl (conj _ (conj _ (conj _ (conj _ (conj _ _)))))); try lia.
  - intros _. eexists; split; [reflexivity|]. unfold ewf, mkError; simpl. rewrite Hpos. lia.
  - intros Hne. congruence.
  - rewrite Hty. discriminate.
Qed.

Definition loop_post (l : lexer) (o : option token) (l' : lexer) : Prop :=
  match o with
  | None => ext l l' /\ 0 <= width l' /\ current l <= current l' - width l'
  | Some t => scan_post l t l' /\ ttype t = typeError
  end.

Lemma scan_post_mono l0 l t l' : linv l0 -> ext l0 l -> scan_post l t l' -> scan_post l0 t l'.
Proof.
  intros Hl0 E (Hi & Hl & Hc & Hp & He & Hn & Hb).
  pose proof (ext_llength _ _ E) as HL. destruct E as (Ei & Es & Ee & Ec & El).
  unfold scan_post. rewrite HL in *. rewrite Hi, Ei.
  refine (conj eq_refl (conj Hl (conj _ (conj Hp (conj He (conj _ Hb)))))); try lia.
  intros H; rewrite (Hn H); exact Ee.
Qed.

Lemma loop_post_mono l0 l o l' : linv l0 -> ext l0 l -> loop_post l o l' -> loop_post l0 o l'.
Proof.
  intros Hl0 E. destruct o as [t|]; simpl.
  - intros [H1 H2]; split; [eapply scan_post_mono; eauto|exact H2].
  - intros (E2 & Hw & Hc). split; [eapply ext_trans; eauto|]. destruct E as (_ & _ & _ & Ec & _). lia.
Qed.

(* the state after a successful (non-eof) nextRune *)
Lemma nextRune_ext l r l1 : linv l ->
  r = peekRune l /\ input l1 = input l /\ start l1 = start l /\ err l1 = err l /\
    ((r = eof /\ current l1 = current l /\ width l1 = 0 /\ (err l <> None \/ current l = llength l)) \/
     (0 <= r /\ err l = None /\ current l < current l1 /\ current l1 <= llength l
      /\ width l1 = current l1 - current l)) ->
  ext l l1 /\ 0 <= width l1 /\ current l <= current l1 - width l1 /\ (r <> eof -> current l < current l1).
Proof.
  intros (H0 & H1 & H2) (Hr & Hi & Hs & He & Hcase). unfold ext.
  destruct Hcase as [(Heof & Hc & Hw & _)|(Hr0 & Herr & Hc1 & Hc2 & Hw)].
  - rewrite Hc, Hw. repeat split; auto; try lia; try congruence.
  - rewrite Hw. repeat split; auto; lia.
Qed.

Lemma scanStringLoop_spec q fuel : forall l, linv l -> fuel_ok fuel l ->
  lspec (scanStringLoop fuel q l) (loop_post l).
Proof.
  induction fuel as [|f IH]; intros l Hl Hf.
  - destruct Hl as (H0 & H1 & H2). destruct Hf as [Hf|Hf]; [exact Hf|lia].
  - cbn [scanStringLoop].
    eapply lspec_bind; [apply nextRune_spec; exact Hl|].
    intros r l1 Hn. cbv beta.
    destruct (nextRune_ext _ _ _ Hl Hn) as (E1 & Hw1 & Hc1 & Hp1). clear Hn.
    pose proof (ext_linv _ _ Hl E1) as Hl1. pose proof (ext_llength _ _ E1) as HL1.
    destruct (r =? q) eqn:Eq.
    { apply lspec_ret. simpl. auto. }
    destruct (r =? ch "\") eqn:Eb.
    { assert (Hne : r <> eof) by (apply Z.eqb_eq in Eb; rewrite Eb; discriminate).
      specialize (Hp1 Hne).
      eapply lspec_bind; [apply nextRune_spec; exact Hl1|].
      intros r2 l2 Hn2. cbv beta.
      destruct (nextRune_ext _ _ _ Hl1 Hn2) as (E2 & Hw2 & Hc2 & Hp2). clear Hn2.
      pose proof (ext_linv _ _ Hl1 E2) as Hl2. pose proof (ext_llength _ _ E2) as HL2.
      pose proof (ext_trans _ _ _ E1 E2) as E12.
      destruct (negb (r2 =? eof)) eqn:Ee.
      - eapply lspec_weaken; [apply IH; [exact Hl2|]|].
        + destruct E2 as (_ & _ & _ & Ec & _). fuel_tac.
        + intros o l'. apply loop_post_mono; auto.
      - eapply lspec_bind.
        + apply (lexError_spec l); auto.
          * destruct E12 as (Ei & _); exact Ei.
          * destruct E12 as (_ & _ & _ & Ec & _); exact Ec.
          * unfold ErrUnterminatedString; lia.
        + intros t l' Hpost. apply lspec_ret. exact Hpost. }
    destruct (r =? eof) eqn:Ee.
    { eapply lspec_bind.
      + apply (lexError_spec l); auto.
        * destruct E1 as (Ei & _); exact Ei.
        * destruct E1 as (_ & _ & _ & Ec & _); exact Ec.
        * unfold ErrUnterminatedString; lia.
      + intros t l' Hpost. apply lspec_ret. exact Hpost. }
    assert (Hne : r <> eof) by (apply Z.eqb_neq in Ee; exact Ee).
    specialize (Hp1 Hne).
    eapply lspec_weaken; [apply IH; [exact Hl1|fuel_tac]|].
    intros o l'. apply loop_post_mono; auto.
Qed.
Ltac step_next Hl r l1 E1 Hw1 Hc1 Hp1 Hl1 HL1 :=
  eapply lspec_bind; [apply nextRune_spec; exact Hl|];
  let Hn := fresh "Hn" in
  intros r l1 Hn; cbv beta;
  destruct (nextRune_ext _ _ _ Hl Hn) as (E1 & Hw1 & Hc1 & Hp1); clear Hn;
  pose proof (ext_linv _ _ Hl E1) as Hl1; pose proof (ext_llength _ _ E1) as HL1.

Ltac finish_err l E :=
  eapply lspec_bind;
  [ apply (lexError_spec l); auto;
    [ let Ei := fresh in destruct E as (Ei & _); exact Ei
    | let Ec := fresh in destruct E as (_ & _ & _ & Ec & _); exact Ec
    | unfold ErrUnterminatedString, ErrUnterminatedRegex, ErrUnterminatedName; lia ]
  | let t := fresh in let l' := fresh in let Hp := fresh in
    intros t l' Hp; apply lspec_ret; exact Hp ].

Lemma scanRegexLoop_spec delim fuel : delim <> eof -> forall depth l, linv l ->
  fuel_ok fuel l ->
  lspec (scanRegexLoop fuel delim depth l) (loop_post l).
Proof.
  intros Hd. induction fuel as [|f IH]; intros depth l Hl Hf.
  - destruct Hl as (H0 & H1 & H2). destruct Hf as [Hf|Hf]; [exact Hf|lia].
  - cbn [scanRegexLoop].
    step_next Hl r l1 E1 Hw1 Hc1 Hp1 Hl1 HL1.
    assert (Hrec : forall d, r <> eof -> lspec (scanRegexLoop f delim d l1) (loop_post l)).
    { intros d Hne. specialize (Hp1 Hne).
      eapply lspec_weaken; [apply IH; [exact Hl1|fuel_tac]|].
      intros o l'. apply loop_post_mono; auto. }
    destruct (r =? delim) eqn:Eq.
    { apply Z.eqb_eq in Eq. destruct (depth =? 0).
      - apply lspec_ret. simpl. auto.
      - apply Hrec. congruence. }
    destruct ((r =? ch "(") || (r =? ch "[") || (r =? ch "{")) eqn:Eo.
    { apply Hrec. intro Hr; rewrite Hr in Eo; discriminate Eo. }
    destruct ((r =? ch ")") || (r =? ch "]") || (r =? ch "}")) eqn:Ec.
    { apply Hrec. intro Hr; rewrite Hr in Ec; discriminate Ec. }
    destruct (r =? ch "\") eqn:Eb.
    { assert (Hne : r <> eof) by (apply Z.eqb_eq in Eb; rewrite Eb; discriminate).
      specialize (Hp1 Hne).
      step_next Hl1 r2 l2 E2 Hw2 Hc2 Hp2 Hl2 HL2.
      pose proof (ext_trans _ _ _ E1 E2) as E12.
      destruct (negb (r2 =? eof) && negb (r2 =? 10)) eqn:Ee.
      - eapply lspec_weaken; [apply IH; [exact Hl2|]|].
        + destruct E2 as (_ & _ & _ & Ec2 & _). fuel_tac.
        + intros o l'. apply loop_post_mono; auto.
      - finish_err l E12. }
    destruct ((r =? eof) || (r =? 10)) eqn:Ee.
    { finish_err l E1. }
    apply Hrec. intro Hr; rewrite Hr in Ee; discriminate Ee.
Qed.

Lemma scanEscapedNameLoop_spec q fuel : forall l, linv l ->
  fuel_ok fuel l ->
  lspec (scanEscapedNameLoop fuel q l) (loop_post l).
Proof.
  induction fuel as [|f IH]; intros l Hl Hf.
  - destruct Hl as (H0 & H1 & H2). destruct Hf as [Hf|Hf]; [exact Hf|lia].
  - cbn [scanEscapedNameLoop].
    step_next Hl r l1 E1 Hw1 Hc1 Hp1 Hl1 HL1.
    destruct (r =? q) eqn:Eq.
    { apply lspec_ret. simpl. auto. }
    destruct ((r =? eof) || (r =? 10)) eqn:Ee.
    { finish_err l E1. }
    assert (Hne : r <> eof) by (intro Hr; rewrite Hr in Ee; discriminate Ee).
    specialize (Hp1 Hne).
    eapply lspec_weaken; [apply IH; [exact Hl1|fuel_tac]|].
    intros o l'. apply loop_post_mono; auto.
Qed.
Lemma tail_spec ty q l0 l (k : token -> LM token) (Q : token -> lexer -> Prop) :
  linv l0 -> ext l0 l -> 0 <= width l -> current l0 <= current l - width l -> q <> eof ->
  (forall t l', ttype t = ty -> tpos t = start l0 -> linv l' -> input l' = input l0 ->
                err l' = err l0 -> start l' = current l' -> current l0 <= current l' ->
                lspec (k t l') Q) ->
  lspec ((backup ;; do t <- newToken ty; do _a <- acceptRune q; ignore ;; k t) l) Q.
Proof.
  intros Hl0 E Hw Hc Hq Hk.
  pose proof (ext_llength _ _ E) as HL.
  destruct E as (Ei & Es & Ee & Ec & El). destruct Hl0 as (A0 & A1 & A2).
  unfold sbind at 1. unfold backup. cbv beta iota.
  set (l1 := set_current (current l - width l) l).
  assert (Hl1 : linv l1) by (unfold linv, l1, llength in *; simpl; rewrite Ei, Es; lia).
  eapply lspec_bind; [apply newToken_spec; exact Hl1|].
  intros t l2 (Hty & Hpos & Hval & Hi2 & He2 & Hs2 & Hc2). cbv beta.
  assert (Hl2 : linv l2).
  { unfold linv, llength in *. rewrite Hi2, Hs2, Hc2. unfold l1; simpl. rewrite Ei. lia. }
  eapply lspec_bind; [apply accept_spec; [exact Hl2|]|].
  { apply Z.eqb_neq. intro H; apply Hq; symmetry; exact H. }
  intros b l3 (_ & E3 & _ & _). cbv beta.
  pose proof (ext_linv _ _ Hl2 E3) as Hl3.
  destruct E3 as (Ei3 & Es3 & Ee3 & Ec3 & El3).
  unfold sbind at 1. unfold ignore. cbv beta iota.
  apply Hk; auto.
  - rewrite Hpos. unfold l1; simpl. exact Es.
  - destruct Hl3 as (B0 & B1 & B2). unfold linv, llength in *; simpl. lia.
  - simpl. rewrite Ei3, Hi2. unfold l1; simpl. exact Ei.
  - simpl. rewrite Ee3, He2. unfold l1; simpl. exact Ee.
  - simpl. rewrite Hc2 in Ec3. unfold l1 in Ec3; simpl in Ec3. lia.
Qed.

Lemma scan_post_intro l0 t l' : linv l0 -> ttype t <> typeError -> ttype t <> typeBoolean ->
  tpos t = start l0 -> linv l' -> input l' = input l0 -> err l' = err l0 ->
  current l0 <= current l' -> scan_post l0 t l'.
Proof.
  intros (A0 & A1 & A2) Hne Hnb Hpos Hl' Hi He Hc. unfold scan_post.
  refine (conj Hi (conj Hl' (conj Hc (conj _ (conj _ (conj _ _)))))); try (rewrite Hpos; lia); try tauto.
Qed.

Lemma scanString_spec fuel q l : linv l -> fuel_ok fuel l -> q <> eof ->
  lspec (scanString fuel q l) (scan_post l).
Proof.
  intros Hl Hf Hq. unfold scanString.
  eapply lspec_bind; [apply scanStringLoop_spec; auto|].
  intros [t|] l1 Hp; cbv beta iota.
  - apply lspec_ret. apply Hp.
  - destruct Hp as (E & Hw & Hc).
    apply (tail_spec typeString q l l1 (fun t => sret t)); auto.
    intros t l' Hty Hpos Hl' Hi He Hs Hcc. apply lspec_ret.
    apply scan_post_intro; auto; rewrite Hty; discriminate.
Qed.

Lemma scanEscapedName_spec fuel q l : linv l -> fuel_ok fuel l -> q <> eof ->
  lspec (scanEscapedName fuel q l) (scan_post l).
Proof.
  intros Hl Hf Hq. unfold scanEscapedName.
  eapply lspec_bind; [apply scanEscapedNameLoop_spec; auto|].
  intros [t|] l1 Hp; cbv beta iota.
  - apply lspec_ret. apply Hp.
  - destruct Hp as (E & Hw & Hc).
    apply (tail_spec typeNameEsc q l l1 (fun t => sret t)); auto.
    intros t l' Hty Hpos Hl' Hi He Hs Hcc. apply lspec_ret.
    apply scan_post_intro; auto; rewrite Hty; discriminate.
Qed.

Lemma isRegexFlag_eof : isRegexFlag eof = false. Proof. reflexivity. Qed.
Lemma isDigit_eof : isDigit eof = false. Proof. reflexivity. Qed.
Lemma isNonZeroDigit_eof : isNonZeroDigit eof = false. Proof. reflexivity. Qed.
Lemma isWhitespace_eof : isWhitespace eof = false. Proof. reflexivity. Qed.

Lemma scanRegex_spec fuel q l : linv l -> fuel_ok fuel l -> q <> eof ->
  lspec (scanRegex fuel q l) (scan_post l).
Proof.
  intros Hl Hf Hq. unfold scanRegex.
  eapply lspec_bind; [apply scanRegexLoop_spec; auto|].
  intros [t|] l1 Hp; cbv beta iota.
  - apply lspec_ret. apply Hp.
  - destruct Hp as (E & Hw & Hc).
    apply (tail_spec typeRegex q l l1
             (fun t => do hasFlags <- acceptAll fuel isRegexFlag;
                       if hasFlags then
                         do flags <- newToken typeEOF;
                         sret (set_tvalue ("(?" ++ tvalue flags ++ ")" ++ tvalue t) t)
                       else sret t)); auto.
    intros t l' Hty Hpos Hl' Hi He Hs Hcc.
    assert (HL' : llength l' = llength l) by (unfold llength; now rewrite Hi).
    eapply lspec_bind.
    { apply acceptAllLoop_spec; [reflexivity|exact Hl'|]. fuel_tac. }
    intros b l2 (E2 & _). cbv beta.
    pose proof (ext_linv _ _ Hl' E2) as Hl2.
    destruct E2 as (Ei2 & Es2 & Ee2 & Ec2 & El2).
    destruct b.
    + eapply lspec_bind; [apply newToken_spec; exact Hl2|].
      intros fl l3 (Hty3 & Hpos3 & Hval3 & Hi3 & He3 & Hs3 & Hc3). cbv beta.
      apply lspec_ret. apply scan_post_intro; auto; simpl; try (rewrite Hty; discriminate).
      * destruct Hl2 as (B0 & B1 & B2). unfold linv, llength in *. rewrite Hi3, Hs3, Hc3. lia.
      * congruence.
      * congruence.
      * lia.
    + apply lspec_ret. apply scan_post_intro; auto; try (rewrite Hty; discriminate).
      * congruence.
      * congruence.
      * lia.
Qed.
Definition tok_post (ty : tokentype) (l : lexer) (t : token) (l' : lexer) : Prop :=
  ttype t = ty /\ tpos t = start l /\ linv l' /\ input l' = input l /\ err l' = err l
  /\ current l <= current l'.

Lemma newToken_tok_post ty l0 l : linv l0 -> ext l0 l -> lspec (newToken ty l) (fun t l' => tok_post ty l0 t l' /\ current l' = current l
    /\ tvalue t = sslice (Z.to_nat (start l0)) (Z.to_nat (current l)) (input l0)).
Proof.
  intros Hl0 E. pose proof (ext_linv _ _ Hl0 E) as Hl.
  eapply lspec_weaken; [apply newToken_spec; exact Hl|].
  intros t l' (Hty & Hpos & Hval & Hi & He & Hs & Hc).
  destruct E as (Ei & Es & Ee & Ec & El). destruct Hl as (B0 & B1 & B2).
  unfold tok_post, linv, llength in *. rewrite Hi, Hs, Hc, He, Hpos, Hval, Es, Ei.
  repeat split; auto; try lia.
Qed.

Lemma tok_post_scan ty l t l' : linv l -> ty <> typeError -> ty <> typeBoolean ->
  tok_post ty l t l' -> scan_post l t l'.
Proof.
  intros Hl H1 H2 (Hty & Hpos & Hl' & Hi & He & Hc).
  apply scan_post_intro; auto; rewrite Hty; auto.
Qed.

Lemma scanNumber_spec fuel l : linv l -> fuel_ok fuel l ->
  lspec (scanNumber fuel l) (fun t l' => tok_post typeNumber l t l'
                                         /\ (isDigit (peekRune l) = true -> current l < current l')).
Proof.
  intros Hl Hf. unfold scanNumber.
  (* integer part *)
  eapply lspec_bind; [apply accept_spec; [exact Hl|reflexivity]|].
  intros z l1 (Hz & E1 & Hzt & Hzf). cbv beta.
  pose proof (ext_linv _ _ Hl E1) as Hl1. pose proof (ext_llength _ _ E1) as HL1.
  eapply (lspec_bind _ _ _ (fun _ l2 => ext l l2 /\ (isDigit (peekRune l) = true -> current l < current l2))).
  { destruct z; cbv [negb].
    - apply lspec_ret. split; auto.
    - specialize (Hzf eq_refl).
      eapply lspec_bind; [apply accept_spec; [exact Hl1|reflexivity]|].
      intros nz l2 (Hnz & E2 & Hnt & Hnf). cbv beta.
      pose proof (ext_linv _ _ Hl1 E2) as Hl2. pose proof (ext_llength _ _ E2) as HL2.
      eapply lspec_bind.
      { apply acceptAllLoop_spec; [reflexivity|exact Hl2|].
        destruct E2 as (_ & _ & _ & Ec & _). fuel_tac. }
      intros b l3 (E3 & _). cbv beta. apply lspec_ret.
      split; [eapply ext_trans; [exact E1|eapply ext_trans; eauto]|].
      intros Hd. rewrite (peek_eq l l1) in Hnz by (destruct E1 as (Ei & Es & Ee & _); auto).
      assert (Hnzt : nz = true).
      { rewrite Hnz. unfold isDigit, isNonZeroDigit in *. 
        symmetry in Hz. apply Z.eqb_neq in Hz. 
        change (ch "0") with 48 in *. change (ch "1") with 49. change (ch "9") with 57 in *. lia. }
      specialize (Hnt Hnzt). destruct E3 as (_ & _ & _ & Ec3 & _). lia. }
  intros _ l2 (E2 & Hprog). cbv beta.
  pose proof (ext_linv _ _ Hl E2) as Hl2. pose proof (ext_llength _ _ E2) as HL2.
  unfold sbind at 1. cbv beta iota.
  assert (Hf2 : fuel_ok fuel l2).
  { destruct E2 as (_ & _ & _ & Ec & _). fuel_tac. }
  clear Hf.
  (* the exponent part and the final token, from any later state *)
  set (rest := (do e <- acceptRunes2 (ch "e") (ch "E");
                (if e then (do _a <- acceptRunes2 (ch "+") (ch "-");
                            do _b <- acceptAll fuel isDigit; sret tt) else sret tt) ;;
                newToken typeNumber)).
  assert (Hrest : forall lx, ext l2 lx ->
            lspec (rest lx) (fun t l' => tok_post typeNumber l t l'
                               /\ (isDigit (peekRune l) = true -> current l < current l'))).
  { intros lx Ex. pose proof (ext_linv _ _ Hl2 Ex) as Hlx. pose proof (ext_llength _ _ Ex) as HLx.
    unfold rest.
    eapply lspec_bind; [apply accept_spec; [exact Hlx|reflexivity]|].
    intros e l3 (_ & E3 & _ & _). cbv beta.
    pose proof (ext_linv _ _ Hlx E3) as Hl3. pose proof (ext_llength _ _ E3) as HL3.
    eapply (lspec_bind _ _ _ (fun _ l4 => ext l3 l4)).
    { destruct e.
      - eapply lspec_bind; [apply accept_spec; [exact Hl3|reflexivity]|].
        intros s l4 (_ & E4 & _ & _). cbv beta.
        pose proof (ext_linv _ _ Hl3 E4) as Hl4. pose proof (ext_llength _ _ E4) as HL4.
        eapply lspec_bind.
        { apply acceptAllLoop_spec; [reflexivity|exact Hl4|].
          destruct Ex as (_ & _ & _ & Ecx & _). destruct E3 as (_ & _ & _ & Ec3 & _).
          destruct E4 as (_ & _ & _ & Ec4 & _). fuel_tac. }
        intros b l5 (E5 & _). cbv beta. apply lspec_ret. eapply ext_trans; eauto.
      - apply lspec_ret. apply ext_refl; auto. }
    intros _ l4 E4. cbv beta.
    assert (E04 : ext l l4).
    { eapply ext_trans; [exact E2|]. eapply ext_trans; [exact Ex|]. eapply ext_trans; eauto. }
    eapply lspec_weaken; [apply (newToken_tok_post typeNumber l l4); auto|].
    intros t l' (Hp & Hc' & _). split; [exact Hp|].
    intros Hd. specialize (Hprog Hd).
    destruct Ex as (_ & _ & _ & Ecx & _). destruct E3 as (_ & _ & _ & Ec3 & _).
    destruct E4 as (_ & _ & _ & Ec4 & _). lia. }
  eapply lspec_bind; [apply accept_spec; [exact Hl2|reflexivity]|].
  intros dot l3 (_ & E3 & _ & _). cbv beta.
  pose proof (ext_linv _ _ Hl2 E3) as Hl3. pose proof (ext_llength _ _ E3) as HL3.
  destruct dot.
  - eapply lspec_bind.
    { apply acceptAllLoop_spec; [reflexivity|exact Hl3|].
      destruct E3 as (_ & _ & _ & Ec3 & _). fuel_tac. }
    intros digits l4 (E4 & _). cbv beta.
    pose proof (ext_linv _ _ Hl3 E4) as Hl4.
    destruct digits; cbv [negb].
    + apply Hrest. eapply ext_trans; eauto.
    + unfold sbind at 1. cbv beta iota.
      assert (E5 : ext l (set_current (current l2) l4)).
      { destruct E2 as (Ei2 & Es2 & Ee2 & Ec2 & El2). destruct E3 as (Ei3 & Es3 & Ee3 & Ec3 & El3).
        destruct E4 as (Ei4 & Es4 & Ee4 & Ec4 & El4).
        unfold ext; simpl. rewrite Ei4, Ei3, Ei2, Es4, Es3, Es2, Ee4, Ee3, Ee2. repeat split; auto; lia. }
      eapply lspec_weaken; [apply (newToken_tok_post typeNumber l _ Hl E5)|].
      intros t l' (Hp & Hc' & _). split; [exact Hp|].
      intros Hd. specialize (Hprog Hd). simpl in Hc'. lia.
  - apply Hrest. exact E3.
Qed.
Lemma lookupKeyword_bool s : lookupKeyword s = typeBoolean -> s = "true" \/ s = "false".
Proof.
  unfold lookupKeyword.
  destruct (seqb s "and"); [discriminate|].
  destruct (seqb s "or"); [discriminate|].
  destruct (seqb s "in"); [discriminate|].
  destruct (seqb s "true") eqn:Et; [apply seqb_eq in Et; auto|].
  destruct (seqb s "false") eqn:Ef; [apply seqb_eq in Ef; auto|].
  simpl. destruct (seqb s "null"); discriminate.
Qed.

Lemma lookupKeyword_not_error s : lookupKeyword s <> typeError.
Proof.
  unfold lookupKeyword.
  destruct (seqb s "and"); [discriminate|].
  destruct (seqb s "or"); [discriminate|].
  destruct (seqb s "in"); [discriminate|].
  destruct (seqb s "true" || seqb s "false"); [discriminate|].
  destruct (seqb s "null"); discriminate.
Qed.

Lemma backup_ext l l1 : linv l -> ext l l1 -> 0 <= width l1 -> current l <= current l1 - width l1 ->
  ext l (set_current (current l1 - width l1) l1).
Proof.
  intros Hl (Ei & Es & Ee & Ec & El) Hw Hc. unfold ext; simpl. repeat split; auto; lia.
Qed.

Lemma scanNameLoop_spec fuel : forall first l, linv l -> fuel_ok fuel l ->
  lspec (scanNameLoop fuel first l) (fun _ l' =>
    ext l l' /\ (first = true -> peekRune l <> eof -> isWhitespace (peekRune l) = false ->
                 current l < current l')).
Proof.
  induction fuel as [|f IH]; intros first l Hl Hf.
  - destruct Hl as (H0 & H1 & H2). destruct Hf as [Hf|Hf]; [exact Hf|lia].
  - cbn [scanNameLoop].
    eapply lspec_bind; [apply nextRune_spec; exact Hl|].
    intros c l1 Hn. cbv beta.
    assert (Hcp : c = peekRune l) by (destruct Hn as (Hr & _); exact Hr).
    destruct (nextRune_ext _ _ _ Hl Hn) as (E1 & Hw1 & Hc1 & Hp1). clear Hn.
    pose proof (ext_linv _ _ Hl E1) as Hl1. pose proof (ext_llength _ _ E1) as HL1.
    destruct (c =? eof) eqn:Ee.
    { apply lspec_ret. split; [exact E1|]. apply Z.eqb_eq in Ee. intros _ Hne. congruence. }
    apply Z.eqb_neq in Ee. specialize (Hp1 Ee).
    destruct (isWhitespace c) eqn:Ew.
    { unfold backup, lspec. split; [apply backup_ext; auto|].
      intros _ _ Hws. congruence. }
    destruct (negb first && _) eqn:Es.
    { unfold backup, lspec. split; [apply backup_ext; auto|].
      intros Hfirst. rewrite Hfirst in Es. discriminate Es. }
    eapply lspec_weaken; [apply IH; [exact Hl1|fuel_tac]|].
    intros _ l' (E2 & _). split; [eapply ext_trans; eauto|].
    intros _ _ _. destruct E2 as (_ & _ & _ & Ec2 & _). lia.
Qed.

Lemma scanName_spec fuel l : linv l -> fuel_ok fuel l ->
  lspec (scanName fuel l) (fun t l' =>
    scan_post l t l' /\ (peekRune l <> eof -> isWhitespace (peekRune l) = false ->
                         current l < current l')).
Proof.
  intros Hl Hf. unfold scanName.
  eapply lspec_bind; [apply accept_spec; [exact Hl|reflexivity]|].
  intros isVar l1 (Hv & E1 & Hvt & Hvf). cbv beta.
  pose proof (ext_linv _ _ Hl E1) as Hl1. pose proof (ext_llength _ _ E1) as HL1.
  (* after the optional ignore: a state l2 at the same position *)
  eapply (lspec_bind _ _ _ (fun _ l2 => linv l2 /\ input l2 = input l /\ err l2 = err l /\
             current l2 = current l1 /\ 0 <= start l2 /\ start l2 <= llength l)).
  { destruct E1 as (Ei & Es & Ee & Ec & El). destruct Hl as (A0 & A1 & A2).
    destruct Hl1 as (B0 & B1 & B2).
    destruct isVar; [unfold ignore|unfold sret]; unfold lspec, linv, llength in *; simpl;
      repeat split; auto; try lia. }
  intros _ l2 (Hl2 & Hi2 & He2 & Hc2 & Hs2a & Hs2b). cbv beta.
  assert (HL2 : llength l2 = llength l) by (unfold llength; now rewrite Hi2).
  assert (Hc12 : current l <= current l2) by (destruct E1 as (_ & _ & _ & Ec & _); lia).
  eapply lspec_bind; [apply (scanNameLoop_spec fuel (negb isVar) l2 Hl2); fuel_tac|].
  intros _ l3 (E3 & Hprog). cbv beta.
  pose proof (ext_linv _ _ Hl2 E3) as Hl3.
  eapply lspec_bind; [apply (newToken_tok_post typeName l2 l3 Hl2 E3)|].
  intros t l4 ((Hty & Hpos & Hl4 & Hi4 & He4 & Hc4) & Hc43 & _). cbv beta.
  assert (Hprog' : peekRune l <> eof -> isWhitespace (peekRune l) = false -> current l < current l4).
  { intros Hne Hws. destruct isVar.
    - specialize (Hvt eq_refl). destruct E3 as (_ & _ & _ & Ec3 & _). lia.
    - specialize (Hvf eq_refl).
      assert (Hpk : peekRune l2 = peekRune l).
      { apply peek_eq; auto. lia. }
      rewrite Hpk in Hprog. specialize (Hprog eq_refl Hne Hws). lia. }
  assert (Hsp : forall t', ttype t' <> typeError ->
                 (ttype t' = typeBoolean -> tvalue t' = "true" \/ tvalue t' = "false") ->
                 tpos t' = tpos t -> scan_post l t' l4).
  { intros t' Hne Hb Hp'. unfold scan_post.
    refine (conj _ (conj Hl4 (conj _ (conj _ (conj _ (conj _ Hb)))))); try congruence; try lia;
      try (rewrite Hp', Hpos; lia); try (intro; contradiction). }
  destruct isVar.
  - apply lspec_ret. split; [|exact Hprog'].
    apply Hsp; simpl; auto; discriminate.
  - destruct (tt_pos (lookupKeyword (tvalue t))) eqn:Ek.
    + apply lspec_ret. split; [|exact Hprog'].
      apply Hsp; simpl; auto.
      * apply lookupKeyword_not_error.
      * apply lookupKeyword_bool.
    + apply lspec_ret. split; [|exact Hprog'].
      apply Hsp; auto; rewrite Hty; discriminate.
Qed.
Lemma scan_post_rebase l l3 t l' : input l3 = input l -> err l3 = err l -> current l <= current l3 ->
  scan_post l3 t l' -> scan_post l t l'.
Proof.
  intros Hi He Hc (Pi & Pl & Pc & Pp & Pe & Pn & Pb).
  assert (HL : llength l3 = llength l) by (unfold llength; now rewrite Hi).
  unfold scan_post. rewrite HL in *.
  refine (conj _ (conj Pl (conj _ (conj Pp (conj Pe (conj _ Pb)))))); try congruence; try lia.
  intros H. rewrite (Pn H). exact He.
Qed.

Definition sym_ok (rt : rune * tokentype) : Prop :=
  fst rt <> eof /\ snd rt <> typeError /\ snd rt <> typeBoolean /\ snd rt <> typeEOF.

Lemma trySymbols2_spec rts : Forall sym_ok rts -> forall l, linv l ->
  lspec (trySymbols2 rts l) (fun o l' =>
    match o with
    | Some t => exists ty, tok_post ty l t l' /\ ty <> typeError /\ ty <> typeBoolean /\ ty <> typeEOF
    | None => ext l l' /\ current l' = current l /\ (rts = [] -> l' = l)
    end).
Proof.
  induction 1 as [|[r ty] rest (Hr & He & Hb & Hz) Hrest IH]; intros l Hl.
  - simpl. split; [apply ext_refl; auto|auto].
  - cbn [trySymbols2]. simpl in Hr, He, Hb, Hz.
    eapply lspec_bind; [apply accept_spec; [exact Hl|]|].
    { apply Z.eqb_neq. congruence. }
    intros ok l1 (_ & E1 & _ & Hf). cbv beta.
    pose proof (ext_linv _ _ Hl E1) as Hl1.
    destruct ok.
    + eapply lspec_bind; [apply (newToken_tok_post ty l l1 Hl E1)|].
      intros t l2 (Hp & _). cbv beta. apply lspec_ret. exists ty. auto.
    + specialize (Hf eq_refl).
      eapply lspec_weaken; [apply IH; exact Hl1|].
      intros [t|] l2.
      * intros (ty' & Hp & Hne). exists ty'. split; [|exact Hne].
        destruct Hp as (P1 & P2 & P3 & P4 & P5 & P6).
        destruct E1 as (Ei & Es & Ee & Ec & El).
        unfold tok_post. rewrite P2, P4, P5.
        refine (conj P1 (conj Es (conj P3 (conj Ei (conj Ee _))))). lia.
      * intros (E2 & Hc2 & _). split; [eapply ext_trans; eauto|]. split; [lia|discriminate].
Qed.

Lemma lookupSymbol2_ok c : Forall sym_ok (lookupSymbol2 c).
Proof.
  unfold lookupSymbol2. destruct (_ || _); [constructor|].
  unfold symbols2.
  repeat (match goal with |- Forall _ (if ?b then _ else _) => destruct b end;
          [constructor; [unfold sym_ok; simpl; repeat split; discriminate|constructor]|]).
  constructor.
Qed.

Lemma lookupSymbol2_digit c : isDigit c = true -> lookupSymbol2 c = [].
Proof.
  unfold isDigit, lookupSymbol2, symbols2. change (ch "0") with 48. change (ch "9") with 57. intros H.
  destruct (_ || _); [reflexivity|].
  repeat (match goal with |- (if ?b then _ else _) = _ =>
            let E := fresh "E" in destruct b eqn:E;
            [apply Z.eqb_eq in E; subst c; discriminate H|] end).
  reflexivity.
Qed.

Lemma lookupSymbol1_ok c : lookupSymbol1 c <> typeError /\ lookupSymbol1 c <> typeBoolean.
Proof.
  unfold lookupSymbol1. destruct (_ || _); [split; discriminate|].
  unfold symbols1.
  repeat (match goal with |- context [if ?b then _ else _] => destruct b end;
          [split; discriminate|]).
  split; discriminate.
Qed.

Definition next_post (l : lexer) (t : token) (l' : lexer) : Prop :=
  scan_post l t l' /\
  (err l = None -> ttype t <> typeEOF -> ttype t <> typeError -> current l < current l').

Theorem next_spec_af fuel allowRegex l : linv l -> fuel_ok fuel l ->
  lspec (next fuel allowRegex l) (next_post l).
Proof.
  intros Hl Hf. unfold next, skipWhitespace.
  (* skipWhitespace *)
  eapply (lspec_bind _ _ _ (fun _ l1 => linv l1 /\ input l1 = input l /\ err l1 = err l /\
            start l1 = current l1 /\ current l <= current l1 /\ isWhitespace (peekRune l1) = false)).
  { eapply lspec_bind; [apply acceptAllLoop_spec; [reflexivity|exact Hl|exact Hf]|].
    intros b l0 (E0 & Hw0 & _). cbv beta.
    pose proof (ext_linv _ _ Hl E0) as Hl0. destruct E0 as (Ei & Es & Ee & Ec & El).
    destruct Hl0 as (B0 & B1 & B2).
    unfold ignore, lspec, linv, llength in *; simpl. repeat split; auto; try lia.
    rewrite <- Hw0. f_equal. apply peek_eq; auto. }
  intros _ l1 (Hl1 & Hi1 & He1 & Hs1 & Hc1 & Hws). cbv beta.
  assert (HL1 : llength l1 = llength l) by (unfold llength; now rewrite Hi1).
  eapply lspec_bind; [apply nextRune_spec; exact Hl1|].
  intros c l2 Hn. cbv beta.
  assert (Hcp : c = peekRune l1) by (destruct Hn as (Hr & _); exact Hr).
  assert (Hw2 : c <> eof -> width l2 = current l2 - current l1).
  { destruct Hn as (_ & _ & _ & _ & [(Heof & _)|(_ & _ & _ & _ & Hw)]); [congruence|auto]. }
  destruct (nextRune_ext _ _ _ Hl1 Hn) as (E2 & Hw2' & Hc2 & Hp2). clear Hn.
  pose proof (ext_linv _ _ Hl1 E2) as Hl2. pose proof (ext_llength _ _ E2) as HL2.
  assert (Hi2 : input l2 = input l) by (destruct E2 as (Ei & _); congruence).
  assert (He2 : err l2 = err l) by (destruct E2 as (_ & _ & Ee & _); congruence).
  destruct (c =? eof) eqn:Eeof.
  { (* eof token *)
    unfold eofToken, lspec, next_post, scan_post. simpl.
    destruct E2 as (_ & _ & _ & Ec & El). destruct Hl2 as (B0 & B1 & B2).
    split; [|intros _ H; contradiction H; reflexivity].
    refine (conj Hi2 (conj _ (conj _ (conj _ (conj _ (conj _ _)))))); auto; try lia; try discriminate.
    unfold linv; auto. }
  apply Z.eqb_neq in Eeof. specialize (Hp2 Eeof). specialize (Hw2 Eeof).
  assert (Hfuel2 : fuel_ok fuel l2) by fuel_tac.
  (* generic wrap-up for scanners started after an ignore at l2 *)
  assert (Hign : forall (sc : LM token),
            (forall l3, linv l3 -> fuel_ok fuel l3 ->
                        lspec (sc l3) (scan_post l3)) ->
            lspec ((ignore ;; sc) l2) (next_post l)).
  { intros sc Hsc. unfold sbind at 1. unfold ignore. cbv beta iota.
    set (l3 := set_start (current l2) l2).
    assert (Hl3 : linv l3).
    { destruct Hl2 as (B0 & B1 & B2). unfold linv, l3, llength in *; simpl. lia. }
    eapply lspec_weaken; [apply (Hsc l3 Hl3)|].
    { exact Hfuel2. }
    intros t l' Hp. split.
    - apply (scan_post_rebase l l3); auto. unfold l3; simpl. lia.
    - intros _ _ _. destruct Hp as (_ & _ & Pc & _). unfold l3 in Pc; simpl in Pc. lia. }
  destruct (allowRegex && (c =? ch "/")) eqn:Ere.
  { apply Hign. intros l3 Hl3 Hf3. apply scanRegex_spec; auto. }
  eapply lspec_bind; [apply (trySymbols2_spec _ (lookupSymbol2_ok c) l2 Hl2)|].
  intros two l3 Htwo. cbv beta.
  destruct two as [t|].
  { destruct Htwo as (ty & Hp & Hne & Hnb & Hnz). apply lspec_ret. split.
    - apply (scan_post_rebase l l2); auto; [lia|]. eapply tok_post_scan; eauto.
    - intros _ _ _. destruct Hp as (_ & _ & _ & _ & _ & Pc). lia. }
  destruct Htwo as (E3 & Hc3 & Hnil).
  pose proof (ext_linv _ _ Hl2 E3) as Hl3. pose proof (ext_llength _ _ E3) as HL3.
  destruct (tt_pos (lookupSymbol1 c)) eqn:E1.
  { destruct (lookupSymbol1_ok c) as [Hne Hnb].
    eapply lspec_weaken; [apply (newToken_tok_post (lookupSymbol1 c) l2 l3 Hl2 E3)|].
    intros t l' (Hp & _). split.
    - apply (scan_post_rebase l l2); auto; [lia|]. eapply tok_post_scan; eauto.
    - intros _ _ _. destruct Hp as (_ & _ & _ & _ & _ & Pc). lia. }
  (* from here on the state matters only up to ext from l2 *)
  assert (Hign3 : forall (sc : LM token),
            (forall l4, linv l4 -> fuel_ok fuel l4 ->
                        lspec (sc l4) (scan_post l4)) ->
            lspec ((ignore ;; sc) l3) (next_post l)).
  { intros sc Hsc. unfold sbind at 1. unfold ignore. cbv beta iota.
    set (l4 := set_start (current l3) l3).
    assert (Hl4 : linv l4).
    { destruct Hl3 as (B0 & B1 & B2). unfold linv, l4, llength in *; simpl. lia. }
    destruct E3 as (Ei3 & Es3 & Ee3 & Ec3 & El3).
    eapply lspec_weaken; [apply (Hsc l4 Hl4)|].
    { destruct Hfuel2 as [H|H]; [left; exact H|right; unfold l4, llength in *; simpl; rewrite Ei3; lia]. }
    intros t l' Hp. split.
    - apply (scan_post_rebase l l4); auto; unfold l4; simpl; try congruence. lia.
    - intros _ _ _. destruct Hp as (_ & _ & Pc & _). unfold l4 in Pc; simpl in Pc. lia. }
  destruct ((c =? ch """") || (c =? ch "'")) eqn:Eq.
  { apply Hign3. intros l4 Hl4 Hf4. apply scanString_spec; auto. }
  destruct ((ch "0" <=? c) && (c <=? ch "9")) eqn:Ed.
  { (* number: lookupSymbol2 c = [] so l3 = l2, and backup returns to l1's position *)
    assert (Hdig : isDigit c = true) by exact Ed.
    specialize (Hnil (lookupSymbol2_digit c Hdig)). subst l3.
    unfold sbind at 1. unfold backup. cbv beta iota.
    set (l4 := set_current (current l2 - width l2) l2).
    assert (Hc4 : current l4 = current l1) by (unfold l4; simpl; lia).
    destruct E2 as (Ei & Es & Ee & Ec & El).
    assert (Hl4 : linv l4).
    { destruct Hl1 as (B0 & B1 & B2). unfold linv, l4, llength in *; simpl. rewrite Es, Ei. lia. }
    eapply lspec_weaken; [apply (scanNumber_spec fuel l4 Hl4)|].
    { destruct Hf as [H|H]; [left; exact H|right; unfold llength in *; unfold l4; simpl; rewrite Ei, Hi1; lia]. }
    intros t l' (Hp & Hprog). split.
    - apply (scan_post_rebase l l4); unfold l4; simpl; auto; try lia.
      eapply tok_post_scan; eauto; discriminate.
    - intros _ _ _.
      assert (Hpk : peekRune l4 = c).
      { rewrite Hcp. apply peek_eq; unfold l4; simpl; auto; lia. }
      rewrite Hpk in Hprog. specialize (Hprog Hdig). lia. }
  destruct (c =? ch "`") eqn:Ebq.
  { apply Hign3. intros l4 Hl4 Hf4. apply scanEscapedName_spec; auto. }
  (* name *)
  unfold sbind at 1. cbv beta iota.
  set (l4 := set_current (start l3) l3).
  destruct E2 as (Ei & Es & Ee & Ec & El). destruct E3 as (Ei3 & Es3 & Ee3 & Ec3 & El3).
  assert (Hc4 : current l4 = current l1) by (unfold l4; simpl; congruence).
  assert (Hl4 : linv l4).
  { destruct Hl1 as (B0 & B1 & B2). unfold linv, l4, llength in *; simpl. rewrite Es3, Es, Ei3, Ei. lia. }
  eapply lspec_weaken; [apply (scanName_spec fuel l4 Hl4)|].
  { destruct Hf as [H|H]; [left; exact H|right; unfold llength in *; unfold l4; simpl; rewrite Ei3, Ei, Hi1, Es3, Es; lia]. }
  intros t l' (Hp & Hprog). split.
  - apply (scan_post_rebase l l4); unfold l4; simpl; auto; try congruence; try lia.
  - intros _ _ _.
    assert (Hpk : peekRune l4 = c).
    { rewrite Hcp. apply peek_eq; unfold l4; simpl; auto; congruence. }
    rewrite Hpk in Hprog. rewrite <- Hcp in Hws. specialize (Hprog Eeof Hws). lia.
Qed.

End AF.

(* ================================================================ main theorems *)

(* the specification of [next] when fuel exceeds the number of remaining bytes *)
Theorem next_spec fuel allowRegex l : linv l -> llength l - current l < Z.of_nat fuel ->
  match next fuel allowRegex l with ROk (t, l') => next_post l t l' | _ => False end.
Proof.
  intros Hl Hf. pose proof (next_spec_af false fuel allowRegex l Hl (or_intror Hf)) as H.
  unfold lspec in H. destruct (next fuel allowRegex l) as [[t l']| | |]; auto. discriminate H.
Qed.

Lemma linv_newLexer src : linv (newLexer src).
Proof. unfold linv, newLexer, llength; simpl. lia. Qed.

Lemma lex_fuel_ok l : linv l -> llength l - current l < Z.of_nat (lex_fuel l).
Proof. intros (H0 & H1 & H2). unfold lex_fuel, llength in *. lia. Qed.

(* 1. lex_bounds: from a state satisfying the invariant 0 <= start <= current <= length, and
   with fuel exceeding the number of remaining bytes, [next] returns a token (no slice
   expression goes out of bounds, i.e. never RPanic; never RFuel either; the lexer itself never
   produces RErr: errors are error tokens), and the invariant holds afterwards. *)
Theorem lex_bounds fuel allowRegex l :
  linv l -> llength l - current l < Z.of_nat fuel ->
  exists t l', next fuel allowRegex l = ROk (t, l') /\ linv l' /\ input l' = input l.
Proof.
  intros Hl Hf. pose proof (next_spec fuel allowRegex l Hl Hf) as H.
  destruct (next fuel allowRegex l) as [[t l']| | |]; try contradiction.
  destruct H as ((Hi & Hl' & _) & _). eauto.
Qed.

(* ... and whatever the fuel, [next] cannot panic (nor return RErr): it returns a token and a
   state satisfying the invariant, or runs out of fuel *)
Theorem lex_never_panics fuel allowRegex l : linv l ->
  match next fuel allowRegex l with
  | ROk (t, l') => linv l' /\ input l' = input l
  | RFuel => True
  | RErr _ | RPanic _ => False
  end.
Proof.
  intros Hl. pose proof (next_spec_af true fuel allowRegex l Hl (or_introl eq_refl)) as H.
  unfold lspec in H. destruct (next fuel allowRegex l) as [[t l']| | |]; auto.
  destruct H as ((Hi & Hl' & _) & _). auto.
Qed.

(* the states the parser can see *)
Inductive reachable (src : string) : lexer -> Prop :=
| reach_init : reachable src (newLexer src)
| reach_next l allowRegex t l' :
    reachable src l -> next (lex_fuel l) allowRegex l = ROk (t, l') -> reachable src l'.

Theorem reachable_linv src l : reachable src l -> linv l /\ input l = src.
Proof.
  induction 1 as [|l ar t l' Hr [IH1 IH2] Hn].
  - split; [apply linv_newLexer|reflexivity].
  - destruct (lex_bounds (lex_fuel l) ar l IH1 (lex_fuel_ok l IH1)) as (t0 & l0 & Hn0 & Hl0 & Hi0).
    rewrite Hn in Hn0. inversion Hn0; subst. split; [exact Hl0|congruence].
Qed.

Corollary next_never_panics src l allowRegex :
  reachable src l -> exists t l', next (lex_fuel l) allowRegex l = ROk (t, l').
Proof.
  intros Hr. destruct (reachable_linv _ _ Hr) as [Hl _].
  destruct (lex_bounds (lex_fuel l) allowRegex l Hl (lex_fuel_ok l Hl)) as (t & l' & Hn & _). eauto.
Qed.

Example lex_bounds_ex :
  let l := {| input := "ab  1.5e3 !x"; start := 2; current := 3; width := 7; err := None |} in
  linv l /\ llength l - current l < Z.of_nat (lex_fuel l).
Proof. unfold linv, llength, lex_fuel; simpl. lia. Qed.

(* 2. lex_progress: a call of [next] that returns neither an EOF nor an error token strictly
   advances [current]; and it never runs out of fuel when fuel > remaining bytes. *)
Theorem lex_progress fuel allowRegex l :
  linv l -> err l = None -> llength l - current l < Z.of_nat fuel ->
  exists t l', next fuel allowRegex l = ROk (t, l') /\
    (ttype t = typeEOF \/ ttype t = typeError \/ current l < current l').
Proof.
  intros Hl He Hf. pose proof (next_spec fuel allowRegex l Hl Hf) as H.
  destruct (next fuel allowRegex l) as [[t l']| | |]; try contradiction.
  destruct H as (_ & Hp). exists t, l'. split; [reflexivity|].
  destruct (tt_eqb (ttype t) typeEOF) eqn:E1.
  { left. destruct (ttype t); try discriminate E1. reflexivity. }
  destruct (tt_eqb (ttype t) typeError) eqn:E2.
  { right; left. destruct (ttype t); try discriminate E2. reflexivity. }
  right; right. apply Hp; auto; intro H; rewrite H in *; discriminate.
Qed.

Corollary next_no_fuel fuel allowRegex l :
  linv l -> llength l - current l < Z.of_nat fuel -> next fuel allowRegex l <> RFuel.
Proof.
  intros Hl Hf. destruct (lex_bounds fuel allowRegex l Hl Hf) as (t & l' & Hn & _). congruence.
Qed.

Example lex_progress_ex :
  let l := newLexer "function($x)<!>{$x}" in
  linv l /\ err l = None /\ llength l - current l < Z.of_nat (lex_fuel l).
Proof. unfold linv, llength, lex_fuel; simpl. repeat split; lia. Qed.

(* error tokens carry a well-formed error: type in 1..27, position inside the input *)
Theorem lex_error_wf fuel allowRegex l t l' :
  linv l -> llength l - current l < Z.of_nat fuel -> next fuel allowRegex l = ROk (t, l') ->
  ttype t = typeError -> exists e, err l' = Some e /\ ewf (llength l) e.
Proof.
  intros Hl Hf Hn Ht. pose proof (next_spec fuel allowRegex l Hl Hf) as H.
  rewrite Hn in H. destruct H as ((_ & _ & _ & _ & He & _) & _). auto.
Qed.

Print Assumptions lex_bounds.
Print Assumptions lex_never_panics.
Print Assumptions reachable_linv.
Print Assumptions lex_progress.
Print Assumptions lex_error_wf.
