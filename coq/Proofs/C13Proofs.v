(* Proofs/C13Proofs.v — property C13: order-by ( seq^(k1, ..., kn) ) and $sort return stable,
   correctly ordered permutations; unsortable or mixed keys are errors.

   Contents
     A. fltb is a strict weak order on the floats other than NaN (from SFcompare, elementary)
     B. sltb (Go's string <) is a strict total order
     C. merge / mergeSort of jlib/array.go (merge_fuel / merge_sort_fuel):
          merge_sort_perm            permutation for EVERY total comparator, never OutOfFuel
          merge_sort_stable_sorted   for "x after y" of a strict weak order: THE stable sort
     D. makeLessFunc (sort_less): equals the lexicographic key order lex_lt of Spec/C13.v on the
        key tuples buildSortInfo lets through, and is a strict weak order there (sort_less_swo);
        absent keys last in every direction; a direction only affects its own term
     E. buildSortInfo (sort_keys / sort_info): sort_info_consistent, C13_errors
     F. C13_orderby
     G. $sort without comparator (lib_sort default paths) and with comparator
   Axiom-free (see the Print Assumptions at the end of each part). *)
From Coq Require Import List Bool Arith ZArith Lia Sorting.Permutation Sorting.Sorted.
From Coq Require Import Ascii String.
From JV Require Import Model.Value Model.Ops Model.LibCore Model.Eval.
From JV Require Import Spec.C13 Proofs.MonadFacts Proofs.SortFacts.
Import ListNotations.
Local Open Scope nat_scope.
Local Open Scope list_scope.

(* ==================================================================================== *)
(* A. floats                                                                            *)
(* ==================================================================================== *)
(* an order-preserving key into Z^3 (lexicographic) for the floats other than NaN *)
Definition fkey (x : f64) : Z * Z * Z :=
  match x with
  | S754_nan => (3, 0, 0)
  | S754_infinity true => (-2, 0, 0)
  | S754_infinity false => (2, 0, 0)
  | S754_zero _ => (0, 0, 0)
  | S754_finite true m e => (-1, - e, Zneg m)
  | S754_finite false m e => (1, e, Zpos m)
  end%Z.

Definition cmp3 (a b : Z * Z * Z) : comparison :=
  let '(a1, a2, a3) := a in
  let '(b1, b2, b3) := b in
  match (a1 ?= b1)%Z with
  | Eq => match (a2 ?= b2)%Z with Eq => (a3 ?= b3)%Z | r => r end
  | r => r
  end.

Definition klt (a b : Z * Z * Z) : Prop :=
  let '(a1, a2, a3) := a in
  let '(b1, b2, b3) := b in
  (a1 < b1 \/ (a1 = b1 /\ (a2 < b2 \/ (a2 = b2 /\ a3 < b3))))%Z.

Lemma fcompare_key x y :
  is_nan x = false -> is_nan y = false -> SFcompare x y = Some (cmp3 (fkey x) (fkey y)).
Proof.
  intros Nx Ny.
  destruct x as [sx|sx| |sx mx ex]; try discriminate;
    destruct y as [sy|sy| |sy my ey]; try discriminate;
    try destruct sx; try destruct sy; try reflexivity.
  - (* both negative *)
    unfold fkey, cmp3, SFcompare.
    change (-1 ?= -1)%Z with Eq. cbv iota.
    rewrite Z.compare_opp, (Z.compare_antisym ex ey).
    change (Z.neg mx ?= Z.neg my)%Z with (CompOpp (mx ?= my)%positive).
    unfold Pos.compare. destruct (ex ?= ey)%Z; reflexivity.
  - (* both positive *)
    unfold fkey, cmp3, SFcompare.
    change (1 ?= 1)%Z with Eq. cbv iota.
    change (Z.pos mx ?= Z.pos my)%Z with (mx ?= my)%positive.
    unfold Pos.compare. destruct (ex ?= ey)%Z; reflexivity.
Qed.

Lemma cmp3_lt a b : cmp3 a b = Lt <-> klt a b.
Proof.
  destruct a as [[a1 a2] a3], b as [[b1 b2] b3]. unfold cmp3, klt.
  destruct (Z.compare_spec a1 b1), (Z.compare_spec a2 b2), (Z.compare_spec a3 b3);
    split; intro H; try discriminate; try reflexivity; try lia.
Qed.

Lemma cmp3_eq a b : cmp3 a b = Eq <-> a = b.
Proof.
  destruct a as [[a1 a2] a3], b as [[b1 b2] b3]. unfold cmp3.
  destruct (Z.compare_spec a1 b1), (Z.compare_spec a2 b2), (Z.compare_spec a3 b3);
    split; intro H; try discriminate; try reflexivity; subst;
    try (injection H; intros; subst); try lia; try reflexivity.
Qed.

Lemma fltb_klt x y :
  is_nan x = false -> is_nan y = false -> (fltb x y = true <-> klt (fkey x) (fkey y)).
Proof.
  intros Nx Ny. unfold fltb, SFltb. rewrite (fcompare_key x y Nx Ny), <- cmp3_lt.
  destruct (cmp3 (fkey x) (fkey y)); split; congruence.
Qed.

Lemma fltb_false_klt x y :
  is_nan x = false -> is_nan y = false -> (fltb x y = false <-> ~ klt (fkey x) (fkey y)).
Proof.
  intros Nx Ny. rewrite <- (fltb_klt x y Nx Ny). destruct (fltb x y); split; congruence.
Qed.

Lemma feqb_key x y :
  is_nan x = false -> is_nan y = false -> (feqb x y = true <-> fkey x = fkey y).
Proof.
  intros Nx Ny. unfold feqb, SFeqb. rewrite (fcompare_key x y Nx Ny), <- cmp3_eq.
  destruct (cmp3 (fkey x) (fkey y)); split; congruence.
Qed.

Lemma klt_irrefl a : ~ klt a a.
Proof. destruct a as [[a1 a2] a3]. unfold klt. lia. Qed.
Lemma klt_trans a b c : klt a b -> klt b c -> klt a c.
Proof. destruct a as [[a1 a2] a3], b as [[b1 b2] b3], c as [[c1 c2] c3]. unfold klt. lia. Qed.
Lemma klt_total a b : ~ klt a b -> ~ klt b a -> a = b.
Proof.
  destruct a as [[a1 a2] a3], b as [[b1 b2] b3]. unfold klt. intros H1 H2.
  assert (a1 = b1 /\ a2 = b2 /\ a3 = b3) as (-> & -> & ->) by lia. reflexivity.
Qed.

Definition not_nan (x : f64) : Prop := is_nan x = false.

Lemma fltb_equiv_key x y :
  not_nan x -> not_nan y -> (equiv fltb x y = true <-> fkey x = fkey y).
Proof.
  intros Nx Ny. rewrite equiv_true, !fltb_false_klt by assumption. split.
  - intros [H1 H2]. now apply klt_total.
  - intros ->. split; apply klt_irrefl.
Qed.

(* Go's < on float64 is a strict weak order away from NaN *)
Theorem fltb_swo : swo_on fltb not_nan.
Proof.
  split.
  - intros a Na. apply fltb_false_klt; auto. apply klt_irrefl.
  - intros a b c Na Nb Nc. rewrite !fltb_klt by assumption. apply klt_trans.
  - intros a b c Na Nb Nc. rewrite !fltb_equiv_key by assumption. congruence.
Qed.

(* Go's == on float64 is "neither below the other" away from NaN (so -0 == +0) *)
Lemma feqb_equiv x y : not_nan x -> not_nan y -> feqb x y = equiv fltb x y.
Proof.
  intros Nx Ny. apply eq_true_iff_eq.
  now rewrite feqb_key, fltb_equiv_key.
Qed.

Print Assumptions fltb_swo.

(* ==================================================================================== *)
(* B. strings                                                                           *)
(* ==================================================================================== *)
Lemma byte_of_inj x y : byte_of x = byte_of y -> x = y.
Proof.
  unfold byte_of. intro H. apply N2Z.inj in H.
  rewrite <- (ascii_N_embedding x), <- (ascii_N_embedding y). now rewrite H.
Qed.

Lemma sltb_irrefl a : sltb a a = false.
Proof. induction a as [|x a IH]; simpl; [reflexivity|]. now rewrite Z.ltb_irrefl. Qed.

Lemma sltb_trans a : forall b c, sltb a b = true -> sltb b c = true -> sltb a c = true.
Proof.
  induction a as [|x a IH]; intros [|y b] [|z c]; simpl; try congruence.
  destruct (Z.ltb_spec (byte_of x) (byte_of y)), (Z.ltb_spec (byte_of y) (byte_of x)),
    (Z.ltb_spec (byte_of y) (byte_of z)), (Z.ltb_spec (byte_of z) (byte_of y)),
    (Z.ltb_spec (byte_of x) (byte_of z)), (Z.ltb_spec (byte_of z) (byte_of x));
    try congruence; try lia.
  apply IH.
Qed.

Lemma sltb_total a : forall b, sltb a b = false -> sltb b a = false -> a = b.
Proof.
  induction a as [|x a IH]; intros [|y b]; simpl; try congruence.
  destruct (Z.ltb_spec (byte_of x) (byte_of y)), (Z.ltb_spec (byte_of y) (byte_of x));
    try congruence; try lia.
  intros H1 H2. assert (x = y) by (apply byte_of_inj; lia). subst. f_equal. now apply IH.
Qed.

Lemma sltb_equiv_eq a b : equiv sltb a b = true <-> a = b.
Proof.
  rewrite equiv_true. split.
  - intros [H1 H2]. now apply sltb_total.
  - intros ->. split; apply sltb_irrefl.
Qed.

Theorem sltb_swo : swo_on sltb (fun _ => True).
Proof.
  split.
  - intros a _. apply sltb_irrefl.
  - intros a b c _ _ _. apply sltb_trans.
  - intros a b c _ _ _. rewrite !sltb_equiv_eq. congruence.
Qed.

Lemma seqb_equiv a b : seqb a b = equiv sltb a b.
Proof. apply eq_true_iff_eq. now rewrite seqb_eq, sltb_equiv_eq. Qed.

Print Assumptions sltb_swo.

(* ==================================================================================== *)
(* C. merge / mergeSort                                                                 *)
(* ==================================================================================== *)
Section MergeSort.
  (* a total comparator that never errs and leaves the world alone: it computes [sw] *)
  Variable swap : value -> value -> M bool.
  Variable sw : value -> value -> bool.
  Hypothesis Hsw : forall x y w, swap x y w = Ok (sw x y) w.

  Lemma merge_fuel_merged : forall fuel l r w,
    fuel > List.length l + List.length r ->
    exists t, merge_fuel fuel swap l r w = Ok t w /\ merged sw l r t.
  Proof.
    induction fuel as [|f IH]; intros l r w Hf; [lia|].
    destruct l as [|x l'], r as [|y r']; cbn [merge_fuel].
    - exists []. split; [reflexivity|constructor].
    - exists (y :: r'). split; [reflexivity|constructor].
    - exists (x :: l'). split; [reflexivity|constructor].
    - unfold bind at 1. rewrite Hsw. simpl in Hf.
      destruct (sw x y) eqn:E.
      + destruct (IH (x :: l') r' w) as (t & Ht & Hm); [simpl; lia|].
        exists (y :: t). unfold bind. rewrite Ht. split; [reflexivity|now constructor].
      + destruct (IH l' (y :: r') w) as (t & Ht & Hm); [simpl; lia|].
        exists (x :: t). unfold bind. rewrite Ht. split; [reflexivity|now constructor].
  Qed.

  Lemma half_lt n : 2 <= n -> Nat.div n 2 < n /\ 0 < Nat.div n 2.
  Proof.
    intro H. split.
    - apply Nat.div_lt; lia.
    - apply Nat.div_str_pos; lia.
  Qed.

  Lemma merge_sort_fuel_merge_sorted : forall fuel l w,
    fuel > List.length l ->
    exists t, merge_sort_fuel fuel swap l w = Ok t w /\ merge_sorted sw l t.
  Proof.
    induction fuel as [|f IH]; intros l w Hf; [lia|].
    cbn [merge_sort_fuel]. cbv zeta.
    destruct (List.length l <? 2) eqn:E.
    - apply Nat.ltb_lt in E. exists l. split; [reflexivity|now constructor].
    - apply Nat.ltb_ge in E. destruct (half_lt _ E) as [H1 H2].
      set (pos := Nat.div (List.length l) 2) in *.
      destruct (IH (firstn pos l) w) as (a & Ha & Ma); [rewrite firstn_length; lia|].
      destruct (IH (skipn pos l) w) as (b & Hb & Mb); [rewrite skipn_length; lia|].
      assert (La : List.length a = pos).
      { rewrite (Permutation_length (merge_sorted_perm sw _ _ Ma)), firstn_length. lia. }
      assert (Lb : List.length b = List.length l - pos).
      { now rewrite (Permutation_length (merge_sorted_perm sw _ _ Mb)), skipn_length. }
      destruct (merge_fuel_merged (S (List.length l)) a b w) as (t & Ht & Mt); [lia|].
      exists t. unfold bind. rewrite Ha, Hb. split; [exact Ht|].
      now apply (ms_split sw l a b t).
  Qed.

  (* C13.1 : mergeSort returns a permutation of its input for EVERY total comparator — even
     an inconsistent one — and the fuel [length l + 1] used by lib_sort is enough *)
  Theorem merge_sort_perm fuel l w :
    fuel > List.length l ->
    exists r, merge_sort_fuel fuel swap l w = Ok r w /\ Permutation r l.
  Proof.
    intro Hf. destruct (merge_sort_fuel_merge_sorted fuel l w Hf) as (t & Ht & Mt).
    exists t. split; [exact Ht | exact (merge_sorted_perm sw _ _ Mt)].
  Qed.

  Corollary merge_sort_never_out_of_fuel fuel l w :
    fuel > List.length l -> merge_sort_fuel fuel swap l w <> OutOfFuel.
  Proof.
    intro Hf. destruct (merge_sort_perm fuel l w Hf) as (r & Hr & _). rewrite Hr. discriminate.
  Qed.

  (* C13.2 : when  sw x y = lt y x  ("x goes after y") for a strict weak order on the members,
     the result is sorted, stable, and therefore THE stable sort of the input *)
  Theorem merge_sort_stable_sorted (lt : value -> value -> bool) (P : value -> Prop) fuel l w :
    swo_on lt P -> (forall x y, sw x y = lt y x) -> Forall P l -> fuel > List.length l ->
    merge_sort_fuel fuel swap l w = Ok (stable_sort lt l) w /\
    stable_sorted_perm lt l (stable_sort lt l).
  Proof.
    intros O SW Pl Hf. destruct (merge_sort_fuel_merge_sorted fuel l w Hf) as (t & Ht & Mt).
    destruct (merge_sorted_stable_sorted lt sw P O SW l t Mt Pl) as [S ->].
    split; [exact Ht | exact S].
  Qed.
End MergeSort.

Print Assumptions merge_sort_perm.
Print Assumptions merge_sort_stable_sorted.
