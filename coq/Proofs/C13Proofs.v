(* Proofs/C13Proofs.v — property C13: order-by ( seq^(k1, ..., kn) ) and $sort return stable,
   correctly ordered permutations; unsortable or mixed keys are errors.

   Contents
     A. fltb is a strict weak order on the floats other than NaN (from SFcompare, elementary)
     B. sltb (Go's string <) is a strict total order
     C. merge / mergeSort of jlib/array.go (merge_fuel / merge_sort_fuel):
          merge_sort_perm            permutation for EVERY total comparator, never OutOfFuel
          merge_sort_stable_sorted   for "x after y" of a strict weak order: THE stable sort
     D. makeLessFunc (sort_less): equals the lexicographic key order lex_lt of Spec/C13.v on the
        key tuples buildSortInfo lets through, and is a strict weak order there (sort_less_swo);
        absent keys last in every direction; a direction only affects its own term
     E. buildSortInfo (sort_keys / sort_info): sort_info_consistent, C13_errors
     F. C13_orderby
     G. $sort without comparator (lib_sort default paths) and with comparator
     H. C13_eval_sort: the evaluator's sort node is sort_info + sorted_items, so F applies
   Axiom-free (see the Print Assumptions at the end of each part). *)
From Coq Require Import List Bool Arith ZArith Lia Sorting.Permutation Sorting.Sorted.
From Coq Require Import Ascii String.
From JV Require Import Model.Value Model.Ops Model.LibCore Model.Eval.
From JV Require Import Spec.C13 Proofs.MonadFacts Proofs.SortFacts.
Import ListNotations.
Local Open Scope nat_scope.
Local Open Scope list_scope.

(* ==================================================================================== *)
(* A. floats                                                                            *)
(* ==================================================================================== *)
(* an order-preserving key into Z^3 (lexicographic) for the floats other than NaN *)
Definition fkey (x : f64) : Z * Z * Z :=
  match x with
  | S754_nan => (3, 0, 0)
  | S754_infinity true => (-2, 0, 0)
  | S754_infinity false => (2, 0, 0)
  | S754_zero _ => (0, 0, 0)
  | S754_finite true m e => (-1, - e, Zneg m)
  | S754_finite false m e => (1, e, Zpos m)
  end%Z.

Definition cmp3 (a b : Z * Z * Z) : comparison :=
  let '(a1, a2, a3) := a in
  let '(b1, b2, b3) := b in
  match (a1 ?= b1)%Z with
  | Eq => match (a2 ?= b2)%Z with Eq => (a3 ?= b3)%Z | r => r end
  | r => r
  end.

Definition klt (a b : Z * Z * Z) : Prop :=
  let '(a1, a2, a3) := a in
  let '(b1, b2, b3) := b in
  (a1 < b1 \/ (a1 = b1 /\ (a2 < b2 \/ (a2 = b2 /\ a3 < b3))))%Z.

Lemma fcompare_key x y :
  is_nan x = false -> is_nan y = false -> SFcompare x y = Some (cmp3 (fkey x) (fkey y)).
Proof.
  intros Nx Ny.
  destruct x as [sx|sx| |sx mx ex]; try discriminate;
    destruct y as [sy|sy| |sy my ey]; try discriminate;
    try destruct sx; try destruct sy; try reflexivity.
  (* both negative finite (every other case computes) *)
  unfold fkey, cmp3, SFcompare.
  change (-1 ?= -1)%Z with Eq. cbv iota.
  rewrite Z.compare_opp, (Z.compare_antisym ex ey).
  change (Z.neg mx ?= Z.neg my)%Z with (CompOpp (mx ?= my)%positive).
  unfold Pos.compare. destruct (ex ?= ey)%Z; reflexivity.
Qed.

Lemma cmp3_lt a b : cmp3 a b = Lt <-> klt a b.
Proof.
  destruct a as [[a1 a2] a3], b as [[b1 b2] b3]. unfold cmp3, klt.
  destruct (Z.compare_spec a1 b1), (Z.compare_spec a2 b2), (Z.compare_spec a3 b3);
    split; intro HH; try discriminate; try reflexivity; try lia.
Qed.

Lemma cmp3_eq a b : cmp3 a b = Eq <-> a = b.
Proof.
  destruct a as [[a1 a2] a3], b as [[b1 b2] b3]. unfold cmp3.
  destruct (Z.compare_spec a1 b1), (Z.compare_spec a2 b2), (Z.compare_spec a3 b3);
    split; intro HH; try discriminate; try reflexivity; subst;
    try (injection HH; intros; subst); try lia; try reflexivity.
Qed.

Lemma fltb_klt x y :
  is_nan x = false -> is_nan y = false -> (fltb x y = true <-> klt (fkey x) (fkey y)).
Proof.
  intros Nx Ny. unfold fltb, SFltb. rewrite (fcompare_key x y Nx Ny), <- cmp3_lt.
  destruct (cmp3 (fkey x) (fkey y)); split; congruence.
Qed.

Lemma fltb_false_klt x y :
  is_nan x = false -> is_nan y = false -> (fltb x y = false <-> ~ klt (fkey x) (fkey y)).
Proof.
  intros Nx Ny. rewrite <- (fltb_klt x y Nx Ny). destruct (fltb x y); split; congruence.
Qed.

Lemma feqb_key x y :
  is_nan x = false -> is_nan y = false -> (feqb x y = true <-> fkey x = fkey y).
Proof.
  intros Nx Ny. unfold feqb, SFeqb. rewrite (fcompare_key x y Nx Ny), <- cmp3_eq.
  destruct (cmp3 (fkey x) (fkey y)); split; congruence.
Qed.

Lemma klt_irrefl a : ~ klt a a.
Proof. destruct a as [[a1 a2] a3]. unfold klt. lia. Qed.
Lemma klt_trans a b c : klt a b -> klt b c -> klt a c.
Proof. destruct a as [[a1 a2] a3], b as [[b1 b2] b3], c as [[c1 c2] c3]. unfold klt. lia. Qed.
Lemma klt_total a b : ~ klt a b -> ~ klt b a -> a = b.
Proof.
  destruct a as [[a1 a2] a3], b as [[b1 b2] b3]. unfold klt. intros H1 H2.
  assert (a1 = b1 /\ a2 = b2 /\ a3 = b3) as (-> & -> & ->) by lia. reflexivity.
Qed.

Definition not_nan (x : f64) : Prop := is_nan x = false.

Lemma fltb_equiv_key x y :
  not_nan x -> not_nan y -> (equiv fltb x y = true <-> fkey x = fkey y).
Proof.
  intros Nx Ny. rewrite equiv_true, !fltb_false_klt by assumption. split.
  - intros [H1 H2]. now apply klt_total.
  - intros ->. split; apply klt_irrefl.
Qed.

(* Go's < on float64 is a strict weak order away from NaN *)
Theorem fltb_swo : swo_on fltb not_nan.
Proof.
  split.
  - intros a Na. apply fltb_false_klt; auto. apply klt_irrefl.
  - intros a b c Na Nb Nc. rewrite !fltb_klt by assumption. apply klt_trans.
  - intros a b c Na Nb Nc. rewrite !fltb_equiv_key by assumption. congruence.
Qed.

(* Go's == on float64 is "neither below the other" away from NaN (so -0 == +0) *)
Lemma feqb_equiv x y : not_nan x -> not_nan y -> feqb x y = equiv fltb x y.
Proof.
  intros Nx Ny. apply eq_true_iff_eq.
  now rewrite feqb_key, fltb_equiv_key.
Qed.

Print Assumptions fltb_swo.

(* ==================================================================================== *)
(* B. strings                                                                           *)
(* ==================================================================================== *)
Lemma byte_of_inj x y : byte_of x = byte_of y -> x = y.
Proof.
  unfold byte_of. intro H. apply N2Z.inj in H.
  rewrite <- (ascii_N_embedding x), <- (ascii_N_embedding y). now rewrite H.
Qed.

Lemma sltb_irrefl a : sltb a a = false.
Proof. induction a as [|x a IH]; simpl; [reflexivity|]. now rewrite Z.ltb_irrefl. Qed.

Lemma sltb_trans a : forall b c, sltb a b = true -> sltb b c = true -> sltb a c = true.
Proof.
  induction a as [|x a IH]; intros [|y b] [|z c]; simpl; try congruence.
  destruct (Z.ltb_spec (byte_of x) (byte_of y)), (Z.ltb_spec (byte_of y) (byte_of x)),
    (Z.ltb_spec (byte_of y) (byte_of z)), (Z.ltb_spec (byte_of z) (byte_of y)),
    (Z.ltb_spec (byte_of x) (byte_of z)), (Z.ltb_spec (byte_of z) (byte_of x));
    try congruence; try lia.
  apply IH.
Qed.

Lemma sltb_total a : forall b, sltb a b = false -> sltb b a = false -> a = b.
Proof.
  induction a as [|x a IH]; intros [|y b]; simpl; try congruence.
  destruct (Z.ltb_spec (byte_of x) (byte_of y)), (Z.ltb_spec (byte_of y) (byte_of x));
    try congruence; try lia.
  intros H1 H2. assert (x = y) by (apply byte_of_inj; lia). subst. f_equal. now apply IH.
Qed.

Lemma sltb_equiv_eq a b : equiv sltb a b = true <-> a = b.
Proof.
  rewrite equiv_true. split.
  - intros [H1 H2]. now apply sltb_total.
  - intros ->. split; apply sltb_irrefl.
Qed.

Theorem sltb_swo : swo_on sltb (fun _ => True).
Proof.
  split.
  - intros a _. apply sltb_irrefl.
  - intros a b c _ _ _. apply sltb_trans.
  - intros a b c _ _ _. rewrite !sltb_equiv_eq. congruence.
Qed.

Lemma seqb_equiv a b : seqb a b = equiv sltb a b.
Proof. apply eq_true_iff_eq. now rewrite seqb_eq, sltb_equiv_eq. Qed.

Print Assumptions sltb_swo.

(* ==================================================================================== *)
(* C. merge / mergeSort                                                                 *)
(* ==================================================================================== *)
Section MergeSort.
  (* a total comparator that never errs and leaves the world alone: it computes [sw] *)
  Variable swap : value -> value -> M bool.
  Variable sw : value -> value -> bool.
  Hypothesis Hsw : forall x y w, swap x y w = Ok (sw x y) w.

  Lemma merge_fuel_merged : forall fuel l r w,
    fuel > List.length l + List.length r ->
    exists t, merge_fuel fuel swap l r w = Ok t w /\ merged sw l r t.
  Proof.
    induction fuel as [|f IH]; intros l r w Hf; [lia|].
    destruct l as [|x l'], r as [|y r']; cbn [merge_fuel].
    - exists []. split; [reflexivity|constructor].
    - exists (y :: r'). split; [reflexivity|constructor].
    - exists (x :: l'). split; [reflexivity|constructor].
    - unfold bind at 1. rewrite Hsw. simpl in Hf.
      destruct (sw x y) eqn:E.
      + destruct (IH (x :: l') r' w) as (t & Ht & Hm); [simpl; lia|].
        exists (y :: t). unfold bind. rewrite Ht. split; [reflexivity|now constructor].
      + destruct (IH l' (y :: r') w) as (t & Ht & Hm); [simpl; lia|].
        exists (x :: t). unfold bind. rewrite Ht. split; [reflexivity|now constructor].
  Qed.

  Lemma half_lt n : 2 <= n -> Nat.div n 2 < n /\ 0 < Nat.div n 2.
  Proof.
    intro H. split.
    - apply Nat.div_lt; lia.
    - apply Nat.div_str_pos; lia.
  Qed.

  Lemma merge_sort_fuel_merge_sorted : forall fuel l w,
    fuel > List.length l ->
    exists t, merge_sort_fuel fuel swap l w = Ok t w /\ merge_sorted sw l t.
  Proof.
    induction fuel as [|f IH]; intros l w Hf; [lia|].
    cbn [merge_sort_fuel]. cbv zeta.
    destruct (List.length l <? 2) eqn:E.
    - apply Nat.ltb_lt in E. exists l. split; [reflexivity|now constructor].
    - apply Nat.ltb_ge in E. destruct (half_lt _ E) as [H1 H2].
      set (pos := Nat.div (List.length l) 2) in *.
      destruct (IH (firstn pos l) w) as (a & Ha & Ma); [rewrite firstn_length; lia|].
      destruct (IH (skipn pos l) w) as (b & Hb & Mb); [rewrite skipn_length; lia|].
      assert (La : List.length a = pos).
      { rewrite (Permutation_length (merge_sorted_perm sw _ _ Ma)), firstn_length. lia. }
      assert (Lb : List.length b = List.length l - pos).
      { now rewrite (Permutation_length (merge_sorted_perm sw _ _ Mb)), skipn_length. }
      destruct (merge_fuel_merged (S (List.length l)) a b w) as (t & Ht & Mt); [lia|].
      exists t. unfold bind. rewrite Ha, Hb. split; [exact Ht|].
      now apply (ms_split sw l a b t).
  Qed.

  (* C13.1 : mergeSort returns a permutation of its input for EVERY total comparator — even
     an inconsistent one — and the fuel [length l + 1] used by lib_sort is enough *)
  Theorem merge_sort_perm fuel l w :
    fuel > List.length l ->
    exists r, merge_sort_fuel fuel swap l w = Ok r w /\ Permutation r l.
  Proof.
    intro Hf. destruct (merge_sort_fuel_merge_sorted fuel l w Hf) as (t & Ht & Mt).
    exists t. split; [exact Ht | exact (merge_sorted_perm sw _ _ Mt)].
  Qed.

  Corollary merge_sort_never_out_of_fuel fuel l w :
    fuel > List.length l -> merge_sort_fuel fuel swap l w <> OutOfFuel.
  Proof.
    intro Hf. destruct (merge_sort_perm fuel l w Hf) as (r & Hr & _). rewrite Hr. discriminate.
  Qed.

  (* C13.2 : when  sw x y = lt y x  ("x goes after y") for a strict weak order on the members,
     the result is sorted, stable, and therefore THE stable sort of the input *)
  Theorem merge_sort_stable_sorted (lt : value -> value -> bool) (P : value -> Prop) fuel l w :
    swo_on lt P -> (forall x y, sw x y = lt y x) -> Forall P l -> fuel > List.length l ->
    merge_sort_fuel fuel swap l w = Ok (stable_sort lt l) w /\
    stable_sorted_perm lt l (stable_sort lt l).
  Proof.
    intros O SW Pl Hf. destruct (merge_sort_fuel_merge_sorted fuel l w Hf) as (t & Ht & Mt).
    destruct (merge_sorted_stable_sorted lt sw P O SW l t Mt Pl) as [S ->].
    split; [exact Ht | exact S].
  Qed.
End MergeSort.

Print Assumptions merge_sort_perm.
Print Assumptions merge_sort_stable_sorted.

(* ==================================================================================== *)
(* D. makeLessFunc                                                                      *)
(* ==================================================================================== *)
(* the keys buildSortInfo lets through for a term of kind k, NaN excluded *)
Definition val_ok (k : nat) (p : value) : Prop :=
  match p with
  | VNum x => k = 1 /\ not_nan x
  | VStr _ => k = 2
  | _ => False
  end.
Definition key_ok (k : nat) (v : ovalue) : Prop := key_typed k v /\ key_not_nan v.
Definition tuple_ok (kinds : list nat) (ks : list ovalue) : Prop := Forall2 key_ok kinds ks.

Lemma key_ok_opt_dom k v : key_ok k v -> opt_dom (val_ok k) v.
Proof.
  intros [T N]. destruct v as [p|]; [|exact I]. destruct p; simpl in *; auto.
Qed.

Lemma tuple_ok_of kinds ks : tuple_typed kinds ks -> Forall key_not_nan ks -> tuple_ok kinds ks.
Proof.
  intro T. induction T as [|k v kinds ks Hk T IH]; intro N; [constructor|].
  apply Forall_cons_iff in N as [N1 N2]. constructor; [split; assumption | exact (IH N2)].
Qed.

(* numbers numerically / strings bytewise is a strict weak order on one kind of key *)
Lemma key_lt_swo k : swo_on key_lt (val_ok k).
Proof.
  split.
  - intros [] Pa; simpl in *; try contradiction.
    + now apply (swo_irrefl _ _ fltb_swo).
    + apply sltb_irrefl.
  - intros [] [] [] Pa Pb Pc; simpl in *; try contradiction; try congruence; try lia.
    + apply (swo_trans _ _ fltb_swo); tauto.
    + apply sltb_trans.
  - intros [|?|x|x|?|?|?] [|?|y|y|?|?|?] [|?|z|z|?|?|?] Pa Pb Pc; simpl in *;
      try contradiction; try lia.
    + change (equiv fltb x y = true -> equiv fltb y z = true -> equiv fltb x z = true).
      apply (swo_equiv_trans _ _ fltb_swo); tauto.
    + change (equiv sltb x y = true -> equiv sltb y z = true -> equiv sltb x z = true).
      now apply (swo_equiv_trans _ _ sltb_swo).
Qed.

Lemma dir_lt_swo d k : swo_on (dir_lt d) (val_ok k).
Proof.
  destruct d; cbn [dir_lt]; [apply key_lt_swo | apply key_lt_swo |].
  apply (swo_flip key_lt), key_lt_swo.
Qed.

(* one term: direction on present keys, absent keys last *)
Lemma term_lt_swo d k : swo_on (term_lt d) (key_ok k).
Proof.
  apply (swo_weaken _ (opt_dom (val_ok k))); [apply key_ok_opt_dom|].
  apply swo_opt_last, dir_lt_swo.
Qed.

(* eq / lt of eval.go on keys of one kind *)
Lemma lt_values_key_lt p q : match lt_values p q with Some t => t | None => false end = key_lt p q.
Proof. destruct p, q; reflexivity. Qed.

Lemma eq_values_equiv k p q : val_ok k p -> val_ok k q -> eq_values p q = equiv key_lt p q.
Proof.
  destruct p, q; simpl; try contradiction; try lia.
  - intros [_ Np] [_ Nq]. now apply feqb_equiv.
  - intros _ _. apply seqb_equiv.
Qed.

Lemma equiv_dir_lt d p q : equiv (dir_lt d) p q = equiv key_lt p q.
Proof. destruct d; try reflexivity. simpl. unfold flip_lt, equiv. apply andb_comm. Qed.

(* the comparison of one term in makeLessFunc *)
Lemma sort_less_cons_some d tr p q ra rb :
  sort_less (d :: tr) (Some p :: ra) (Some q :: rb)
  = if eq_values p q then sort_less tr ra rb else dir_lt d p q.
Proof.
  cbn [sort_less]. destruct (eq_values p q); [reflexivity|].
  destruct d; simpl; unfold flip_lt; apply lt_values_key_lt.
Qed.

(* makeLessFunc is the lexicographic key order, term by term *)
Lemma sort_less_step d tr k x y ra rb :
  key_ok k x -> key_ok k y ->
  sort_less (d :: tr) (x :: ra) (y :: rb)
  = term_lt d x y || (negb (term_lt d y x) && sort_less tr ra rb).
Proof.
  intros Hx Hy. destruct x as [p|], y as [q|]; try reflexivity.
  rewrite sort_less_cons_some.
  apply key_ok_opt_dom in Hx, Hy. simpl in Hx, Hy.
  rewrite (eq_values_equiv k p q Hx Hy), <- (equiv_dir_lt d). unfold term_lt, opt_last, equiv.
  destruct (dir_lt d p q), (dir_lt d q p); reflexivity.
Qed.

Theorem sort_less_lex : forall ds kinds ka kb,
  tuple_ok kinds ka -> tuple_ok kinds kb -> sort_less ds ka kb = lex_lt ds ka kb.
Proof.
  induction ds as [|d tr IH]; intros kinds ka kb Ha Hb; [reflexivity|].
  destruct Ha as [|k x kinds' ra Hx Ha]; [reflexivity|].
  inversion Hb as [|? y ? rb Hy Hb']; subst.
  rewrite (sort_less_step d tr k x y ra rb Hx Hy), (IH kinds' ra rb Ha Hb'). reflexivity.
Qed.

(* the lexicographic key order is a strict weak order on well-typed NaN-free key tuples *)
Theorem lex_lt_swo : forall ds kinds, swo_on (lex_lt ds) (tuple_ok kinds).
Proof.
  induction ds as [|d tr IH]; intro kinds.
  - split.
    + intros; reflexivity.
    + intros a b c _ _ _ H. simpl in H. discriminate.
    + intros; reflexivity.
  - destruct kinds as [|k kinds'].
    + split.
      * intros a Pa. inversion Pa; subst. reflexivity.
      * intros a b c Pa Pb Pc. inversion Pa; subst. discriminate.
      * intros a b c Pa Pb Pc. inversion Pa; inversion Pc; subst. reflexivity.
    + set (split := fun ka : list ovalue => (hd None ka, tl ka)).
      apply (swo_ext (on_key split (lex_pair (term_lt d) (lex_lt tr)))).
      * intros a b Pa Pb. inversion Pa; inversion Pb; subst. reflexivity.
      * apply (swo_weaken _ (fun ka => key_ok k (fst (split ka)) /\ tuple_ok kinds' (snd (split ka)))).
        { intros a Pa. inversion Pa; subst. split; assumption. }
        apply (swo_on_key split (lex_pair (term_lt d) (lex_lt tr))
                 (fun p => key_ok k (fst p) /\ tuple_ok kinds' (snd p))).
        apply swo_lex_pair; [apply term_lt_swo | apply IH].
Qed.

(* C13.3 : makeLessFunc is a strict weak order on the key tuples of a successful
   buildSortInfo (NaN-free) *)
Theorem sort_less_swo ds kinds : swo_on (sort_less ds) (tuple_ok kinds).
Proof.
  apply (swo_ext (lex_lt ds)); [|apply lex_lt_swo].
  intros a b Pa Pb. symmetry. now apply (sort_less_lex ds kinds).
Qed.

(* absent keys are last, whatever the direction and whatever follows *)
Theorem sort_less_missing_last d ds p xs ys :
  sort_less (d :: ds) (Some p :: xs) (None :: ys) = true /\
  sort_less (d :: ds) (None :: xs) (Some p :: ys) = false.
Proof. split; reflexivity. Qed.

Theorem sort_less_missing_tie d ds xs ys :
  sort_less (d :: ds) (None :: xs) (None :: ys) = sort_less ds xs ys.
Proof. reflexivity. Qed.

(* a direction marker only affects its own term: [sort_less_step] uses [d] for the first
   term only and [ds] for the rest; descending is ascending with the arguments exchanged,
   no marker is ascending, and which keys tie does not depend on the direction *)
Theorem term_lt_directions p q :
  term_lt SortDefault = term_lt SortAscending /\
  term_lt SortDescending (Some p) (Some q) = term_lt SortAscending (Some q) (Some p) /\
  (forall d, equiv (term_lt d) (Some p) (Some q) = equiv key_lt p q).
Proof.
  split; [reflexivity|]. split; [reflexivity|].
  intro d. apply (equiv_dir_lt d).
Qed.

Print Assumptions sort_less_swo.
Print Assumptions sort_less_lex.

Example sort_less_example :
  let a := [Some (VNum (f_of_Z 1)); None; Some (VStr "x")] in
  let b := [Some (VNum (f_of_Z 1)); None; Some (VStr "y")] in
  let c := [Some (VNum (f_of_Z 2)); Some (VStr "k"); None] in
  let ds := [SortDescending; SortDefault; SortDescending] in
  tuple_ok [1; 2; 2] a /\ tuple_ok [1; 2; 2] b /\ tuple_ok [1; 2; 2] c /\
  sort_less ds c a = true /\ sort_less ds b a = true /\ sort_less ds a b = false /\
  sort_less ds a c = false.
Proof.
  cbv zeta. repeat split; repeat constructor.
Qed.

(* ==================================================================================== *)
(* E. buildSortInfo                                                                     *)
(* ==================================================================================== *)
(* how the per-term kind can change while scanning the items: once 1 or 2, for ever *)
Definition kext (k k' : nat) : Prop := (k = 1 -> k' = 1) /\ (k = 2 -> k' = 2).

Lemma kext_refl k : kext k k.
Proof. split; auto. Qed.
Lemma kext_trans a b c : kext a b -> kext b c -> kext a c.
Proof. intros [H1 H2] [H3 H4]. split; auto. Qed.

Lemma key_typed_ext k k' v : key_typed k v -> kext k k' -> key_typed k' v.
Proof. intros T [H1 H2]. destruct v as [[]|]; simpl in *; auto. Qed.

Lemma tuple_typed_ext ks vs : tuple_typed ks vs -> forall ks', Forall2 kext ks ks' -> tuple_typed ks' vs.
Proof.
  induction 1 as [|k v ks vs Hk T IH]; intros ks' E; inversion E; subst; constructor.
  - eapply key_typed_ext; eauto.
  - now apply IH.
Qed.

Lemma Forall2_kext_refl ks : Forall2 kext ks ks.
Proof. induction ks; constructor; auto using kext_refl. Qed.
Lemma Forall2_kext_trans a : forall b c, Forall2 kext a b -> Forall2 kext b c -> Forall2 kext a c.
Proof.
  induction a as [|x a IH]; intros b c H1 H2; inversion H1; subst; inversion H2; subst;
    constructor; eauto using kext_trans.
Qed.

Section SortInfo.
  Variable evn : node -> ovalue -> M ovalue.

  (* the key tuple of one item: one key per term, typed by the updated kinds; the keys are the
     results of evaluating the term expressions on the item, left to right *)
  Lemma sort_keys_ok it : forall ts ks w vs ks' w',
    List.length ks = List.length ts ->
    sort_keys evn it ts ks w = Ok (vs, ks') w' ->
    List.length ks' = List.length ts /\ Forall2 kext ks ks' /\ tuple_typed ks' vs /\
    steps (fun t : sortdir * node => evn (snd t) (Some it)) ts w vs w'.
  Proof.
    induction ts as [|[d te] tr IH]; intros ks w vs ks' w' Hl H.
    - destruct ks; [|discriminate]. cbn [sort_keys] in H. apply ret_ok in H as [H <-].
      injection H as <- <-. repeat split; constructor.
    - destruct ks as [|k kr]; [discriminate|]. cbn [sort_keys] in H.
      injection Hl as Hl.
      apply bind_ok in H as (v & w1 & Ev & H).
      assert (Rec : forall v0 k0,
                 bind (sort_keys evn it tr kr)
                      (fun x => let '(vs0, ks0) := x in ret (v0 :: vs0, k0 :: ks0)) w1
                 = Ok (vs, ks') w' ->
                 exists vs0 ks0, vs = v0 :: vs0 /\ ks' = k0 :: ks0 /\
                   List.length ks0 = List.length tr /\ Forall2 kext kr ks0 /\
                   tuple_typed ks0 vs0 /\
                   steps (fun t : sortdir * node => evn (snd t) (Some it)) tr w1 vs0 w').
      { intros v0 k0 H0. apply bind_ok in H0 as ([vs0 ks0] & w2 & H0 & R).
        apply ret_ok in R as [R <-]. injection R as <- <-.
        destruct (IH kr w1 vs0 ks0 w2 Hl H0) as (L & E & T & S). exists vs0, ks0. auto. }
      destruct v as [p|].
      + destruct p; try discriminate.
        * destruct (k =? 2) eqn:Ek; [discriminate|]. apply Nat.eqb_neq in Ek.
          destruct (Rec _ _ H) as (vs0 & ks0 & -> & -> & L & E & T & S).
          split; [simpl; congruence|]. split; [|split].
          -- constructor; [split; [reflexivity | intro; contradiction] | exact E].
          -- constructor; [reflexivity | exact T].
          -- econstructor; eauto.
        * destruct (k =? 1) eqn:Ek; [discriminate|]. apply Nat.eqb_neq in Ek.
          destruct (Rec _ _ H) as (vs0 & ks0 & -> & -> & L & E & T & S).
          split; [simpl; congruence|]. split; [|split].
          -- constructor; [split; [intro; contradiction | reflexivity] | exact E].
          -- constructor; [reflexivity | exact T].
          -- econstructor; eauto.
      + destruct (Rec _ _ H) as (vs0 & ks0 & -> & -> & L & E & T & S).
        split; [simpl; congruence|]. split; [|split].
        * constructor; [apply kext_refl | exact E].
        * constructor; [exact I | exact T].
        * econstructor; eauto.
  Qed.

  Definition sort_info_step (terms : list (sortdir * node))
    (st : list (value * list ovalue) * list nat) (it : value)
    : M (list (value * list ovalue) * list nat) :=
    let '(acc, kinds) := st in
    '(vals, kinds') <- sort_keys evn it terms kinds ;;
    ret (acc ++ [(it, vals)], kinds').

  Lemma sort_info_unfold terms l :
    sort_info evn terms l
    = bind (foldM (sort_info_step terms) ([], map (fun _ => 0) terms) l)
           (fun x => let '(info, _) := x in ret info).
  Proof. reflexivity. Qed.

  Lemma sort_info_fold_ok terms : forall l acc kinds w info kinds' w',
    List.length kinds = List.length terms ->
    foldM (sort_info_step terms) (acc, kinds) l w = Ok (info, kinds') w' ->
    exists new, info = acc ++ new /\ map fst new = l /\
                List.length kinds' = List.length terms /\ Forall2 kext kinds kinds' /\
                Forall (fun p => tuple_typed kinds' (snd p)) new.
  Proof.
    induction l as [|it r IH]; intros acc kinds w info kinds' w' Hl H.
    - cbn [foldM] in H. apply ret_ok in H as [H _]. injection H as <- <-.
      exists []. rewrite app_nil_r. repeat split; auto using Forall2_kext_refl.
    - rewrite foldM_cons in H. apply bind_ok in H as ([acc1 kinds1] & w1 & H1 & H2).
      cbn [sort_info_step] in H1. apply bind_ok in H1 as ([vals k1] & w2 & K & R).
      apply ret_ok in R as [R <-]. injection R as <- <-.
      destruct (sort_keys_ok it terms kinds w vals k1 w2 Hl K) as (L1 & E1 & T1 & _).
      destruct (IH _ _ _ _ _ _ L1 H2) as (new & -> & Hm & L2 & E2 & T2).
      exists ((it, vals) :: new). rewrite <- app_assoc. split; [reflexivity|].
      split; [simpl; congruence|]. split; [exact L2|].
      split; [eapply Forall2_kext_trans; eauto|].
      constructor; [|exact T2]. simpl. eapply tuple_typed_ext; eauto.
  Qed.

  (* C13.3/5 : a successful buildSortInfo returns one key tuple per item, in item order, and
     the tuples are type-consistent column by column *)
  Theorem sort_info_consistent terms l w info w' :
    sort_info evn terms l w = Ok info w' ->
    consistent terms info /\ map fst info = l.
  Proof.
    rewrite sort_info_unfold. intro H.
    apply bind_ok in H as ([info0 kinds'] & w1 & H & R). apply ret_ok in R as [<- <-].
    apply sort_info_fold_ok in H as (new & -> & Hm & L & E & T); [|apply map_length].
    simpl. split; [|exact Hm]. exists kinds'. split; assumption.
  Qed.
End SortInfo.

Print Assumptions sort_info_consistent.

(* ---- errors, for a key evaluator that succeeds ---- *)
Section SortErrors.
  Variable evn : node -> ovalue -> M ovalue.
  Variable g : node -> ovalue -> ovalue.
  Hypothesis Hg : forall nd it w, evn nd it w = Ok (g nd it) w.

  Definition keyof (it : value) (t : sortdir * node) : ovalue := g (snd t) (Some it).
  Definition keys_of_item (terms : list (sortdir * node)) (it : value) : value * list ovalue :=
    (it, map (keyof it) terms).

  (* a term whose key is a number for one item and a string for another *)
  Definition mixed_col (items : list value) (t : sortdir * node) : Prop :=
    exists a b, In a items /\ In b items /\ is_num_key (keyof a t) /\ is_str_key (keyof b t).
  Definition bad_key (items : list value) (terms : list (sortdir * node)) : Prop :=
    exists it t, In it items /\ In t terms /\ ~ sortable_key (keyof it t).

  Lemma mixed_col_incl s s' t : incl s s' -> mixed_col s t -> mixed_col s' t.
  Proof. intros I (a & b & Ha & Hb & H). exists a, b. auto. Qed.

  (* kinds remember a witness *)
  Definition kwit (done : list value) (t : sortdir * node) (k : nat) : Prop :=
    (k = 1 -> exists a, In a done /\ is_num_key (keyof a t)) /\
    (k = 2 -> exists a, In a done /\ is_str_key (keyof a t)).

  Lemma kwit_mono done it t k : kwit done t k -> kwit (it :: done) t k.
  Proof.
    intros [H1 H2]. split; intro E.
    - destruct (H1 E) as (a & Ha & Hn). exists a. split; [now right|auto].
    - destruct (H2 E) as (a & Ha & Hn). exists a. split; [now right|auto].
  Qed.

  Lemma sort_keys_pure it done : forall ts ks w,
    Forall2 (kwit done) ts ks ->
    (exists ks', sort_keys evn it ts ks w = Ok (map (keyof it) ts, ks') w /\
                 Forall2 (kwit (it :: done)) ts ks')
    \/ (sort_keys evn it ts ks w = Err (EEval ErrNonSortable) /\
        exists t, In t ts /\ ~ sortable_key (keyof it t))
    \/ (sort_keys evn it ts ks w = Err (EEval ErrSortMismatch) /\
        exists t, In t ts /\ mixed_col (it :: done) t).
  Proof.
    intros ts ks w F. revert w. induction F as [|t k tr kr Wk F IH]; intro w.
    - left. exists []. split; [reflexivity|constructor].
    - destruct t as [d te].
      remember (sort_keys evn it ((d, te) :: tr) (k :: kr) w) as R eqn:ER.
      cbn [sort_keys] in ER. unfold bind at 1 in ER. rewrite Hg in ER.
      assert (Rec : forall k0,
        kwit (it :: done) (d, te) k0 ->
        (exists ks', bind (sort_keys evn it tr kr)
                       (fun x => let '(vs0, ks0) := x in ret (g te (Some it) :: vs0, k0 :: ks0)) w
                     = Ok (map (keyof it) ((d, te) :: tr), ks') w /\
                     Forall2 (kwit (it :: done)) ((d, te) :: tr) ks')
        \/ (bind (sort_keys evn it tr kr)
              (fun x => let '(vs0, ks0) := x in ret (g te (Some it) :: vs0, k0 :: ks0)) w
            = Err (EEval ErrNonSortable) /\
            exists t, In t ((d, te) :: tr) /\ ~ sortable_key (keyof it t))
        \/ (bind (sort_keys evn it tr kr)
              (fun x => let '(vs0, ks0) := x in ret (g te (Some it) :: vs0, k0 :: ks0)) w
            = Err (EEval ErrSortMismatch) /\
            exists t, In t ((d, te) :: tr) /\ mixed_col (it :: done) t)).
      { intros k0 W0. unfold bind.
        destruct (IH w) as [(ks' & E & W)|[(E & t & Ht & B)|(E & t & Ht & B)]]; rewrite E.
        - left. exists (k0 :: ks'). split; [reflexivity|]. constructor; assumption.
        - right; left. split; [reflexivity|]. exists t. split; [now right|exact B].
        - right; right. split; [reflexivity|]. exists t. split; [now right|exact B]. }
      assert (In0 : In (d, te) ((d, te) :: tr)) by now left.
      destruct (g te (Some it)) as [p|] eqn:Ek.
      + destruct p;
          try (rewrite ER; right; left; split; [reflexivity|]; exists (d, te); split; [exact In0|];
               unfold keyof; simpl; rewrite Ek; simpl; tauto).
        * (* number *)
          destruct (k =? 2) eqn:E2; rewrite ER.
          -- apply Nat.eqb_eq in E2. right; right. split; [reflexivity|].
             exists (d, te). split; [exact In0|].
             destruct Wk as [_ W2]. destruct (W2 E2) as (a & Ha & Sa).
             exists it, a. split; [now left|]. split; [now right|].
             split; [|exact Sa]. unfold keyof; simpl. now rewrite Ek.
          -- apply Rec. split; [|discriminate]. intros _. exists it. split; [now left|].
             unfold keyof; simpl. now rewrite Ek.
        * (* string *)
          destruct (k =? 1) eqn:E1; rewrite ER.
          -- apply Nat.eqb_eq in E1. right; right. split; [reflexivity|].
             exists (d, te). split; [exact In0|].
             destruct Wk as [W1 _]. destruct (W1 E1) as (a & Ha & Sa).
             exists a, it. split; [now right|]. split; [now left|].
             split; [exact Sa|]. unfold keyof; simpl. now rewrite Ek.
          -- apply Rec. split; [discriminate|]. intros _. exists it. split; [now left|].
             unfold keyof; simpl. now rewrite Ek.
      + rewrite ER. apply Rec. now apply kwit_mono.
  Qed.

  Lemma sort_info_fold_pure terms : forall l done acc kinds w,
    Forall2 (kwit done) terms kinds ->
    (exists kinds', foldM (sort_info_step evn terms) (acc, kinds) l w
                    = Ok (acc ++ map (keys_of_item terms) l, kinds') w)
    \/ (foldM (sort_info_step evn terms) (acc, kinds) l w = Err (EEval ErrNonSortable) /\
        bad_key l terms)
    \/ (foldM (sort_info_step evn terms) (acc, kinds) l w = Err (EEval ErrSortMismatch) /\
        exists t, In t terms /\ mixed_col (l ++ done) t).
  Proof.
    induction l as [|it r IH]; intros done acc kinds w F.
    - left. exists kinds. simpl. now rewrite app_nil_r.
    - remember (foldM (sort_info_step evn terms) (acc, kinds) (it :: r) w) as R eqn:ER.
      rewrite foldM_cons in ER. cbn [sort_info_step] in ER.
      unfold bind at 1 in ER. unfold bind at 1 in ER.
      destruct (sort_keys_pure it done terms kinds w F)
        as [(ks' & E & W)|[(E & t & Ht & B)|(E & t & Ht & B)]]; rewrite E in ER.
      + cbn [ret] in ER.
        destruct (IH (it :: done) (acc ++ [(it, map (keyof it) terms)]) ks' w W)
          as [(kinds' & E')|[(E' & it' & t & Hi & Ht & B)|(E' & t & Ht & B)]];
          rewrite E' in ER; rewrite ER.
        * left. exists kinds'. now rewrite <- app_assoc.
        * right; left. split; [reflexivity|]. exists it', t. split; [now right|auto].
        * right; right. split; [reflexivity|]. exists t. split; [exact Ht|].
          apply (mixed_col_incl (r ++ it :: done)); [|exact B].
          intros x Hx. apply in_app_or in Hx as [Hx|[<-|Hx]].
          -- right. apply in_or_app. now left.
          -- now left.
          -- right. apply in_or_app. now right.
      + rewrite ER. right; left. split; [reflexivity|]. exists it, t. split; [now left|auto].
      + rewrite ER. right; right. split; [reflexivity|]. exists t. split; [exact Ht|].
        apply (mixed_col_incl (it :: done)); [|exact B].
        intros x [<-|Hx]; [now left|]. right. apply in_or_app. now right.
  Qed.

  Lemma kwit_init terms : Forall2 (kwit []) terms (map (fun _ => 0) terms).
  Proof. induction terms; constructor; auto. split; discriminate. Qed.

  (* the three possible outcomes of buildSortInfo *)
  Theorem sort_info_outcomes terms l w :
    sort_info evn terms l w = Ok (map (keys_of_item terms) l) w
    \/ (sort_info evn terms l w = Err (EEval ErrNonSortable) /\ bad_key l terms)
    \/ (sort_info evn terms l w = Err (EEval ErrSortMismatch) /\
        exists t, In t terms /\ mixed_col l t).
  Proof.
    rewrite sort_info_unfold. unfold bind.
    destruct (sort_info_fold_pure terms l [] [] (map (fun _ => 0) terms) w (kwit_init terms))
      as [(kinds' & E)|[(E & B)|(E & t & Ht & B)]]; rewrite E.
    - left. reflexivity.
    - right; left. auto.
    - right; right. split; [reflexivity|]. exists t. split; [exact Ht|].
      now rewrite app_nil_r in B.
  Qed.

  (* two tuples typed by the same kinds agree on the kind of every term *)
  Lemma typed_same_kind a b : forall terms kinds t,
    tuple_typed kinds (map (keyof a) terms) -> tuple_typed kinds (map (keyof b) terms) ->
    In t terms -> exists k, key_typed k (keyof a t) /\ key_typed k (keyof b t).
  Proof.
    induction terms as [|t0 tr IH]; intros kinds t Ta Tb Ht; [contradiction|].
    inversion Ta as [|k ? ks ? Ka Ta']; subst. inversion Tb as [|? ? ? ? Kb Tb']; subst.
    destruct Ht as [<-|Ht]; [exists k; auto | eapply IH; eauto].
  Qed.

  Lemma consistent_no_error terms l :
    consistent terms (map (keys_of_item terms) l) ->
    ~ bad_key l terms /\ forall t, In t terms -> ~ mixed_col l t.
  Proof.
    intros (kinds & _ & T). rewrite Forall_map in T. rewrite Forall_forall in T. split.
    - intros (it & t & Hi & Ht & B). apply B.
      destruct (typed_same_kind it it terms kinds t (T it Hi) (T it Hi) Ht) as (k & K & _).
      destruct (keyof it t) as [[]|]; simpl in *; auto.
    - intros t Ht (a & b & Ha & Hb & Na & Sb).
      destruct (typed_same_kind a b terms kinds t (T a Ha) (T b Hb) Ht) as (k & Ka & Kb).
      destruct (keyof a t) as [[]|]; simpl in Na; try contradiction.
      destruct (keyof b t) as [[]|]; simpl in Sb; try contradiction.
      simpl in Ka, Kb. congruence.
  Qed.

  (* C13.5 : order-by succeeds exactly when every key is absent, a number or a string and no
     term mixes numbers with strings; otherwise it fails with ErrNonSortable (only if some key
     is of another type) or ErrSortMismatch (only if some term mixes numbers and strings) —
     it never returns a silently mis-ordered result, and never panics *)
  Theorem C13_errors terms l w :
    (sort_info evn terms l w = Ok (map (keys_of_item terms) l) w <->
       ~ bad_key l terms /\ forall t, In t terms -> ~ mixed_col l t) /\
    (sort_info evn terms l w = Err (EEval ErrNonSortable) -> bad_key l terms) /\
    (sort_info evn terms l w = Err (EEval ErrSortMismatch) -> exists t, In t terms /\ mixed_col l t) /\
    (bad_key l terms \/ (exists t, In t terms /\ mixed_col l t) ->
       sort_info evn terms l w = Err (EEval ErrNonSortable) \/
       sort_info evn terms l w = Err (EEval ErrSortMismatch)).
  Proof.
    assert (OkC : sort_info evn terms l w = Ok (map (keys_of_item terms) l) w ->
                  ~ bad_key l terms /\ forall t, In t terms -> ~ mixed_col l t).
    { intro H. apply consistent_no_error. now apply (sort_info_consistent evn terms l w _ w). }
    destruct (sort_info_outcomes terms l w) as [E|[(E & B)|(E & t & Ht & B)]].
    - split; [split; auto|]. rewrite E. split; [discriminate|]. split; [discriminate|].
      intros [B|(t & Ht & B)]; exfalso; destruct (OkC E) as [N1 N2]; [auto | eapply N2; eauto].
    - split; [|split; [auto|split; [rewrite E; discriminate | auto]]].
      split; [rewrite E; discriminate | intros [N _]; contradiction].
    - split; [|split; [rewrite E; discriminate|split; [eauto | auto]]].
      split; [rewrite E; discriminate | intros [_ N]; exfalso; eapply N; eauto].
  Qed.
End SortErrors.

Print Assumptions C13_errors.

(* ==================================================================================== *)
(* F. order-by                                                                          *)
(* ==================================================================================== *)
(* the order on (item, key tuple) records: lexicographic key order of Spec/C13.v *)
Definition info_lt (ds : list sortdir) : value * list ovalue -> value * list ovalue -> bool :=
  on_key snd (lex_lt ds).

(* C13.4 : the items returned by  seq^(k1, ..., kn)  (before the final normalizeArray) are THE
   stable sorted permutation of the input items for the lexicographic key order: a
   permutation, ordered term by term with the written directions, absent keys last, ties in
   input order — and any other stable sort (sort.SliceStable) would return the same list *)
Theorem C13_orderby evn terms l w info w' :
  sort_info evn terms l w = Ok info w' -> keys_not_nan info ->
  exists r,
    sorted_items terms info = Some (normalize_array (map fst r)) /\
    map fst info = l /\
    stable_sorted_perm (info_lt (map fst terms)) info r /\
    (forall r', stable_sorted_perm (info_lt (map fst terms)) info r' -> r' = r) /\
    Permutation (map fst r) l.
Proof.
  intros H NN. destruct (sort_info_consistent evn terms l w info w' H) as [(kinds & Lk & T) Hm].
  set (ds := map fst terms).
  set (P := fun p : value * list ovalue => tuple_ok kinds (snd p)).
  assert (Pl : Forall P info).
  { unfold keys_not_nan in NN. rewrite Forall_forall in *. intros p Hp.
    apply tuple_ok_of; [now apply T | now apply NN]. }
  assert (O : swo_on (info_lt ds) P).
  { apply (swo_on_key snd (lex_lt ds) (tuple_ok kinds)), lex_lt_swo. }
  assert (E : stable_sort (fun a b => sort_less ds (snd a) (snd b)) info
              = stable_sort (info_lt ds) info).
  { apply stable_sort_ext. intros a b Ha Hb. rewrite Forall_forall in Pl.
    apply (sort_less_lex ds kinds); [exact (Pl a Ha) | exact (Pl b Hb)]. }
  exists (stable_sort (info_lt ds) info).
  destruct (stable_sort_unique (info_lt ds) P info O Pl) as [S U].
  split; [unfold sorted_items; fold ds; now rewrite E|].
  split; [exact Hm|]. split; [exact S|]. split; [exact U|].
  rewrite <- Hm. apply Permutation_map. apply S.
Qed.

Print Assumptions C13_orderby.

(* a concrete instance: three objects sorted by  ^(>a, b)  with a tie and a missing key *)
Definition ex_evn (nd : node) (it : ovalue) : M ovalue :=
  ret (match nd, it with
       | NName k _, Some (VObj m) => assoc_get k m
       | _, _ => None
       end).
Definition ex_w0 : world := mkWorld [].
Definition ex_obj (a : Z) (b : string) : value := VObj [("a", VNum (f_of_Z a)); ("b", VStr b)].
Definition ex_items : list value :=
  [ex_obj 1 "y"; VObj [("b", VStr "q")]; ex_obj 2 "x"; ex_obj 1 "x"; ex_obj 2 "x"; ex_obj 1 "y"].
Definition ex_terms : list (sortdir * node) :=
  [(SortDescending, NName "a" false); (SortDefault, NName "b" false)].

Example C13_orderby_example :
  exists info,
    sort_info ex_evn ex_terms ex_items ex_w0 = Ok info ex_w0 /\ keys_not_nan info /\
    sorted_items ex_terms info
    = Some (VArr [ex_obj 2 "x"; ex_obj 2 "x"; ex_obj 1 "x"; ex_obj 1 "y"; ex_obj 1 "y";
                  VObj [("b", VStr "q")]]).
Proof.
  eexists. split; [vm_compute; reflexivity|]. split; [|vm_compute; reflexivity].
  repeat constructor.
Qed.

Example C13_errors_example :
  sort_info ex_evn [(SortDefault, NName "a" false)]
            [ex_obj 1 "y"; VObj [("a", VStr "1")]] ex_w0 = Err (EEval ErrSortMismatch) /\
  sort_info ex_evn [(SortDefault, NName "a" false)]
            [ex_obj 1 "y"; VObj [("a", VBool true)]] ex_w0 = Err (EEval ErrNonSortable).
Proof. split; vm_compute; reflexivity. Qed.

(* ==================================================================================== *)
(* G. $sort                                                                             *)
(* ==================================================================================== *)
Lemma all_numbers_map xs : all_numbers (map VNum xs) = true.
Proof. induction xs; simpl; auto. Qed.
Lemma all_strings_map xs : all_strings (map VStr xs) = true.
Proof. induction xs; simpl; auto. Qed.
Lemma somes_num_of_map xs : somes (map num_of (map VNum xs)) = xs.
Proof. induction xs; simpl; congruence. Qed.
Lemma somes_str_of_map xs : somes (map str_of (map VStr xs)) = xs.
Proof. induction xs; simpl; congruence. Qed.

Lemma all_numbers_inv l : all_numbers l = true -> exists xs, l = map VNum xs.
Proof.
  induction l as [|v r IH]; simpl; intro H; [now exists []|].
  destruct v; try discriminate. destruct (IH H) as (xs & ->). now exists (x :: xs).
Qed.
Lemma all_strings_inv l : all_strings l = true -> exists xs, l = map VStr xs.
Proof.
  induction l as [|v r IH]; simpl; intro H; [now exists []|].
  destruct v; try discriminate. destruct (IH H) as (xs & ->). now exists (s :: xs).
Qed.

Section LibSort.
  Variable apply : callable -> list ovalue -> M ovalue.

  (* C13.6 : $sort(a) of an all-number array is the stable ascending sort of its members *)
  Theorem lib_sort_numbers xs w :
    lib_sort apply (Some (VArr (map VNum xs))) None w
    = Ok (Some (VArr (map VNum (stable_sort fltb xs)))) w.
  Proof.
    unfold lib_sort. now rewrite all_numbers_map, somes_num_of_map.
  Qed.

  Theorem lib_sort_numbers_spec xs :
    Forall not_nan xs ->
    stable_sorted_perm fltb xs (stable_sort fltb xs) /\
    forall r, stable_sorted_perm fltb xs r -> r = stable_sort fltb xs.
  Proof. apply stable_sort_unique, fltb_swo. Qed.

  (* ... and of an all-string array likewise, bytewise *)
  Theorem lib_sort_strings xs w :
    lib_sort apply (Some (VArr (map VStr xs))) None w
    = Ok (Some (VArr (map VStr (stable_sort sltb xs)))) w.
  Proof.
    unfold lib_sort. destruct xs as [|s xs]; [reflexivity|].
    change (all_numbers (map VStr (s :: xs))) with false. cbv iota.
    now rewrite all_strings_map, somes_str_of_map.
  Qed.

  Theorem lib_sort_strings_spec xs :
    stable_sorted_perm sltb xs (stable_sort sltb xs) /\
    forall r, stable_sorted_perm sltb xs r -> r = stable_sort sltb xs.
  Proof.
    apply (stable_sort_unique sltb (fun _ => True)); [apply sltb_swo|].
    rewrite Forall_forall; auto.
  Qed.

  (* any other array without comparator is an error, never a mis-ordered result *)
  Theorem lib_sort_default_error l w :
    all_numbers l = false -> all_strings l = false ->
    lib_sort apply (Some (VArr l)) None w = Err (ELib "sort: array of strings or numbers").
  Proof. intros H1 H2. unfold lib_sort. now rewrite H1, H2. Qed.

  Theorem lib_sort_default_ok_inv l w r w' :
    lib_sort apply (Some (VArr l)) None w = Ok r w' ->
    (exists xs, l = map VNum xs) \/ (exists xs, l = map VStr xs).
  Proof.
    unfold lib_sort. destruct (all_numbers l) eqn:E1; [left; now apply all_numbers_inv|].
    destruct (all_strings l) eqn:E2; [right; now apply all_strings_inv|]. discriminate.
  Qed.

  (* a non-array value counts as a one-member array; no value stays no value *)
  Theorem lib_sort_scalar x sw w :
    (forall l, x <> VArr l) -> lib_sort apply (Some x) sw w = Ok (Some (VArr [x])) w.
  Proof. intro N. destruct x; try reflexivity. now destruct (N l). Qed.

  Theorem lib_sort_undefined sw w : lib_sort apply None sw w = Ok None w.
  Proof. reflexivity. Qed.

  (* $sort(a, f) for a comparator that always answers with a boolean *)
  Variable fn : callable.
  Variable sw : value -> value -> bool.
  Hypothesis Hfn : forall a b w, apply fn [Some a; Some b] w = Ok (Some (VBool (sw a b))) w.

  Theorem lib_sort_comparator_perm l w :
    exists r, lib_sort apply (Some (VArr l)) (Some fn) w = Ok (Some (VArr r)) w /\ Permutation r l.
  Proof.
    unfold lib_sort.
    set (swap := fun a b => r <- apply fn [Some a; Some b] ;;
                            match r with
                            | Some (VBool t) => ret t
                            | _ => fail (ELib "sort: comparator must return a boolean")
                            end).
    assert (Hs : forall x y w, swap x y w = Ok (sw x y) w).
    { intros x y w0. unfold swap, bind. now rewrite Hfn. }
    destruct (merge_sort_perm swap sw Hs (S (List.length l)) l w) as (r & Hr & Hp); [lia|].
    exists r. unfold bind. rewrite Hr. split; [reflexivity | exact Hp].
  Qed.

  Theorem lib_sort_comparator_stable (lt : value -> value -> bool) (P : value -> Prop) l w :
    swo_on lt P -> (forall x y, sw x y = lt y x) -> Forall P l ->
    lib_sort apply (Some (VArr l)) (Some fn) w = Ok (Some (VArr (stable_sort lt l))) w /\
    stable_sorted_perm lt l (stable_sort lt l).
  Proof.
    intros O SW Pl. unfold lib_sort.
    set (swap := fun a b => r <- apply fn [Some a; Some b] ;;
                            match r with
                            | Some (VBool t) => ret t
                            | _ => fail (ELib "sort: comparator must return a boolean")
                            end).
    assert (Hs : forall x y w, swap x y w = Ok (sw x y) w).
    { intros x y w0. unfold swap, bind. now rewrite Hfn. }
    destruct (merge_sort_stable_sorted swap sw Hs lt P (S (List.length l)) l w O SW Pl) as [Hr S];
      [lia|].
    unfold bind. rewrite Hr. split; [reflexivity | exact S].
  Qed.
End LibSort.

Print Assumptions lib_sort_numbers.
Print Assumptions lib_sort_comparator_perm.
Print Assumptions lib_sort_comparator_stable.

(* concrete instances: a comparator on the member "a" (ties keep input order), and an
   inconsistent comparator (always "swap") that still returns a permutation *)
Definition ex_swap_a (x y : value) : M bool :=
  ret (match x, y with
       | VObj m, VObj n => match assoc_get "a" m, assoc_get "a" n with
                           | Some (VNum p), Some (VNum q) => fltb q p
                           | _, _ => false
                           end
       | _, _ => false
       end).

Example merge_sort_example :
  merge_sort_fuel 7 ex_swap_a
    [ex_obj 2 "p"; ex_obj 1 "q"; ex_obj 2 "r"; ex_obj 0 "s"; ex_obj 1 "t"; ex_obj 2 "u"] ex_w0
  = Ok [ex_obj 0 "s"; ex_obj 1 "q"; ex_obj 1 "t"; ex_obj 2 "p"; ex_obj 2 "r"; ex_obj 2 "u"] ex_w0.
Proof. vm_compute. reflexivity. Qed.

Example merge_sort_inconsistent_example :
  merge_sort_fuel 6 (fun _ _ => ret true)
    [VNum (f_of_Z 1); VNum (f_of_Z 2); VNum (f_of_Z 3); VNum (f_of_Z 4); VNum (f_of_Z 5)] ex_w0
  = Ok [VNum (f_of_Z 5); VNum (f_of_Z 4); VNum (f_of_Z 3); VNum (f_of_Z 2); VNum (f_of_Z 1)] ex_w0.
Proof. vm_compute. reflexivity. Qed.

Example lib_sort_example :
  lib_sort (fun _ _ => ret None)
    (Some (VArr [VNum (f_of_Z 3); VNum (f_of_Z (-1)); VNum (f_of_Z 2); VNum (f_of_Z (-1))])) None ex_w0
  = Ok (Some (VArr [VNum (f_of_Z (-1)); VNum (f_of_Z (-1)); VNum (f_of_Z 2); VNum (f_of_Z 3)])) ex_w0
  /\ lib_sort (fun _ _ => ret None) (Some (VArr [VStr "b"; VStr "B"; VStr "a"; VStr ""])) None ex_w0
     = Ok (Some (VArr [VStr ""; VStr "B"; VStr "a"; VStr "b"])) ex_w0
  /\ lib_sort (fun _ _ => ret None) (Some (VArr [VStr "b"; VNum (f_of_Z 1)])) None ex_w0
     = Err (ELib "sort: array of strings or numbers").
Proof. repeat split; vm_compute; reflexivity. Qed.

(* ==================================================================================== *)
(* H. the evaluator's sort node                                                         *)
(* ==================================================================================== *)
(* evalSort is: evaluate the sequence, build the sort info with the evaluator itself as key
   evaluator, and return [sorted_items]; so C13_orderby applies to every successful
   evaluation of  e^(terms) *)
Lemma eval_sort_unfold fm rx pw ex f e terms input env :
  eval_sort fm rx pw ex (S f) e terms input env
  = (items <- eval fm rx pw ex f e input env ;;
     match items with
     | None => ret None
     | Some _ =>
         info <- sort_info (fun nd it => eval fm rx pw ex f nd it env) terms (arrayify items) ;;
         ret (sorted_items terms info)
     end).
Proof. reflexivity. Qed.

Theorem C13_eval_sort fm rx pw ex f e terms input env w r w' :
  eval_sort fm rx pw ex (S f) e terms input env w = Ok r w' ->
  (r = None /\ eval fm rx pw ex f e input env w = Ok None w') \/
  exists items w1 info,
    eval fm rx pw ex f e input env w = Ok (Some items) w1 /\
    sort_info (fun nd it => eval fm rx pw ex f nd it env) terms (arrayify (Some items)) w1
    = Ok info w' /\
    consistent terms info /\
    (keys_not_nan info ->
     exists rr, r = Some (normalize_array (map fst rr)) /\
                stable_sorted_perm (info_lt (map fst terms)) info rr /\
                (forall r', stable_sorted_perm (info_lt (map fst terms)) info r' -> r' = rr) /\
                Permutation (map fst rr) (arrayify (Some items))).
Proof.
  rewrite eval_sort_unfold. intro H. apply bind_ok in H as (items & w1 & E & H).
  destruct items as [items|].
  - right. apply bind_ok in H as (info & w2 & I & R). apply ret_ok in R as [<- <-].
    exists items, w1, info. split; [exact E|]. split; [exact I|].
    split; [apply (sort_info_consistent _ _ _ _ _ _ I)|].
    intro NN. destruct (C13_orderby _ _ _ _ _ _ I NN) as (rr & H1 & _ & H3 & H4 & H5).
    exists rr. auto.
  - left. apply ret_ok in H as [<- <-]. auto.
Qed.

Print Assumptions C13_eval_sort.
