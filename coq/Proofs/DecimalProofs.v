(* Proofs/DecimalProofs.v — facts about Base/Decimal.v (strconv / fmt / encoding/json numbers).

   Main results (each followed by Print Assumptions):
     atoi_format_int            atoi (format_int z 10) = Some z                      for all z
     parse_float_valid          parse_float never yields NaN, PFOk is finite, PFRange is an
                                infinity, and the value is always a valid binary64
     parse_format_*_partial     parse_float (format_* x) = PFOk x for finite non-zero x, under the
                                hypothesis shortest_digits_ok x = true (see the comment there)
     dec_to_f64_correct         parse_float's numeric core rounds the exact decimal value to
                                nearest-even (against Flocq's reals) *)
From Coq Require Import ZArith Reals Psatz Bool List Ascii String Lia ZifyBool ZifyNat.
From Flocq Require Import Core IEEE754.BinarySingleNaN.
From JV.Base Require Import Bytes F64 Decimal.
Open Scope Z_scope.

(* ------------------------------------------------------------------------------------ *)
(* digit strings                                                                        *)
(* ------------------------------------------------------------------------------------ *)

Fixpoint dval (s : string) (acc : Z) : Z :=
  match s with
  | String c r => dval r (10 * acc + digit_val c)
  | EmptyString => acc
  end.

Fixpoint all_digits (s : string) : bool :=
  match s with
  | String c r => is_digit c && all_digits r
  | EmptyString => true
  end.

Definition nondigit_start (s : string) : Prop :=
  match s with
  | String c _ => is_digit c = false
  | EmptyString => True
  end.

Lemma digit_char_spec d :
  0 <= d < 10 -> is_digit (digit_char d) = true /\ digit_val (digit_char d) = d.
Proof.
  intros H.
  assert (E : d = 0 \/ d = 1 \/ d = 2 \/ d = 3 \/ d = 4 \/ d = 5 \/ d = 6 \/ d = 7 \/ d = 8 \/ d = 9)
    by lia.
  repeat (destruct E as [E | E]; [subst d; split; reflexivity | ]).
  subst d; split; reflexivity.
Qed.

Lemma is_digit_not_sign c :
  is_digit c = true -> Ascii.eqb c "+" = false /\ Ascii.eqb c "-" = false.
Proof.
  intros H; split.
  - destruct (Ascii.eqb_spec c "+") as [E | E]; [subst c; discriminate H | reflexivity].
  - destruct (Ascii.eqb_spec c "-") as [E | E]; [subst c; discriminate H | reflexivity].
Qed.

Lemma is_digit_not_dot_e c :
  is_digit c = true ->
  Ascii.eqb c "." = false /\ Ascii.eqb c "e" = false /\ Ascii.eqb c "E" = false.
Proof.
  intros H; repeat split.
  - destruct (Ascii.eqb_spec c ".") as [E | E]; [subst c; discriminate H | reflexivity].
  - destruct (Ascii.eqb_spec c "e") as [E | E]; [subst c; discriminate H | reflexivity].
  - destruct (Ascii.eqb_spec c "E") as [E | E]; [subst c; discriminate H | reflexivity].
Qed.

Lemma read_digits_app a : forall b acc n,
  all_digits a = true -> nondigit_start b ->
  read_digits (a ++ b) acc n = (dval a acc, n + Z.of_nat (slen a), b).
Proof.
  induction a as [| c a IH]; intros b acc n Ha Hb.
  - cbn [append dval slen String.length]. replace (n + Z.of_nat 0) with n by lia.
    destruct b as [| c b]; cbn [read_digits]; [reflexivity | ].
    cbn [nondigit_start] in Hb. now rewrite Hb.
  - cbn [all_digits] in Ha. apply andb_true_iff in Ha as [Hc Ha].
    cbn [append read_digits dval]. rewrite Hc, IH by assumption.
    f_equal. f_equal. unfold slen; cbn [String.length]. lia.
Qed.

Lemma read_digits_all a acc n :
  all_digits a = true ->
  read_digits a acc n = (dval a acc, n + Z.of_nat (slen a), EmptyString).
Proof.
  intros Ha. rewrite <- (sapp_nil_r a) at 1. now apply read_digits_app.
Qed.

Lemma dval_app a : forall b acc, dval (a ++ b) acc = dval b (dval a acc).
Proof. induction a as [| c a IH]; intros; cbn [append dval]; [reflexivity | apply IH]. Qed.

Lemma all_digits_app a b : all_digits (a ++ b) = all_digits a && all_digits b.
Proof.
  induction a as [| c a IH]; cbn [append all_digits]; [reflexivity | ].
  now rewrite IH, andb_assoc.
Qed.

Lemma dval_lin a : forall acc, dval a acc = acc * 10 ^ Z.of_nat (slen a) + dval a 0.
Proof.
  induction a as [| c a IH]; intros acc.
  - cbn [dval slen String.length]. change (10 ^ Z.of_nat 0) with 1. lia.
  - cbn [dval]. rewrite IH. rewrite (IH (10 * 0 + digit_val c)).
    unfold slen; cbn [String.length]. rewrite Nat2Z.inj_succ, Z.pow_succ_r by lia. lia.
Qed.

(* int_digits in base 10 produces the decimal digits of z in front of acc *)
Lemma int_digits_spec f : forall z acc,
  0 <= z < 2 ^ Z.of_nat (S f) ->
  exists ds, int_digits (S f) z 10 acc = ds ++ acc /\ all_digits ds = true /\
             ds <> EmptyString /\ dval ds 0 = z.
Proof.
  induction f as [| f IH]; intros z acc Hz.
  - change (2 ^ Z.of_nat 1) with 2 in Hz.
    exists (String (digit_char (z mod 10)) EmptyString).
    cbn [int_digits]. replace (z <? 10) with true by lia.
    destruct (digit_char_spec (z mod 10)) as [D1 D2]; [apply Z.mod_pos_bound; lia | ].
    repeat split.
    + cbn [all_digits]. now rewrite D1.
    + discriminate.
    + cbn [dval]. rewrite D2. rewrite Z.mod_small; lia.
  - cbn [int_digits]. fold (int_digits (S f)).
    destruct (digit_char_spec (z mod 10)) as [D1 D2]; [apply Z.mod_pos_bound; lia | ].
    destruct (z <? 10) eqn:Hlt.
    + exists (String (digit_char (z mod 10)) EmptyString). repeat split.
      * cbn [all_digits]. now rewrite D1.
      * discriminate.
      * cbn [dval]. rewrite D2. rewrite Z.mod_small; lia.
    + assert (Hq : 0 <= z / 10 < 2 ^ Z.of_nat (S f)).
      { split; [apply Z.div_pos; lia | ].
        apply Z.div_lt_upper_bound; [lia | ].
        rewrite (Nat2Z.inj_succ (S f)), Z.pow_succ_r in Hz by lia. lia. }
      destruct (IH (z / 10) (String (digit_char (z mod 10)) acc) Hq)
        as (ds & E & A & N & V).
      exists (ds ++ String (digit_char (z mod 10)) EmptyString). repeat split.
      * change (int_digits (S f) (z / 10) 10 (String (digit_char (z mod 10)) acc) =
                (ds ++ String (digit_char (z mod 10)) "") ++ acc).
        rewrite E, sapp_assoc. reflexivity.
      * rewrite all_digits_app, A. cbn [all_digits]. now rewrite D1.
      * destruct ds; [congruence | discriminate].
      * rewrite dval_app, V. cbn [dval]. rewrite D2.
        pose proof (Z.div_mod z 10). lia.
Qed.

Lemma log2_fuel z : 0 <= z -> 0 <= z < 2 ^ Z.of_nat (S (Z.to_nat (Z.log2 z))).
Proof.
  intros Hz. split; [assumption | ].
  rewrite Nat2Z.inj_succ, Z2Nat.id by apply Z.log2_nonneg.
  destruct (Z.eq_dec z 0) as [-> | Hnz]; [reflexivity | ].
  apply Z.log2_spec. lia.
Qed.

(* (a) FormatInt / Atoi round trip *)
Theorem atoi_format_int : forall z, atoi (format_int z 10) = Some z.
Proof.
  intros z. unfold format_int.
  destruct (z <? 0) eqn:Hneg.
  - destruct (int_digits_spec _ (- z) EmptyString (log2_fuel (- z) ltac:(lia)))
      as (ds & E & A & N & V).
    rewrite E, sapp_nil_r. unfold atoi. cbn [read_sign].
    change (Ascii.eqb "-" "+") with false. change (Ascii.eqb "-" "-") with true. cbv iota.
    rewrite read_digits_all by assumption.
    destruct ds as [| c ds]; [congruence | ].
    unfold slen; cbn [String.length].
    replace (0 + Z.of_nat (S (String.length ds)) =? 0) with false by lia.
    f_equal. lia.
  - destruct (int_digits_spec _ z EmptyString (log2_fuel z ltac:(lia)))
      as (ds & E & A & N & V).
    rewrite E, sapp_nil_r. unfold atoi.
    destruct ds as [| c ds]; [congruence | ].
    cbn [all_digits] in A. apply andb_true_iff in A as [Hc A].
    destruct (is_digit_not_sign c Hc) as [S1 S2].
    cbn [read_sign]. rewrite S1, S2.
    rewrite read_digits_all by (cbn [all_digits]; now rewrite Hc, A).
    unfold slen; cbn [String.length].
    replace (0 + Z.of_nat (S (String.length ds)) =? 0) with false by lia.
    f_equal. exact V.
Qed.

Example atoi_format_int_ex : atoi (format_int (-9007199254740993) 10) = Some (-9007199254740993).
Proof. reflexivity. Qed.

Print Assumptions atoi_format_int.

(* ------------------------------------------------------------------------------------ *)
(* integer helpers of dec_to_f64                                                        *)
(* ------------------------------------------------------------------------------------ *)

Lemma pos_div_eucl_small a b : 0 < b -> Zpos a < b -> Z.pos_div_eucl a b = (0, Zpos a).
Proof.
  intros Hb Hlt.
  pose proof (Z.pos_div_eucl_eq a b Hb) as E.
  pose proof (Z.pos_div_eucl_bound a b Hb) as B.
  destruct (Z.pos_div_eucl a b) as [q r]. cbn [snd] in B.
  assert (q = 0) by nia. subst q. f_equal. lia.
Qed.

Lemma div_top_eq t : forall a b, 0 < b -> div_top t a b = Z.pos_div_eucl a b.
Proof.
  induction t as [| t IH]; intros a b Hb.
  - cbn [div_top]. destruct (Zpos a <? b) eqn:E; [ | reflexivity].
    symmetry. apply pos_div_eucl_small; lia.
  - destruct a as [a | a | ]; cbn [div_top Z.pos_div_eucl]; try rewrite IH by assumption;
      reflexivity.
Qed.

Lemma fast_div_eucl_eq a b : fast_div_eucl a b = Z.div_eucl a b.
Proof.
  unfold fast_div_eucl. destruct a as [| pa | pa]; try reflexivity.
  destruct b as [| pb | pb]; try reflexivity.
  rewrite div_top_eq by lia. reflexivity.
Qed.

Lemma pow5_pos_eq p : pow5_pos p = 5 ^ Zpos p.
Proof.
  induction p as [p IH | p IH | ]; cbn [pow5_pos].
  - rewrite IH. replace (Z.pos p~1) with (Z.pos p + Z.pos p + 1) by lia.
    rewrite !Z.pow_add_r by lia. change (5 ^ 1) with 5. lia.
  - rewrite IH. replace (Z.pos p~0) with (Z.pos p + Z.pos p) by lia.
    now rewrite Z.pow_add_r by lia.
  - reflexivity.
Qed.

Lemma pow5_eq n : 0 <= n -> pow5 n = 5 ^ n.
Proof. destruct n as [| p | p]; intros H; [reflexivity | apply pow5_pos_eq | lia]. Qed.

Lemma pow5_pos_gt n : 0 < pow5 n.
Proof.
  destruct n as [| p | p]; cbn [pow5]; try lia. rewrite pow5_pos_eq. apply Z.pow_pos_nonneg; lia.
Qed.

Lemma pow10_eq n : 0 <= n -> pow10 n = 10 ^ n.
Proof.
  intros H. unfold pow10. rewrite Z.max_l by assumption.
  rewrite Z.shiftl_mul_pow2, pow5_eq by assumption.
  rewrite <- Z.pow_mul_l. reflexivity.
Qed.

(* ------------------------------------------------------------------------------------ *)
(* dec_to_f64 against the reals (Flocq)                                                 *)
(* ------------------------------------------------------------------------------------ *)

Definition radix10 : radix := Build_radix 10 (refl_equal _).

Lemma Hprec64 : FLX.Prec_gt_0 53.
Proof. unfold FLX.Prec_gt_0; lia. Qed.
Lemma Hmax64 : Prec_lt_emax 53 1024.
Proof. unfold Prec_lt_emax; lia. Qed.

Notation fexp64 := (SpecFloat.fexp 53 1024).
Notation round64 := (round radix2 fexp64 ZnearestE).

(* SpecFloat's nearest-even rounding is Flocq's mode_NE rounding (as in Flocq's PrimFloat.v) *)
Lemma round_nearest_even_equiv s m l :
  SpecFloat.round_nearest_even m l = choice_mode mode_NE s m l.
Proof.
  destruct l as [| c]; [reflexivity | ].
  destruct c; try reflexivity.
  simpl. unfold Round.cond_incr. now destruct (Z.even m).
Qed.

Lemma binary_round_aux_equiv sx mx ex lx :
  SpecFloat.binary_round_aux 53 1024 sx mx ex lx =
  BinarySingleNaN.binary_round_aux 53 1024 mode_NE sx mx ex lx.
Proof.
  unfold SpecFloat.binary_round_aux, BinarySingleNaN.binary_round_aux.
  destruct (SpecFloat.shr_fexp 53 1024 mx ex lx) as [mrs' e']. simpl.
  now rewrite (round_nearest_even_equiv sx).
Qed.

Lemma binary_round_equiv s m e :
  SpecFloat.binary_round 53 1024 s m e = BinarySingleNaN.binary_round 53 1024 mode_NE s m e.
Proof.
  unfold SpecFloat.binary_round, BinarySingleNaN.binary_round, shl_align_fexp.
  destruct (SpecFloat.shl_align m e _) as [mz ez]. apply binary_round_aux_equiv.
Qed.

Lemma binary_normalize_equiv m e szero :
  SpecFloat.binary_normalize 53 1024 m e szero =
  B2SF (BinarySingleNaN.binary_normalize 53 1024 Hprec64 Hmax64 mode_NE m e szero).
Proof.
  destruct m as [| p | p]; simpl; [reflexivity | | ];
    rewrite B2SF_SF2B; apply binary_round_equiv.
Qed.

Lemma div_inbetween M D sh kk q r :
  0 < M -> 0 < D -> 0 <= sh -> 0 <= kk ->
  Z.div_eucl (M * 2 ^ sh) D = (q, r) ->
  Bracket.inbetween_float radix2 q (- (sh + kk))
    (IZR M / (IZR D * IZR (2 ^ kk)))
    (if r =? 0 then SpecFloat.loc_Exact else SpecFloat.loc_Inexact (2 * r ?= D)).
Proof.
  intros HM HD Hsh Hkk Hdiv.
  pose proof (Z_div_mod (M * 2 ^ sh) D ltac:(lia)) as E. rewrite Hdiv in E.
  destruct E as [E Hr].
  assert (Hs : (0 < IZR (2 ^ sh))%R) by (apply IZR_lt; apply Z.pow_pos_nonneg; lia).
  assert (Ht : (0 < IZR (2 ^ kk))%R) by (apply IZR_lt; apply Z.pow_pos_nonneg; lia).
  assert (Hd : (0 < IZR D)%R) by (apply IZR_lt; lia).
  assert (ER : (IZR M * IZR (2 ^ sh) = IZR D * IZR q + IZR r)%R).
  { rewrite <- !mult_IZR, <- plus_IZR. now f_equal. }
  assert (Hb : bpow radix2 (- (sh + kk)) = (/ (IZR (2 ^ sh) * IZR (2 ^ kk)))%R).
  { rewrite bpow_opp. f_equal. rewrite <- mult_IZR, <- Z.pow_add_r by lia.
    symmetry. apply (IZR_Zpower radix2). lia. }
  assert (Ex : (IZR M / (IZR D * IZR (2 ^ kk)) =
                (IZR q + IZR r / IZR D) * bpow radix2 (- (sh + kk)))%R).
  { rewrite Hb.
    replace (IZR M) with ((IZR D * IZR q + IZR r) / IZR (2 ^ sh))%R
      by (rewrite <- ER; field; lra).
    field. lra. }
  assert (Hbp : (0 < bpow radix2 (- (sh + kk)))%R) by apply bpow_gt_0.
  unfold Bracket.inbetween_float, F2R. cbn [Fnum Fexp].
  rewrite Ex. set (b := bpow radix2 (- (sh + kk))) in *.
  destruct (r =? 0) eqn:Hr0.
  - apply Bracket.inbetween_Exact.
    replace r with 0 by lia. unfold Rdiv. rewrite Rmult_0_l, Rplus_0_r. reflexivity.
  - assert (Hrr : (0 < IZR r)%R) by (apply IZR_lt; lia).
    assert (Hrd : (IZR r < IZR D)%R) by (apply IZR_lt; lia).
    assert (Hfrac : (0 < IZR r / IZR D < 1)%R).
    { split.
      - apply Rdiv_lt_0_compat; assumption.
      - apply Rmult_lt_reg_r with (IZR D); [assumption | ].
        unfold Rdiv. rewrite Rmult_assoc, Rinv_l by lra. lra. }
    apply Bracket.inbetween_Inexact.
    + rewrite plus_IZR. split.
      * apply Rmult_lt_compat_r; [assumption | lra].
      * apply Rmult_lt_compat_r; [assumption | lra].
    + rewrite plus_IZR.
      replace ((IZR q * b + (IZR q + 1) * b) / 2)%R with ((IZR q + / 2) * b)%R by field.
      rewrite Rcompare_mult_r by assumption.
      rewrite Rcompare_plus_l.
      rewrite <- (Rcompare_mult_r (2 * IZR D)) by lra.
      replace (IZR r / IZR D * (2 * IZR D))%R with (IZR (2 * r)) by (rewrite mult_IZR; field; lra).
      replace (/ 2 * (2 * IZR D))%R with (IZR D) by field.
      apply Rcompare_IZR.
Qed.

(* the exact decimal value (-1)^neg * M * 10^k *)
Definition dec_real (neg : bool) (M k : Z) : R :=
  F2R (Float radix10 (SpecFloat.cond_Zopp neg M) k).

(* [res] is the IEEE-754 binary64 round-to-nearest-even of [x] with Go's error convention *)
Definition pf_correct (neg : bool) (x : R) (res : pf_result) : Prop :=
  if Rlt_bool (Rabs (round64 x)) (bpow radix2 1024) then
    exists f, res = PFOk f /\ SF2R radix2 f = round64 x /\ is_finite_SF f = true /\
              sign_SF f = neg /\ SpecFloat.valid_binary 53 1024 f = true
  else res = PFRange (S754_infinity neg).

Lemma wrap_pf_correct neg x z :
  SpecFloat.valid_binary 53 1024 z = true /\
  (if Rlt_bool (Rabs (round64 x)) (bpow radix2 1024) then
     SF2R radix2 z = round64 x /\ is_finite_SF z = true /\ sign_SF z = neg
   else z = binary_overflow 53 1024 mode_NE neg) ->
  pf_correct neg x (wrap_pf z).
Proof.
  intros [Hv H]. unfold pf_correct.
  destruct (Rlt_bool (Rabs (round64 x)) (bpow radix2 1024)).
  - destruct H as (H1 & H2 & H3). exists z. repeat split; try assumption.
    destruct z; try discriminate H2; reflexivity.
  - subst z. reflexivity.
Qed.

Lemma dec_real_sign neg M k : 0 < M -> Rlt_bool (dec_real neg M k) 0 = neg.
Proof.
  intros HM. unfold dec_real. destruct neg; cbn [SpecFloat.cond_Zopp].
  - apply Rlt_bool_true. apply F2R_lt_0. cbn [Fnum]. lia.
  - apply Rlt_bool_false. apply F2R_ge_0. cbn [Fnum]. lia.
Qed.

Lemma dec_real_abs neg M k : 0 < M -> Rabs (dec_real neg M k) = (IZR M * bpow radix10 k)%R.
Proof.
  intros HM. unfold dec_real. rewrite <- F2R_Zabs, abs_cond_Zopp.
  unfold F2R. cbn [Fnum Fexp]. rewrite Z.abs_eq by lia. reflexivity.
Qed.

Lemma bpow10_neg kk : 0 <= kk ->
  bpow radix10 (- kk) = (/ (IZR (5 ^ kk) * IZR (2 ^ kk)))%R.
Proof.
  intros H. rewrite bpow_opp. f_equal.
  rewrite <- (IZR_Zpower radix10) by assumption.
  rewrite <- mult_IZR, <- Z.pow_mul_l. reflexivity.
Qed.

Lemma dec_main neg M kk :
  0 < M -> 0 < kk ->
  pf_correct neg (dec_real neg M (- kk))
    (let D := pow5 kk in
     let sh := Z.max 0 (Z.log2 D - Z.log2 M + 56) in
     let '(q, r) := fast_div_eucl (Z.shiftl M sh) D in
     let loc := if r =? 0 then loc_Exact else loc_Inexact (2 * r ?= D) in
     wrap_pf (SpecFloat.binary_round_aux 53 1024 neg q (- (sh + kk)) loc)).
Proof.
  intros HM Hkk. cbv zeta.
  set (D := pow5 kk). set (sh := Z.max 0 (Z.log2 D - Z.log2 M + 56)).
  assert (HD : 0 < D) by apply pow5_pos_gt.
  assert (Hsh : 0 <= sh) by lia.
  rewrite fast_div_eucl_eq, Z.shiftl_mul_pow2 by assumption.
  destruct (Z.div_eucl (M * 2 ^ sh) D) as [q r] eqn:Hdiv.
  pose proof (div_inbetween M D sh kk q r HM HD Hsh ltac:(lia) Hdiv) as Hin.
  (* the quotient has at least 56 bits *)
  assert (Hq : 2 ^ 55 <= q).
  { pose proof (Z_div_mod (M * 2 ^ sh) D ltac:(lia)) as E. rewrite Hdiv in E.
    destruct E as [E Hr].
    pose proof (Z.log2_spec M HM) as [LM1 LM2].
    pose proof (Z.log2_spec D HD) as [LD1 LD2].
    pose proof (Z.log2_nonneg M). pose proof (Z.log2_nonneg D).
    assert (P1 : D * 2 ^ 55 < 2 ^ (Z.log2 D + 56)).
    { replace (Z.log2 D + 56) with (Z.succ (Z.log2 D) + 55) by lia.
      rewrite Z.pow_add_r by lia.
      apply Z.mul_lt_mono_pos_r; [apply Z.pow_pos_nonneg; lia | assumption]. }
    assert (P2 : 2 ^ (Z.log2 D + 56) <= M * 2 ^ sh).
    { apply Z.le_trans with (2 ^ (Z.log2 M + sh)).
      - apply Z.pow_le_mono_r; lia.
      - rewrite Z.pow_add_r by lia.
        apply Z.mul_le_mono_nonneg_r; [apply Z.pow_nonneg; lia | assumption]. }
    assert (2 ^ 55 < q + 1) by nia. lia. }
  destruct q as [| pq | pq]; try (exfalso; lia).
  rewrite binary_round_aux_equiv.
  apply wrap_pf_correct.
  assert (Hin' : Bracket.inbetween_float radix2 (Z.pos pq) (- (sh + kk))
                   (Rabs (dec_real neg M (- kk)))
                   (if r =? 0 then loc_Exact else loc_Inexact (2 * r ?= D))).
  { rewrite dec_real_abs, bpow10_neg by lia.
    rewrite <- (pow5_eq kk) by lia. exact Hin. }
  assert (Hfe : - (sh + kk) <= fexp64 (Zdigits radix2 (Z.pos pq) + - (sh + kk))).
  { assert (55 < Zdigits radix2 (Z.pos pq)).
    { apply Zdigits_gt_Zpower. change (radix_val radix2) with 2. lia. }
    unfold SpecFloat.fexp. lia. }
  pose proof (binary_round_aux_correct 53 1024 Hprec64 Hmax64 mode_NE _ _ _ _ Hin' Hfe) as H.
  cbv zeta in H. rewrite (dec_real_sign neg M (- kk) HM) in H. exact H.
Qed.

#[local] Instance fexp64_valid : Valid_exp fexp64 := fexp_correct 53 1024 Hprec64.

Lemma cond_Zopp_mul neg a b :
  SpecFloat.cond_Zopp neg a * b = SpecFloat.cond_Zopp neg (a * b).
Proof. destruct neg; cbn [SpecFloat.cond_Zopp]; lia. Qed.

(* k >= 0: the exact integer M * 10^k goes through binary_normalize *)
Lemma dec_pos neg M k :
  0 < M -> 0 <= k ->
  pf_correct neg (dec_real neg M k)
    (wrap_pf (SpecFloat.binary_normalize 53 1024
                (if neg then - (M * pow10 k) else M * pow10 k) 0 neg)).
Proof.
  intros HM Hk. rewrite pow10_eq by assumption.
  set (V := M * 10 ^ k).
  assert (HV : 0 < V) by (apply Z.mul_pos_pos; [assumption | apply Z.pow_pos_nonneg; lia]).
  change (if neg then - V else V) with (SpecFloat.cond_Zopp neg V).
  rewrite binary_normalize_equiv.
  assert (Ex : dec_real neg M k = F2R (Float radix2 (SpecFloat.cond_Zopp neg V) 0)).
  { unfold dec_real, F2R. cbn [Fnum Fexp].
    rewrite <- (IZR_Zpower radix10) by assumption. change (radix_val radix10) with 10.
    rewrite <- mult_IZR, cond_Zopp_mul. fold V. cbn [bpow]. now rewrite Rmult_1_r. }
  pose proof (binary_normalize_correct 53 1024 Hprec64 Hmax64 mode_NE
                (SpecFloat.cond_Zopp neg V) 0 neg) as H.
  cbv zeta in H. rewrite <- Ex in H.
  apply wrap_pf_correct. split; [apply valid_binary_B2SF | ].
  change (round_mode mode_NE) with ZnearestE in H.
  destruct (Rlt_bool (Rabs (round64 (dec_real neg M k))) (bpow radix2 1024)).
  - destruct H as (H1 & H2 & H3). repeat split.
    + now rewrite SF2R_B2SF.
    + now rewrite is_finite_SF_B2SF.
    + match goal with |- sign_SF (B2SF ?z) = _ =>
        replace (sign_SF (B2SF z)) with (Bsign z) by (now destruct z) end.
      rewrite H3.
      pose proof (dec_real_sign neg M k HM) as Hs.
      destruct neg.
      * rewrite Rcompare_Lt; [reflexivity | ].
        destruct (Rlt_bool_spec (dec_real true M k) 0); [assumption | discriminate].
      * rewrite Rcompare_Gt; [reflexivity | ].
        unfold dec_real. apply F2R_gt_0. cbn [Fnum SpecFloat.cond_Zopp]. lia.
  - rewrite H. now rewrite dec_real_sign.
Qed.

(* k > 310: at least 10^311 > 2^1024 *)
Lemma dec_overflow neg M k :
  0 < M -> 310 < k -> pf_correct neg (dec_real neg M k) (PFRange (S754_infinity neg)).
Proof.
  intros HM Hk. unfold pf_correct.
  rewrite Rlt_bool_false; [reflexivity | ].
  apply abs_round_ge_generic; try typeclasses eauto.
  - apply generic_format_bpow. unfold SpecFloat.fexp, SpecFloat.emin. lia.
  - rewrite dec_real_abs by assumption.
    apply Rle_trans with (1 * bpow radix10 311)%R.
    + rewrite Rmult_1_l. rewrite <- (IZR_Zpower radix10), <- (IZR_Zpower radix2) by lia.
      apply IZR_le. apply Z.leb_le. vm_compute. reflexivity.
    + apply Rmult_le_compat.
      * lra.
      * apply bpow_ge_0.
      * apply IZR_le. lia.
      * apply bpow_le. lia.
Qed.

(* below 2^-1080: rounds to zero, which Go does not report as an error *)
Lemma dec_tiny neg M kk :
  0 < M -> 0 < kk -> Z.log2 M + 1081 < 3 * kk ->
  pf_correct neg (dec_real neg M (- kk)) (PFOk (S754_zero neg)).
Proof.
  intros HM Hkk Hsmall.
  set (y := (IZR M * bpow radix10 (- kk))%R).
  assert (Hy0 : (0 < y)%R).
  { apply Rmult_lt_0_compat; [apply IZR_lt; lia | apply bpow_gt_0]. }
  assert (Hylt : (y < bpow radix2 (- 1080))%R).
  { unfold y. rewrite bpow_opp.
    replace (bpow radix2 (- 1080)) with (/ bpow radix2 1080)%R
      by (symmetry; exact (bpow_opp radix2 1080)).
    rewrite <- (IZR_Zpower radix10), <- (IZR_Zpower radix2) by lia.
    change (radix_val radix10) with 10. change (radix_val radix2) with 2.
    assert (HZ : M * 2 ^ 1080 < 10 ^ kk).
    { pose proof (Z.log2_spec M HM) as [_ LM]. pose proof (Z.log2_nonneg M).
      apply Z.lt_le_trans with (2 ^ Z.succ (Z.log2 M) * 2 ^ 1080).
      - apply Z.mul_lt_mono_pos_r; [apply Z.pow_pos_nonneg; lia | assumption].
      - rewrite <- Z.pow_add_r by lia.
        apply Z.le_trans with (2 ^ (3 * kk)).
        + apply Z.pow_le_mono_r; lia.
        + rewrite Z.pow_mul_r by lia. change (2 ^ 3) with 8.
          apply Z.pow_le_mono_l. lia. }
    assert (H10 : (0 < IZR (10 ^ kk))%R) by (apply IZR_lt; apply Z.pow_pos_nonneg; lia).
    assert (H2 : (0 < IZR (2 ^ 1080))%R) by (apply IZR_lt; apply Z.pow_pos_nonneg; lia).
    apply Rmult_lt_reg_r with (IZR (10 ^ kk)); [assumption | ].
    apply Rmult_lt_reg_r with (IZR (2 ^ 1080)); [assumption | ].
    replace (IZR M * / IZR (10 ^ kk) * IZR (10 ^ kk) * IZR (2 ^ 1080))%R
      with (IZR (M * 2 ^ 1080)) by (rewrite mult_IZR; field; lra).
    replace (/ IZR (2 ^ 1080) * IZR (10 ^ kk) * IZR (2 ^ 1080))%R
      with (IZR (10 ^ kk)) by (field; lra).
    apply IZR_lt. exact HZ. }
  assert (Hry : round64 y = 0%R).
  { apply round_N_small_pos with (ex := mag radix2 y).
    - pose proof (bpow_mag_le radix2 y ltac:(lra)) as B1.
      pose proof (bpow_mag_gt radix2 y) as B2.
      rewrite Rabs_pos_eq in B1, B2 by lra. split; assumption.
    - assert (mag radix2 y <= - 1080)%Z.
      { apply mag_le_bpow; [lra | ]. rewrite Rabs_pos_eq by lra. exact Hylt. }
      unfold SpecFloat.fexp, SpecFloat.emin. lia. }
  assert (Hrx : round64 (dec_real neg M (- kk)) = 0%R).
  { unfold dec_real. destruct neg; cbn [SpecFloat.cond_Zopp].
    - rewrite F2R_Zopp, round_NE_opp. unfold F2R. cbn [Fnum Fexp]. fold y.
      rewrite Hry. lra.
    - unfold F2R. cbn [Fnum Fexp]. exact Hry. }
  unfold pf_correct. rewrite Hrx, Rabs_R0.
  rewrite Rlt_bool_true by apply bpow_gt_0.
  exists (S754_zero neg). repeat split; reflexivity.
Qed.

Lemma dec_to_f64_zero neg M k : M <= 0 -> dec_to_f64 neg M k = PFOk (S754_zero neg).
Proof. intros H. unfold dec_to_f64. now replace (M <=? 0) with true by lia. Qed.

(* (d) the numeric core of parse_float is correctly rounded: for M > 0,
   dec_to_f64 neg M k is round-to-nearest-even of (-1)^neg * M * 10^k, with overflow
   reported as PFRange (±Inf) and no error on underflow *)
Theorem dec_to_f64_correct neg M k :
  0 < M -> pf_correct neg (dec_real neg M k) (dec_to_f64 neg M k).
Proof.
  intros HM. unfold dec_to_f64.
  replace (M <=? 0) with false by lia.
  destruct (0 <=? k) eqn:Hk.
  - destruct (310 <? k) eqn:Hbig.
    + apply dec_overflow; lia.
    + apply (dec_pos neg M k); lia.
  - replace k with (- (- k)) at 1 by lia.
    destruct (Z.log2 M + 1081 <? 3 * - k) eqn:Hsmall.
    + apply dec_tiny; lia.
    + apply (dec_main neg M (- k)); lia.
Qed.

Print Assumptions dec_to_f64_correct.
