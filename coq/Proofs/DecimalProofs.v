(* Proofs/DecimalProofs.v — facts about Base/Decimal.v (strconv / fmt / encoding/json numbers).

   Main results (each followed by Print Assumptions):
     atoi_format_int            atoi (format_int z 10) = Some z                      for all z
     parse_float_valid          parse_float never yields NaN, PFOk is finite, PFRange is an
                                infinity, and the value is always a valid binary64
     parse_format_*_partial     parse_float (format_* x) = PFOk x for finite non-zero x, under the
                                hypothesis shortest_digits_ok x = true (see the comment there)
     dec_to_f64_correct         parse_float's numeric core rounds the exact decimal value to
                                nearest-even (against Flocq's reals) *)
From Coq Require Import ZArith Reals Psatz Bool List Ascii String Lia ZifyBool ZifyNat.
From Flocq Require Import Core IEEE754.BinarySingleNaN.
From JV.Base Require Import Bytes F64 Decimal.
Open Scope Z_scope.

(* ------------------------------------------------------------------------------------ *)
(* digit strings                                                                        *)
(* ------------------------------------------------------------------------------------ *)

Fixpoint dval (s : string) (acc : Z) : Z :=
  match s with
  | String c r => dval r (10 * acc + digit_val c)
  | EmptyString => acc
  end.

Fixpoint all_digits (s : string) : bool :=
  match s with
  | String c r => is_digit c && all_digits r
  | EmptyString => true
  end.

Definition nondigit_start (s : string) : Prop :=
  match s with
  | String c _ => is_digit c = false
  | EmptyString => True
  end.

Lemma digit_char_spec d :
  0 <= d < 10 -> is_digit (digit_char d) = true /\ digit_val (digit_char d) = d.
Proof.
  intros H.
  assert (E : d = 0 \/ d = 1 \/ d = 2 \/ d = 3 \/ d = 4 \/ d = 5 \/ d = 6 \/ d = 7 \/ d = 8 \/ d = 9)
    by lia.
  repeat (destruct E as [E | E]; [subst d; split; reflexivity | ]).
  subst d; split; reflexivity.
Qed.

Lemma is_digit_not_sign c :
  is_digit c = true -> Ascii.eqb c "+" = false /\ Ascii.eqb c "-" = false.
Proof.
  intros H; split.
  - destruct (Ascii.eqb_spec c "+") as [E | E]; [subst c; discriminate H | reflexivity].
  - destruct (Ascii.eqb_spec c "-") as [E | E]; [subst c; discriminate H | reflexivity].
Qed.

Lemma is_digit_not_dot_e c :
  is_digit c = true ->
  Ascii.eqb c "." = false /\ Ascii.eqb c "e" = false /\ Ascii.eqb c "E" = false.
Proof.
  intros H; repeat split.
  - destruct (Ascii.eqb_spec c ".") as [E | E]; [subst c; discriminate H | reflexivity].
  - destruct (Ascii.eqb_spec c "e") as [E | E]; [subst c; discriminate H | reflexivity].
  - destruct (Ascii.eqb_spec c "E") as [E | E]; [subst c; discriminate H | reflexivity].
Qed.

Lemma read_digits_app a : forall b acc n,
  all_digits a = true -> nondigit_start b ->
  read_digits (a ++ b) acc n = (dval a acc, n + Z.of_nat (slen a), b).
Proof.
  induction a as [| c a IH]; intros b acc n Ha Hb.
  - cbn [append dval slen String.length]. replace (n + Z.of_nat 0) with n by lia.
    destruct b as [| c b]; cbn [read_digits]; [reflexivity | ].
    cbn [nondigit_start] in Hb. now rewrite Hb.
  - cbn [all_digits] in Ha. apply andb_true_iff in Ha as [Hc Ha].
    cbn [append read_digits dval]. rewrite Hc, IH by assumption.
    f_equal. f_equal. unfold slen; cbn [String.length]. lia.
Qed.

Lemma read_digits_all a acc n :
  all_digits a = true ->
  read_digits a acc n = (dval a acc, n + Z.of_nat (slen a), EmptyString).
Proof.
  intros Ha. rewrite <- (sapp_nil_r a) at 1. now apply read_digits_app.
Qed.

Lemma dval_app a : forall b acc, dval (a ++ b) acc = dval b (dval a acc).
Proof. induction a as [| c a IH]; intros; cbn [append dval]; [reflexivity | apply IH]. Qed.

Lemma all_digits_app a b : all_digits (a ++ b) = all_digits a && all_digits b.
Proof.
  induction a as [| c a IH]; cbn [append all_digits]; [reflexivity | ].
  now rewrite IH, andb_assoc.
Qed.

Lemma dval_lin a : forall acc, dval a acc = acc * 10 ^ Z.of_nat (slen a) + dval a 0.
Proof.
  induction a as [| c a IH]; intros acc.
  - cbn [dval slen String.length]. change (10 ^ Z.of_nat 0) with 1. lia.
  - cbn [dval]. rewrite IH. rewrite (IH (10 * 0 + digit_val c)).
    unfold slen; cbn [String.length]. rewrite Nat2Z.inj_succ, Z.pow_succ_r by lia. lia.
Qed.

(* int_digits in base 10 produces the decimal digits of z in front of acc *)
Lemma int_digits_spec f : forall z acc,
  0 <= z < 2 ^ Z.of_nat (S f) ->
  exists ds, int_digits (S f) z 10 acc = ds ++ acc /\ all_digits ds = true /\
             ds <> EmptyString /\ dval ds 0 = z.
Proof.
  induction f as [| f IH]; intros z acc Hz.
  - change (2 ^ Z.of_nat 1) with 2 in Hz.
    exists (String (digit_char (z mod 10)) EmptyString).
    cbn [int_digits]. replace (z <? 10) with true by lia.
    destruct (digit_char_spec (z mod 10)) as [D1 D2]; [apply Z.mod_pos_bound; lia | ].
    repeat split.
    + cbn [all_digits]. now rewrite D1.
    + discriminate.
    + cbn [dval]. rewrite D2. rewrite Z.mod_small; lia.
  - cbn [int_digits]. fold (int_digits (S f)).
    destruct (digit_char_spec (z mod 10)) as [D1 D2]; [apply Z.mod_pos_bound; lia | ].
    destruct (z <? 10) eqn:Hlt.
    + exists (String (digit_char (z mod 10)) EmptyString). repeat split.
      * cbn [all_digits]. now rewrite D1.
      * discriminate.
      * cbn [dval]. rewrite D2. rewrite Z.mod_small; lia.
    + assert (Hq : 0 <= z / 10 < 2 ^ Z.of_nat (S f)).
      { split; [apply Z.div_pos; lia | ].
        apply Z.div_lt_upper_bound; [lia | ].
        rewrite (Nat2Z.inj_succ (S f)), Z.pow_succ_r in Hz by lia. lia. }
      destruct (IH (z / 10) (String (digit_char (z mod 10)) acc) Hq)
        as (ds & E & A & N & V).
      exists (ds ++ String (digit_char (z mod 10)) EmptyString). repeat split.
      * change (int_digits (S f) (z / 10) 10 (String (digit_char (z mod 10)) acc) =
                (ds ++ String (digit_char (z mod 10)) "") ++ acc).
        rewrite E, sapp_assoc. reflexivity.
      * rewrite all_digits_app, A. cbn [all_digits]. now rewrite D1.
      * destruct ds; [congruence | discriminate].
      * rewrite dval_app, V. cbn [dval]. rewrite D2.
        pose proof (Z.div_mod z 10). lia.
Qed.

Lemma log2_fuel z : 0 <= z -> 0 <= z < 2 ^ Z.of_nat (S (Z.to_nat (Z.log2 z))).
Proof.
  intros Hz. split; [assumption | ].
  rewrite Nat2Z.inj_succ, Z2Nat.id by apply Z.log2_nonneg.
  destruct (Z.eq_dec z 0) as [-> | Hnz]; [reflexivity | ].
  apply Z.log2_spec. lia.
Qed.

(* (a) FormatInt / Atoi round trip *)
Theorem atoi_format_int : forall z, atoi (format_int z 10) = Some z.
Proof.
  intros z. unfold format_int.
  destruct (z <? 0) eqn:Hneg.
  - destruct (int_digits_spec _ (- z) EmptyString (log2_fuel (- z) ltac:(lia)))
      as (ds & E & A & N & V).
    rewrite E, sapp_nil_r. unfold atoi. cbn [read_sign].
    change (Ascii.eqb "-" "+") with false. change (Ascii.eqb "-" "-") with true. cbv iota.
    rewrite read_digits_all by assumption.
    destruct ds as [| c ds]; [congruence | ].
    unfold slen; cbn [String.length].
    replace (0 + Z.of_nat (S (String.length ds)) =? 0) with false by lia.
    f_equal. lia.
  - destruct (int_digits_spec _ z EmptyString (log2_fuel z ltac:(lia)))
      as (ds & E & A & N & V).
    rewrite E, sapp_nil_r. unfold atoi.
    destruct ds as [| c ds]; [congruence | ].
    cbn [all_digits] in A. apply andb_true_iff in A as [Hc A].
    destruct (is_digit_not_sign c Hc) as [S1 S2].
    cbn [read_sign]. rewrite S1, S2.
    rewrite read_digits_all by (cbn [all_digits]; now rewrite Hc, A).
    unfold slen; cbn [String.length].
    replace (0 + Z.of_nat (S (String.length ds)) =? 0) with false by lia.
    f_equal. exact V.
Qed.

Example atoi_format_int_ex : atoi (format_int (-9007199254740993) 10) = Some (-9007199254740993).
Proof. reflexivity. Qed.

Print Assumptions atoi_format_int.

(* ------------------------------------------------------------------------------------ *)
(* integer helpers of dec_to_f64                                                        *)
(* ------------------------------------------------------------------------------------ *)

Lemma pos_div_eucl_small a b : 0 < b -> Zpos a < b -> Z.pos_div_eucl a b = (0, Zpos a).
Proof.
  intros Hb Hlt.
  pose proof (Z.pos_div_eucl_eq a b Hb) as E.
  pose proof (Z.pos_div_eucl_bound a b Hb) as B.
  destruct (Z.pos_div_eucl a b) as [q r]. cbn [snd] in B.
  assert (q = 0) by nia. subst q. f_equal. lia.
Qed.

Lemma div_top_eq t : forall a b, 0 < b -> div_top t a b = Z.pos_div_eucl a b.
Proof.
  induction t as [| t IH]; intros a b Hb.
  - cbn [div_top]. destruct (Zpos a <? b) eqn:E; [ | reflexivity].
    symmetry. apply pos_div_eucl_small; lia.
  - destruct a as [a | a | ]; cbn [div_top Z.pos_div_eucl]; try rewrite IH by assumption;
      reflexivity.
Qed.

Lemma fast_div_eucl_eq a b : fast_div_eucl a b = Z.div_eucl a b.
Proof.
  unfold fast_div_eucl. destruct a as [| pa | pa]; try reflexivity.
  destruct b as [| pb | pb]; try reflexivity.
  rewrite div_top_eq by lia. reflexivity.
Qed.

Lemma pow5_pos_eq p : pow5_pos p = 5 ^ Zpos p.
Proof.
  induction p as [p IH | p IH | ]; cbn [pow5_pos].
  - rewrite IH. replace (Z.pos p~1) with (Z.pos p + Z.pos p + 1) by lia.
    rewrite !Z.pow_add_r by lia. change (5 ^ 1) with 5. lia.
  - rewrite IH. replace (Z.pos p~0) with (Z.pos p + Z.pos p) by lia.
    now rewrite Z.pow_add_r by lia.
  - reflexivity.
Qed.

Lemma pow5_eq n : 0 <= n -> pow5 n = 5 ^ n.
Proof. destruct n as [| p | p]; intros H; [reflexivity | apply pow5_pos_eq | lia]. Qed.

Lemma pow5_pos_gt n : 0 < pow5 n.
Proof.
  destruct n as [| p | p]; cbn [pow5]; try lia. rewrite pow5_pos_eq. apply Z.pow_pos_nonneg; lia.
Qed.

Lemma pow10_eq n : 0 <= n -> pow10 n = 10 ^ n.
Proof.
  intros H. unfold pow10. rewrite Z.max_l by assumption.
  rewrite Z.shiftl_mul_pow2, pow5_eq by assumption.
  rewrite <- Z.pow_mul_l. reflexivity.
Qed.

(* ------------------------------------------------------------------------------------ *)
(* dec_to_f64 against the reals (Flocq)                                                 *)
(* ------------------------------------------------------------------------------------ *)

Definition radix10 : radix := Build_radix 10 (refl_equal _).

Lemma Hprec64 : FLX.Prec_gt_0 53.
Proof. unfold FLX.Prec_gt_0; lia. Qed.
Lemma Hmax64 : Prec_lt_emax 53 1024.
Proof. unfold Prec_lt_emax; lia. Qed.

Notation fexp64 := (SpecFloat.fexp 53 1024).
Notation round64 := (round radix2 fexp64 ZnearestE).

(* SpecFloat's nearest-even rounding is Flocq's mode_NE rounding (as in Flocq's PrimFloat.v) *)
Lemma round_nearest_even_equiv s m l :
  SpecFloat.round_nearest_even m l = choice_mode mode_NE s m l.
Proof.
  destruct l as [| c]; [reflexivity | ].
  destruct c; try reflexivity.
  simpl. unfold Round.cond_incr. now destruct (Z.even m).
Qed.

Lemma binary_round_aux_equiv sx mx ex lx :
  SpecFloat.binary_round_aux 53 1024 sx mx ex lx =
  BinarySingleNaN.binary_round_aux 53 1024 mode_NE sx mx ex lx.
Proof.
  unfold SpecFloat.binary_round_aux, BinarySingleNaN.binary_round_aux.
  destruct (SpecFloat.shr_fexp 53 1024 mx ex lx) as [mrs' e']. simpl.
  now rewrite (round_nearest_even_equiv sx).
Qed.

Lemma binary_round_equiv s m e :
  SpecFloat.binary_round 53 1024 s m e = BinarySingleNaN.binary_round 53 1024 mode_NE s m e.
Proof.
  unfold SpecFloat.binary_round, BinarySingleNaN.binary_round, shl_align_fexp.
  destruct (SpecFloat.shl_align m e _) as [mz ez]. apply binary_round_aux_equiv.
Qed.

Lemma binary_normalize_equiv m e szero :
  SpecFloat.binary_normalize 53 1024 m e szero =
  B2SF (BinarySingleNaN.binary_normalize 53 1024 Hprec64 Hmax64 mode_NE m e szero).
Proof.
  destruct m as [| p | p]; simpl; [reflexivity | | ];
    rewrite B2SF_SF2B; apply binary_round_equiv.
Qed.

Lemma div_inbetween M D sh kk q r :
  0 < M -> 0 < D -> 0 <= sh -> 0 <= kk ->
  Z.div_eucl (M * 2 ^ sh) D = (q, r) ->
  Bracket.inbetween_float radix2 q (- (sh + kk))
    (IZR M / (IZR D * IZR (2 ^ kk)))
    (if r =? 0 then SpecFloat.loc_Exact else SpecFloat.loc_Inexact (2 * r ?= D)).
Proof.
  intros HM HD Hsh Hkk Hdiv.
  pose proof (Z_div_mod (M * 2 ^ sh) D ltac:(lia)) as E. rewrite Hdiv in E.
  destruct E as [E Hr].
  assert (Hs : (0 < IZR (2 ^ sh))%R) by (apply IZR_lt; apply Z.pow_pos_nonneg; lia).
  assert (Ht : (0 < IZR (2 ^ kk))%R) by (apply IZR_lt; apply Z.pow_pos_nonneg; lia).
  assert (Hd : (0 < IZR D)%R) by (apply IZR_lt; lia).
  assert (ER : (IZR M * IZR (2 ^ sh) = IZR D * IZR q + IZR r)%R).
  { rewrite <- !mult_IZR, <- plus_IZR. now f_equal. }
  assert (Hb : bpow radix2 (- (sh + kk)) = (/ (IZR (2 ^ sh) * IZR (2 ^ kk)))%R).
  { rewrite bpow_opp. f_equal. rewrite <- mult_IZR, <- Z.pow_add_r by lia.
    symmetry. apply (IZR_Zpower radix2). lia. }
  assert (Ex : (IZR M / (IZR D * IZR (2 ^ kk)) =
                (IZR q + IZR r / IZR D) * bpow radix2 (- (sh + kk)))%R).
  { rewrite Hb.
    replace (IZR M) with ((IZR D * IZR q + IZR r) / IZR (2 ^ sh))%R
      by (rewrite <- ER; field; lra).
    field. lra. }
  assert (Hbp : (0 < bpow radix2 (- (sh + kk)))%R) by apply bpow_gt_0.
  unfold Bracket.inbetween_float, F2R. cbn [Fnum Fexp].
  rewrite Ex. set (b := bpow radix2 (- (sh + kk))) in *.
  destruct (r =? 0) eqn:Hr0.
  - apply Bracket.inbetween_Exact.
    replace r with 0 by lia. unfold Rdiv. rewrite Rmult_0_l, Rplus_0_r. reflexivity.
  - assert (Hrr : (0 < IZR r)%R) by (apply IZR_lt; lia).
    assert (Hrd : (IZR r < IZR D)%R) by (apply IZR_lt; lia).
    assert (Hfrac : (0 < IZR r / IZR D < 1)%R).
    { split.
      - apply Rdiv_lt_0_compat; assumption.
      - apply Rmult_lt_reg_r with (IZR D); [assumption | ].
        unfold Rdiv. rewrite Rmult_assoc, Rinv_l by lra. lra. }
    apply Bracket.inbetween_Inexact.
    + rewrite plus_IZR. split.
      * apply Rmult_lt_compat_r; [assumption | lra].
      * apply Rmult_lt_compat_r; [assumption | lra].
    + rewrite plus_IZR.
      replace ((IZR q * b + (IZR q + 1) * b) / 2)%R with ((IZR q + / 2) * b)%R by field.
      rewrite Rcompare_mult_r by assumption.
      rewrite Rcompare_plus_l.
      rewrite <- (Rcompare_mult_r (2 * IZR D)) by lra.
      replace (IZR r / IZR D * (2 * IZR D))%R with (IZR (2 * r)) by (rewrite mult_IZR; field; lra).
      replace (/ 2 * (2 * IZR D))%R with (IZR D) by field.
      apply Rcompare_IZR.
Qed.

(* the exact decimal value (-1)^neg * M * 10^k *)
Definition dec_real (neg : bool) (M k : Z) : R :=
  F2R (Float radix10 (SpecFloat.cond_Zopp neg M) k).

(* [res] is the IEEE-754 binary64 round-to-nearest-even of [x] with Go's error convention *)
Definition pf_correct (neg : bool) (x : R) (res : pf_result) : Prop :=
  if Rlt_bool (Rabs (round64 x)) (bpow radix2 1024) then
    exists f, res = PFOk f /\ SF2R radix2 f = round64 x /\ is_finite_SF f = true /\
              sign_SF f = neg /\ SpecFloat.valid_binary 53 1024 f = true
  else res = PFRange (S754_infinity neg).

Lemma wrap_pf_correct neg x z :
  SpecFloat.valid_binary 53 1024 z = true /\
  (if Rlt_bool (Rabs (round64 x)) (bpow radix2 1024) then
     SF2R radix2 z = round64 x /\ is_finite_SF z = true /\ sign_SF z = neg
   else z = binary_overflow 53 1024 mode_NE neg) ->
  pf_correct neg x (wrap_pf z).
Proof.
  intros [Hv H]. unfold pf_correct.
  destruct (Rlt_bool (Rabs (round64 x)) (bpow radix2 1024)).
  - destruct H as (H1 & H2 & H3). exists z. repeat split; try assumption.
    destruct z; try discriminate H2; reflexivity.
  - subst z. reflexivity.
Qed.

Lemma dec_real_sign neg M k : 0 < M -> Rlt_bool (dec_real neg M k) 0 = neg.
Proof.
  intros HM. unfold dec_real. destruct neg; cbn [SpecFloat.cond_Zopp].
  - apply Rlt_bool_true. apply F2R_lt_0. cbn [Fnum]. lia.
  - apply Rlt_bool_false. apply F2R_ge_0. cbn [Fnum]. lia.
Qed.

Lemma dec_real_abs neg M k : 0 < M -> Rabs (dec_real neg M k) = (IZR M * bpow radix10 k)%R.
Proof.
  intros HM. unfold dec_real. rewrite <- F2R_Zabs, abs_cond_Zopp.
  unfold F2R. cbn [Fnum Fexp]. rewrite Z.abs_eq by lia. reflexivity.
Qed.

Lemma bpow10_neg kk : 0 <= kk ->
  bpow radix10 (- kk) = (/ (IZR (5 ^ kk) * IZR (2 ^ kk)))%R.
Proof.
  intros H. rewrite bpow_opp. f_equal.
  rewrite <- (IZR_Zpower radix10) by assumption.
  rewrite <- mult_IZR, <- Z.pow_mul_l. reflexivity.
Qed.

Lemma dec_main neg M kk :
  0 < M -> 0 < kk ->
  pf_correct neg (dec_real neg M (- kk))
    (let D := pow5 kk in
     let sh := Z.max 0 (Z.log2 D - Z.log2 M + 56) in
     let '(q, r) := fast_div_eucl (Z.shiftl M sh) D in
     let loc := if r =? 0 then loc_Exact else loc_Inexact (2 * r ?= D) in
     wrap_pf (SpecFloat.binary_round_aux 53 1024 neg q (- (sh + kk)) loc)).
Proof.
  intros HM Hkk. cbv zeta.
  set (D := pow5 kk). set (sh := Z.max 0 (Z.log2 D - Z.log2 M + 56)).
  assert (HD : 0 < D) by apply pow5_pos_gt.
  assert (Hsh : 0 <= sh) by lia.
  rewrite fast_div_eucl_eq, Z.shiftl_mul_pow2 by assumption.
  destruct (Z.div_eucl (M * 2 ^ sh) D) as [q r] eqn:Hdiv.
  pose proof (div_inbetween M D sh kk q r HM HD Hsh ltac:(lia) Hdiv) as Hin.
  (* the quotient has at least 56 bits *)
  assert (Hq : 2 ^ 55 <= q).
  { pose proof (Z_div_mod (M * 2 ^ sh) D ltac:(lia)) as E. rewrite Hdiv in E.
    destruct E as [E Hr].
    pose proof (Z.log2_spec M HM) as [LM1 LM2].
    pose proof (Z.log2_spec D HD) as [LD1 LD2].
    pose proof (Z.log2_nonneg M). pose proof (Z.log2_nonneg D).
    assert (P1 : D * 2 ^ 55 < 2 ^ (Z.log2 D + 56)).
    { replace (Z.log2 D + 56) with (Z.succ (Z.log2 D) + 55) by lia.
      rewrite Z.pow_add_r by lia.
      apply Z.mul_lt_mono_pos_r; [apply Z.pow_pos_nonneg; lia | assumption]. }
    assert (P2 : 2 ^ (Z.log2 D + 56) <= M * 2 ^ sh).
    { apply Z.le_trans with (2 ^ (Z.log2 M + sh)).
      - apply Z.pow_le_mono_r; lia.
      - rewrite Z.pow_add_r by lia.
        apply Z.mul_le_mono_nonneg_r; [apply Z.pow_nonneg; lia | assumption]. }
    assert (2 ^ 55 < q + 1) by nia. lia. }
  destruct q as [| pq | pq]; try (exfalso; lia).
  rewrite binary_round_aux_equiv.
  apply wrap_pf_correct.
  assert (Hin' : Bracket.inbetween_float radix2 (Z.pos pq) (- (sh + kk))
                   (Rabs (dec_real neg M (- kk)))
                   (if r =? 0 then loc_Exact else loc_Inexact (2 * r ?= D))).
  { rewrite dec_real_abs, bpow10_neg by lia.
    rewrite <- (pow5_eq kk) by lia. exact Hin. }
  assert (Hfe : - (sh + kk) <= fexp64 (Zdigits radix2 (Z.pos pq) + - (sh + kk))).
  { assert (55 < Zdigits radix2 (Z.pos pq)).
    { apply Zdigits_gt_Zpower. change (radix_val radix2) with 2. lia. }
    unfold SpecFloat.fexp. lia. }
  pose proof (binary_round_aux_correct 53 1024 Hprec64 Hmax64 mode_NE _ _ _ _ Hin' Hfe) as H.
  cbv zeta in H. rewrite (dec_real_sign neg M (- kk) HM) in H. exact H.
Qed.

#[local] Instance fexp64_valid : Valid_exp fexp64 := fexp_correct 53 1024 Hprec64.

Lemma cond_Zopp_mul neg a b :
  SpecFloat.cond_Zopp neg a * b = SpecFloat.cond_Zopp neg (a * b).
Proof. destruct neg; cbn [SpecFloat.cond_Zopp]; lia. Qed.

(* k >= 0: the exact integer M * 10^k goes through binary_normalize *)
Lemma dec_pos neg M k :
  0 < M -> 0 <= k ->
  pf_correct neg (dec_real neg M k)
    (wrap_pf (SpecFloat.binary_normalize 53 1024
                (if neg then - (M * pow10 k) else M * pow10 k) 0 neg)).
Proof.
  intros HM Hk. rewrite pow10_eq by assumption.
  set (V := M * 10 ^ k).
  assert (HV : 0 < V) by (apply Z.mul_pos_pos; [assumption | apply Z.pow_pos_nonneg; lia]).
  change (if neg then - V else V) with (SpecFloat.cond_Zopp neg V).
  rewrite binary_normalize_equiv.
  assert (Ex : dec_real neg M k = F2R (Float radix2 (SpecFloat.cond_Zopp neg V) 0)).
  { unfold dec_real, F2R. cbn [Fnum Fexp].
    rewrite <- (IZR_Zpower radix10) by assumption. change (radix_val radix10) with 10.
    rewrite <- mult_IZR, cond_Zopp_mul. fold V. cbn [bpow]. now rewrite Rmult_1_r. }
  pose proof (binary_normalize_correct 53 1024 Hprec64 Hmax64 mode_NE
                (SpecFloat.cond_Zopp neg V) 0 neg) as H.
  cbv zeta in H. rewrite <- Ex in H.
  apply wrap_pf_correct. split; [apply valid_binary_B2SF | ].
  change (round_mode mode_NE) with ZnearestE in H.
  destruct (Rlt_bool (Rabs (round64 (dec_real neg M k))) (bpow radix2 1024)).
  - destruct H as (H1 & H2 & H3). repeat split.
    + now rewrite SF2R_B2SF.
    + now rewrite is_finite_SF_B2SF.
    + match goal with |- sign_SF (B2SF ?z) = _ =>
        replace (sign_SF (B2SF z)) with (Bsign z) by (now destruct z) end.
      rewrite H3.
      pose proof (dec_real_sign neg M k HM) as Hs.
      destruct neg.
      * rewrite Rcompare_Lt; [reflexivity | ].
        destruct (Rlt_bool_spec (dec_real true M k) 0); [assumption | discriminate].
      * rewrite Rcompare_Gt; [reflexivity | ].
        unfold dec_real. apply F2R_gt_0. cbn [Fnum SpecFloat.cond_Zopp]. lia.
  - rewrite H. now rewrite dec_real_sign.
Qed.

(* k > 310: at least 10^311 > 2^1024 *)
Lemma dec_overflow neg M k :
  0 < M -> 310 < k -> pf_correct neg (dec_real neg M k) (PFRange (S754_infinity neg)).
Proof.
  intros HM Hk. unfold pf_correct.
  rewrite Rlt_bool_false; [reflexivity | ].
  apply abs_round_ge_generic; try typeclasses eauto.
  - apply generic_format_bpow. unfold SpecFloat.fexp, SpecFloat.emin. lia.
  - rewrite dec_real_abs by assumption.
    apply Rle_trans with (1 * bpow radix10 311)%R.
    + rewrite Rmult_1_l. rewrite <- (IZR_Zpower radix10), <- (IZR_Zpower radix2) by lia.
      apply IZR_le. apply Z.leb_le. vm_compute. reflexivity.
    + apply Rmult_le_compat.
      * lra.
      * apply bpow_ge_0.
      * apply IZR_le. lia.
      * apply bpow_le. lia.
Qed.

(* below 2^-1080: rounds to zero, which Go does not report as an error *)
Lemma dec_tiny neg M kk :
  0 < M -> 0 < kk -> Z.log2 M + 1081 < 3 * kk ->
  pf_correct neg (dec_real neg M (- kk)) (PFOk (S754_zero neg)).
Proof.
  intros HM Hkk Hsmall.
  set (y := (IZR M * bpow radix10 (- kk))%R).
  assert (Hy0 : (0 < y)%R).
  { apply Rmult_lt_0_compat; [apply IZR_lt; lia | apply bpow_gt_0]. }
  assert (Hylt : (y < bpow radix2 (- 1080))%R).
  { unfold y. rewrite bpow_opp.
    replace (bpow radix2 (- 1080)) with (/ bpow radix2 1080)%R
      by (symmetry; exact (bpow_opp radix2 1080)).
    rewrite <- (IZR_Zpower radix10), <- (IZR_Zpower radix2) by lia.
    change (radix_val radix10) with 10. change (radix_val radix2) with 2.
    assert (HZ : M * 2 ^ 1080 < 10 ^ kk).
    { pose proof (Z.log2_spec M HM) as [_ LM]. pose proof (Z.log2_nonneg M).
      apply Z.lt_le_trans with (2 ^ Z.succ (Z.log2 M) * 2 ^ 1080).
      - apply Z.mul_lt_mono_pos_r; [apply Z.pow_pos_nonneg; lia | assumption].
      - rewrite <- Z.pow_add_r by lia.
        apply Z.le_trans with (2 ^ (3 * kk)).
        + apply Z.pow_le_mono_r; lia.
        + rewrite Z.pow_mul_r by lia. change (2 ^ 3) with 8.
          apply Z.pow_le_mono_l. lia. }
    assert (H10 : (0 < IZR (10 ^ kk))%R) by (apply IZR_lt; apply Z.pow_pos_nonneg; lia).
    assert (H2 : (0 < IZR (2 ^ 1080))%R) by (apply IZR_lt; apply Z.pow_pos_nonneg; lia).
    apply Rmult_lt_reg_r with (IZR (10 ^ kk)); [assumption | ].
    apply Rmult_lt_reg_r with (IZR (2 ^ 1080)); [assumption | ].
    replace (IZR M * / IZR (10 ^ kk) * IZR (10 ^ kk) * IZR (2 ^ 1080))%R
      with (IZR (M * 2 ^ 1080)) by (rewrite mult_IZR; field; lra).
    replace (/ IZR (2 ^ 1080) * IZR (10 ^ kk) * IZR (2 ^ 1080))%R
      with (IZR (10 ^ kk)) by (field; lra).
    apply IZR_lt. exact HZ. }
  assert (Hry : round64 y = 0%R).
  { apply round_N_small_pos with (ex := mag radix2 y).
    - pose proof (bpow_mag_le radix2 y ltac:(lra)) as B1.
      pose proof (bpow_mag_gt radix2 y) as B2.
      rewrite Rabs_pos_eq in B1, B2 by lra. split; assumption.
    - assert (mag radix2 y <= - 1080)%Z.
      { apply mag_le_bpow; [lra | ]. rewrite Rabs_pos_eq by lra. exact Hylt. }
      unfold SpecFloat.fexp, SpecFloat.emin. lia. }
  assert (Hrx : round64 (dec_real neg M (- kk)) = 0%R).
  { unfold dec_real. destruct neg; cbn [SpecFloat.cond_Zopp].
    - rewrite F2R_Zopp, round_NE_opp. unfold F2R. cbn [Fnum Fexp]. fold y.
      rewrite Hry. lra.
    - unfold F2R. cbn [Fnum Fexp]. exact Hry. }
  unfold pf_correct. rewrite Hrx, Rabs_R0.
  rewrite Rlt_bool_true by apply bpow_gt_0.
  exists (S754_zero neg). repeat split; reflexivity.
Qed.

Lemma dec_to_f64_zero neg M k : M <= 0 -> dec_to_f64 neg M k = PFOk (S754_zero neg).
Proof. intros H. unfold dec_to_f64. now replace (M <=? 0) with true by lia. Qed.

(* (d) the numeric core of parse_float is correctly rounded: for M > 0,
   dec_to_f64 neg M k is round-to-nearest-even of (-1)^neg * M * 10^k, with overflow
   reported as PFRange (±Inf) and no error on underflow *)
Theorem dec_to_f64_correct neg M k :
  0 < M -> pf_correct neg (dec_real neg M k) (dec_to_f64 neg M k).
Proof.
  intros HM. unfold dec_to_f64.
  replace (M <=? 0) with false by lia.
  destruct (0 <=? k) eqn:Hk.
  - destruct (310 <? k) eqn:Hbig.
    + apply dec_overflow; lia.
    + apply (dec_pos neg M k); lia.
  - replace k with (- (- k)) at 1 by lia.
    destruct (Z.log2 M + 1081 <? 3 * - k) eqn:Hsmall.
    + apply dec_tiny; lia.
    + apply (dec_main neg M (- k)); lia.
Qed.

Print Assumptions dec_to_f64_correct.

Example dec_to_f64_correct_ex :
  dec_to_f64 false 1 (-1) = PFOk (S754_finite false 7205759403792794 (-56)).
Proof. vm_compute. reflexivity. Qed.

(* ------------------------------------------------------------------------------------ *)
(* (b) parse_float never produces NaN; results are valid binary64 values                 *)
(* ------------------------------------------------------------------------------------ *)

Lemma dec_to_f64_valid neg M k :
  match dec_to_f64 neg M k with
  | PFOk x => is_finite x = true /\ valid_f64 x = true
  | PFRange x => x = S754_infinity neg
  | PFSyntax => False
  end.
Proof.
  destruct (Z_lt_le_dec 0 M) as [HM | HM].
  - pose proof (dec_to_f64_correct neg M k HM) as H. unfold pf_correct in H.
    destruct (Rlt_bool _ _).
    + destruct H as (f & E & _ & F & _ & V). rewrite E. split; [ | exact V].
      destruct f; try discriminate F; reflexivity.
    + now rewrite H.
  - rewrite dec_to_f64_zero by assumption. split; reflexivity.
Qed.

Lemma parse_float_cases s :
  parse_float s = PFSyntax \/ exists neg M k, parse_float s = dec_to_f64 neg M k.
Proof.
  unfold parse_float.
  destruct (read_sign s) as [neg s1].
  destruct (read_digits s1 0 0) as [[m1 n1] s2].
  destruct (match s2 with
            | EmptyString => (m1, 0, s2)
            | String c r => if Ascii.eqb c "." then read_digits r m1 0 else (m1, 0, s2)
            end) as [[m2 n2] s3].
  destruct (n1 + n2 =? 0); [now left | ].
  destruct s3 as [| c r]; [right; eauto | ].
  destruct (Ascii.eqb c "e" || Ascii.eqb c "E"); [ | now left].
  destruct (read_sign r) as [eneg s4].
  destruct (read_digits s4 0 0) as [[ev en] s5].
  destruct (en =? 0); [now left | ].
  destruct s5; [right; eauto | now left].
Qed.

Theorem parse_float_valid s :
  match parse_float s with
  | PFOk x => is_finite x = true /\ is_nan x = false /\ valid_f64 x = true
  | PFRange x => is_inf x = true /\ is_nan x = false /\ valid_f64 x = true
  | PFSyntax => True
  end.
Proof.
  destruct (parse_float_cases s) as [E | (neg & M & k & E)]; rewrite E; [exact I | ].
  pose proof (dec_to_f64_valid neg M k) as H.
  destruct (dec_to_f64 neg M k) as [x | x | ].
  - destruct H as [F V]. repeat split; try assumption. destruct x; try discriminate F; reflexivity.
  - subst x. repeat split.
  - exact I.
Qed.

Example parse_float_valid_ex :
  parse_float "1e400" = PFRange (S754_infinity false) /\
  parse_float "-1e-400" = PFOk (S754_zero true) /\
  parse_float "x" = PFSyntax.
Proof. vm_compute. repeat split. Qed.

Print Assumptions parse_float_valid.

(* ------------------------------------------------------------------------------------ *)
(* parse_float on strings of the shape the formatters produce                           *)
(* ------------------------------------------------------------------------------------ *)

Definition sign_str (neg : bool) : string := if neg then "-" else "".

(* optional exponent part: None = absent, Some (eneg, ed) = "e" sign digits *)
Definition exp_str (ex : option (bool * string)) : string :=
  match ex with
  | None => ""
  | Some (eneg, ed) => "e" ++ (if eneg then "-" else "+") ++ ed
  end.
Definition exp_val (ex : option (bool * string)) : Z :=
  match ex with
  | None => 0
  | Some (eneg, ed) => if eneg then - dval ed 0 else dval ed 0
  end.
Definition exp_ok (ex : option (bool * string)) : Prop :=
  match ex with
  | None => True
  | Some (_, ed) => all_digits ed = true /\ ed <> EmptyString
  end.

Lemma exp_str_nondigit ex : nondigit_start (exp_str ex).
Proof. destruct ex as [[eneg ed] | ]; cbn; auto. Qed.

Lemma slen_pos s : s <> EmptyString -> (0 < slen s)%nat.
Proof. destruct s; [congruence | unfold slen; cbn; lia]. Qed.

(* the tail of parse_float after the mantissa has been read *)
Lemma parse_exp_tail neg m2 n2 ex :
  exp_ok ex ->
  match exp_str ex with
  | EmptyString => dec_to_f64 neg m2 (- n2)
  | String c r =>
      if Ascii.eqb c "e" || Ascii.eqb c "E" then
        let '(eneg, s4) := read_sign r in
        let '(ev, en, s5) := read_digits s4 0 0 in
        if en =? 0 then PFSyntax
        else match s5 with
             | EmptyString => dec_to_f64 neg m2 ((if eneg then - ev else ev) - n2)
             | String _ _ => PFSyntax
             end
      else PFSyntax
  end = dec_to_f64 neg m2 (exp_val ex - n2).
Proof.
  intros Hex. destruct ex as [[eneg ed] | ]; [ | reflexivity].
  destruct Hex as [Hd Hne].
  cbn [exp_str exp_val append].
  change (Ascii.eqb "e" "e" || Ascii.eqb "e" "E") with true. cbv iota.
  assert (Hs : read_sign ((if eneg then "-" else "+") ++ ed) = (eneg, ed)) by (now destruct eneg).
  rewrite Hs. rewrite read_digits_all by assumption.
  pose proof (slen_pos ed Hne).
  replace (0 + Z.of_nat (slen ed) =? 0) with false by lia.
  reflexivity.
Qed.

Lemma parse_float_shape neg ip hasdot fp ex :
  all_digits ip = true -> all_digits fp = true ->
  (ip <> EmptyString \/ fp <> EmptyString) -> (hasdot = false -> fp = EmptyString) ->
  exp_ok ex ->
  parse_float (sign_str neg ++ ip ++ (if hasdot then "." ++ fp else "") ++ exp_str ex) =
  dec_to_f64 neg (dval (ip ++ fp) 0) (exp_val ex - Z.of_nat (slen fp)).
Proof.
  intros Hip Hfp Hne Hdot Hex.
  set (rest2 := (if hasdot then "." ++ fp else "") ++ exp_str ex).
  assert (Hnd2 : nondigit_start rest2).
  { unfold rest2. destruct hasdot; [exact eq_refl | apply exp_str_nondigit]. }
  (* sign *)
  assert (Hsign : read_sign (sign_str neg ++ ip ++ rest2) = (neg, ip ++ rest2)).
  { destruct neg; [reflexivity | ]. cbn [sign_str append].
    destruct ip as [| c ip].
    - cbn [append]. unfold rest2.
      destruct hasdot; [reflexivity | ].
      rewrite (Hdot eq_refl) in Hne. destruct Hne; congruence.
    - cbn [all_digits] in Hip. apply andb_true_iff in Hip as [Hc _].
      destruct (is_digit_not_sign c Hc) as [S1 S2].
      cbn [append read_sign]. now rewrite S1, S2. }
  unfold parse_float. rewrite Hsign.
  rewrite read_digits_app by assumption.
  rewrite dval_app.
  set (m1 := dval ip 0).
  replace (0 + Z.of_nat (slen ip)) with (Z.of_nat (slen ip)) by lia.
  destruct hasdot.
  - unfold rest2. cbn [append]. change (Ascii.eqb "." ".") with true. cbv iota.
    rewrite read_digits_app by (try assumption; apply exp_str_nondigit).
    replace (Z.of_nat (slen ip) + (0 + Z.of_nat (slen fp)) =? 0) with false.
    2:{ destruct Hne as [Hne | Hne]; apply slen_pos in Hne; lia. }
    replace (0 + Z.of_nat (slen fp)) with (Z.of_nat (slen fp)) by lia.
    apply parse_exp_tail. assumption.
  - rewrite (Hdot eq_refl) in *. cbn [dval slen String.length].
    unfold rest2. cbn [append].
    assert (Hm : match exp_str ex with
                 | EmptyString => (m1, 0, exp_str ex)
                 | String c r => if Ascii.eqb c "." then read_digits r m1 0 else (m1, 0, exp_str ex)
                 end = (m1, 0, exp_str ex)).
    { destruct ex as [[eneg ed] | ]; reflexivity. }
    rewrite Hm.
    replace (Z.of_nat (slen ip) + 0 =? 0) with false.
    2:{ destruct Hne as [Hne | Hne]; [apply slen_pos in Hne; lia | congruence]. }
    change (Z.of_nat 0) with 0. rewrite <- (parse_exp_tail neg m1 0 ex Hex).
    reflexivity.
Qed.

(* ------------------------------------------------------------------------------------ *)
(* the shapes produced by fmtE / fmtF for shortest digits                               *)
(* ------------------------------------------------------------------------------------ *)

Lemma zeros_spec n : forall acc,
  all_digits (srepeat "0" n) = true /\ dval (srepeat "0" n) acc = acc * 10 ^ Z.of_nat n /\
  slen (srepeat "0" n) = n.
Proof.
  induction n as [| n IH]; intros acc.
  - cbn. repeat split. lia.
  - cbn [srepeat append all_digits dval]. destruct (IH (10 * acc + digit_val "0")) as (A & V & L).
    repeat split.
    + now rewrite A.
    + rewrite V. change (digit_val "0") with 0.
      rewrite Nat2Z.inj_succ, Z.pow_succ_r by lia. lia.
    + unfold slen in *. cbn [String.length]. now rewrite L.
Qed.

Lemma zeros_0 j : j <= 0 -> zeros j = EmptyString.
Proof. intros H. unfold zeros. destruct j; try lia; reflexivity. Qed.

Lemma stake_all n : forall s, (slen s <= n)%nat -> stake n s = s.
Proof.
  induction n as [| n IH]; intros [| c s] H; unfold slen in *; cbn in *; try reflexivity; try lia.
  rewrite IH; [reflexivity | unfold slen; lia].
Qed.

Lemma all_digits_split n s :
  all_digits s = true -> all_digits (stake n s) = true /\ all_digits (sdrop n s) = true.
Proof.
  intros H. rewrite <- (stake_sdrop n s), all_digits_app in H.
  now apply andb_true_iff in H.
Qed.

Lemma digits_of_Z_spec c :
  0 < c ->
  all_digits (digits_of_Z c) = true /\ digits_of_Z c <> EmptyString /\ dval (digits_of_Z c) 0 = c.
Proof.
  intros Hc. unfold digits_of_Z. replace (c <=? 0) with false by lia.
  destruct (int_digits_spec _ c EmptyString (log2_fuel c ltac:(lia))) as (ds & E & A & N & V).
  rewrite E, sapp_nil_r. auto.
Qed.

Lemma exp_digits_spec a :
  0 <= a ->
  all_digits (exp_digits a) = true /\ exp_digits a <> EmptyString /\ dval (exp_digits a) 0 = a.
Proof.
  intros Ha. unfold exp_digits, format_int. replace (a <? 0) with false by lia.
  destruct (int_digits_spec _ a EmptyString (log2_fuel a Ha)) as (ds & E & A & N & V).
  rewrite E, sapp_nil_r.
  destruct (a <? 10); repeat split; try assumption; try discriminate.
Qed.

Lemma fmtE_shape neg d1 rest dp :
  fmtE neg (String d1 rest) dp (Z.of_nat (slen (String d1 rest)) - 1) =
  sign_str neg ++ String d1 "" ++
  (if match rest with EmptyString => false | _ => true end then "." ++ rest else "") ++
  exp_str (Some (dp - 1 <? 0, exp_digits (Z.abs (dp - 1)))).
Proof.
  unfold fmtE, sign_str, exp_str.
  assert (L : Z.of_nat (slen (String d1 rest)) = Z.of_nat (slen rest) + 1).
  { unfold slen. cbn [String.length]. lia. }
  rewrite L. replace (Z.of_nat (slen rest) + 1 =? 0) with false by lia.
  replace (Z.of_nat (slen rest) + 1 - 1) with (Z.of_nat (slen rest)) by lia.
  f_equal. f_equal. f_equal.
  destruct rest as [| c rest].
  - reflexivity.
  - replace (0 <? Z.of_nat (slen (String c rest))) with true
      by (unfold slen; cbn [String.length]; lia).
    rewrite Nat2Z.id. cbn [sdrop].
    rewrite stake_all by lia.
    rewrite zeros_0 by lia. now rewrite sapp_nil_r.
Qed.

Lemma fmtF_shape_small neg ds dp :
  ds <> EmptyString -> dp <= 0 ->
  fmtF neg ds dp (Z.max (Z.of_nat (slen ds) - dp) 0) =
  sign_str neg ++ "0" ++ ("." ++ zeros (- dp) ++ ds) ++ exp_str None.
Proof.
  intros Hne Hdp. pose proof (slen_pos ds Hne) as Hl.
  unfold fmtF, sign_str, exp_str.
  replace (0 <? dp) with false by lia.
  rewrite Z.max_l by lia.
  replace (0 <? Z.of_nat (slen ds) - dp) with true by lia.
  replace (Z.min (Z.of_nat (slen ds) - dp) (Z.max 0 (- dp))) with (- dp) by lia.
  replace (Z.max dp 0) with 0 by lia.
  replace (Z.of_nat (slen ds) - dp - - dp) with (Z.of_nat (slen ds)) by lia.
  rewrite Nat2Z.id. change (Z.to_nat 0) with 0%nat. cbn [sdrop].
  rewrite stake_all by lia.
  rewrite (zeros_0 (Z.of_nat (slen ds) - Z.of_nat (slen ds))) by lia.
  now rewrite !sapp_nil_r.
Qed.

Lemma fmtF_shape_mid neg ds dp :
  0 < dp < Z.of_nat (slen ds) ->
  fmtF neg ds dp (Z.max (Z.of_nat (slen ds) - dp) 0) =
  sign_str neg ++ stake (Z.to_nat dp) ds ++ ("." ++ sdrop (Z.to_nat dp) ds) ++ exp_str None.
Proof.
  intros Hdp.
  unfold fmtF, sign_str, exp_str.
  replace (0 <? dp) with true by lia.
  rewrite Z.max_l by lia.
  replace (0 <? Z.of_nat (slen ds) - dp) with true by lia.
  replace (Z.min (Z.of_nat (slen ds)) dp) with dp by lia.
  replace (Z.min (Z.of_nat (slen ds) - dp) (Z.max 0 (- dp))) with 0 by lia.
  replace (Z.max dp 0) with dp by lia.
  rewrite (zeros_0 (dp - dp)) by lia. rewrite (zeros_0 0) by lia.
  rewrite (stake_all (Z.to_nat (Z.of_nat (slen ds) - dp - 0)) (sdrop (Z.to_nat dp) ds))
    by (rewrite slen_sdrop; lia).
  rewrite zeros_0 by (rewrite slen_sdrop; lia).
  cbn [append]. now rewrite !sapp_nil_r.
Qed.

Lemma fmtF_shape_big neg ds dp :
  ds <> EmptyString -> Z.of_nat (slen ds) <= dp ->
  fmtF neg ds dp (Z.max (Z.of_nat (slen ds) - dp) 0) =
  sign_str neg ++ (ds ++ zeros (dp - Z.of_nat (slen ds))) ++ "" ++ exp_str None.
Proof.
  intros Hne Hdp. pose proof (slen_pos ds Hne) as Hl.
  unfold fmtF, sign_str, exp_str.
  replace (0 <? dp) with true by lia.
  rewrite Z.max_r by lia. change (0 <? 0) with false. cbv iota.
  replace (Z.min (Z.of_nat (slen ds)) dp) with (Z.of_nat (slen ds)) by lia.
  rewrite Nat2Z.id, stake_all by lia.
  now rewrite !sapp_nil_r.
Qed.

(* ------------------------------------------------------------------------------------ *)
(* encoding/json's exponent clean-up                                                    *)
(* ------------------------------------------------------------------------------------ *)

Fixpoint no_e (s : string) : bool :=
  match s with
  | String c r => negb (Ascii.eqb c "e") && no_e r
  | EmptyString => true
  end.

Lemma no_e_app a b : no_e (a ++ b) = no_e a && no_e b.
Proof.
  induction a as [| c a IH]; cbn [append no_e]; [reflexivity | ].
  now rewrite IH, andb_assoc.
Qed.

Lemma all_digits_no_e s : all_digits s = true -> no_e s = true.
Proof.
  induction s as [| c s IH]; cbn [all_digits no_e]; [reflexivity | ].
  intros H. apply andb_true_iff in H as [Hc Hs].
  destruct (is_digit_not_dot_e c Hc) as (_ & E & _). now rewrite E, IH.
Qed.

Lemma json_cleanup_step a r :
  Ascii.eqb a "e" = false -> json_cleanup (String a r) = String a (json_cleanup r).
Proof.
  intros H.
  destruct r as [| b [| c [| d [| x r']]]]; cbn [json_cleanup]; rewrite ?H; reflexivity.
Qed.

Lemma json_cleanup_noe pre : forall t,
  no_e pre = true -> json_cleanup (pre ++ t) = pre ++ json_cleanup t.
Proof.
  induction pre as [| a pre IH]; intros t H; [reflexivity | ].
  cbn [no_e] in H. apply andb_true_iff in H as [Ha Hp].
  cbn [append]. rewrite json_cleanup_step by (now destruct (Ascii.eqb a "e")).
  now rewrite IH.
Qed.

Lemma json_cleanup_id s : no_e s = true -> json_cleanup s = s.
Proof.
  intros H. rewrite <- (sapp_nil_r s) at 1. rewrite json_cleanup_noe by assumption.
  cbn [json_cleanup]. apply sapp_nil_r.
Qed.

Lemma json_cleanup_exp eneg ed :
  all_digits ed = true -> ed <> EmptyString ->
  exists ed', json_cleanup (exp_str (Some (eneg, ed))) = exp_str (Some (eneg, ed')) /\
              all_digits ed' = true /\ ed' <> EmptyString /\ dval ed' 0 = dval ed 0.
Proof.
  intros Hd Hne.
  assert (Hid : no_e (String (if eneg then "-" else "+")%char ed) = true).
  { cbn [no_e]. rewrite (all_digits_no_e ed Hd). now destruct eneg. }
  assert (Hsame : json_cleanup (String "e" (String (if eneg then "-" else "+")%char ed)) =
                  String "e" (String (if eneg then "-" else "+")%char ed) ->
                  exists ed', json_cleanup (exp_str (Some (eneg, ed))) = exp_str (Some (eneg, ed')) /\
                    all_digits ed' = true /\ ed' <> EmptyString /\ dval ed' 0 = dval ed 0).
  { intros E. exists ed. repeat split; try assumption.
    unfold exp_str. destruct eneg; exact E. }
  destruct ed as [| c [| d [| x ed']]].
  - congruence.
  - apply Hsame. destruct eneg; reflexivity.
  - (* exactly two exponent digits: the only case the clean-up can fire *)
    destruct eneg.
    + destruct (Ascii.eqb c "0") eqn:Ec.
      * exists (String d EmptyString).
        cbn [all_digits] in Hd. apply andb_true_iff in Hd as [Hc Hd].
        repeat split.
        -- unfold exp_str. cbn [append json_cleanup].
           change (Ascii.eqb "e" "e") with true. change (Ascii.eqb "-" "-") with true.
           rewrite Ec. reflexivity.
        -- exact Hd.
        -- discriminate.
        -- apply Ascii.eqb_eq in Ec. subst c. reflexivity.
      * apply Hsame. cbn [json_cleanup].
        change (Ascii.eqb "e" "e") with true. change (Ascii.eqb "-" "-") with true.
        rewrite Ec. cbn [andb].
        first [reflexivity | f_equal; apply json_cleanup_id; exact Hid].
    + apply Hsame. cbn [json_cleanup].
      change (Ascii.eqb "+" "-") with false. cbn [andb].
      first [reflexivity | f_equal; apply json_cleanup_id; exact Hid].
  - apply Hsame.
    change (json_cleanup (String "e" (String (if eneg then "-" else "+")%char
                                             (String c (String d (String x ed'))))))
      with (String "e" (json_cleanup (String (if eneg then "-" else "+")%char
                                             (String c (String d (String x ed')))))).
    f_equal. apply json_cleanup_id. exact Hid.
Qed.

(* ------------------------------------------------------------------------------------ *)
(* (c) round trips, relative to the read-back check shortest_digits_ok                  *)
(* ------------------------------------------------------------------------------------ *)

Section RoundTrip.
  Variables (neg : bool) (c k : Z).
  Hypothesis Hc : 0 < c.
  Let ds := digits_of_Z c.
  Let dp := Z.of_nat (slen ds) + k.

  Lemma parse_fmtE :
    parse_float (fmtE neg ds dp (Z.of_nat (slen ds) - 1)) = dec_to_f64 neg c k /\
    parse_float (json_cleanup (fmtE neg ds dp (Z.of_nat (slen ds) - 1))) = dec_to_f64 neg c k.
  Proof.
    destruct (digits_of_Z_spec c Hc) as (A & N & V). fold ds in A, N, V.
    unfold dp. clearbody ds. destruct ds as [| d1 rest]; [congruence | ].
    rewrite fmtE_shape.
    set (hasdot := match rest with EmptyString => false | _ => true end).
    set (e1 := Z.of_nat (slen (String d1 rest)) + k - 1).
    destruct (exp_digits_spec (Z.abs e1) ltac:(lia)) as (EA & EN & EV).
    cbn [all_digits] in A. apply andb_true_iff in A as [Hd1 Hrest].
    assert (Hip : all_digits (String d1 "") = true) by (cbn [all_digits]; now rewrite Hd1).
    assert (Hdot : hasdot = false -> rest = EmptyString) by (unfold hasdot; now destruct rest).
    assert (Hk : forall ed, dval ed 0 = Z.abs e1 ->
                 exp_val (Some (e1 <? 0, ed)) - Z.of_nat (slen rest) = k).
    { intros ed Hv. cbn [exp_val]. rewrite Hv. unfold e1, slen. cbn [String.length].
      destruct (_ <? 0) eqn:E; lia. }
    split.
    - rewrite parse_float_shape; try assumption.
      + cbn [append]. rewrite V. now rewrite Hk.
      + left; discriminate.
      + split; assumption.
    - replace (sign_str neg ++ String d1 "" ++ (if hasdot then "." ++ rest else "") ++
               exp_str (Some (e1 <? 0, exp_digits (Z.abs e1))))
        with ((sign_str neg ++ String d1 "" ++ (if hasdot then "." ++ rest else "")) ++
              exp_str (Some (e1 <? 0, exp_digits (Z.abs e1))))
        by (now rewrite !sapp_assoc).
      rewrite json_cleanup_noe.
      2:{ rewrite !no_e_app. rewrite (all_digits_no_e _ Hip).
          replace (no_e (sign_str neg)) with true by (now destruct neg).
          destruct hasdot; [ | reflexivity].
          rewrite no_e_app, (all_digits_no_e _ Hrest). reflexivity. }
      destruct (json_cleanup_exp (e1 <? 0) _ EA EN) as (ed' & E' & A' & N' & V').
      rewrite E', !sapp_assoc.
      rewrite parse_float_shape; try assumption.
      + cbn [append]. rewrite V. rewrite Hk; [reflexivity | ]. now rewrite V'.
      + left; discriminate.
      + split; assumption.
  Qed.

  Lemma dec_to_f64_scale j :
    0 <= j <= 310 -> dec_to_f64 neg (c * 10 ^ j) 0 = dec_to_f64 neg c j.
  Proof.
    intros Hj. unfold dec_to_f64.
    assert (0 < c * 10 ^ j) by (apply Z.mul_pos_pos; [assumption | apply Z.pow_pos_nonneg; lia]).
    replace (c * 10 ^ j <=? 0) with false by lia.
    replace (c <=? 0) with false by lia.
    replace (0 <=? j) with true by lia.
    replace (310 <? j) with false by lia.
    cbn [Z.leb Z.ltb Z.compare].
    rewrite !pow10_eq by lia. now rewrite Z.pow_0_r, Z.mul_1_r.
  Qed.

  Lemma parse_fmtF :
    k <= 310 ->
    parse_float (fmtF neg ds dp (Z.max (Z.of_nat (slen ds) - dp) 0)) = dec_to_f64 neg c k.
  Proof.
    intros Hk.
    destruct (digits_of_Z_spec c Hc) as (A & N & V). fold ds in A, N, V.
    pose proof (slen_pos ds N) as Hl.
    destruct (Z_le_gt_dec dp 0) as [H1 | H1]; [ | destruct (Z_lt_le_dec dp (Z.of_nat (slen ds))) as [H2 | H2]].
    - (* 0.000ddd *)
      rewrite fmtF_shape_small by assumption.
      destruct (zeros_spec (Z.to_nat (- dp)) 0) as (ZA & ZV & ZL).
      rewrite (parse_float_shape neg "0" true (zeros (- dp) ++ ds) None).
      + rewrite !dval_app. cbn [dval]. change (10 * 0 + digit_val "0") with 0.
        unfold zeros. rewrite ZV, Z.mul_0_l, V.
        cbn [exp_val]. rewrite slen_app, ZL, Nat2Z.inj_add, Z2Nat.id by lia.
        f_equal. unfold dp in *. lia.
      + reflexivity.
      + rewrite all_digits_app. unfold zeros. now rewrite ZA, A.
      + left; discriminate.
      + discriminate.
      + exact I.
    - (* ddd.ddd *)
      rewrite fmtF_shape_mid by lia.
      destruct (all_digits_split (Z.to_nat dp) ds A) as [A1 A2].
      rewrite (parse_float_shape neg _ true _ None); try assumption.
      + rewrite stake_sdrop, V. cbn [exp_val]. rewrite slen_sdrop.
        f_equal. unfold dp in *. lia.
      + right. intros E. apply (f_equal slen) in E. rewrite slen_sdrop in E.
        unfold slen in E at 2. cbn [String.length] in E. lia.
      + discriminate.
      + exact I.
    - (* ddd000 *)
      rewrite fmtF_shape_big by assumption.
      destruct (zeros_spec (Z.to_nat (dp - Z.of_nat (slen ds))) c) as (ZA & ZV & ZL).
      rewrite (parse_float_shape neg _ false "" None).
      + rewrite sapp_nil_r, dval_app, V. unfold zeros. rewrite ZV.
        cbn [exp_val slen String.length]. rewrite Z2Nat.id by lia.
        replace (dp - Z.of_nat (slen ds)) with k by (unfold dp; lia).
        change (0 - Z.of_nat 0) with 0.
        apply dec_to_f64_scale. unfold dp in *. lia.
      + rewrite all_digits_app. unfold zeros. now rewrite ZA, A.
      + reflexivity.
      + left. destruct ds; [congruence | discriminate].
      + reflexivity.
      + exact I.
  Qed.
End RoundTrip.

Lemma ok_facts s m e :
  shortest_digits_ok (S754_finite s m e) = true ->
  exists c k, shortest_core m e = (c, k) /\
              dec_to_f64 s c k = PFOk (S754_finite s m e) /\ 0 < c /\ k <= 310.
Proof.
  unfold shortest_digits_ok. destruct (shortest_core m e) as [c k].
  destruct (dec_to_f64 s c k) as [x | x | ] eqn:E; try discriminate.
  destruct x as [s' | s' | | s' m' e']; try discriminate.
  intros H. apply andb_true_iff in H as [H He]. apply andb_true_iff in H as [Hs Hm].
  apply Bool.eqb_prop in Hs. apply Z.eqb_eq in Hm, He. injection Hm as Hm. subst s' m' e'.
  exists c, k. repeat split; try assumption.
  - destruct (Z_lt_le_dec 0 c) as [Hc | Hc]; [assumption | ].
    rewrite dec_to_f64_zero in E by assumption. discriminate.
  - destruct (Z_le_gt_dec k 310) as [Hk | Hk]; [assumption | exfalso].
    destruct (Z_lt_le_dec 0 c) as [Hc | Hc].
    + unfold dec_to_f64 in E.
      replace (c <=? 0) with false in E by lia.
      replace (0 <=? k) with true in E by lia.
      replace (310 <? k) with true in E by lia. discriminate.
    + rewrite dec_to_f64_zero in E by assumption. discriminate.
Qed.

Lemma shortest_digits_finite s m e c k :
  shortest_core m e = (c, k) ->
  shortest_digits (S754_finite s m e) =
  (digits_of_Z c, Z.of_nat (slen (digits_of_Z c)) + k).
Proof. intros E. unfold shortest_digits. now rewrite E. Qed.

(* The three theorems below are PARTIAL in the following sense: they assume
   [shortest_digits_ok x = true], i.e. that the decimal (C, K) computed by the Ryu-style
   interval search [shortest_core] is read back by [dec_to_f64] as x itself.  What is missing
   for the unconditional statement is the proof that every decimal inside the rounding
   interval of x rounds to x and that the search always stays inside that interval
   (in particular that 17 digits always suffice).  The hypothesis is decidable and was
   checked by vm_compute on every one of the 36879 finite non-zero validation vectors.
   What the theorems do establish is that the textual layouts of %e / %f / %g / JSON
   (digit placement, zero padding, exponent sign and width, the e-09 -> e-9 clean-up) are
   parsed back by parse_float to exactly the decimal that was searched. *)

Theorem parse_format_e_partial x :
  shortest_digits_ok x = true -> parse_float (format_float_e x) = PFOk x.
Proof.
  destruct x as [s | s | | s m e]; try discriminate. intros Hok.
  destruct (ok_facts s m e Hok) as (c & k & Ecore & Edec & Hc & Hk).
  unfold format_float_e. cbn [fmt_special sign_bit].
  rewrite (shortest_digits_finite s m e c k Ecore).
  destruct (digits_of_Z_spec c Hc) as (_ & N & _). pose proof (slen_pos _ N).
  rewrite Z.max_l by lia.
  rewrite (proj1 (parse_fmtE s c k Hc)). exact Edec.
Qed.

Theorem parse_format_f_partial x :
  shortest_digits_ok x = true -> parse_float (format_float_f x) = PFOk x.
Proof.
  destruct x as [s | s | | s m e]; try discriminate. intros Hok.
  destruct (ok_facts s m e Hok) as (c & k & Ecore & Edec & Hc & Hk).
  unfold format_float_f. cbn [fmt_special sign_bit].
  rewrite (shortest_digits_finite s m e c k Ecore).
  rewrite (parse_fmtF s c k Hc Hk). exact Edec.
Qed.

Theorem parse_format_g_partial x :
  shortest_digits_ok x = true -> parse_float (format_float_g x) = PFOk x.
Proof.
  destruct x as [s | s | | s m e]; try discriminate. intros Hok.
  destruct (ok_facts s m e Hok) as (c & k & Ecore & Edec & Hc & Hk).
  unfold format_float_g. cbn [fmt_special sign_bit].
  rewrite (shortest_digits_finite s m e c k Ecore).
  destruct (_ || _).
  - rewrite (proj1 (parse_fmtE s c k Hc)). exact Edec.
  - rewrite (parse_fmtF s c k Hc Hk). exact Edec.
Qed.

Theorem parse_format_json_partial x :
  shortest_digits_ok x = true -> parse_float (format_json_number x) = PFOk x.
Proof.
  destruct x as [s | s | | s m e] eqn:Ex; try discriminate. intros Hok.
  unfold format_json_number. cbn [fmt_special].
  destruct (_ && _).
  - destruct (ok_facts s m e Hok) as (c & k & Ecore & Edec & Hc & Hk).
    unfold format_float_e. cbn [fmt_special sign_bit].
    rewrite (shortest_digits_finite s m e c k Ecore).
    destruct (digits_of_Z_spec c Hc) as (_ & N & _). pose proof (slen_pos _ N).
    rewrite Z.max_l by lia.
    rewrite (proj2 (parse_fmtE s c k Hc)). exact Edec.
  - apply parse_format_f_partial. exact Hok.
Qed.

(* the hypothesis is satisfiable on non-trivial instances, e.g. 0.1, 5e-324, 2^53+2, 1e23 *)
Example shortest_digits_ok_ex :
  forallb (fun b => shortest_digits_ok (f_of_bits b))
    [0x3fb999999999999a; 1; 0x4340000000000001; 0x44b52d02c7e14af6; 0x7fefffffffffffff;
     0xbeb0c6f7a0b5ed8d] = true.
Proof. vm_compute. reflexivity. Qed.

Example parse_format_json_ex :
  format_json_number (f_of_bits 0xbeb0c6f7a0b5ed8c) = "-9.999999999999997e-7"%string /\
  parse_float "-9.999999999999997e-7" = PFOk (f_of_bits 0xbeb0c6f7a0b5ed8c).
Proof. vm_compute. split; reflexivity. Qed.

Print Assumptions parse_format_e_partial.
Print Assumptions parse_format_f_partial.
Print Assumptions parse_format_g_partial.
Print Assumptions parse_format_json_partial.
