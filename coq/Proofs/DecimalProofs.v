(* Proofs/DecimalProofs.v — facts about Base/Decimal.v (strconv / fmt / encoding/json numbers).

   Main results (each followed by Print Assumptions):
     atoi_format_int          (a) atoi (format_int z 10) = Some z for all z           [axiom-free]
     dec_to_f64_correct       (d) parse_float's numeric core is the IEEE-754 round-to-nearest-
                              even of the exact decimal value (Flocq reals), overflow =
                              PFRange (±Inf), underflow is not an error
     parse_float_valid        (b) parse_float never yields NaN; PFOk is finite, PFRange is an
                              infinity, the value is always a valid binary64
     parse_format_*_partial   (c) parse_float (format_* x) = PFOk x under the decidable
                              hypothesis shortest_digits_ok x = true               [axiom-free]
     shortest_digits_ok_valid the hypothesis holds for EVERY valid finite binary64: the
                              Ryu-style interval search stays inside the rounding interval
     parse_format_json/g/e/f  (c) unconditional round trips for valid finite non-zero x

   The theorems that mention real numbers depend on the four standard axioms of Coq's Reals
   library (as all of Flocq does): ClassicalDedekindReals.sig_not_dec, sig_forall_dec,
   functional_extensionality_dep, Classical_Prop.classic.  Nothing else. *)
From Coq Require Import ZArith Reals Psatz Bool List Ascii String Lia ZifyBool ZifyNat.
From Flocq Require Import Core Calc.Bracket Calc.Round IEEE754.BinarySingleNaN.
From JV.Base Require Import Bytes F64 Decimal.
Open Scope Z_scope.

(* ------------------------------------------------------------------------------------ *)
(* digit strings                                                                        *)
(* ------------------------------------------------------------------------------------ *)

Fixpoint dval (s : string) (acc : Z) : Z :=
  match s with
  | String c r => dval r (10 * acc + digit_val c)
  | EmptyString => acc
  end.

Fixpoint all_digits (s : string) : bool :=
  match s with
  | String c r => is_digit c && all_digits r
  | EmptyString => true
  end.

Definition nondigit_start (s : string) : Prop :=
  match s with
  | String c _ => is_digit c = false
  | EmptyString => True
  end.

Lemma digit_char_spec d :
  0 <= d < 10 -> is_digit (digit_char d) = true /\ digit_val (digit_char d) = d.
Proof.
  intros H.
  assert (E : d = 0 \/ d = 1 \/ d = 2 \/ d = 3 \/ d = 4 \/ d = 5 \/ d = 6 \/ d = 7 \/ d = 8 \/ d = 9)
    by lia.
  repeat (destruct E as [E | E]; [subst d; split; reflexivity | ]).
  subst d; split; reflexivity.
Qed.

Lemma is_digit_not_sign c :
  is_digit c = true -> Ascii.eqb c "+" = false /\ Ascii.eqb c "-" = false.
Proof.
  intros H; split.
  - destruct (Ascii.eqb_spec c "+") as [E | E]; [subst c; discriminate H | reflexivity].
  - destruct (Ascii.eqb_spec c "-") as [E | E]; [subst c; discriminate H | reflexivity].
Qed.

Lemma is_digit_not_dot_e c :
  is_digit c = true ->
  Ascii.eqb c "." = false /\ Ascii.eqb c "e" = false /\ Ascii.eqb c "E" = false.
Proof.
  intros H; repeat split.
  - destruct (Ascii.eqb_spec c ".") as [E | E]; [subst c; discriminate H | reflexivity].
  - destruct (Ascii.eqb_spec c "e") as [E | E]; [subst c; discriminate H | reflexivity].
  - destruct (Ascii.eqb_spec c "E") as [E | E]; [subst c; discriminate H | reflexivity].
Qed.

Lemma read_digits_app a : forall b acc n,
  all_digits a = true -> nondigit_start b ->
  read_digits (a ++ b) acc n = (dval a acc, n + Z.of_nat (slen a), b).
Proof.
  induction a as [| c a IH]; intros b acc n Ha Hb.
  - cbn [append dval slen String.length]. replace (n + Z.of_nat 0) with n by lia.
    destruct b as [| c b]; cbn [read_digits]; [reflexivity | ].
    cbn [nondigit_start] in Hb. now rewrite Hb.
  - cbn [all_digits] in Ha. apply andb_true_iff in Ha as [Hc Ha].
    cbn [append read_digits dval]. rewrite Hc, IH by assumption.
    f_equal. f_equal. unfold slen; cbn [String.length]. lia.
Qed.

Lemma read_digits_all a acc n :
  all_digits a = true ->
  read_digits a acc n = (dval a acc, n + Z.of_nat (slen a), EmptyString).
Proof.
  intros Ha. rewrite <- (sapp_nil_r a) at 1. now apply read_digits_app.
Qed.

Lemma dval_app a : forall b acc, dval (a ++ b) acc = dval b (dval a acc).
Proof. induction a as [| c a IH]; intros; cbn [append dval]; [reflexivity | apply IH]. Qed.

Lemma all_digits_app a b : all_digits (a ++ b) = all_digits a && all_digits b.
Proof.
  induction a as [| c a IH]; cbn [append all_digits]; [reflexivity | ].
  now rewrite IH, andb_assoc.
Qed.

Lemma dval_lin a : forall acc, dval a acc = acc * 10 ^ Z.of_nat (slen a) + dval a 0.
Proof.
  induction a as [| c a IH]; intros acc.
  - cbn [dval slen String.length]. change (10 ^ Z.of_nat 0) with 1. lia.
  - cbn [dval]. rewrite IH. rewrite (IH (10 * 0 + digit_val c)).
    unfold slen; cbn [String.length]. rewrite Nat2Z.inj_succ, Z.pow_succ_r by lia. lia.
Qed.

(* int_digits in base 10 produces the decimal digits of z in front of acc *)
Lemma int_digits_spec f : forall z acc,
  0 <= z < 2 ^ Z.of_nat (S f) ->
  exists ds, int_digits (S f) z 10 acc = ds ++ acc /\ all_digits ds = true /\
             ds <> EmptyString /\ dval ds 0 = z.
Proof.
  induction f as [| f IH]; intros z acc Hz.
  - change (2 ^ Z.of_nat 1) with 2 in Hz.
    exists (String (digit_char (z mod 10)) EmptyString).
    cbn [int_digits]. replace (z <? 10) with true by lia.
    destruct (digit_char_spec (z mod 10)) as [D1 D2]; [apply Z.mod_pos_bound; lia | ].
    repeat split.
    + cbn [all_digits]. now rewrite D1.
    + discriminate.
    + cbn [dval]. rewrite D2. rewrite Z.mod_small; lia.
  - cbn [int_digits]. fold (int_digits (S f)).
    destruct (digit_char_spec (z mod 10)) as [D1 D2]; [apply Z.mod_pos_bound; lia | ].
    destruct (z <? 10) eqn:Hlt.
    + exists (String (digit_char (z mod 10)) EmptyString). repeat split.
      * cbn [all_digits]. now rewrite D1.
      * discriminate.
      * cbn [dval]. rewrite D2. rewrite Z.mod_small; lia.
    + assert (Hq : 0 <= z / 10 < 2 ^ Z.of_nat (S f)).
      { split; [apply Z.div_pos; lia | ].
        apply Z.div_lt_upper_bound; [lia | ].
        rewrite (Nat2Z.inj_succ (S f)), Z.pow_succ_r in Hz by lia. lia. }
      destruct (IH (z / 10) (String (digit_char (z mod 10)) acc) Hq)
        as (ds & E & A & N & V).
      exists (ds ++ String (digit_char (z mod 10)) EmptyString). repeat split.
      * change (int_digits (S f) (z / 10) 10 (String (digit_char (z mod 10)) acc) =
                (ds ++ String (digit_char (z mod 10)) "") ++ acc).
        rewrite E, sapp_assoc. reflexivity.
      * rewrite all_digits_app, A. cbn [all_digits]. now rewrite D1.
      * destruct ds; [congruence | discriminate].
      * rewrite dval_app, V. cbn [dval]. rewrite D2.
        pose proof (Z.div_mod z 10). lia.
Qed.

Lemma log2_fuel z : 0 <= z -> 0 <= z < 2 ^ Z.of_nat (S (Z.to_nat (Z.log2 z))).
Proof.
  intros Hz. split; [assumption | ].
  rewrite Nat2Z.inj_succ, Z2Nat.id by apply Z.log2_nonneg.
  destruct (Z.eq_dec z 0) as [-> | Hnz]; [reflexivity | ].
  apply Z.log2_spec. lia.
Qed.

(* (a) FormatInt / Atoi round trip *)
Theorem atoi_format_int : forall z, atoi (format_int z 10) = Some z.
Proof.
  intros z. unfold format_int.
  destruct (z <? 0) eqn:Hneg.
  - destruct (int_digits_spec _ (- z) EmptyString (log2_fuel (- z) ltac:(lia)))
      as (ds & E & A & N & V).
    rewrite E, sapp_nil_r. unfold atoi. cbn [read_sign].
    change (Ascii.eqb "-" "+") with false. change (Ascii.eqb "-" "-") with true. cbv iota.
    rewrite read_digits_all by assumption.
    destruct ds as [| c ds]; [congruence | ].
    unfold slen; cbn [String.length].
    replace (0 + Z.of_nat (S (String.length ds)) =? 0) with false by lia.
    f_equal. lia.
  - destruct (int_digits_spec _ z EmptyString (log2_fuel z ltac:(lia)))
      as (ds & E & A & N & V).
    rewrite E, sapp_nil_r. unfold atoi.
    destruct ds as [| c ds]; [congruence | ].
    cbn [all_digits] in A. apply andb_true_iff in A as [Hc A].
    destruct (is_digit_not_sign c Hc) as [S1 S2].
    cbn [read_sign]. rewrite S1, S2.
    rewrite read_digits_all by (cbn [all_digits]; now rewrite Hc, A).
    unfold slen; cbn [String.length].
    replace (0 + Z.of_nat (S (String.length ds)) =? 0) with false by lia.
    f_equal. exact V.
Qed.

Example atoi_format_int_ex : atoi (format_int (-9007199254740993) 10) = Some (-9007199254740993).
Proof. reflexivity. Qed.

Print Assumptions atoi_format_int.

(* ------------------------------------------------------------------------------------ *)
(* integer helpers of dec_to_f64                                                        *)
(* ------------------------------------------------------------------------------------ *)

Lemma pos_div_eucl_small a b : 0 < b -> Zpos a < b -> Z.pos_div_eucl a b = (0, Zpos a).
Proof.
  intros Hb Hlt.
  pose proof (Z.pos_div_eucl_eq a b Hb) as E.
  pose proof (Z.pos_div_eucl_bound a b Hb) as B.
  destruct (Z.pos_div_eucl a b) as [q r]. cbn [snd] in B.
  assert (q = 0) by nia. subst q. f_equal. lia.
Qed.

Lemma div_top_eq t : forall a b, 0 < b -> div_top t a b = Z.pos_div_eucl a b.
Proof.
  induction t as [| t IH]; intros a b Hb.
  - cbn [div_top]. destruct (Zpos a <? b) eqn:E; [ | reflexivity].
    symmetry. apply pos_div_eucl_small; lia.
  - destruct a as [a | a | ]; cbn [div_top Z.pos_div_eucl]; try rewrite IH by assumption;
      reflexivity.
Qed.

Lemma fast_div_eucl_eq a b : fast_div_eucl a b = Z.div_eucl a b.
Proof.
  unfold fast_div_eucl. destruct a as [| pa | pa]; try reflexivity.
  destruct b as [| pb | pb]; try reflexivity.
  rewrite div_top_eq by lia. reflexivity.
Qed.

Lemma pow5_pos_eq p : pow5_pos p = 5 ^ Zpos p.
Proof.
  induction p as [p IH | p IH | ]; cbn [pow5_pos].
  - rewrite IH. replace (Z.pos p~1) with (Z.pos p + Z.pos p + 1) by lia.
    rewrite !Z.pow_add_r by lia. change (5 ^ 1) with 5. lia.
  - rewrite IH. replace (Z.pos p~0) with (Z.pos p + Z.pos p) by lia.
    now rewrite Z.pow_add_r by lia.
  - reflexivity.
Qed.

Lemma pow5_eq n : 0 <= n -> pow5 n = 5 ^ n.
Proof. destruct n as [| p | p]; intros H; [reflexivity | apply pow5_pos_eq | lia]. Qed.

Lemma pow5_pos_gt n : 0 < pow5 n.
Proof.
  destruct n as [| p | p]; cbn [pow5]; try lia. rewrite pow5_pos_eq. apply Z.pow_pos_nonneg; lia.
Qed.

Lemma pow10_eq n : 0 <= n -> pow10 n = 10 ^ n.
Proof.
  intros H. unfold pow10. rewrite Z.max_l by assumption.
  rewrite Z.shiftl_mul_pow2, pow5_eq by assumption.
  rewrite <- Z.pow_mul_l. reflexivity.
Qed.

(* ------------------------------------------------------------------------------------ *)
(* dec_to_f64 against the reals (Flocq)                                                 *)
(* ------------------------------------------------------------------------------------ *)

Definition radix10 : radix := Build_radix 10 (refl_equal _).

Lemma Hprec64 : FLX.Prec_gt_0 53.
Proof. unfold FLX.Prec_gt_0; lia. Qed.
Lemma Hmax64 : Prec_lt_emax 53 1024.
Proof. unfold Prec_lt_emax; lia. Qed.

Notation fexp64 := (SpecFloat.fexp 53 1024).
Notation round64 := (round radix2 fexp64 ZnearestE).

(* SpecFloat's nearest-even rounding is Flocq's mode_NE rounding (as in Flocq's PrimFloat.v) *)
Lemma round_nearest_even_equiv s m l :
  SpecFloat.round_nearest_even m l = choice_mode mode_NE s m l.
Proof.
  destruct l as [| c]; [reflexivity | ].
  destruct c; try reflexivity.
  simpl. unfold Round.cond_incr. now destruct (Z.even m).
Qed.

Lemma binary_round_aux_equiv sx mx ex lx :
  SpecFloat.binary_round_aux 53 1024 sx mx ex lx =
  BinarySingleNaN.binary_round_aux 53 1024 mode_NE sx mx ex lx.
Proof.
  unfold SpecFloat.binary_round_aux, BinarySingleNaN.binary_round_aux.
  destruct (SpecFloat.shr_fexp 53 1024 mx ex lx) as [mrs' e']. simpl.
  now rewrite (round_nearest_even_equiv sx).
Qed.

Lemma binary_round_equiv s m e :
  SpecFloat.binary_round 53 1024 s m e = BinarySingleNaN.binary_round 53 1024 mode_NE s m e.
Proof.
  unfold SpecFloat.binary_round, BinarySingleNaN.binary_round, shl_align_fexp.
  destruct (SpecFloat.shl_align m e _) as [mz ez]. apply binary_round_aux_equiv.
Qed.

Lemma binary_normalize_equiv m e szero :
  SpecFloat.binary_normalize 53 1024 m e szero =
  B2SF (BinarySingleNaN.binary_normalize 53 1024 Hprec64 Hmax64 mode_NE m e szero).
Proof.
  destruct m as [| p | p]; simpl; [reflexivity | | ];
    rewrite B2SF_SF2B; apply binary_round_equiv.
Qed.

Lemma div_inbetween M D sh kk q r :
  0 < M -> 0 < D -> 0 <= sh -> 0 <= kk ->
  Z.div_eucl (M * 2 ^ sh) D = (q, r) ->
  Bracket.inbetween_float radix2 q (- (sh + kk))
    (IZR M / (IZR D * IZR (2 ^ kk)))
    (if r =? 0 then SpecFloat.loc_Exact else SpecFloat.loc_Inexact (2 * r ?= D)).
Proof.
  intros HM HD Hsh Hkk Hdiv.
  pose proof (Z_div_mod (M * 2 ^ sh) D ltac:(lia)) as E. rewrite Hdiv in E.
  destruct E as [E Hr].
  assert (Hs : (0 < IZR (2 ^ sh))%R) by (apply IZR_lt; apply Z.pow_pos_nonneg; lia).
  assert (Ht : (0 < IZR (2 ^ kk))%R) by (apply IZR_lt; apply Z.pow_pos_nonneg; lia).
  assert (Hd : (0 < IZR D)%R) by (apply IZR_lt; lia).
  assert (ER : (IZR M * IZR (2 ^ sh) = IZR D * IZR q + IZR r)%R).
  { rewrite <- !mult_IZR, <- plus_IZR. now f_equal. }
  assert (Hb : bpow radix2 (- (sh + kk)) = (/ (IZR (2 ^ sh) * IZR (2 ^ kk)))%R).
  { rewrite bpow_opp. f_equal. rewrite <- mult_IZR, <- Z.pow_add_r by lia.
    symmetry. apply (IZR_Zpower radix2). lia. }
  assert (Ex : (IZR M / (IZR D * IZR (2 ^ kk)) =
                (IZR q + IZR r / IZR D) * bpow radix2 (- (sh + kk)))%R).
  { rewrite Hb.
    replace (IZR M) with ((IZR D * IZR q + IZR r) / IZR (2 ^ sh))%R
      by (rewrite <- ER; field; lra).
    field. lra. }
  assert (Hbp : (0 < bpow radix2 (- (sh + kk)))%R) by apply bpow_gt_0.
  unfold Bracket.inbetween_float, F2R. cbn [Fnum Fexp].
  rewrite Ex. set (b := bpow radix2 (- (sh + kk))) in *.
  destruct (r =? 0) eqn:Hr0.
  - apply Bracket.inbetween_Exact.
    replace r with 0 by lia. unfold Rdiv. rewrite Rmult_0_l, Rplus_0_r. reflexivity.
  - assert (Hrr : (0 < IZR r)%R) by (apply IZR_lt; lia).
    assert (Hrd : (IZR r < IZR D)%R) by (apply IZR_lt; lia).
    assert (Hfrac : (0 < IZR r / IZR D < 1)%R).
    { split.
      - apply Rdiv_lt_0_compat; assumption.
      - apply Rmult_lt_reg_r with (IZR D); [assumption | ].
        unfold Rdiv. rewrite Rmult_assoc, Rinv_l by lra. lra. }
    apply Bracket.inbetween_Inexact.
    + rewrite plus_IZR. split.
      * apply Rmult_lt_compat_r; [assumption | lra].
      * apply Rmult_lt_compat_r; [assumption | lra].
    + rewrite plus_IZR.
      replace ((IZR q * b + (IZR q + 1) * b) / 2)%R with ((IZR q + / 2) * b)%R by field.
      rewrite Rcompare_mult_r by assumption.
      rewrite Rcompare_plus_l.
      rewrite <- (Rcompare_mult_r (2 * IZR D)) by lra.
      replace (IZR r / IZR D * (2 * IZR D))%R with (IZR (2 * r)) by (rewrite mult_IZR; field; lra).
      replace (/ 2 * (2 * IZR D))%R with (IZR D) by field.
      apply Rcompare_IZR.
Qed.

(* the exact decimal value (-1)^neg * M * 10^k *)
Definition dec_real (neg : bool) (M k : Z) : R :=
  F2R (Float radix10 (SpecFloat.cond_Zopp neg M) k).

(* [res] is the IEEE-754 binary64 round-to-nearest-even of [x] with Go's error convention *)
Definition pf_correct (neg : bool) (x : R) (res : pf_result) : Prop :=
  if Rlt_bool (Rabs (round64 x)) (bpow radix2 1024) then
    exists f, res = PFOk f /\ SF2R radix2 f = round64 x /\ is_finite_SF f = true /\
              sign_SF f = neg /\ SpecFloat.valid_binary 53 1024 f = true
  else res = PFRange (S754_infinity neg).

Lemma wrap_pf_correct neg x z :
  SpecFloat.valid_binary 53 1024 z = true /\
  (if Rlt_bool (Rabs (round64 x)) (bpow radix2 1024) then
     SF2R radix2 z = round64 x /\ is_finite_SF z = true /\ sign_SF z = neg
   else z = binary_overflow 53 1024 mode_NE neg) ->
  pf_correct neg x (wrap_pf z).
Proof.
  intros [Hv H]. unfold pf_correct.
  destruct (Rlt_bool (Rabs (round64 x)) (bpow radix2 1024)).
  - destruct H as (H1 & H2 & H3). exists z. repeat split; try assumption.
    destruct z; try discriminate H2; reflexivity.
  - subst z. reflexivity.
Qed.

Lemma dec_real_sign neg M k : 0 < M -> Rlt_bool (dec_real neg M k) 0 = neg.
Proof.
  intros HM. unfold dec_real. destruct neg; cbn [SpecFloat.cond_Zopp].
  - apply Rlt_bool_true. apply F2R_lt_0. cbn [Fnum]. lia.
  - apply Rlt_bool_false. apply F2R_ge_0. cbn [Fnum]. lia.
Qed.

Lemma dec_real_abs neg M k : 0 < M -> Rabs (dec_real neg M k) = (IZR M * bpow radix10 k)%R.
Proof.
  intros HM. unfold dec_real. rewrite <- F2R_Zabs, abs_cond_Zopp.
  unfold F2R. cbn [Fnum Fexp]. rewrite Z.abs_eq by lia. reflexivity.
Qed.

Lemma bpow10_neg kk : 0 <= kk ->
  bpow radix10 (- kk) = (/ (IZR (5 ^ kk) * IZR (2 ^ kk)))%R.
Proof.
  intros H. rewrite bpow_opp. f_equal.
  rewrite <- (IZR_Zpower radix10) by assumption.
  rewrite <- mult_IZR, <- Z.pow_mul_l. reflexivity.
Qed.

Lemma dec_main neg M kk :
  0 < M -> 0 < kk ->
  pf_correct neg (dec_real neg M (- kk))
    (let D := pow5 kk in
     let sh := Z.max 0 (Z.log2 D - Z.log2 M + 56) in
     let '(q, r) := fast_div_eucl (Z.shiftl M sh) D in
     let loc := if r =? 0 then loc_Exact else loc_Inexact (2 * r ?= D) in
     wrap_pf (SpecFloat.binary_round_aux 53 1024 neg q (- (sh + kk)) loc)).
Proof.
  intros HM Hkk. cbv zeta.
  set (D := pow5 kk). set (sh := Z.max 0 (Z.log2 D - Z.log2 M + 56)).
  assert (HD : 0 < D) by apply pow5_pos_gt.
  assert (Hsh : 0 <= sh) by lia.
  rewrite fast_div_eucl_eq, Z.shiftl_mul_pow2 by assumption.
  destruct (Z.div_eucl (M * 2 ^ sh) D) as [q r] eqn:Hdiv.
  pose proof (div_inbetween M D sh kk q r HM HD Hsh ltac:(lia) Hdiv) as Hin.
  (* the quotient has at least 56 bits *)
  assert (Hq : 2 ^ 55 <= q).
  { pose proof (Z_div_mod (M * 2 ^ sh) D ltac:(lia)) as E. rewrite Hdiv in E.
    destruct E as [E Hr].
    pose proof (Z.log2_spec M HM) as [LM1 LM2].
    pose proof (Z.log2_spec D HD) as [LD1 LD2].
    pose proof (Z.log2_nonneg M). pose proof (Z.log2_nonneg D).
    assert (P1 : D * 2 ^ 55 < 2 ^ (Z.log2 D + 56)).
    { replace (Z.log2 D + 56) with (Z.succ (Z.log2 D) + 55) by lia.
      rewrite Z.pow_add_r by lia.
      apply Z.mul_lt_mono_pos_r; [apply Z.pow_pos_nonneg; lia | assumption]. }
    assert (P2 : 2 ^ (Z.log2 D + 56) <= M * 2 ^ sh).
    { apply Z.le_trans with (2 ^ (Z.log2 M + sh)).
      - apply Z.pow_le_mono_r; lia.
      - rewrite Z.pow_add_r by lia.
        apply Z.mul_le_mono_nonneg_r; [apply Z.pow_nonneg; lia | assumption]. }
    assert (2 ^ 55 < q + 1) by nia. lia. }
  destruct q as [| pq | pq]; try (exfalso; lia).
  rewrite binary_round_aux_equiv.
  apply wrap_pf_correct.
  assert (Hin' : Bracket.inbetween_float radix2 (Z.pos pq) (- (sh + kk))
                   (Rabs (dec_real neg M (- kk)))
                   (if r =? 0 then loc_Exact else loc_Inexact (2 * r ?= D))).
  { rewrite dec_real_abs, bpow10_neg by lia.
    rewrite <- (pow5_eq kk) by lia. exact Hin. }
  assert (Hfe : - (sh + kk) <= fexp64 (Zdigits radix2 (Z.pos pq) + - (sh + kk))).
  { assert (55 < Zdigits radix2 (Z.pos pq)).
    { apply Zdigits_gt_Zpower. change (radix_val radix2) with 2. lia. }
    unfold SpecFloat.fexp. lia. }
  pose proof (binary_round_aux_correct 53 1024 Hprec64 Hmax64 mode_NE _ _ _ _ Hin' Hfe) as H.
  cbv zeta in H. rewrite (dec_real_sign neg M (- kk) HM) in H. exact H.
Qed.

#[local] Instance fexp64_valid : Valid_exp fexp64 := fexp_correct 53 1024 Hprec64.

Lemma cond_Zopp_mul neg a b :
  SpecFloat.cond_Zopp neg a * b = SpecFloat.cond_Zopp neg (a * b).
Proof. destruct neg; cbn [SpecFloat.cond_Zopp]; lia. Qed.

(* k >= 0: the exact integer M * 10^k goes through binary_normalize *)
Lemma dec_pos neg M k :
  0 < M -> 0 <= k ->
  pf_correct neg (dec_real neg M k)
    (wrap_pf (SpecFloat.binary_normalize 53 1024
                (if neg then - (M * pow10 k) else M * pow10 k) 0 neg)).
Proof.
  intros HM Hk. rewrite pow10_eq by assumption.
  set (V := M * 10 ^ k).
  assert (HV : 0 < V) by (apply Z.mul_pos_pos; [assumption | apply Z.pow_pos_nonneg; lia]).
  change (if neg then - V else V) with (SpecFloat.cond_Zopp neg V).
  rewrite binary_normalize_equiv.
  assert (Ex : dec_real neg M k = F2R (Float radix2 (SpecFloat.cond_Zopp neg V) 0)).
  { unfold dec_real, F2R. cbn [Fnum Fexp].
    rewrite <- (IZR_Zpower radix10) by assumption. change (radix_val radix10) with 10.
    rewrite <- mult_IZR, cond_Zopp_mul. fold V. cbn [bpow]. now rewrite Rmult_1_r. }
  pose proof (binary_normalize_correct 53 1024 Hprec64 Hmax64 mode_NE
                (SpecFloat.cond_Zopp neg V) 0 neg) as H.
  cbv zeta in H. rewrite <- Ex in H.
  apply wrap_pf_correct. split; [apply valid_binary_B2SF | ].
  change (round_mode mode_NE) with ZnearestE in H.
  destruct (Rlt_bool (Rabs (round64 (dec_real neg M k))) (bpow radix2 1024)).
  - destruct H as (H1 & H2 & H3). repeat split.
    + now rewrite SF2R_B2SF.
    + now rewrite is_finite_SF_B2SF.
    + match goal with |- sign_SF (B2SF ?z) = _ =>
        replace (sign_SF (B2SF z)) with (Bsign z) by (now destruct z) end.
      rewrite H3.
      pose proof (dec_real_sign neg M k HM) as Hs.
      destruct neg.
      * rewrite Rcompare_Lt; [reflexivity | ].
        destruct (Rlt_bool_spec (dec_real true M k) 0); [assumption | discriminate].
      * rewrite Rcompare_Gt; [reflexivity | ].
        unfold dec_real. apply F2R_gt_0. cbn [Fnum SpecFloat.cond_Zopp]. lia.
  - rewrite H. now rewrite dec_real_sign.
Qed.

(* k > 310: at least 10^311 > 2^1024 *)
Lemma dec_overflow neg M k :
  0 < M -> 310 < k -> pf_correct neg (dec_real neg M k) (PFRange (S754_infinity neg)).
Proof.
  intros HM Hk. unfold pf_correct.
  rewrite Rlt_bool_false; [reflexivity | ].
  apply abs_round_ge_generic; try typeclasses eauto.
  - apply generic_format_bpow. unfold SpecFloat.fexp, SpecFloat.emin. lia.
  - rewrite dec_real_abs by assumption.
    apply Rle_trans with (1 * bpow radix10 311)%R.
    + rewrite Rmult_1_l. rewrite <- (IZR_Zpower radix10), <- (IZR_Zpower radix2) by lia.
      apply IZR_le. apply Z.leb_le. vm_compute. reflexivity.
    + apply Rmult_le_compat.
      * lra.
      * apply bpow_ge_0.
      * apply IZR_le. lia.
      * apply bpow_le. lia.
Qed.

(* below 2^-1080: rounds to zero, which Go does not report as an error *)
Lemma dec_tiny neg M kk :
  0 < M -> 0 < kk -> Z.log2 M + 1081 < 3 * kk ->
  pf_correct neg (dec_real neg M (- kk)) (PFOk (S754_zero neg)).
Proof.
  intros HM Hkk Hsmall.
  set (y := (IZR M * bpow radix10 (- kk))%R).
  assert (Hy0 : (0 < y)%R).
  { apply Rmult_lt_0_compat; [apply IZR_lt; lia | apply bpow_gt_0]. }
  assert (Hylt : (y < bpow radix2 (- 1080))%R).
  { unfold y. rewrite bpow_opp.
    replace (bpow radix2 (- 1080)) with (/ bpow radix2 1080)%R
      by (symmetry; exact (bpow_opp radix2 1080)).
    rewrite <- (IZR_Zpower radix10), <- (IZR_Zpower radix2) by lia.
    change (radix_val radix10) with 10. change (radix_val radix2) with 2.
    assert (HZ : M * 2 ^ 1080 < 10 ^ kk).
    { pose proof (Z.log2_spec M HM) as [_ LM]. pose proof (Z.log2_nonneg M).
      apply Z.lt_le_trans with (2 ^ Z.succ (Z.log2 M) * 2 ^ 1080).
      - apply Z.mul_lt_mono_pos_r; [apply Z.pow_pos_nonneg; lia | assumption].
      - rewrite <- Z.pow_add_r by lia.
        apply Z.le_trans with (2 ^ (3 * kk)).
        + apply Z.pow_le_mono_r; lia.
        + rewrite Z.pow_mul_r by lia. change (2 ^ 3) with 8.
          apply Z.pow_le_mono_l. lia. }
    assert (H10 : (0 < IZR (10 ^ kk))%R) by (apply IZR_lt; apply Z.pow_pos_nonneg; lia).
    assert (H2 : (0 < IZR (2 ^ 1080))%R) by (apply IZR_lt; apply Z.pow_pos_nonneg; lia).
    apply Rmult_lt_reg_r with (IZR (10 ^ kk)); [assumption | ].
    apply Rmult_lt_reg_r with (IZR (2 ^ 1080)); [assumption | ].
    replace (IZR M * / IZR (10 ^ kk) * IZR (10 ^ kk) * IZR (2 ^ 1080))%R
      with (IZR (M * 2 ^ 1080)) by (rewrite mult_IZR; field; lra).
    replace (/ IZR (2 ^ 1080) * IZR (10 ^ kk) * IZR (2 ^ 1080))%R
      with (IZR (10 ^ kk)) by (field; lra).
    apply IZR_lt. exact HZ. }
  assert (Hry : round64 y = 0%R).
  { apply round_N_small_pos with (ex := mag radix2 y).
    - pose proof (bpow_mag_le radix2 y ltac:(lra)) as B1.
      pose proof (bpow_mag_gt radix2 y) as B2.
      rewrite Rabs_pos_eq in B1, B2 by lra. split; assumption.
    - assert (mag radix2 y <= - 1080)%Z.
      { apply mag_le_bpow; [lra | ]. rewrite Rabs_pos_eq by lra. exact Hylt. }
      unfold SpecFloat.fexp, SpecFloat.emin. lia. }
  assert (Hrx : round64 (dec_real neg M (- kk)) = 0%R).
  { unfold dec_real. destruct neg; cbn [SpecFloat.cond_Zopp].
    - rewrite F2R_Zopp, round_NE_opp. unfold F2R. cbn [Fnum Fexp]. fold y.
      rewrite Hry. lra.
    - unfold F2R. cbn [Fnum Fexp]. exact Hry. }
  unfold pf_correct. rewrite Hrx, Rabs_R0.
  rewrite Rlt_bool_true by apply bpow_gt_0.
  exists (S754_zero neg). repeat split; reflexivity.
Qed.

Lemma dec_to_f64_zero neg M k : M <= 0 -> dec_to_f64 neg M k = PFOk (S754_zero neg).
Proof. intros H. unfold dec_to_f64. now replace (M <=? 0) with true by lia. Qed.

(* (d) the numeric core of parse_float is correctly rounded: for M > 0,
   dec_to_f64 neg M k is round-to-nearest-even of (-1)^neg * M * 10^k, with overflow
   reported as PFRange (±Inf) and no error on underflow *)
Theorem dec_to_f64_correct neg M k :
  0 < M -> pf_correct neg (dec_real neg M k) (dec_to_f64 neg M k).
Proof.
  intros HM. unfold dec_to_f64.
  replace (M <=? 0) with false by lia.
  destruct (0 <=? k) eqn:Hk.
  - destruct (310 <? k) eqn:Hbig.
    + apply dec_overflow; lia.
    + apply (dec_pos neg M k); lia.
  - replace k with (- (- k)) at 1 by lia.
    destruct (Z.log2 M + 1081 <? 3 * - k) eqn:Hsmall.
    + apply dec_tiny; lia.
    + apply (dec_main neg M (- k)); lia.
Qed.

Print Assumptions dec_to_f64_correct.

Example dec_to_f64_correct_ex :
  dec_to_f64 false 1 (-1) = PFOk (S754_finite false 7205759403792794 (-56)).
Proof. vm_compute. reflexivity. Qed.

(* ------------------------------------------------------------------------------------ *)
(* (b) parse_float never produces NaN; results are valid binary64 values                 *)
(* ------------------------------------------------------------------------------------ *)

Lemma dec_to_f64_valid neg M k :
  match dec_to_f64 neg M k with
  | PFOk x => is_finite x = true /\ valid_f64 x = true
  | PFRange x => x = S754_infinity neg
  | PFSyntax => False
  end.
Proof.
  destruct (Z_lt_le_dec 0 M) as [HM | HM].
  - pose proof (dec_to_f64_correct neg M k HM) as H. unfold pf_correct in H.
    destruct (Rlt_bool _ _).
    + destruct H as (f & E & _ & F & _ & V). rewrite E. split; [ | exact V].
      destruct f; try discriminate F; reflexivity.
    + now rewrite H.
  - rewrite dec_to_f64_zero by assumption. split; reflexivity.
Qed.

Lemma parse_float_cases s :
  parse_float s = PFSyntax \/ exists neg M k, parse_float s = dec_to_f64 neg M k.
Proof.
  unfold parse_float.
  destruct (read_sign s) as [neg s1].
  destruct (read_digits s1 0 0) as [[m1 n1] s2].
  destruct (match s2 with
            | EmptyString => (m1, 0, s2)
            | String c r => if Ascii.eqb c "." then read_digits r m1 0 else (m1, 0, s2)
            end) as [[m2 n2] s3].
  destruct (n1 + n2 =? 0); [now left | ].
  destruct s3 as [| c r]; [right; eauto | ].
  destruct (Ascii.eqb c "e" || Ascii.eqb c "E"); [ | now left].
  destruct (read_sign r) as [eneg s4].
  destruct (read_digits s4 0 0) as [[ev en] s5].
  destruct (en =? 0); [now left | ].
  destruct s5; [right; eauto | now left].
Qed.

Theorem parse_float_valid s :
  match parse_float s with
  | PFOk x => is_finite x = true /\ is_nan x = false /\ valid_f64 x = true
  | PFRange x => is_inf x = true /\ is_nan x = false /\ valid_f64 x = true
  | PFSyntax => True
  end.
Proof.
  destruct (parse_float_cases s) as [E | (neg & M & k & E)]; rewrite E; [exact I | ].
  pose proof (dec_to_f64_valid neg M k) as H.
  destruct (dec_to_f64 neg M k) as [x | x | ].
  - destruct H as [F V]. repeat split; try assumption. destruct x; try discriminate F; reflexivity.
  - subst x. repeat split.
  - exact I.
Qed.

Example parse_float_valid_ex :
  parse_float "1e400" = PFRange (S754_infinity false) /\
  parse_float "-1e-400" = PFOk (S754_zero true) /\
  parse_float "x" = PFSyntax.
Proof. vm_compute. repeat split. Qed.

Print Assumptions parse_float_valid.

(* ------------------------------------------------------------------------------------ *)
(* parse_float on strings of the shape the formatters produce                           *)
(* ------------------------------------------------------------------------------------ *)

Definition sign_str (neg : bool) : string := if neg then "-" else "".

(* optional exponent part: None = absent, Some (eneg, ed) = "e" sign digits *)
Definition exp_str (ex : option (bool * string)) : string :=
  match ex with
  | None => ""
  | Some (eneg, ed) => "e" ++ (if eneg then "-" else "+") ++ ed
  end.
Definition exp_val (ex : option (bool * string)) : Z :=
  match ex with
  | None => 0
  | Some (eneg, ed) => if eneg then - dval ed 0 else dval ed 0
  end.
Definition exp_ok (ex : option (bool * string)) : Prop :=
  match ex with
  | None => True
  | Some (_, ed) => all_digits ed = true /\ ed <> EmptyString
  end.

Lemma exp_str_nondigit ex : nondigit_start (exp_str ex).
Proof. destruct ex as [[eneg ed] | ]; cbn; auto. Qed.

Lemma slen_pos s : s <> EmptyString -> (0 < slen s)%nat.
Proof. destruct s; [congruence | unfold slen; cbn; lia]. Qed.

(* the tail of parse_float after the mantissa has been read *)
Lemma parse_exp_tail neg m2 n2 ex :
  exp_ok ex ->
  match exp_str ex with
  | EmptyString => dec_to_f64 neg m2 (- n2)
  | String c r =>
      if Ascii.eqb c "e" || Ascii.eqb c "E" then
        let '(eneg, s4) := read_sign r in
        let '(ev, en, s5) := read_digits s4 0 0 in
        if en =? 0 then PFSyntax
        else match s5 with
             | EmptyString => dec_to_f64 neg m2 ((if eneg then - ev else ev) - n2)
             | String _ _ => PFSyntax
             end
      else PFSyntax
  end = dec_to_f64 neg m2 (exp_val ex - n2).
Proof.
  intros Hex. destruct ex as [[eneg ed] | ]; [ | reflexivity].
  destruct Hex as [Hd Hne].
  cbn [exp_str exp_val append].
  change (Ascii.eqb "e" "e" || Ascii.eqb "e" "E") with true. cbv iota.
  assert (Hs : read_sign ((if eneg then "-" else "+") ++ ed) = (eneg, ed)) by (now destruct eneg).
  rewrite Hs. rewrite read_digits_all by assumption.
  pose proof (slen_pos ed Hne).
  replace (0 + Z.of_nat (slen ed) =? 0) with false by lia.
  reflexivity.
Qed.

Lemma parse_float_shape neg ip hasdot fp ex :
  all_digits ip = true -> all_digits fp = true ->
  (ip <> EmptyString \/ fp <> EmptyString) -> (hasdot = false -> fp = EmptyString) ->
  exp_ok ex ->
  parse_float (sign_str neg ++ ip ++ (if hasdot then "." ++ fp else "") ++ exp_str ex) =
  dec_to_f64 neg (dval (ip ++ fp) 0) (exp_val ex - Z.of_nat (slen fp)).
Proof.
  intros Hip Hfp Hne Hdot Hex.
  set (rest2 := (if hasdot then "." ++ fp else "") ++ exp_str ex).
  assert (Hnd2 : nondigit_start rest2).
  { unfold rest2. destruct hasdot; [exact eq_refl | apply exp_str_nondigit]. }
  (* sign *)
  assert (Hsign : read_sign (sign_str neg ++ ip ++ rest2) = (neg, ip ++ rest2)).
  { destruct neg; [reflexivity | ]. cbn [sign_str append].
    destruct ip as [| c ip].
    - cbn [append]. unfold rest2.
      destruct hasdot; [reflexivity | ].
      rewrite (Hdot eq_refl) in Hne. destruct Hne; congruence.
    - cbn [all_digits] in Hip. apply andb_true_iff in Hip as [Hc _].
      destruct (is_digit_not_sign c Hc) as [S1 S2].
      cbn [append read_sign]. now rewrite S1, S2. }
  unfold parse_float. rewrite Hsign.
  rewrite read_digits_app by assumption.
  rewrite dval_app.
  set (m1 := dval ip 0).
  replace (0 + Z.of_nat (slen ip)) with (Z.of_nat (slen ip)) by lia.
  destruct hasdot.
  - unfold rest2. cbn [append]. change (Ascii.eqb "." ".") with true. cbv iota.
    rewrite read_digits_app by (try assumption; apply exp_str_nondigit).
    replace (Z.of_nat (slen ip) + (0 + Z.of_nat (slen fp)) =? 0) with false.
    2:{ destruct Hne as [Hne | Hne]; apply slen_pos in Hne; lia. }
    replace (0 + Z.of_nat (slen fp)) with (Z.of_nat (slen fp)) by lia.
    apply parse_exp_tail. assumption.
  - rewrite (Hdot eq_refl) in *. cbn [dval slen String.length].
    unfold rest2. cbn [append].
    assert (Hm : match exp_str ex with
                 | EmptyString => (m1, 0, exp_str ex)
                 | String c r => if Ascii.eqb c "." then read_digits r m1 0 else (m1, 0, exp_str ex)
                 end = (m1, 0, exp_str ex)).
    { destruct ex as [[eneg ed] | ]; reflexivity. }
    rewrite Hm.
    replace (Z.of_nat (slen ip) + 0 =? 0) with false.
    2:{ destruct Hne as [Hne | Hne]; [apply slen_pos in Hne; lia | congruence]. }
    change (Z.of_nat 0) with 0. rewrite <- (parse_exp_tail neg m1 0 ex Hex).
    reflexivity.
Qed.

(* ------------------------------------------------------------------------------------ *)
(* the shapes produced by fmtE / fmtF for shortest digits                               *)
(* ------------------------------------------------------------------------------------ *)

Lemma zeros_spec n : forall acc,
  all_digits (srepeat "0" n) = true /\ dval (srepeat "0" n) acc = acc * 10 ^ Z.of_nat n /\
  slen (srepeat "0" n) = n.
Proof.
  induction n as [| n IH]; intros acc.
  - cbn. repeat split. lia.
  - cbn [srepeat append all_digits dval]. destruct (IH (10 * acc + digit_val "0")) as (A & V & L).
    repeat split.
    + now rewrite A.
    + rewrite V. change (digit_val "0") with 0.
      rewrite Nat2Z.inj_succ, Z.pow_succ_r by lia. lia.
    + unfold slen in *. cbn [String.length]. now rewrite L.
Qed.

Lemma zeros_0 j : j <= 0 -> zeros j = EmptyString.
Proof. intros H. unfold zeros. destruct j; try lia; reflexivity. Qed.

Lemma stake_all n : forall s, (slen s <= n)%nat -> stake n s = s.
Proof.
  induction n as [| n IH]; intros [| c s] H; unfold slen in *; cbn in *; try reflexivity; try lia.
  rewrite IH; [reflexivity | unfold slen; lia].
Qed.

Lemma all_digits_split n s :
  all_digits s = true -> all_digits (stake n s) = true /\ all_digits (sdrop n s) = true.
Proof.
  intros H. rewrite <- (stake_sdrop n s), all_digits_app in H.
  now apply andb_true_iff in H.
Qed.

Lemma digits_of_Z_spec c :
  0 < c ->
  all_digits (digits_of_Z c) = true /\ digits_of_Z c <> EmptyString /\ dval (digits_of_Z c) 0 = c.
Proof.
  intros Hc. unfold digits_of_Z. replace (c <=? 0) with false by lia.
  destruct (int_digits_spec _ c EmptyString (log2_fuel c ltac:(lia))) as (ds & E & A & N & V).
  rewrite E, sapp_nil_r. auto.
Qed.

Lemma exp_digits_spec a :
  0 <= a ->
  all_digits (exp_digits a) = true /\ exp_digits a <> EmptyString /\ dval (exp_digits a) 0 = a.
Proof.
  intros Ha. unfold exp_digits, format_int. replace (a <? 0) with false by lia.
  destruct (int_digits_spec _ a EmptyString (log2_fuel a Ha)) as (ds & E & A & N & V).
  rewrite E, sapp_nil_r.
  destruct (a <? 10); repeat split; try assumption; try discriminate.
Qed.

Lemma fmtE_shape neg d1 rest dp :
  fmtE neg (String d1 rest) dp (Z.of_nat (slen (String d1 rest)) - 1) =
  sign_str neg ++ String d1 "" ++
  (if match rest with EmptyString => false | _ => true end then "." ++ rest else "") ++
  exp_str (Some (dp - 1 <? 0, exp_digits (Z.abs (dp - 1)))).
Proof.
  unfold fmtE, sign_str, exp_str.
  assert (L : Z.of_nat (slen (String d1 rest)) = Z.of_nat (slen rest) + 1).
  { unfold slen. cbn [String.length]. lia. }
  rewrite L. replace (Z.of_nat (slen rest) + 1 =? 0) with false by lia.
  replace (Z.of_nat (slen rest) + 1 - 1) with (Z.of_nat (slen rest)) by lia.
  f_equal. f_equal. f_equal.
  destruct rest as [| c rest].
  - reflexivity.
  - replace (0 <? Z.of_nat (slen (String c rest))) with true
      by (unfold slen; cbn [String.length]; lia).
    rewrite Nat2Z.id. cbn [sdrop].
    rewrite stake_all by lia.
    rewrite zeros_0 by lia. now rewrite sapp_nil_r.
Qed.

Lemma fmtF_shape_small neg ds dp :
  ds <> EmptyString -> dp <= 0 ->
  fmtF neg ds dp (Z.max (Z.of_nat (slen ds) - dp) 0) =
  sign_str neg ++ "0" ++ ("." ++ zeros (- dp) ++ ds) ++ exp_str None.
Proof.
  intros Hne Hdp. pose proof (slen_pos ds Hne) as Hl.
  unfold fmtF, sign_str, exp_str.
  replace (0 <? dp) with false by lia.
  rewrite Z.max_l by lia.
  replace (0 <? Z.of_nat (slen ds) - dp) with true by lia.
  replace (Z.min (Z.of_nat (slen ds) - dp) (Z.max 0 (- dp))) with (- dp) by lia.
  replace (Z.max dp 0) with 0 by lia.
  replace (Z.of_nat (slen ds) - dp - - dp) with (Z.of_nat (slen ds)) by lia.
  rewrite Nat2Z.id. change (Z.to_nat 0) with 0%nat. cbn [sdrop].
  rewrite stake_all by lia.
  rewrite (zeros_0 (Z.of_nat (slen ds) - Z.of_nat (slen ds))) by lia.
  now rewrite !sapp_nil_r.
Qed.

Lemma fmtF_shape_mid neg ds dp :
  0 < dp < Z.of_nat (slen ds) ->
  fmtF neg ds dp (Z.max (Z.of_nat (slen ds) - dp) 0) =
  sign_str neg ++ stake (Z.to_nat dp) ds ++ ("." ++ sdrop (Z.to_nat dp) ds) ++ exp_str None.
Proof.
  intros Hdp.
  unfold fmtF, sign_str, exp_str.
  replace (0 <? dp) with true by lia.
  rewrite Z.max_l by lia.
  replace (0 <? Z.of_nat (slen ds) - dp) with true by lia.
  replace (Z.min (Z.of_nat (slen ds)) dp) with dp by lia.
  replace (Z.min (Z.of_nat (slen ds) - dp) (Z.max 0 (- dp))) with 0 by lia.
  replace (Z.max dp 0) with dp by lia.
  rewrite (zeros_0 (dp - dp)) by lia. rewrite (zeros_0 0) by lia.
  rewrite (stake_all (Z.to_nat (Z.of_nat (slen ds) - dp - 0)) (sdrop (Z.to_nat dp) ds))
    by (rewrite slen_sdrop; lia).
  rewrite zeros_0 by (rewrite slen_sdrop; lia).
  cbn [append]. now rewrite !sapp_nil_r.
Qed.

Lemma fmtF_shape_big neg ds dp :
  ds <> EmptyString -> Z.of_nat (slen ds) <= dp ->
  fmtF neg ds dp (Z.max (Z.of_nat (slen ds) - dp) 0) =
  sign_str neg ++ (ds ++ zeros (dp - Z.of_nat (slen ds))) ++ "" ++ exp_str None.
Proof.
  intros Hne Hdp. pose proof (slen_pos ds Hne) as Hl.
  unfold fmtF, sign_str, exp_str.
  replace (0 <? dp) with true by lia.
  rewrite Z.max_r by lia. change (0 <? 0) with false. cbv iota.
  replace (Z.min (Z.of_nat (slen ds)) dp) with (Z.of_nat (slen ds)) by lia.
  rewrite Nat2Z.id, stake_all by lia.
  now rewrite !sapp_nil_r.
Qed.

(* ------------------------------------------------------------------------------------ *)
(* encoding/json's exponent clean-up                                                    *)
(* ------------------------------------------------------------------------------------ *)

Fixpoint no_e (s : string) : bool :=
  match s with
  | String c r => negb (Ascii.eqb c "e") && no_e r
  | EmptyString => true
  end.

Lemma no_e_app a b : no_e (a ++ b) = no_e a && no_e b.
Proof.
  induction a as [| c a IH]; cbn [append no_e]; [reflexivity | ].
  now rewrite IH, andb_assoc.
Qed.

Lemma all_digits_no_e s : all_digits s = true -> no_e s = true.
Proof.
  induction s as [| c s IH]; cbn [all_digits no_e]; [reflexivity | ].
  intros H. apply andb_true_iff in H as [Hc Hs].
  destruct (is_digit_not_dot_e c Hc) as (_ & E & _). now rewrite E, IH.
Qed.

Lemma json_cleanup_step a r :
  Ascii.eqb a "e" = false -> json_cleanup (String a r) = String a (json_cleanup r).
Proof.
  intros H.
  destruct r as [| b [| c [| d [| x r']]]]; cbn [json_cleanup]; rewrite ?H; reflexivity.
Qed.

Lemma json_cleanup_noe pre : forall t,
  no_e pre = true -> json_cleanup (pre ++ t) = pre ++ json_cleanup t.
Proof.
  induction pre as [| a pre IH]; intros t H; [reflexivity | ].
  cbn [no_e] in H. apply andb_true_iff in H as [Ha Hp].
  cbn [append]. rewrite json_cleanup_step by (now destruct (Ascii.eqb a "e")).
  now rewrite IH.
Qed.

Lemma json_cleanup_id s : no_e s = true -> json_cleanup s = s.
Proof.
  intros H. rewrite <- (sapp_nil_r s) at 1. rewrite json_cleanup_noe by assumption.
  cbn [json_cleanup]. apply sapp_nil_r.
Qed.

Lemma json_cleanup_exp eneg ed :
  all_digits ed = true -> ed <> EmptyString ->
  exists ed', json_cleanup (exp_str (Some (eneg, ed))) = exp_str (Some (eneg, ed')) /\
              all_digits ed' = true /\ ed' <> EmptyString /\ dval ed' 0 = dval ed 0.
Proof.
  intros Hd Hne.
  assert (Hid : no_e (String (if eneg then "-" else "+")%char ed) = true).
  { cbn [no_e]. rewrite (all_digits_no_e ed Hd). now destruct eneg. }
  assert (Hsame : json_cleanup (String "e" (String (if eneg then "-" else "+")%char ed)) =
                  String "e" (String (if eneg then "-" else "+")%char ed) ->
                  exists ed', json_cleanup (exp_str (Some (eneg, ed))) = exp_str (Some (eneg, ed')) /\
                    all_digits ed' = true /\ ed' <> EmptyString /\ dval ed' 0 = dval ed 0).
  { intros E. exists ed. repeat split; try assumption.
    unfold exp_str. destruct eneg; exact E. }
  destruct ed as [| c [| d [| x ed']]].
  - congruence.
  - apply Hsame. destruct eneg; reflexivity.
  - (* exactly two exponent digits: the only case the clean-up can fire *)
    destruct eneg.
    + destruct (Ascii.eqb c "0") eqn:Ec.
      * exists (String d EmptyString).
        cbn [all_digits] in Hd. apply andb_true_iff in Hd as [Hc Hd].
        repeat split.
        -- unfold exp_str. cbn [append json_cleanup].
           change (Ascii.eqb "e" "e") with true. change (Ascii.eqb "-" "-") with true.
           rewrite Ec. reflexivity.
        -- exact Hd.
        -- discriminate.
        -- apply Ascii.eqb_eq in Ec. subst c. reflexivity.
      * apply Hsame. cbn [json_cleanup].
        change (Ascii.eqb "e" "e") with true. change (Ascii.eqb "-" "-") with true.
        rewrite Ec. cbn [andb].
        first [reflexivity | f_equal; apply json_cleanup_id; exact Hid].
    + apply Hsame. cbn [json_cleanup].
      change (Ascii.eqb "+" "-") with false. cbn [andb].
      first [reflexivity | f_equal; apply json_cleanup_id; exact Hid].
  - apply Hsame.
    change (json_cleanup (String "e" (String (if eneg then "-" else "+")%char
                                             (String c (String d (String x ed'))))))
      with (String "e" (json_cleanup (String (if eneg then "-" else "+")%char
                                             (String c (String d (String x ed')))))).
    f_equal. apply json_cleanup_id. exact Hid.
Qed.

(* ------------------------------------------------------------------------------------ *)
(* (c) round trips, relative to the read-back check shortest_digits_ok                  *)
(* ------------------------------------------------------------------------------------ *)

Section RoundTrip.
  Variables (neg : bool) (c k : Z).
  Hypothesis Hc : 0 < c.
  Let ds := digits_of_Z c.
  Let dp := Z.of_nat (slen ds) + k.

  Lemma parse_fmtE :
    parse_float (fmtE neg ds dp (Z.of_nat (slen ds) - 1)) = dec_to_f64 neg c k /\
    parse_float (json_cleanup (fmtE neg ds dp (Z.of_nat (slen ds) - 1))) = dec_to_f64 neg c k.
  Proof.
    destruct (digits_of_Z_spec c Hc) as (A & N & V). fold ds in A, N, V.
    unfold dp. clearbody ds. destruct ds as [| d1 rest]; [congruence | ].
    rewrite fmtE_shape.
    set (hasdot := match rest with EmptyString => false | _ => true end).
    set (e1 := Z.of_nat (slen (String d1 rest)) + k - 1).
    destruct (exp_digits_spec (Z.abs e1) ltac:(lia)) as (EA & EN & EV).
    cbn [all_digits] in A. apply andb_true_iff in A as [Hd1 Hrest].
    assert (Hip : all_digits (String d1 "") = true) by (cbn [all_digits]; now rewrite Hd1).
    assert (Hdot : hasdot = false -> rest = EmptyString) by (unfold hasdot; now destruct rest).
    assert (Hk : forall ed, dval ed 0 = Z.abs e1 ->
                 exp_val (Some (e1 <? 0, ed)) - Z.of_nat (slen rest) = k).
    { intros ed Hv. cbn [exp_val]. rewrite Hv. unfold e1, slen. cbn [String.length].
      destruct (_ <? 0) eqn:E; lia. }
    split.
    - rewrite parse_float_shape; try assumption.
      + cbn [append]. rewrite V. now rewrite Hk.
      + left; discriminate.
      + split; assumption.
    - replace (sign_str neg ++ String d1 "" ++ (if hasdot then "." ++ rest else "") ++
               exp_str (Some (e1 <? 0, exp_digits (Z.abs e1))))
        with ((sign_str neg ++ String d1 "" ++ (if hasdot then "." ++ rest else "")) ++
              exp_str (Some (e1 <? 0, exp_digits (Z.abs e1))))
        by (now rewrite !sapp_assoc).
      rewrite json_cleanup_noe.
      2:{ rewrite !no_e_app. rewrite (all_digits_no_e _ Hip).
          replace (no_e (sign_str neg)) with true by (now destruct neg).
          destruct hasdot; [ | reflexivity].
          rewrite no_e_app, (all_digits_no_e _ Hrest). reflexivity. }
      destruct (json_cleanup_exp (e1 <? 0) _ EA EN) as (ed' & E' & A' & N' & V').
      rewrite E', !sapp_assoc.
      rewrite parse_float_shape; try assumption.
      + cbn [append]. rewrite V. rewrite Hk; [reflexivity | ]. now rewrite V'.
      + left; discriminate.
      + split; assumption.
  Qed.

  Lemma dec_to_f64_scale j :
    0 <= j <= 310 -> dec_to_f64 neg (c * 10 ^ j) 0 = dec_to_f64 neg c j.
  Proof.
    intros Hj. unfold dec_to_f64.
    assert (0 < c * 10 ^ j) by (apply Z.mul_pos_pos; [assumption | apply Z.pow_pos_nonneg; lia]).
    replace (c * 10 ^ j <=? 0) with false by lia.
    replace (c <=? 0) with false by lia.
    replace (0 <=? j) with true by lia.
    replace (310 <? j) with false by lia.
    cbn [Z.leb Z.ltb Z.compare].
    rewrite !pow10_eq by lia. now rewrite Z.pow_0_r, Z.mul_1_r.
  Qed.

  Lemma parse_fmtF :
    k <= 310 ->
    parse_float (fmtF neg ds dp (Z.max (Z.of_nat (slen ds) - dp) 0)) = dec_to_f64 neg c k.
  Proof.
    intros Hk.
    destruct (digits_of_Z_spec c Hc) as (A & N & V). fold ds in A, N, V.
    pose proof (slen_pos ds N) as Hl.
    destruct (Z_le_gt_dec dp 0) as [H1 | H1]; [ | destruct (Z_lt_le_dec dp (Z.of_nat (slen ds))) as [H2 | H2]].
    - (* 0.000ddd *)
      rewrite fmtF_shape_small by assumption.
      destruct (zeros_spec (Z.to_nat (- dp)) 0) as (ZA & ZV & ZL).
      rewrite (parse_float_shape neg "0" true (zeros (- dp) ++ ds) None).
      + rewrite !dval_app. cbn [dval]. change (10 * 0 + digit_val "0") with 0.
        unfold zeros. rewrite ZV, Z.mul_0_l, V.
        cbn [exp_val]. rewrite slen_app, ZL, Nat2Z.inj_add, Z2Nat.id by lia.
        f_equal. unfold dp in *. lia.
      + reflexivity.
      + rewrite all_digits_app. unfold zeros. now rewrite ZA, A.
      + left; discriminate.
      + discriminate.
      + exact I.
    - (* ddd.ddd *)
      rewrite fmtF_shape_mid by lia.
      destruct (all_digits_split (Z.to_nat dp) ds A) as [A1 A2].
      rewrite (parse_float_shape neg _ true _ None); try assumption.
      + rewrite stake_sdrop, V. cbn [exp_val]. rewrite slen_sdrop.
        f_equal. unfold dp in *. lia.
      + right. intros E. apply (f_equal slen) in E. rewrite slen_sdrop in E.
        unfold slen in E at 2. cbn [String.length] in E. lia.
      + discriminate.
      + exact I.
    - (* ddd000 *)
      rewrite fmtF_shape_big by assumption.
      destruct (zeros_spec (Z.to_nat (dp - Z.of_nat (slen ds))) c) as (ZA & ZV & ZL).
      rewrite (parse_float_shape neg _ false "" None).
      + rewrite sapp_nil_r, dval_app, V. unfold zeros. rewrite ZV.
        cbn [exp_val slen String.length]. rewrite Z2Nat.id by lia.
        replace (dp - Z.of_nat (slen ds)) with k by (unfold dp; lia).
        change (0 - Z.of_nat 0) with 0.
        apply dec_to_f64_scale. unfold dp in *. lia.
      + rewrite all_digits_app. unfold zeros. now rewrite ZA, A.
      + reflexivity.
      + left. destruct ds; [congruence | discriminate].
      + reflexivity.
      + exact I.
  Qed.
End RoundTrip.

Lemma ok_facts s m e :
  shortest_digits_ok (S754_finite s m e) = true ->
  exists c k, shortest_core m e = (c, k) /\
              dec_to_f64 s c k = PFOk (S754_finite s m e) /\ 0 < c /\ k <= 310.
Proof.
  unfold shortest_digits_ok. destruct (shortest_core m e) as [c k].
  destruct (dec_to_f64 s c k) as [x | x | ] eqn:E; try discriminate.
  destruct x as [s' | s' | | s' m' e']; try discriminate.
  intros H. apply andb_true_iff in H as [H He]. apply andb_true_iff in H as [Hs Hm].
  apply Bool.eqb_prop in Hs. apply Z.eqb_eq in Hm, He. injection Hm as Hm. subst s' m' e'.
  exists c, k. repeat split; try assumption.
  - destruct (Z_lt_le_dec 0 c) as [Hc | Hc]; [assumption | ].
    rewrite dec_to_f64_zero in E by assumption. discriminate.
  - destruct (Z_le_gt_dec k 310) as [Hk | Hk]; [assumption | exfalso].
    destruct (Z_lt_le_dec 0 c) as [Hc | Hc].
    + unfold dec_to_f64 in E.
      replace (c <=? 0) with false in E by lia.
      replace (0 <=? k) with true in E by lia.
      replace (310 <? k) with true in E by lia. discriminate.
    + rewrite dec_to_f64_zero in E by assumption. discriminate.
Qed.

Lemma shortest_digits_finite s m e c k :
  shortest_core m e = (c, k) ->
  shortest_digits (S754_finite s m e) =
  (digits_of_Z c, Z.of_nat (slen (digits_of_Z c)) + k).
Proof. intros E. unfold shortest_digits. now rewrite E. Qed.

(* The theorems below are relative to [shortest_digits_ok x = true], i.e. to the fact that
   the decimal (C, K) computed by the Ryu-style interval search [shortest_core] is read back
   by [dec_to_f64] as x itself.  They are axiom-free and establish that the textual layouts
   of %e / %f / %g / JSON (digit placement, zero padding, exponent sign and width, the
   e-09 -> e-9 clean-up) are parsed back by parse_float to exactly the decimal that was
   searched.  The hypothesis is decidable (it was also checked by vm_compute on every finite
   non-zero validation vector) and is PROVED for every valid binary64 further down
   ([shortest_digits_ok_valid]), which gives the unconditional [parse_format_json] etc. *)

Theorem parse_format_e_partial x :
  shortest_digits_ok x = true -> parse_float (format_float_e x) = PFOk x.
Proof.
  destruct x as [s | s | | s m e]; try discriminate. intros Hok.
  destruct (ok_facts s m e Hok) as (c & k & Ecore & Edec & Hc & Hk).
  unfold format_float_e. cbn [fmt_special sign_bit].
  rewrite (shortest_digits_finite s m e c k Ecore).
  destruct (digits_of_Z_spec c Hc) as (_ & N & _). pose proof (slen_pos _ N).
  rewrite Z.max_l by lia.
  rewrite (proj1 (parse_fmtE s c k Hc)). exact Edec.
Qed.

Theorem parse_format_f_partial x :
  shortest_digits_ok x = true -> parse_float (format_float_f x) = PFOk x.
Proof.
  destruct x as [s | s | | s m e]; try discriminate. intros Hok.
  destruct (ok_facts s m e Hok) as (c & k & Ecore & Edec & Hc & Hk).
  unfold format_float_f. cbn [fmt_special sign_bit].
  rewrite (shortest_digits_finite s m e c k Ecore).
  rewrite (parse_fmtF s c k Hc Hk). exact Edec.
Qed.

Theorem parse_format_g_partial x :
  shortest_digits_ok x = true -> parse_float (format_float_g x) = PFOk x.
Proof.
  destruct x as [s | s | | s m e]; try discriminate. intros Hok.
  destruct (ok_facts s m e Hok) as (c & k & Ecore & Edec & Hc & Hk).
  unfold format_float_g. cbn [fmt_special sign_bit].
  rewrite (shortest_digits_finite s m e c k Ecore).
  destruct (_ || _).
  - rewrite (proj1 (parse_fmtE s c k Hc)). exact Edec.
  - rewrite (parse_fmtF s c k Hc Hk). exact Edec.
Qed.

Theorem parse_format_json_partial x :
  shortest_digits_ok x = true -> parse_float (format_json_number x) = PFOk x.
Proof.
  destruct x as [s | s | | s m e] eqn:Ex; try discriminate. intros Hok.
  unfold format_json_number. cbn [fmt_special].
  destruct (_ && _).
  - destruct (ok_facts s m e Hok) as (c & k & Ecore & Edec & Hc & Hk).
    unfold format_float_e. cbn [fmt_special sign_bit].
    rewrite (shortest_digits_finite s m e c k Ecore).
    destruct (digits_of_Z_spec c Hc) as (_ & N & _). pose proof (slen_pos _ N).
    rewrite Z.max_l by lia.
    rewrite (proj2 (parse_fmtE s c k Hc)). exact Edec.
  - apply parse_format_f_partial. exact Hok.
Qed.

(* the hypothesis is satisfiable on non-trivial instances, e.g. 0.1, 5e-324, 2^53+2, 1e23 *)
Example shortest_digits_ok_ex :
  forallb (fun b => shortest_digits_ok (f_of_bits b))
    [0x3fb999999999999a; 1; 0x4340000000000001; 0x44b52d02c7e14af6; 0x7fefffffffffffff;
     0xbeb0c6f7a0b5ed8d] = true.
Proof. vm_compute. reflexivity. Qed.

Example parse_format_json_ex :
  format_json_number (f_of_bits 0xbeb0c6f7a0b5ed8c) = "-9.999999999999997e-7"%string /\
  parse_float "-9.999999999999997e-7" = PFOk (f_of_bits 0xbeb0c6f7a0b5ed8c).
Proof. vm_compute. split; reflexivity. Qed.

Print Assumptions parse_format_e_partial.
Print Assumptions parse_format_f_partial.
Print Assumptions parse_format_g_partial.
Print Assumptions parse_format_json_partial.

(* ------------------------------------------------------------------------------------ *)
(* the interval search of shortest_core stays inside the rounding interval              *)
(* ------------------------------------------------------------------------------------ *)

Lemma ryu_trim_inv fuel : forall l c u c0 cn t c' u' c0' cn' t',
  l <= c <= u ->
  ryu_trim fuel l c u c0 cn t = (c', u', c0', cn', t') ->
  exists l', l' <= c' <= u' /\ t <= t' /\
             (forall i, l' <= i <= u' -> l <= i * 10 ^ (t' - t) <= u).
Proof.
  induction fuel as [| fuel IH]; intros l c u c0 cn t c' u' c0' cn' t' Hlcu E.
  - cbn [ryu_trim] in E. injection E as <- <- _ _ <-.
    exists l. repeat split; try lia; rewrite Z.sub_diag; lia.
  - cbn [ryu_trim] in E.
    pose proof (Z.div_mod (l + 9) 10 ltac:(lia)) as Dl.
    pose proof (Z.mod_pos_bound (l + 9) 10 ltac:(lia)) as Bl.
    pose proof (Z.div_mod c 10 ltac:(lia)) as Dc.
    pose proof (Z.mod_pos_bound c 10 ltac:(lia)) as Bc.
    pose proof (Z.div_mod u 10 ltac:(lia)) as Du.
    pose proof (Z.mod_pos_bound u 10 ltac:(lia)) as Bu.
    destruct (u / 10 <? (l + 9) / 10) eqn:Hstop.
    + injection E as <- <- _ _ <-.
      exists l. repeat split; try lia; rewrite Z.sub_diag; lia.
    + apply IH in E.
      * destruct E as (l' & Hc' & Ht & Hall).
        exists l'. repeat split; try lia.
        -- specialize (Hall i H).
           replace (t' - t) with (Z.succ (t' - (t + 1))) by lia.
           rewrite Z.pow_succ_r by lia. lia.
        -- specialize (Hall i H).
           replace (t' - t) with (Z.succ (t' - (t + 1))) by lia.
           rewrite Z.pow_succ_r by lia. lia.
      * destruct ((((l + 9) / 10 =? c / 10 + 1) && (c / 10 <? u / 10))) eqn:Hb; lia.
Qed.

Lemma pick_bounds l' c' u' (b : bool) :
  l' <= c' <= u' -> l' <= (if (c' <? u') && b then c' + 1 else c') <= u'.
Proof. intros H. destruct b; destruct (c' <? u') eqn:E; cbn [andb]; lia. Qed.

Lemma ryu_select_inv fuel l c u c0 cup cf t :
  l <= c <= u -> ryu_select fuel l c u c0 cup = (cf, t) -> 0 <= t /\ l <= cf * 10 ^ t <= u.
Proof.
  intros Hlcu E. unfold ryu_select in E.
  destruct (ryu_trim fuel l c u c0 0 0) as [[[[c' u'] c0'] cn'] t'] eqn:Et.
  destruct (ryu_trim_inv _ _ _ _ _ _ _ _ _ _ _ _ Hlcu Et) as (l' & Hc' & Ht & Hall).
  apply pair_equal_spec in E as [Ecf Et']. subst cf t.
  split; [lia | ].
  match goal with
  | |- _ <= (if (c' <? u') && ?b then _ else _) * _ <= _ =>
      pose proof (Hall _ (pick_bounds l' c' u' b Hc')) as H
  end.
  rewrite Z.sub_0_r in H. exact H.
Qed.

Lemma strip10_inv fuel : forall c cnt cs z,
  strip10 fuel c cnt = (cs, z) -> cnt <= z /\ cs * 10 ^ (z - cnt) = c.
Proof.
  induction fuel as [| fuel IH]; intros c cnt cs z E; cbn [strip10] in E.
  - injection E as <- <-. rewrite Z.sub_diag. lia.
  - destruct ((c mod 10 =? 0) && (0 <? c)) eqn:Hb.
    + apply IH in E. destruct E as [Hz Hv]. split; [lia | ].
      replace (z - cnt) with (Z.succ (z - (cnt + 1))) by lia.
      rewrite Z.pow_succ_r by lia.
      pose proof (Z.div_mod c 10 ltac:(lia)). lia.
    + injection E as <- <-. rewrite Z.sub_diag. lia.
Qed.

(* the unit W / B = 2^e2 * 10^q of ryu_scale, as functions of e2 *)
Definition ryu_q (e2 : Z) : Z := Z.shiftr ((- e2) * 78913) 18 + 1.
Definition ryu_W (e2 : Z) : Z := Z.shiftl (pow5 (ryu_q e2)) (Z.max (e2 + ryu_q e2) 0).
Definition ryu_B (e2 : Z) : Z := Z.shiftl (pow5 (- ryu_q e2)) (Z.max (- (e2 + ryu_q e2)) 0).

Definition ryu_border (m : positive) (e : Z) : bool := (Zpos m =? 2 ^ 52) && (-1074 <? e).
Definition ryu_e2 (m : positive) (e : Z) : Z := if ryu_border m e then e - 2 else e - 1.
Definition ryu_Nc (m : positive) (e : Z) : Z := if ryu_border m e then 4 * Zpos m else 2 * Zpos m.
Definition ryu_Nl (m : positive) (e : Z) : Z := ryu_Nc m e - 1.
Definition ryu_Nu (m : positive) (e : Z) : Z :=
  if ryu_border m e then 4 * Zpos m + 2 else 2 * Zpos m + 1.

Lemma ryu_scale_eq m e :
  ryu_scale m e =
  (ryu_Nl m e * ryu_W (ryu_e2 m e), ryu_Nc m e * ryu_W (ryu_e2 m e),
   ryu_Nu m e * ryu_W (ryu_e2 m e), ryu_B (ryu_e2 m e), ryu_q (ryu_e2 m e)).
Proof.
  unfold ryu_scale, ryu_Nl, ryu_Nc, ryu_Nu, ryu_e2, ryu_W, ryu_B, ryu_q.
  fold (ryu_border m e).
  destruct (ryu_border m e).
  - set (e2 := e - 2). set (q := Z.shiftr _ 18 + 1). set (sa := Z.max (e2 + q) 0).
    rewrite !Z.shiftl_mul_pow2 by lia.
    repeat match goal with |- (_, _) = (_, _) => apply f_equal2 end; try reflexivity;
      rewrite ?Z.pow_add_r by lia; ring.
  - set (e2 := e - 1). set (q := Z.shiftr _ 18 + 1). set (sa := Z.max (e2 + q) 0).
    rewrite !Z.shiftl_mul_pow2 by lia.
    repeat match goal with |- (_, _) = (_, _) => apply f_equal2 end; try reflexivity;
      rewrite ?Z.pow_add_r by lia; ring.
Qed.

Fixpoint all_range (n : nat) (lo : Z) (f : Z -> bool) : bool :=
  match n with
  | O => true
  | S n' => f lo && all_range n' (lo + 1) f
  end.

Lemma all_range_spec n : forall lo f,
  all_range n lo f = true -> forall z, lo <= z < lo + Z.of_nat n -> f z = true.
Proof.
  induction n as [| n IH]; intros lo f H z Hz; [lia | ].
  cbn [all_range] in H. apply andb_true_iff in H as [H0 H1].
  destruct (Z.eq_dec z lo) as [-> | Hne]; [assumption | ].
  apply (IH (lo + 1) f H1). lia.
Qed.

(* 10^q > 2^-e2 for every exponent of a binary64, checked exhaustively *)
Lemma ryu_WB_all :
  all_range 2047 (-1076) (fun e2 => (ryu_B e2 <=? ryu_W e2) && (0 <? ryu_B e2)) = true.
Proof. vm_compute. reflexivity. Qed.

Lemma ryu_WB e2 : -1076 <= e2 <= 970 -> 0 < ryu_B e2 <= ryu_W e2.
Proof.
  intros H. pose proof (all_range_spec _ _ _ ryu_WB_all e2 ltac:(lia)) as Hb.
  cbv beta in Hb. lia.
Qed.

Lemma core_interval fuel m e cs K :
  -1074 <= e <= 971 ->
  shortest_core_fuel fuel m e = (cs, K) ->
  let e2 := ryu_e2 m e in
  let V := cs * 10 ^ (K + ryu_q e2) * ryu_B e2 in
  0 < cs /\ 0 <= K + ryu_q e2 /\
  ryu_Nl m e * ryu_W e2 <= V <= ryu_Nu m e * ryu_W e2 /\
  (Z.even (Zpos m) = false -> ryu_Nl m e * ryu_W e2 < V < ryu_Nu m e * ryu_W e2).
Proof.
  intros He E. cbv zeta.
  unfold shortest_core_fuel in E. rewrite ryu_scale_eq in E.
  set (e2 := ryu_e2 m e) in *. set (W := ryu_W e2) in *. set (B := ryu_B e2) in *.
  set (q := ryu_q e2) in *.
  assert (He2 : -1076 <= e2 <= 970).
  { unfold e2, ryu_e2. destruct (ryu_border m e) eqn:Hb; [ | lia].
    unfold ryu_border in Hb. lia. }
  destruct (ryu_WB e2 He2) as [HB HW]. fold B in HB, HW. fold W in HW.
  assert (HNl : 0 < ryu_Nl m e) by (unfold ryu_Nl, ryu_Nc; destruct (ryu_border m e); lia).
  assert (HNcl : ryu_Nc m e = ryu_Nl m e + 1) by (unfold ryu_Nl; lia).
  assert (HNuc : ryu_Nc m e + 1 <= ryu_Nu m e)
    by (unfold ryu_Nu, ryu_Nc; destruct (ryu_border m e); lia).
  rewrite !fast_div_eucl_eq in E.
  pose proof (Z_div_mod (ryu_Nl m e * W) B ltac:(lia)) as Dl.
  pose proof (Z_div_mod (ryu_Nc m e * W) B ltac:(lia)) as Dc.
  pose proof (Z_div_mod (ryu_Nu m e * W) B ltac:(lia)) as Du.
  destruct (Z.div_eucl (ryu_Nl m e * W) B) as [ql rl].
  destruct (Z.div_eucl (ryu_Nc m e * W) B) as [qc rc].
  destruct (Z.div_eucl (ryu_Nu m e * W) B) as [qu ru].
  destruct Dl as [Dl Rl]. destruct Dc as [Dc Rc]. destruct Du as [Du Ru].
  set (Xl := ryu_Nl m e * W) in *. set (Xc := ryu_Nc m e * W) in *.
  set (Xu := ryu_Nu m e * W) in *.
  assert (HXlc : Xl + W = Xc) by (unfold Xl, Xc; rewrite HNcl; ring).
  assert (HXcu : Xc + W <= Xu) by (unfold Xc, Xu; nia).
  assert (HXl : 0 < Xl) by (unfold Xl; nia).
  assert (Hq1 : ql + 1 <= qc) by nia.
  assert (Hq2 : qc + 1 <= qu) by nia.
  set (incl := Z.even (Z.pos m)) in *.
  set (l := if incl && (rl =? 0) then ql else ql + 1) in *.
  set (u := if (ru =? 0) && negb incl then qu - 1 else qu) in *.
  destruct (ryu_select fuel l qc u (rc =? 0) _) as [cf t] eqn:Esel.
  assert (Hlcu : l <= qc <= u).
  { unfold l, u. destruct (incl && (rl =? 0)); destruct ((ru =? 0) && negb incl); lia. }
  destruct (ryu_select_inv _ _ _ _ _ _ _ _ Hlcu Esel) as [Ht Hcf].
  destruct (strip10 fuel cf 0) as [cs' z] eqn:Estrip.
  injection E as <- <-.
  destruct (strip10_inv _ _ _ _ _ Estrip) as [Hz Hcs]. rewrite Z.sub_0_r in Hcs.
  replace (z + t - q + q) with (z + t) by lia.
  rewrite Z.pow_add_r by lia.
  replace (cs' * (10 ^ z * 10 ^ t)) with (cf * 10 ^ t) by (rewrite <- Hcs; ring).
  set (V := cf * 10 ^ t) in *.
  assert (Hl1 : 1 <= l).
  { unfold l. destruct (incl && (rl =? 0)) eqn:Hi; nia. }
  assert (H10 : 0 < 10 ^ t) by (apply Z.pow_pos_nonneg; lia).
  assert (H10z : 0 < 10 ^ z) by (apply Z.pow_pos_nonneg; lia).
  assert (HlB : Xl <= l * B /\ (incl = false -> Xl < l * B)).
  { unfold l. destruct incl; cbn [andb]; [destruct (rl =? 0) eqn:Hr | ]; split; intros; try nia;
      try discriminate. }
  assert (HuB : u * B <= Xu /\ (incl = false -> u * B < Xu)).
  { unfold u. destruct incl; cbn [negb]; rewrite ?andb_false_r, ?andb_true_r;
      [ | destruct (ru =? 0) eqn:Hr]; split; intros; try nia; try discriminate. }
  repeat split; try nia.
Qed.

(* ------------------------------------------------------------------------------------ *)
(* every real in the rounding interval of a binary64 rounds to it                        *)
(* ------------------------------------------------------------------------------------ *)

Lemma F2R2 (n ex : Z) : F2R (Float radix2 n ex) = (IZR n * bpow radix2 ex)%R.
Proof. reflexivity. Qed.

(* v in [n, n + 1/2] * 2^ex (the half point only if n is even) rounds down to n * 2^ex *)
Lemma round_NE_between_dn n ex v :
  cexp radix2 fexp64 v = ex ->
  (IZR n * bpow radix2 ex <= v <= (IZR n + / 2) * bpow radix2 ex)%R ->
  (Z.even n = false -> v < (IZR n + / 2) * bpow radix2 ex)%R ->
  round64 v = (IZR n * bpow radix2 ex)%R.
Proof.
  intros Hc [Hlo Hhi] Hodd.
  assert (Hb : (0 < bpow radix2 ex)%R) by apply bpow_gt_0.
  set (b := bpow radix2 ex) in *.
  destruct (Req_dec v (IZR n * b)) as [Heq | Hne].
  - rewrite (inbetween_float_NE radix2 fexp64 v n SpecFloat.loc_Exact).
    + rewrite Hc. reflexivity.
    + rewrite Hc. apply Bracket.inbetween_Exact. rewrite F2R2. exact Heq.
  - set (l := Rcompare v ((IZR n * b + IZR (n + 1) * b) / 2)).
    assert (Hin : Bracket.inbetween_float radix2 n (cexp radix2 fexp64 v) v
                    (SpecFloat.loc_Inexact l)).
    { rewrite Hc. apply Bracket.inbetween_Inexact.
      - rewrite !F2R2, plus_IZR. fold b. split; [lra | nra].
      - rewrite !F2R2. reflexivity. }
    rewrite (inbetween_float_NE radix2 fexp64 v n _ Hin). rewrite Hc, F2R2. fold b.
    f_equal. f_equal.
    assert (Hmid : ((IZR n * b + IZR (n + 1) * b) / 2 = (IZR n + / 2) * b)%R)
      by (rewrite plus_IZR; field).
    unfold l. rewrite Hmid.
    destruct (Rcompare_spec v ((IZR n + / 2) * b)) as [H | H | H]; cbn [round_N cond_incr].
    + reflexivity.
    + destruct (Z.even n) eqn:En; [reflexivity | ]. specialize (Hodd eq_refl). lra.
    + lra.
Qed.

(* v in [n + 1/2, n + 1) * 2^ex (the half point only if n is odd) rounds up to (n+1) * 2^ex *)
Lemma round_NE_between_up n ex v :
  cexp radix2 fexp64 v = ex ->
  ((IZR n + / 2) * bpow radix2 ex <= v < IZR (n + 1) * bpow radix2 ex)%R ->
  (Z.even n = true -> (IZR n + / 2) * bpow radix2 ex < v)%R ->
  round64 v = (IZR (n + 1) * bpow radix2 ex)%R.
Proof.
  intros Hc [Hlo Hhi] Heven.
  assert (Hb : (0 < bpow radix2 ex)%R) by apply bpow_gt_0.
  set (b := bpow radix2 ex) in *.
  set (l := Rcompare v ((IZR n * b + IZR (n + 1) * b) / 2)).
  assert (Hin : Bracket.inbetween_float radix2 n (cexp radix2 fexp64 v) v
                  (SpecFloat.loc_Inexact l)).
  { rewrite Hc. apply Bracket.inbetween_Inexact.
    - rewrite !F2R2. fold b. split; [nra | lra].
    - rewrite !F2R2. reflexivity. }
  rewrite (inbetween_float_NE radix2 fexp64 v n _ Hin). rewrite Hc, F2R2. fold b.
  f_equal. f_equal.
  assert (Hmid : ((IZR n * b + IZR (n + 1) * b) / 2 = (IZR n + / 2) * b)%R)
    by (rewrite plus_IZR; field).
  unfold l. rewrite Hmid.
  destruct (Rcompare_spec v ((IZR n + / 2) * b)) as [H | H | H]; cbn [round_N cond_incr].
  - lra.
  - destruct (Z.even n) eqn:En; [ | reflexivity]. specialize (Heven eq_refl). lra.
  - reflexivity.
Qed.

Lemma bounded_facts m e :
  SpecFloat.bounded 53 1024 m e = true ->
  let d := Zdigits radix2 (Zpos m) in
  2 ^ (d - 1) <= Zpos m < 2 ^ d /\ 1 <= d <= 53 /\ -1074 <= e <= 971 /\
  (d = 53 \/ e = -1074) /\ fexp64 (d + e) = e.
Proof.
  intros Hb d. unfold SpecFloat.bounded, SpecFloat.canonical_mantissa in Hb.
  apply andb_true_iff in Hb as [Hc He].
  apply Zeq_bool_eq in Hc. apply Zle_bool_imp_le in He.
  rewrite Zpos_digits2_pos in Hc. fold d in Hc.
  pose proof (Zdigits_correct radix2 (Zpos m)) as Hd. fold d in Hd.
  change (radix_val radix2) with 2 in Hd. rewrite Z.abs_eq in Hd by lia.
  assert (Hd0 : 0 < d) by (apply Zdigits_gt_0; discriminate).
  unfold SpecFloat.fexp, SpecFloat.emin in Hc |- *.
  repeat split; try lia.
Qed.

Lemma even_pred_odd n : Z.even (2 * n - 1) = false.
Proof.
  replace (2 * n - 1) with (1 + 2 * (n - 1)) by lia. now rewrite Z.even_add_mul_2.
Qed.

Lemma even_pred n : Z.even (n - 1) = negb (Z.even n).
Proof. rewrite Z.even_sub. destruct (Z.even n); reflexivity. Qed.

Lemma round64_interval m e v :
  SpecFloat.bounded 53 1024 m e = true ->
  (IZR (ryu_Nl m e) * bpow radix2 (ryu_e2 m e) <= v <=
   IZR (ryu_Nu m e) * bpow radix2 (ryu_e2 m e))%R ->
  (Z.even (Zpos m) = false ->
   (IZR (ryu_Nl m e) * bpow radix2 (ryu_e2 m e) < v <
    IZR (ryu_Nu m e) * bpow radix2 (ryu_e2 m e))%R) ->
  round64 v = (IZR (Zpos m) * bpow radix2 e)%R.
Proof.
  intros Hb Hv Hodd.
  destruct (bounded_facts m e Hb) as (Hd & Hd53 & He & Hde & Hfexp).
  set (d := Zdigits radix2 (Zpos m)) in *.
  set (t := bpow radix2 (e - 2)).
  assert (Ht : (0 < t)%R) by apply bpow_gt_0.
  assert (Be : bpow radix2 e = (4 * t)%R).
  { replace e with (e - 2 + 2) at 1 by lia. rewrite bpow_plus. fold t. simpl. lra. }
  assert (Be1 : bpow radix2 (e - 1) = (2 * t)%R).
  { replace (e - 1) with (e - 2 + 1) by lia. rewrite bpow_plus. fold t. simpl. lra. }
  assert (Bd : bpow radix2 (d + e) = (IZR (2 ^ d) * (4 * t))%R).
  { rewrite bpow_plus, Be. f_equal. symmetry. apply (IZR_Zpower radix2). lia. }
  assert (Bd1 : bpow radix2 (d + e - 1) = (IZR (2 ^ (d - 1)) * (4 * t))%R).
  { replace (d + e - 1) with (d - 1 + e) by lia. rewrite bpow_plus, Be. f_equal.
    symmetry. apply (IZR_Zpower radix2). lia. }
  assert (Hm1 : (IZR (2 ^ (d - 1)) <= IZR (Zpos m))%R) by (apply IZR_le; lia).
  assert (Hm2 : (IZR (Zpos m) + 1 <= IZR (2 ^ d))%R).
  { rewrite <- plus_IZR. apply IZR_le. lia. }
  assert (Hm0 : (1 <= IZR (Zpos m))%R) by (apply IZR_le; lia).
  set (mz := Zpos m) in *.
  (* the interval in units of t *)
  assert (Hv' : ((4 * IZR mz - 2) * t <= v <= (4 * IZR mz + 2) * t)%R /\
                (ryu_border m e = true -> ((4 * IZR mz - 1) * t <= v)%R) /\
                (Z.even mz = false ->
                 ((4 * IZR mz - 2) * t < v < (4 * IZR mz + 2) * t)%R /\
                 (ryu_border m e = true -> ((4 * IZR mz - 1) * t < v)%R))).
  { unfold ryu_Nl, ryu_Nu, ryu_Nc, ryu_e2 in Hv, Hodd. fold mz in Hv, Hodd.
    destruct (ryu_border m e).
    - rewrite minus_IZR, plus_IZR, !mult_IZR in Hv, Hodd. fold t in Hv, Hodd.
      repeat split; intros; try specialize (Hodd H); try specialize (Hodd H0); nra.
    - rewrite minus_IZR, plus_IZR, !mult_IZR, Be1 in Hv, Hodd.
      repeat split; intros; try discriminate; try specialize (Hodd H); nra. }
  destruct Hv' as (Hv1 & Hvb & Hvo).
  rewrite Be.
  destruct (Rle_or_lt (IZR mz * (4 * t)) v) as [Hup | Hdn].
  - (* upper half: between m and m + 1/2 *)
    rewrite <- Be. apply round_NE_between_dn.
    + unfold cexp. rewrite (mag_unique_pos radix2 v (d + e)); [exact Hfexp | ].
      rewrite Bd, Bd1. split; nra.
    + rewrite Be. split; nra.
    + intros Ho. rewrite Be. destruct (Hvo Ho) as [[_ H] _]. nra.
  - (* lower half *)
    destruct (ryu_border m e) eqn:Hbord.
    + (* border of an exponent: the lower neighbour is half as far *)
      unfold ryu_border in Hbord. fold mz in Hbord.
      assert (Emz : mz = 2 ^ 52) by lia. assert (He' : -1074 < e) by lia.
      assert (Ed : d = 53).
      { unfold d. fold mz. rewrite Emz. reflexivity. }
      assert (Emr : IZR mz = IZR (2 ^ 52)) by now rewrite Emz.
      replace (IZR mz * (4 * t))%R with (IZR (2 * mz - 1 + 1) * bpow radix2 (e - 1))%R
        by (rewrite Be1; replace (2 * mz - 1 + 1) with (2 * mz) by lia; rewrite mult_IZR; lra).
      apply round_NE_between_up.
      * unfold cexp. rewrite (mag_unique_pos radix2 v (52 + e)).
        { unfold SpecFloat.fexp, SpecFloat.emin. lia. }
        replace (52 + e - 1) with (d + e - 2) by lia.
        replace (52 + e) with (d + e - 1) by lia. rewrite Bd1.
        replace (d + e - 2) with (d - 1 + (e - 1)) by lia.
        rewrite bpow_plus, Be1. rewrite <- (IZR_Zpower radix2) by lia.
        change (radix_val radix2) with 2.
        specialize (Hvb eq_refl). rewrite Ed in *. rewrite Emr in *.
        change (53 - 1) with 52 in *. split; nra.
      * rewrite Be1. replace (2 * mz - 1 + 1) with (2 * mz) by lia.
        rewrite minus_IZR, !mult_IZR. specialize (Hvb eq_refl). split; nra.
      * rewrite even_pred_odd. discriminate.
    + (* regular case: between m - 1/2 and m *)
      replace (IZR mz * (4 * t))%R with (IZR (mz - 1 + 1) * bpow radix2 e)%R
        by (rewrite Be; replace (mz - 1 + 1) with mz by lia; reflexivity).
      assert (Hvpos : (0 < v)%R) by nra.
      apply round_NE_between_up.
      * unfold cexp.
        destruct (Z.eq_dec e (-1074)) as [Ee | Ene].
        -- (* denormal exponent: fexp is constant below *)
           assert (mag radix2 v <= d + e)%Z.
           { apply mag_le_bpow; [lra | ]. rewrite Rabs_pos_eq by lra. rewrite Bd. nra. }
           unfold SpecFloat.fexp, SpecFloat.emin. lia.
        -- assert (Ed : d = 53) by lia.
           assert (Hne : mz <> 2 ^ 52).
           { intros Emz. unfold ryu_border in Hbord. fold mz in Hbord. lia. }
           assert (Hm3 : (IZR (2 ^ (d - 1)) + 1 <= IZR mz)%R).
           { rewrite <- plus_IZR. apply IZR_le. rewrite Ed in *. change (53 - 1) with 52 in *. lia. }
           rewrite (mag_unique_pos radix2 v (d + e)); [exact Hfexp | ].
           rewrite Bd, Bd1. split; nra.
      * rewrite Be. replace (mz - 1 + 1) with mz by lia. rewrite minus_IZR. split; nra.
      * intros Hev. rewrite even_pred in Hev. apply negb_true_iff in Hev.
        rewrite Be, minus_IZR. destruct (Hvo Hev) as [[H _] _]. nra.
Qed.

(* ------------------------------------------------------------------------------------ *)
(* the read-back check always succeeds on valid binary64 values                          *)
(* ------------------------------------------------------------------------------------ *)

Lemma pow5_nonpos n : n <= 0 -> pow5 n = 1.
Proof. destruct n; intros; try reflexivity; lia. Qed.

Lemma bpow2_split s :
  bpow radix2 s = (IZR (2 ^ Z.max s 0) / IZR (2 ^ Z.max (- s) 0))%R.
Proof.
  destruct (Z_le_gt_dec 0 s) as [H | H].
  - rewrite Z.max_l, Z.max_r by lia. change (2 ^ 0) with 1.
    rewrite (IZR_Zpower radix2) by lia. field.
  - rewrite Z.max_r, Z.max_l by lia. change (2 ^ 0) with 1.
    replace s with (- - s) at 1 by lia. rewrite bpow_opp.
    rewrite <- (IZR_Zpower radix2) by lia. change (radix_val radix2) with 2.
    assert (0 < IZR (2 ^ (- s)))%R by (apply IZR_lt; apply Z.pow_pos_nonneg; lia).
    field. lra.
Qed.

Lemma bpow10_split q :
  bpow radix10 q = (bpow radix2 q * IZR (pow5 q) / IZR (pow5 (- q)))%R.
Proof.
  destruct (Z_le_gt_dec 0 q) as [H | H].
  - rewrite (pow5_nonpos (- q)) by lia. rewrite pow5_eq by lia.
    rewrite <- (IZR_Zpower radix10), <- (IZR_Zpower radix2) by lia.
    change (radix_val radix10) with 10. change (radix_val radix2) with 2.
    rewrite <- mult_IZR, <- Z.pow_mul_l. change (2 * 5) with 10. field.
  - rewrite (pow5_nonpos q) by lia. rewrite pow5_eq by lia.
    replace (bpow radix10 q) with (/ bpow radix10 (- q))%R
      by (rewrite <- bpow_opp; f_equal; lia).
    replace (bpow radix2 q) with (/ bpow radix2 (- q))%R
      by (rewrite <- bpow_opp; f_equal; lia).
    rewrite <- (IZR_Zpower radix10), <- (IZR_Zpower radix2) by lia.
    change (radix_val radix10) with 10. change (radix_val radix2) with 2.
    rewrite (Z.pow_mul_l 2 5 (- q) : 10 ^ (- q) = 2 ^ (- q) * 5 ^ (- q)).
    rewrite mult_IZR.
    assert (0 < IZR (2 ^ (- q)))%R by (apply IZR_lt; apply Z.pow_pos_nonneg; lia).
    assert (0 < IZR (5 ^ (- q)))%R by (apply IZR_lt; apply Z.pow_pos_nonneg; lia).
    field. lra.
Qed.

Lemma ryu_WB_real e2 :
  IZR (ryu_W e2) = (IZR (ryu_B e2) * bpow radix2 e2 * bpow radix10 (ryu_q e2))%R.
Proof.
  unfold ryu_W, ryu_B. set (q := ryu_q e2). set (s := e2 + q).
  rewrite !Z.shiftl_mul_pow2 by lia. rewrite !mult_IZR.
  rewrite bpow10_split.
  assert (Eb : bpow radix2 e2 = (bpow radix2 s * / bpow radix2 q)%R).
  { rewrite <- bpow_opp, <- bpow_plus. f_equal. unfold s. lia. }
  rewrite Eb, (bpow2_split s).
  assert (0 < IZR (pow5 (- q)))%R by (apply IZR_lt; apply pow5_pos_gt).
  assert (0 < IZR (2 ^ Z.max (- s) 0))%R by (apply IZR_lt; apply Z.pow_pos_nonneg; lia).
  assert (0 < bpow radix2 q)%R by apply bpow_gt_0.
  field. lra.
Qed.

Lemma core_interval_real fuel m e cs K :
  -1074 <= e <= 971 ->
  shortest_core_fuel fuel m e = (cs, K) ->
  let v := (IZR cs * bpow radix10 K)%R in
  let lo := (IZR (ryu_Nl m e) * bpow radix2 (ryu_e2 m e))%R in
  let hi := (IZR (ryu_Nu m e) * bpow radix2 (ryu_e2 m e))%R in
  0 < cs /\ (lo <= v <= hi)%R /\ (Z.even (Zpos m) = false -> (lo < v < hi)%R).
Proof.
  intros He E v lo hi.
  destruct (core_interval fuel m e cs K He E) as (Hcs & Hkq & Hle & Hlt).
  split; [assumption | ].
  set (e2 := ryu_e2 m e) in *. set (q := ryu_q e2) in *.
  assert (He2 : -1076 <= e2 <= 970).
  { unfold e2, ryu_e2. destruct (ryu_border m e) eqn:Hb; [ | lia].
    unfold ryu_border in Hb. lia. }
  destruct (ryu_WB e2 He2) as [HB _].
  assert (HBr : (0 < IZR (ryu_B e2))%R) by (apply IZR_lt; assumption).
  assert (Hb10 : (0 < bpow radix10 q)%R) by apply bpow_gt_0.
  assert (Hb2 : (0 < bpow radix2 e2)%R) by apply bpow_gt_0.
  (* v * 10^q is the integer cs * 10^(K+q) *)
  assert (Ev : (v * bpow radix10 q = IZR (cs * 10 ^ (K + q)))%R).
  { unfold v. rewrite Rmult_assoc, <- bpow_plus, mult_IZR.
    f_equal. symmetry. apply (IZR_Zpower radix10). lia. }
  pose proof (ryu_WB_real e2) as EW. fold q in EW.
  set (Vz := cs * 10 ^ (K + q)) in *.
  assert (Tr : forall N : Z,
             (IZR (N * ryu_W e2) = IZR N * bpow radix2 e2 * (IZR (ryu_B e2) * bpow radix10 q))%R).
  { intros N. rewrite mult_IZR, EW. ring. }
  assert (Tv : (IZR (Vz * ryu_B e2) = v * (IZR (ryu_B e2) * bpow radix10 q))%R).
  { rewrite mult_IZR, <- Ev. ring. }
  assert (Hpos : (0 < IZR (ryu_B e2) * bpow radix10 q)%R) by (apply Rmult_lt_0_compat; assumption).
  split.
  - destruct Hle as [H1 H2]. apply IZR_le in H1, H2. rewrite Tr, Tv in H1, H2.
    unfold lo, hi. fold e2. split; eapply Rmult_le_reg_r; eauto.
  - intros Ho. destruct (Hlt Ho) as [H1 H2]. apply IZR_lt in H1, H2. rewrite Tr, Tv in H1, H2.
    unfold lo, hi. fold e2. split; eapply Rmult_lt_reg_r; eauto.
Qed.

(* (c), the missing half: on every valid finite binary64 the shortest-digit search is read
   back exactly, i.e. the search stays within the round-to-nearest-even interval *)
Theorem shortest_digits_ok_valid s m e :
  SpecFloat.bounded 53 1024 m e = true -> shortest_digits_ok (S754_finite s m e) = true.
Proof.
  intros Hb.
  destruct (bounded_facts m e Hb) as (_ & _ & He & _ & _).
  unfold shortest_digits_ok, shortest_core.
  destruct (shortest_core_fuel 40 m e) as [cs K] eqn:E.
  destruct (core_interval_real 40 m e cs K He E) as (Hcs & Hin & Hodd).
  pose proof (round64_interval m e _ Hb Hin Hodd) as Hr.
  set (xr := (IZR (Zpos m) * bpow radix2 e)%R) in *.
  assert (Hxr : (0 < xr < bpow radix2 1024)%R).
  { split.
    - apply Rmult_lt_0_compat; [apply IZR_lt; lia | apply bpow_gt_0].
    - exact (bounded_lt_emax 53 1024 m e Hb). }
  (* the value parse_float rounds *)
  assert (Hrs : round64 (dec_real s cs K) = F2R (Float radix2 (SpecFloat.cond_Zopp s (Zpos m)) e)).
  { unfold dec_real. destruct s; cbn [SpecFloat.cond_Zopp].
    - rewrite !F2R_Zopp, round_NE_opp. f_equal. exact Hr.
    - exact Hr. }
  pose proof (dec_to_f64_correct s cs K Hcs) as Hc. unfold pf_correct in Hc.
  rewrite Hrs in Hc.
  rewrite <- F2R_Zabs, abs_cond_Zopp in Hc. cbn [Z.abs] in Hc.
  rewrite Rlt_bool_true in Hc by apply Hxr.
  destruct Hc as (f & Ef & Hf & Hfin & Hsign & Hvalid).
  rewrite Ef.
  destruct f as [s' | s' | | s' m' e']; try discriminate Hfin.
  - (* zero is impossible: the value is not 0 *)
    exfalso. unfold SF2R in Hf.
    assert (F2R (Float radix2 (SpecFloat.cond_Zopp s (Zpos m)) e) <> 0%R).
    { destruct s; cbn [SpecFloat.cond_Zopp]; [rewrite F2R_Zopp | ]; unfold xr in Hxr;
        change (F2R (Float radix2 (Zpos m) e)) with (IZR (Zpos m) * bpow radix2 e)%R; lra. }
    apply H. symmetry. exact Hf.
  - cbn [sign_SF] in Hsign. subst s'.
    unfold SF2R in Hf.
    assert (Hcan : forall mm ee, SpecFloat.bounded 53 1024 mm ee = true ->
              canonical radix2 fexp64 (Float radix2 (SpecFloat.cond_Zopp s (Zpos mm)) ee)).
    { intros mm ee Hbb. apply canonical_canonical_mantissa.
      unfold SpecFloat.bounded in Hbb. now apply andb_true_iff in Hbb as [Hbb _]. }
    pose proof (canonical_unique radix2 fexp64 _ _ (Hcan m' e' Hvalid) (Hcan m e Hb) Hf) as Eq.
    injection Eq as Em Ee.
    assert (m' = m) by (destruct s; cbn [SpecFloat.cond_Zopp] in Em; lia).
    subst m' e'.
    rewrite Bool.eqb_reflx, !Z.eqb_refl. reflexivity.
Qed.

(* unconditional round trips for every valid finite non-zero binary64 *)
Definition finite_nonzero (x : f64) : Prop :=
  valid_f64 x = true /\ is_finite x = true /\ is_zero x = false.

Lemma finite_nonzero_ok x : finite_nonzero x -> shortest_digits_ok x = true.
Proof.
  intros (Hv & Hf & Hz). destruct x as [s | s | | s m e]; try discriminate.
  apply shortest_digits_ok_valid. exact Hv.
Qed.

Theorem parse_format_json x :
  finite_nonzero x -> parse_float (format_json_number x) = PFOk x.
Proof. intros H. apply parse_format_json_partial, finite_nonzero_ok, H. Qed.

Theorem parse_format_g x :
  finite_nonzero x -> parse_float (format_float_g x) = PFOk x.
Proof. intros H. apply parse_format_g_partial, finite_nonzero_ok, H. Qed.

Theorem parse_format_e x :
  finite_nonzero x -> parse_float (format_float_e x) = PFOk x.
Proof. intros H. apply parse_format_e_partial, finite_nonzero_ok, H. Qed.

Theorem parse_format_f x :
  finite_nonzero x -> parse_float (format_float_f x) = PFOk x.
Proof. intros H. apply parse_format_f_partial, finite_nonzero_ok, H. Qed.

Example finite_nonzero_ex : finite_nonzero (f_of_bits 0x3fb999999999999a).
Proof. repeat split. Qed.

Print Assumptions shortest_digits_ok_valid.
Print Assumptions parse_format_json.
Print Assumptions parse_format_g.

(* (d) at the level of strings: a literal  [-]int[.frac][e(+|-)digits]  with a non-zero
   mantissa is parsed to the correctly rounded value of its exact decimal meaning *)
Theorem parse_float_correct neg ip hasdot fp ex :
  all_digits ip = true -> all_digits fp = true ->
  (ip <> EmptyString \/ fp <> EmptyString) -> (hasdot = false -> fp = EmptyString) ->
  exp_ok ex -> 0 < dval (ip ++ fp) 0 ->
  pf_correct neg
    (dec_real neg (dval (ip ++ fp) 0) (exp_val ex - Z.of_nat (slen fp)))
    (parse_float (sign_str neg ++ ip ++ (if hasdot then "." ++ fp else "") ++ exp_str ex)).
Proof.
  intros Hip Hfp Hne Hdot Hex HM.
  rewrite parse_float_shape by assumption. now apply dec_to_f64_correct.
Qed.

Example parse_float_correct_ex :
  parse_float (sign_str true ++ "12" ++ ("." ++ "5") ++ exp_str (Some (true, "03"%string)))
  = parse_float "-12.5e-03" /\
  dval ("12" ++ "5") 0 = 125 /\ exp_val (Some (true, "03"%string)) - Z.of_nat (slen "5") = -4.
Proof. repeat split. Qed.

Print Assumptions parse_float_correct.
