(* Proofs/C15Proofs.v — property C15: array, higher-order and aggregate functions compute
   their definitions (Spec/C15.v = the standard list library).

     1. $map / $filter / $reduce / $single        map_spec filter_spec reduce_spec single_spec
     2. $append $reverse $count $zip $distinct $shuffle
                                                   append_app reverse_rev count_length zip_spec
                                                   distinct_first_occurrence shuffle_perm
     3. $sum $max $min $average                    sum_fold max_spec min_spec average_spec
   Axiom-free (Print Assumptions after each main theorem). *)
From Coq Require Import List Bool Arith ZArith Lia Sorting.Permutation.
From Coq Require Import Ascii String.
From JV Require Import Model.Value Model.Ops Model.LibCore.
From JV Require Import Spec.C13 Spec.C15 Proofs.MonadFacts Proofs.SortFacts Proofs.C13Proofs.
Import ListNotations.
Local Open Scope nat_scope.
Local Open Scope list_scope.

(* ---- the monad, extensionally ---- *)
Lemma bind_assoc {A B C} (m : M A) (f : A -> M B) (g : B -> M C) w :
  bind (bind m f) g w = bind m (fun a => bind (f a) g) w.
Proof. unfold bind. destruct (m w); reflexivity. Qed.

Lemma bind_ext {A B} (m : M A) (f g : A -> M B) w :
  (forall a w', f a w' = g a w') -> bind m f w = bind m g w.
Proof. intro H. unfold bind. destruct (m w); auto. Qed.

Lemma bind_cong_l {A B} (m m' : M A) (f : A -> M B) w :
  m w = m' w -> bind m f w = bind m' f w.
Proof. intro H. unfold bind. now rewrite H. Qed.

Lemma foldM_ok {A B} (f : B -> A -> M B) l : forall acc w r w',
  foldM f acc l w = Ok r w' <-> fold_steps f acc l w r w'.
Proof.
  induction l as [|x t IH]; intros acc w r w'.
  - cbn [foldM]. rewrite ret_ok. split.
    + intros [<- <-]. constructor.
    + intro H. inversion H; subst. auto.
  - rewrite foldM_cons, bind_ok. split.
    + intros (a & w1 & E & H). econstructor; [exact E | now apply IH].
    + intro H. inversion H; subst. exists acc1, w1. split; [assumption | now apply IH].
Qed.

Lemma foldM_pure {A B} (f : B -> A -> M B) (g : B -> A -> B) l acc w :
  (forall a x w, f a x w = Ok (g a x) w) -> foldM f acc l w = Ok (fold_left g l acc) w.
Proof.
  intro H. revert acc. induction l as [|x t IH]; intro acc; [reflexivity|].
  rewrite foldM_cons. unfold bind. rewrite H. apply IH.
Qed.

Lemma force_array_arrayify v :
  match force_array v with Some l => l | None => [] end = as_array v.
Proof. destruct v as [[]|]; reflexivity. Qed.

(* ==================================================================================== *)
(* 1. higher-order functions                                                            *)
(* ==================================================================================== *)
Lemma clamp_arg_count n : clamp n 1 3 = arg_count n.
Proof.
  unfold clamp, arg_count.
  destruct (Nat.ltb_spec n 1); [lia|]. destruct (Nat.ltb_spec 3 n); lia.
Qed.

Lemma hof_args_call_args x i whole n : hof_args x i whole (clamp n 1 3) = call_args n x i whole.
Proof. unfold hof_args, call_args. now rewrite clamp_arg_count. Qed.

Lemma present_cons y ys :
  present (y :: ys) = match y with Some v => v :: present ys | None => present ys end.
Proof. destruct y; reflexivity. Qed.

Lemma selected_cons x l y ys :
  selected (x :: l) (y :: ys) = if otruthy y then x :: selected l ys else selected l ys.
Proof. unfold selected. cbn [combine filter snd]. destruct (otruthy y); reflexivity. Qed.

Section HOF.
  Variable apply : callable -> list ovalue -> M ovalue.
  Variable pcount : callable -> nat.

  (* one call: member, index, whole array, trimmed to the arity *)
  Definition call (f : callable) (whole : list value) (p : value * nat) : M ovalue :=
    apply f (call_args (pcount f) (fst p) (snd p) whole).

  (* the loops of hof.go are "call on every member in order, then collect" — as functions of
     the world, so errors and panics of the callee propagate identically *)
  Lemma map_loop_eq f n whole : forall l i w,
    map_loop apply f (clamp n 1 3) whole i l w
    = bind (mapM (fun p => apply f (call_args n (fst p) (snd p) whole)) (indexed_from i l))
           (fun ys => ret (present ys)) w.
  Proof.
    induction l as [|x r IH]; intros i w; [reflexivity|].
    unfold indexed_from. cbn [map_loop List.length seq combine mapM fst snd].
    rewrite bind_assoc, hof_args_call_args. apply bind_ext. intros y w1.
    rewrite bind_assoc.
    rewrite (bind_cong_l _ _ _ _ (IH (S i) w1)). rewrite bind_assoc.
    apply bind_ext. intros ys w2. cbn [bind ret]. unfold bind, ret. now rewrite present_cons.
  Qed.

  Lemma filter_loop_eq f n whole : forall l i w,
    LibCore.filter_loop apply f (clamp n 1 3) whole i l w
    = bind (mapM (fun p => apply f (call_args n (fst p) (snd p) whole)) (indexed_from i l))
           (fun ys => ret (selected l ys)) w.
  Proof.
    induction l as [|x r IH]; intros i w; [reflexivity|].
    unfold indexed_from. cbn [LibCore.filter_loop List.length seq combine mapM fst snd].
    rewrite bind_assoc, hof_args_call_args. apply bind_ext. intros y w1.
    rewrite bind_assoc.
    rewrite (bind_cong_l _ _ _ _ (IH (S i) w1)). rewrite bind_assoc.
    apply bind_ext. intros ys w2. unfold bind, ret. now rewrite selected_cons.
  Qed.

  Theorem lib_map_eq v f w :
    lib_map apply pcount v f w
    = bind (mapM (call f (as_array v)) (indexed (as_array v)))
           (fun ys => ret (Some (VArr (present ys)))) w.
  Proof.
    unfold lib_map. rewrite force_array_arrayify.
    rewrite (bind_cong_l _ _ _ _ (map_loop_eq f (pcount f) _ _ 0 w)). rewrite bind_assoc.
    reflexivity.
  Qed.

  Theorem lib_filter_list_eq v f w :
    lib_filter_list apply pcount v f w
    = bind (mapM (call f (as_array v)) (indexed (as_array v)))
           (fun ys => ret (selected (as_array v) ys)) w.
  Proof.
    unfold lib_filter_list. rewrite force_array_arrayify. apply filter_loop_eq.
  Qed.

  (* C15.1 $map : when the calls on (x_i, i, whole) — trimmed to clamp(arity,1,3) arguments,
     world threaded left to right — succeed with results ys, $map returns the present
     results in order; and a successful $map arises only so *)
  Theorem map_spec v f w r w' :
    lib_map apply pcount v f w = Ok r w' <->
    exists ys, steps (call f (as_array v)) (indexed (as_array v)) w ys w' /\
               r = Some (VArr (present ys)).
  Proof.
    rewrite lib_map_eq, bind_ok. split.
    - intros (ys & w1 & E & R). apply ret_ok in R as [<- <-]. apply mapM_ok in E. eauto.
    - intros (ys & S & ->). exists ys, w'. split; [now apply mapM_ok | reflexivity].
  Qed.

  (* C15.1 $filter : the members whose result is truthy, in order *)
  Theorem filter_spec v f w r w' :
    lib_filter apply pcount v f w = Ok r w' <->
    exists ys, steps (call f (as_array v)) (indexed (as_array v)) w ys w' /\
               r = Some (VArr (selected (as_array v) ys)).
  Proof.
    unfold lib_filter. rewrite bind_ok. split.
    - intros (l & w1 & E & R). apply ret_ok in R as [<- <-].
      rewrite lib_filter_list_eq in E. apply bind_ok in E as (ys & w2 & E & R).
      apply ret_ok in R as [<- <-]. apply mapM_ok in E. eauto.
    - intros (ys & S & ->). exists (selected (as_array v) ys), w'. split; [|reflexivity].
      rewrite lib_filter_list_eq. apply bind_ok. exists ys, w'.
      split; [now apply mapM_ok | reflexivity].
  Qed.

  (* C15.1 $single : the unique member with a truthy result; an error for none or several *)
  Theorem single_spec v f w ys w' :
    steps (call f (as_array v)) (indexed (as_array v)) w ys w' ->
    lib_single apply pcount v f w
    = match selected (as_array v) ys with
      | [x] => Ok (Some x) w'
      | _ => Err (ELib "single: number of matching values must be 1")
      end.
  Proof.
    intro S. unfold lib_single.
    rewrite (bind_cong_l _ _ _ _ (lib_filter_list_eq v f w)), bind_assoc.
    apply mapM_ok in S. unfold bind at 1. rewrite S. unfold bind, ret.
    destruct (selected (as_array v) ys) as [|x [|y t]]; reflexivity.
  Qed.

  (* C15.1 $reduce : a left fold seeded by the optional initial value (else by the first
     member), for two-parameter functions only *)
  Definition reduce_step (f : callable) (acc : ovalue) (x : value) : M ovalue :=
    apply f [acc; Some x].

  Theorem reduce_arity_error v f init w :
    pcount f <> 2 ->
    lib_reduce apply pcount v f init w = Err (ELib "reduce: function must take two arguments").
  Proof.
    intro H. unfold lib_reduce. apply Nat.eqb_neq in H. now rewrite H.
  Qed.

  Lemma lib_reduce_eq v f init w :
    pcount f = 2 ->
    lib_reduce apply pcount v f init w
    = foldM (reduce_step f) (fst (reduce_seed init (as_array v)))
            (snd (reduce_seed init (as_array v))) w.
  Proof.
    intro H. unfold lib_reduce. rewrite force_array_arrayify, H. cbn [Nat.eqb negb].
    unfold reduce_seed. destruct init as [i|]; [reflexivity|].
    destruct (as_array v); reflexivity.
  Qed.

  Theorem reduce_spec v f init w r w' :
    pcount f = 2 ->
    (lib_reduce apply pcount v f init w = Ok r w' <->
     fold_steps (reduce_step f) (fst (reduce_seed init (as_array v)))
                (snd (reduce_seed init (as_array v))) w r w').
  Proof. intro H. rewrite (lib_reduce_eq v f init w H). apply foldM_ok. Qed.

  (* for a function that computes [g] without touching the world: fold_left *)
  Theorem reduce_fold_left v f init (g : ovalue -> value -> ovalue) w :
    pcount f = 2 -> (forall a x w, apply f [a; Some x] w = Ok (g a x) w) ->
    lib_reduce apply pcount v f init w
    = Ok (fold_left g (snd (reduce_seed init (as_array v))) (fst (reduce_seed init (as_array v)))) w.
  Proof.
    intros H Hg. rewrite (lib_reduce_eq v f init w H). now apply foldM_pure.
  Qed.

  (* an empty array (or no value) without initial value: no value; with one: the initial value *)
  Theorem reduce_empty f init w :
    pcount f = 2 ->
    lib_reduce apply pcount (Some (VArr [])) f init w
    = Ok (match init with Some i => i | None => None end) w /\
    lib_reduce apply pcount None f init w
    = Ok (match init with Some i => i | None => None end) w.
  Proof.
    intro H. rewrite !lib_reduce_eq by assumption. destruct init; split; reflexivity.
  Qed.

  (* a one-member array without initial value: that member, the function is not called *)
  Theorem reduce_singleton f x w :
    pcount f = 2 -> lib_reduce apply pcount (Some (VArr [x])) f None w = Ok (Some x) w.
  Proof. intro H. now rewrite lib_reduce_eq. Qed.
End HOF.

Print Assumptions map_spec.
Print Assumptions filter_spec.
Print Assumptions single_spec.
Print Assumptions reduce_spec.
Print Assumptions reduce_fold_left.

(* a concrete callee: arity 2, (x, i) |-> x + i if x is a number below 10, no value for
   numbers from 10, the index itself otherwise *)
Definition ex_apply (f : callable) (args : list ovalue) : M ovalue :=
  ret (match args with
       | [Some (VNum x); Some (VNum i)] => if fltb x (f_of_Z 10) then Some (VNum (fadd x i)) else None
       | [_; Some i] => Some i
       | _ => Some VNull
       end).
Definition ex_pcount (f : callable) : nat := 2.
Definition ex_f : callable := CBuiltin "f".
Definition ex_arr : ovalue :=
  Some (VArr [VNum (f_of_Z 5); VNum (f_of_Z 12); VStr "s"; VNum (f_of_Z 0)]).

Example map_example :
  lib_map ex_apply ex_pcount ex_arr ex_f ex_w0
  = Ok (Some (VArr [VNum (f_of_Z 5); VNum (f_of_Z 2); VNum (f_of_Z 3)])) ex_w0.
Proof. vm_compute. reflexivity. Qed.

Example filter_example :
  lib_filter ex_apply ex_pcount ex_arr ex_f ex_w0
  = Ok (Some (VArr [VNum (f_of_Z 5); VStr "s"; VNum (f_of_Z 0)])) ex_w0.
Proof. vm_compute. reflexivity. Qed.

Example single_example :
  lib_single ex_apply ex_pcount (Some (VArr [VNum (f_of_Z 0); VNum (f_of_Z 12); VStr "s"])) ex_f ex_w0
  = Ok (Some (VStr "s")) ex_w0 /\
  lib_single ex_apply ex_pcount ex_arr ex_f ex_w0
  = Err (ELib "single: number of matching values must be 1") /\
  lib_single ex_apply ex_pcount (Some (VArr [VNum (f_of_Z 12)])) ex_f ex_w0
  = Err (ELib "single: number of matching values must be 1").
Proof. repeat split; vm_compute; reflexivity. Qed.

(* $reduce with (acc, x) |-> acc - x : ((10 - 1) - 2) - 3 = 4, not 10 - (1 - (2 - 3)) *)
Definition ex_sub (f : callable) (args : list ovalue) : M ovalue :=
  ret (match args with
       | [Some (VNum a); Some (VNum x)] => Some (VNum (fsub a x))
       | _ => None
       end).
Example reduce_example :
  lib_reduce ex_sub ex_pcount
    (Some (VArr [VNum (f_of_Z 1); VNum (f_of_Z 2); VNum (f_of_Z 3)])) ex_f
    (Some (Some (VNum (f_of_Z 10)))) ex_w0
  = Ok (Some (VNum (f_of_Z 4))) ex_w0 /\
  lib_reduce ex_sub ex_pcount
    (Some (VArr [VNum (f_of_Z 1); VNum (f_of_Z 2); VNum (f_of_Z 3)])) ex_f None ex_w0
  = Ok (Some (VNum (f_of_Z (-4)))) ex_w0 /\
  lib_reduce ex_sub (fun _ => 3) (Some (VArr [])) ex_f None ex_w0
  = Err (ELib "reduce: function must take two arguments").
Proof. repeat split; vm_compute; reflexivity. Qed.

(* ==================================================================================== *)
(* 2. array builders                                                                    *)
(* ==================================================================================== *)
(* $append concatenates; a non-array operand counts as a one-member array; when one side is
   missing the other is returned unchanged (not wrapped) *)
Theorem append_app a b :
  lib_append (Some (VArr a)) (Some (VArr b)) = Some (VArr (a ++ b)).
Proof. reflexivity. Qed.

Theorem append_general x y :
  lib_append (Some x) (Some y) = Some (VArr (as_array (Some x) ++ as_array (Some y))).
Proof. reflexivity. Qed.

(* (both sides missing never reaches lib_append: env.go's undefinedHandlerAppend answers "no
   value" first) *)
Theorem append_missing x :
  lib_append (Some x) None = Some x /\ lib_append None (Some x) = Some x.
Proof. split; reflexivity. Qed.

(* $reverse *)
Theorem reverse_rev v : lib_reverse v = Some (VArr (rev (as_array v))).
Proof. reflexivity. Qed.

(* $count *)
Theorem count_length v : lib_count v = VNum (f_of_nat (List.length (as_array v))).
Proof. destruct v as [[]|]; reflexivity. Qed.

(* $shuffle: math/rand is outside the model; the model's stand-in is the identity
   permutation, so this is trivial here — the correspondence harness compares the real
   function's output with the input as multisets *)
Theorem shuffle_perm v :
  exists r, lib_shuffle v = Some (VArr r) /\ Permutation r (as_array v).
Proof.
  exists (as_array v). split; [|apply Permutation_refl]. destruct v as [[]|]; reflexivity.
Qed.

(* ---- $zip ---- *)
Lemma zip_rows_length n : forall cols, List.length (zip_rows n cols) = n.
Proof. induction n as [|n IH]; intro cols; simpl; [reflexivity|]. now rewrite IH. Qed.

Lemma zip_rows_nth n : forall cols i, i < n ->
  nth i (zip_rows n cols) VNull = VArr (map (fun c => nth i c VNull) cols).
Proof.
  induction n as [|n IH]; intros cols i Hi; [lia|]. cbn [zip_rows].
  destruct i as [|i].
  - cbn [nth]. f_equal. apply map_ext. intros [|x c]; reflexivity.
  - cbn [nth]. rewrite IH by lia. f_equal. rewrite map_map. apply map_ext.
    intros [|x c]; [destruct i|]; reflexivity.
Qed.

Lemma fold_min_le l : forall a, fold_left Nat.min l a <= a /\
                                forall x, In x l -> fold_left Nat.min l a <= x.
Proof.
  induction l as [|y r IH]; intro a; simpl; [split; [lia|contradiction]|].
  destruct (IH (Nat.min a y)) as [H1 H2]. split; [lia|].
  intros x [<-|Hx]; [lia | auto].
Qed.

Lemma fold_min_in l : forall a, fold_left Nat.min l a = a \/ In (fold_left Nat.min l a) l.
Proof.
  induction l as [|y r IH]; intro a; simpl; [now left|].
  destruct (IH (Nat.min a y)) as [H|H]; [|right; now right].
  rewrite H. destruct (Nat.min_spec a y) as [[_ ->]|[_ ->]]; [now left | right; now left].
Qed.

Definition zip_cols (args : list ovalue) : list (list value) := map as_array args.

(* C15.2 $zip : row i is the array of the i-th members; as many rows as the shortest argument
   has members (a non-array argument counts as a one-member array) *)
Theorem zip_spec_holds args w :
  args <> [] -> Forall (fun a => a <> None) args ->
  exists rows, lib_zip args w = Ok (Some (VArr rows)) w /\ zip_spec (zip_cols args) rows.
Proof.
  intros Hne Hdef. unfold lib_zip. destruct args as [|a0 rest]; [congruence|].
  assert (E : first_undefined_before_all (a0 :: rest) = false).
  { unfold first_undefined_before_all. apply not_true_is_false. intro H.
    apply existsb_exists in H as (a & Ha & Hn). rewrite Forall_forall in Hdef.
    destruct a; [discriminate|]. now apply (Hdef None Ha). }
  rewrite E.
  assert (Ec : map (fun a => match force_array a with Some l => l | None => [] end) (a0 :: rest)
               = zip_cols (a0 :: rest)).
  { apply map_ext. intro a. apply force_array_arrayify. }
  rewrite Ec. set (cols := zip_cols (a0 :: rest)).
  set (size := fold_left Nat.min (map (@List.length value) cols)
                 (match cols with c :: _ => List.length c | [] => 0 end)).
  exists (zip_rows size cols). split; [reflexivity|].
  unfold zip_spec. rewrite zip_rows_length.
  pose proof (fold_min_le (map (@List.length value) cols)
                (match cols with c :: _ => List.length c | [] => 0 end)) as [L1 L2].
  split; [|split].
  - intros c Hc. apply L2. now apply in_map.
  - destruct (fold_min_in (map (@List.length value) cols)
                (match cols with c :: _ => List.length c | [] => 0 end)) as [H|H].
    + exists (as_array a0). split; [now left | exact H].
    + apply in_map_iff in H as (c & Hc & Hi). exists c. split; [exact Hi | now symmetry].
  - intros i Hi. now apply zip_rows_nth.
Qed.

(* any missing argument: the empty array; no arguments at all: an error *)
Theorem zip_missing args w :
  In None args -> lib_zip args w = Ok (Some (VArr [])) w.
Proof.
  intro H. unfold lib_zip. destruct args as [|a0 rest]; [contradiction|].
  assert (E : first_undefined_before_all (a0 :: rest) = true).
  { apply existsb_exists. exists None. split; [exact H | reflexivity]. }
  now rewrite E.
Qed.

Theorem zip_no_arguments w : lib_zip [] w = Err (ELib "zip: no arguments").
Proof. reflexivity. Qed.

Print Assumptions zip_spec_holds.

Example zip_example :
  lib_zip [Some (VArr [VNum (f_of_Z 1); VNum (f_of_Z 2); VNum (f_of_Z 3)]);
           Some (VArr [VStr "a"; VStr "b"]); Some (VBool true)] ex_w0
  = Ok (Some (VArr [VArr [VNum (f_of_Z 1); VStr "a"; VBool true]])) ex_w0 /\
  lib_zip [Some (VArr [VNum (f_of_Z 1); VNum (f_of_Z 2)]); Some (VArr [VStr "a"; VStr "b"; VStr "c"])] ex_w0
  = Ok (Some (VArr [VArr [VNum (f_of_Z 1); VStr "a"]; VArr [VNum (f_of_Z 2); VStr "b"]])) ex_w0.
Proof. split; vm_compute; reflexivity. Qed.

(* ---- $distinct ---- *)
(* structural induction on values through arrays and objects *)
Section ValueInd.
  Variable P : value -> Prop.
  Hypothesis HNull : P VNull.
  Hypothesis HBool : forall b, P (VBool b).
  Hypothesis HNum : forall x, P (VNum x).
  Hypothesis HStr : forall s, P (VStr s).
  Hypothesis HArr : forall l, Forall P l -> P (VArr l).
  Hypothesis HObj : forall m, Forall (fun kv : string * value => P (snd kv)) m -> P (VObj m).
  Hypothesis HFun : forall c, P (VFun c).
  Fixpoint value_ind_nested (v : value) : P v :=
    match v with
    | VNull => HNull
    | VBool b => HBool b
    | VNum x => HNum x
    | VStr s => HStr s
    | VArr l =>
        HArr l ((fix go (l : list value) : Forall P l :=
                   match l with
                   | [] => Forall_nil _
                   | x :: r => Forall_cons x (value_ind_nested x) (go r)
                   end) l)
    | VObj m =>
        HObj m ((fix go (m : list (string * value)) : Forall (fun kv => P (snd kv)) m :=
                   match m with
                   | [] => Forall_nil _
                   | (k, x) :: r => Forall_cons (k, x) (value_ind_nested x) (go r)
                   end) m)
    | VFun c => HFun c
    end.
End ValueInd.

Fixpoint arr_eqb (l1 l2 : list value) : bool :=
  match l1, l2 with
  | [], [] => true
  | x :: r1, y :: r2 => value_eqb x y && arr_eqb r1 r2
  | _, _ => false
  end.
Fixpoint obj_eqb (m1 m2 : list (string * value)) : bool :=
  match m1, m2 with
  | [], [] => true
  | (k1, x) :: r1, (k2, y) :: r2 => seqb k1 k2 && value_eqb x y && obj_eqb r1 r2
  | _, _ => false
  end.

Lemma value_eqb_arr l1 : forall l2, value_eqb (VArr l1) (VArr l2) = arr_eqb l1 l2.
Proof.
  (* the local fixpoint inside value_eqb and arr_eqb are the same function *)
  induction l1 as [|x r1 IH]; intros [|y r2]; reflexivity.
Qed.
Lemma value_eqb_obj m1 : forall m2, value_eqb (VObj m1) (VObj m2) = obj_eqb m1 m2.
Proof.
  induction m1 as [|[k1 x] r1 IH]; intros [|[k2 y] r2]; reflexivity.
Qed.

Lemma feqb_trans x y z : feqb x y = true -> feqb y z = true -> feqb x z = true.
Proof.
  intros H1 H2.
  assert (Nx : is_nan x = false) by (destruct x; try reflexivity; discriminate).
  assert (Ny : is_nan y = false) by (destruct y; try reflexivity; destruct x; discriminate).
  assert (Nz : is_nan z = false) by (destruct z; try reflexivity; destruct y; discriminate).
  apply feqb_key in H1; auto. apply feqb_key in H2; auto. apply feqb_key; auto. congruence.
Qed.

(* value equality (numbers by ==, everything else structurally) is transitive *)
Lemma value_eqb_trans a : forall b c,
  value_eqb a b = true -> value_eqb b c = true -> value_eqb a c = true.
Proof.
  induction a as [|x|x|s|l IH|m IH|f] using value_ind_nested; intros b c H1 H2;
    destruct b; try discriminate H1; destruct c; try discriminate H2.
  - reflexivity.
  - simpl in *. apply eqb_prop in H1. apply eqb_prop in H2. subst. apply eqb_reflx.
  - simpl in *. eapply feqb_trans; eauto.
  - simpl in *. apply seqb_eq in H1. apply seqb_eq in H2. subst. apply seqb_refl.
  - rewrite value_eqb_arr in *. revert l0 l1 H1 H2.
    induction IH as [|x r Hx Hr IHr]; intros [|y l2] [|z l3] H1 H2;
      try discriminate; [reflexivity|].
    cbn [arr_eqb] in *. apply andb_true_iff in H1 as [A1 B1]. apply andb_true_iff in H2 as [A2 B2].
    apply andb_true_iff. split; [eapply Hx; eauto | eapply IHr; eauto].
  - rewrite value_eqb_obj in *. revert m0 m1 H1 H2.
    induction IH as [|[k x] r Hx Hr IHr]; intros [|[k2 y] m2] [|[k3 z] m3] H1 H2;
      try discriminate; [reflexivity|].
    cbn [obj_eqb] in *. simpl in Hx.
    apply andb_true_iff in H1 as [A1 B1]. apply andb_true_iff in A1 as [K1 A1].
    apply andb_true_iff in H2 as [A2 B2]. apply andb_true_iff in A2 as [K2 A2].
    apply seqb_eq in K1. apply seqb_eq in K2. subst.
    rewrite seqb_refl, (Hx y z A1 A2), (IHr m2 m3 B1 B2). reflexivity.
Qed.

Lemma existsb_false_forall {A} (f : A -> bool) l :
  existsb f l = false -> forall x, In x l -> f x = false.
Proof.
  intros H x Hx. destruct (f x) eqn:E; [|reflexivity].
  assert (existsb f l = true) by (apply existsb_exists; eauto). congruence.
Qed.

(* the kept members are fresh w.r.t. everything seen before *)
Lemma distinct_acc_fresh : forall l seen y s,
  In y (distinct_acc seen l) -> In s seen -> value_eqb y s = false.
Proof.
  induction l as [|x r IH]; intros seen y s Hy Hs; [contradiction|].
  cbn [distinct_acc] in Hy. destruct (existsb (value_eqb x) seen) eqn:E.
  - eapply IH; eauto.
  - destruct Hy as [<-|Hy].
    + eapply existsb_false_forall; eauto.
    + eapply IH; eauto. now right.
Qed.

Lemma distinct_acc_subseq : forall l seen, subseq (distinct_acc seen l) l.
Proof.
  induction l as [|x r IH]; intro seen; [constructor|]. cbn [distinct_acc].
  destruct (existsb (value_eqb x) seen); constructor; apply IH.
Qed.

Lemma distinct_acc_distinct : forall l seen, distinct_list (distinct_acc seen l).
Proof.
  induction l as [|x r IH]; intro seen; [constructor|]. cbn [distinct_acc].
  destruct (existsb (value_eqb x) seen); [apply IH|].
  constructor; [|apply IH]. intros y Hy. eapply distinct_acc_fresh; eauto. now left.
Qed.

Lemma distinct_acc_cover : forall l seen x,
  In x l ->
  In x (distinct_acc seen l) \/
  exists k, (In k seen \/ In k (distinct_acc seen l)) /\ value_eqb x k = true.
Proof.
  induction l as [|x0 r IH]; intros seen x Hx; [contradiction|]. cbn [distinct_acc].
  destruct (existsb (value_eqb x0) seen) eqn:E.
  - destruct Hx as [<-|Hx].
    + right. apply existsb_exists in E as (k & Hk & Ek). exists k. auto.
    + apply IH; exact Hx.
  - destruct Hx as [<-|Hx]; [left; now left|].
    destruct (IH (x0 :: seen) x Hx) as [H|(k & [[<-|Hk]|Hk] & Ek)].
    + left. now right.
    + right. exists x0. split; [right; now left | exact Ek].
    + right. exists k. auto.
    + right. exists k. split; [right; now right | exact Ek].
Qed.

(* keeping "what is not equal to a KEPT member" is keeping "what is not equal to ANY earlier
   member", because equality is transitive *)
Lemma distinct_acc_keep_first : forall l seen earlier,
  (forall z, existsb (value_eqb z) earlier = existsb (value_eqb z) seen) ->
  distinct_acc seen l = keep_first_from earlier l.
Proof.
  induction l as [|x r IH]; intros seen earlier H; [reflexivity|].
  cbn [distinct_acc keep_first_from]. rewrite H.
  destruct (existsb (value_eqb x) seen) eqn:E.
  - apply IH. intro z. cbn [existsb]. rewrite H.
    destruct (value_eqb z x) eqn:Ez; [|reflexivity]. cbn [orb]. symmetry.
    apply existsb_exists in E as (k & Hk & Ek). apply existsb_exists. exists k.
    split; [exact Hk | eapply value_eqb_trans; eauto].
  - f_equal. apply IH. intro z. cbn [existsb]. now rewrite H.
Qed.

(* C15.2 $distinct : the result keeps exactly the first occurrence of every distinct value, in
   input order: it is the input with members removed (subseq), no kept member equals an
   earlier kept one, every input member is kept or equals a kept one, and a member is kept
   iff no earlier input member — kept or not — equals it *)
Theorem distinct_first_occurrence l :
  lib_distinct (Some (VArr l)) = Some (VArr (distinct_acc [] l)) /\
  distinct_acc [] l = keep_first l /\
  subseq (distinct_acc [] l) l /\
  distinct_list (distinct_acc [] l) /\
  (forall x, In x l ->
     In x (distinct_acc [] l) \/ exists k, In k (distinct_acc [] l) /\ value_eqb x k = true).
Proof.
  split; [reflexivity|]. split; [now apply distinct_acc_keep_first|].
  split; [apply distinct_acc_subseq|]. split; [apply distinct_acc_distinct|].
  intros x Hx. destruct (distinct_acc_cover l [] x Hx) as [H|(k & [[]|Hk] & Ek)]; eauto.
Qed.

Print Assumptions distinct_first_occurrence.

(* values of different kinds, and objects differing in the kind of a member, stay distinct *)
Example value_eqb_kinds :
  value_eqb (VNum (f_of_Z 1)) (VStr "1") = false /\
  value_eqb (VObj [("a", VNum (f_of_Z 1))]) (VObj [("a", VStr "1")]) = false /\
  value_eqb (VArr [VNum (f_of_Z 1)]) (VArr [VNum (f_of_Z 1)]) = true.
Proof. repeat split; vm_compute; reflexivity. Qed.

Example distinct_example :
  lib_distinct (Some (VArr [VNum (f_of_Z 1); VStr "1"; VObj [("a", VNum (f_of_Z 1))];
                            VNum (f_of_Z 1); VObj [("a", VStr "1")]; VArr [VNum (f_of_Z 1)];
                            VObj [("a", VNum (f_of_Z 1))]; VArr [VNum (f_of_Z 1)]; VStr "1"]))
  = Some (VArr [VNum (f_of_Z 1); VStr "1"; VObj [("a", VNum (f_of_Z 1))];
                VObj [("a", VStr "1")]; VArr [VNum (f_of_Z 1)]]).
Proof. vm_compute. reflexivity. Qed.

(* $distinct of a non-array: strings are returned as they are, everything else — other
   scalars, objects, no value — gives null (the port returns a nil interface{} there; it does
   NOT treat a scalar as a one-member array) *)
Theorem distinct_non_array :
  (forall s, lib_distinct (Some (VStr s)) = Some (VStr s)) /\
  (forall x, lib_distinct (Some (VNum x)) = Some VNull) /\
  lib_distinct None = Some VNull.
Proof. repeat split. Qed.

(* ==================================================================================== *)
(* 3. aggregates                                                                        *)
(* ==================================================================================== *)
Lemma numbers_of_map xs : numbers_of (map VNum xs) = Some xs.
Proof. unfold numbers_of. now rewrite all_numbers_map, somes_num_of_map. Qed.

Lemma numbers_of_none l : all_numbers l = false -> numbers_of l = None.
Proof. intro H. unfold numbers_of. now rewrite H. Qed.

Lemma all_numbers_false_iff l :
  all_numbers l = false <-> exists v, In v l /\ forall x, v <> VNum x.
Proof.
  split.
  - induction l as [|v r IH]; simpl; [discriminate|].
    destruct v; try (intros _; eexists; split; [now left | congruence]).
    intro H. destruct (IH H) as (v & Hv & N). exists v. split; [now right | exact N].
  - intros (v & Hv & N). apply not_true_is_false. intro H.
    apply all_numbers_inv in H as (xs & ->). apply in_map_iff in Hv as (x & <- & _).
    now apply (N x).
Qed.

(* C15.3 $sum : the left-to-right IEEE-754 sum starting from +0 — the order of the additions
   is part of the statement; a sum that overflows to an infinity is an error in the model
   (the repaired behaviour; see the report for the unrepaired port) *)
Theorem sum_fold xs w :
  lib_sum (Some (VArr (map VNum xs))) w
  = if is_finite (fsum xs) then Ok (Some (VNum (fsum xs))) w else Err (ELib "sum: not finite").
Proof.
  unfold lib_sum. rewrite numbers_of_map. fold (fsum xs). destruct (is_finite (fsum xs)); reflexivity.
Qed.

Theorem sum_non_number l w :
  all_numbers l = false -> lib_sum (Some (VArr l)) w = Err (ELib "sum: non-number").
Proof. intro H. unfold lib_sum. now rewrite numbers_of_none. Qed.

Theorem sum_scalar x w : lib_sum (Some (VNum x)) w = Ok (Some (VNum x)) w.
Proof. reflexivity. Qed.

Theorem sum_empty w : lib_sum (Some (VArr [])) w = Ok (Some (VNum fzero)) w.
Proof. reflexivity. Qed.

(* extrema: the running "better" member is a member and nothing is strictly better *)
Section Extremum.
  Variable lt : f64 -> f64 -> bool.
  Variable P : f64 -> Prop.
  Hypothesis O : swo_on lt P.

  Lemma extremum_fold : forall r acc,
    P acc -> Forall P r ->
    let m := fold_left (fun m n => if lt n m then n else m) r acc in
    In m (acc :: r) /\ lt acc m = false /\ forall y, In y r -> lt y m = false.
  Proof.
    induction r as [|n r IH]; intros acc Pa Pr.
    - simpl. split; [now left|]. split; [now apply (swo_irrefl _ _ O) | contradiction].
    - apply Forall_cons_iff in Pr as [Pn Pr]. cbn [fold_left]. cbv zeta.
      destruct (lt n acc) eqn:E.
      + destruct (IH n Pn Pr) as (Hin & Hle & Hall).
        set (m := fold_left (fun m n0 => if lt n0 m then n0 else m) r n) in *.
        assert (Pm : P m).
        { destruct Hin as [<-|Hin]; [exact Pn|]. rewrite Forall_forall in Pr. now apply Pr. }
        split; [right; exact Hin|]. split.
        * destruct (lt acc m) eqn:E2; [|reflexivity].
          rewrite (swo_trans _ _ O n acc m Pn Pa Pm E E2) in Hle. discriminate.
        * intros y [<-|Hy]; [exact Hle | now apply Hall].
      + destruct (IH acc Pa Pr) as (Hin & Hle & Hall).
        set (m := fold_left (fun m n0 => if lt n0 m then n0 else m) r acc) in *.
        assert (Pm : P m).
        { destruct Hin as [<-|Hin]; [exact Pa|]. rewrite Forall_forall in Pr. now apply Pr. }
        split; [destruct Hin as [Hin|Hin]; [now left | right; now right]|].
        split; [exact Hle|].
        intros y [<-|Hy]; [|now apply Hall].
        exact (le_trans lt P O m acc n Pm Pa Pn Hle E).
  Qed.

  Lemma extremum_spec xs :
    xs <> [] -> Forall P xs ->
    exists m, extremum lt xs = Some m /\ In m xs /\ forall y, In y xs -> lt y m = false.
  Proof.
    intros Hne Pxs. destruct xs as [|x r]; [congruence|].
    apply Forall_cons_iff in Pxs as [Px Pr].
    destruct (extremum_fold r x Px Pr) as (Hin & Hle & Hall).
    eexists. split; [reflexivity|]. split; [exact Hin|].
    intros y [<-|Hy]; [exact Hle | now apply Hall].
  Qed.
End Extremum.

Definition max_better : f64 -> f64 -> bool := fun n m => fltb m n.   (* as in the dispatcher *)
Definition min_better : f64 -> f64 -> bool := fltb.

(* C15.3 $max / $min : the result is a member and bounds all members (no NaN members) *)
Theorem max_spec xs w :
  xs <> [] -> Forall not_nan xs ->
  exists m, lib_minmax "max" max_better (Some (VArr (map VNum xs))) w = Ok (Some (VNum m)) w /\
            is_max xs m.
Proof.
  intros Hne N.
  destruct (extremum_spec (flip_lt fltb) not_nan (swo_flip fltb not_nan fltb_swo) xs Hne N)
    as (m & E & Hin & Hall).
  exists m. split; [|split; [exact Hin | exact Hall]].
  unfold lib_minmax. destruct xs as [|x r]; [congruence|].
  cbn [map]. rewrite <- (map_cons VNum x r), numbers_of_map.
  change max_better with (flip_lt fltb). now rewrite E.
Qed.

Theorem min_spec xs w :
  xs <> [] -> Forall not_nan xs ->
  exists m, lib_minmax "min" min_better (Some (VArr (map VNum xs))) w = Ok (Some (VNum m)) w /\
            is_min xs m.
Proof.
  intros Hne N.
  destruct (extremum_spec fltb not_nan fltb_swo xs Hne N) as (m & E & Hin & Hall).
  exists m. split; [|split; [exact Hin | exact Hall]].
  unfold lib_minmax. destruct xs as [|x r]; [congruence|].
  cbn [map]. rewrite <- (map_cons VNum x r), numbers_of_map.
  unfold min_better. now rewrite E.
Qed.

(* empty array: no value; a member that is not a number: error; a scalar number: itself *)
Theorem minmax_edge nm better w :
  lib_minmax nm better (Some (VArr [])) w = Ok None w /\
  (forall l, all_numbers l = false ->
             lib_minmax nm better (Some (VArr l)) w = Err (ELib (nm ++ ": non-number"))) /\
  (forall x, lib_minmax nm better (Some (VNum x)) w = Ok (Some (VNum x)) w).
Proof.
  split; [reflexivity|]. split; [|reflexivity].
  intros l H. unfold lib_minmax. destruct l as [|v r]; [discriminate|].
  now rewrite numbers_of_none.
Qed.

(* C15.3 $average : the left-to-right sum divided by the count *)
Theorem average_spec xs w :
  xs <> [] ->
  lib_average (Some (VArr (map VNum xs))) w
  = if is_finite (fmean xs) then Ok (Some (VNum (fmean xs))) w
    else Err (ELib "average: not finite").
Proof.
  intro Hne. unfold lib_average. destruct xs as [|x r]; [congruence|].
  cbn [map]. rewrite <- (map_cons VNum x r), numbers_of_map.
  fold (fsum (x :: r)). fold (fmean (x :: r)). destruct (is_finite (fmean (x :: r))); reflexivity.
Qed.

Theorem average_edge w :
  lib_average (Some (VArr [])) w = Ok None w /\
  (forall l, all_numbers l = false ->
             lib_average (Some (VArr l)) w = Err (ELib "average: non-number")) /\
  (forall x, lib_average (Some (VNum x)) w = Ok (Some (VNum x)) w).
Proof.
  split; [reflexivity|]. split; [|reflexivity].
  intros l H. unfold lib_average. destruct l as [|v r]; [discriminate|].
  now rewrite numbers_of_none.
Qed.

Print Assumptions sum_fold.
Print Assumptions max_spec.
Print Assumptions min_spec.
Print Assumptions average_spec.

Definition f_of_bits_ex : f64 := f_of_bits 4591870180066957722.   (* 0.1 *)
Example aggregates_example :
  let xs := [f_of_Z 3; f_of_Z (-7); f_of_Z 10; f_of_Z 2] in
  Forall not_nan xs /\
  lib_sum (Some (VArr (map VNum xs))) ex_w0 = Ok (Some (VNum (f_of_Z 8))) ex_w0 /\
  lib_minmax "max" max_better (Some (VArr (map VNum xs))) ex_w0 = Ok (Some (VNum (f_of_Z 10))) ex_w0 /\
  lib_minmax "min" min_better (Some (VArr (map VNum xs))) ex_w0 = Ok (Some (VNum (f_of_Z (-7)))) ex_w0 /\
  lib_average (Some (VArr (map VNum xs))) ex_w0 = Ok (Some (VNum (f_of_Z 2))) ex_w0 /\
  lib_sum (Some (VArr [VNum (f_of_Z 1); VStr "2"])) ex_w0 = Err (ELib "sum: non-number") /\
  lib_count (Some (VArr (map VNum xs))) = VNum (f_of_Z 4).
Proof. cbv zeta. repeat split; try (vm_compute; reflexivity). repeat constructor. Qed.

(* the order of the additions matters: (0.1 + 1e16) - 1e16 is 0, 0.1 + (1e16 - 1e16) is 0.1 *)
Example sum_order_example :
  let big := f_of_Z 10000000000000000 in
  fsum [f_of_bits_ex; big; fopp big] = fzero /\
  fsum [big; fopp big; f_of_bits_ex] = f_of_bits_ex.
Proof. split; vm_compute; reflexivity. Qed.
