(* Proofs/C09PadProofs.v — the $pad built-in as bound in env.go (jlib.Pad behind the width bound
   maxPadWidth): for every width whatsoever it returns a string or an error, never a panic.
   (Before the repair f00dda5 the width reached strings.Repeat unchecked and
   $pad("", -$power(1.5, 100)) panicked with "makeslice: len out of range".) *)
From JV Require Import Base.Bytes Base.Utf8 Base.Res Model.Value Model.Eval Model.LibString Model.LibDispatch
  Spec.C16 Proofs.Utf8Proofs Proofs.LibStringProofs.
From Coq Require Import Lia ZifyBool.
Open Scope Z_scope.

Theorem C09_pad_builtin_no_panic up lo s w c ch :
  opt_str_arg c = Some ch ->
  valid_utf8 s = true -> pad_chars_ok ch ->
  LibString.length s <= max_int ->
  LibString.zlen (opt_str ch) <= 16777216 ->
  exists r, xlib up lo "pad" [AStr s; AInt w; c] = Some r /\ forall why, r <> LPanic why.
Proof.
  intros Hc V C HL HC.
  unfold xlib. cbn [seqb]. cbv beta iota. rewrite Hc.
  destruct (max_pad_width <? Z.abs w) eqn:B.
  - eexists; split; [reflexivity|]. discriminate.
  - unfold max_pad_width in B.
    assert (HA : Z.abs w * Z.max 1 (LibString.zlen (opt_str ch)) <= max_alloc).
    { unfold max_alloc. nia. }
    assert (Hn : min_int < w <= max_int) by (unfold min_int, max_int; lia).
    destruct (pad_no_panic s w ch V C Hn HL HA) as [r Hr].
    eexists; split; [reflexivity|]. rewrite Hr. cbn. discriminate.
Qed.
Print Assumptions C09_pad_builtin_no_panic.

(* the bound is met: the widths that used to panic are errors now, ordinary widths pad *)
Example pad_builtin_ex :
  xlib (fun _ => None) (fun _ => None) "pad" [AStr ""; AInt (-406561177535215232); AOpt None]
    = Some (LErr "pad: the second argument is out of range") /\
  xlib (fun _ => None) (fun _ => None) "pad" [AStr "a"; AInt (-3); AOpt (Some (AStr "xy"))]
    = Some (LOk (Some (VStr "xya"))).
Proof. vm_compute. auto. Qed.
