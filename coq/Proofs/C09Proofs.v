(* Proofs/C09Proofs.v — property C09 (Eval is total), the parts that are theorems about the
   model: the explicit `lt: invalid types` panic is unreachable, and every library loop that
   the model runs on fuel terminates within the fuel the model gives it (so the model's
   distinguished out-of-fuel outcome is never produced by these loops; it can only come from
   the evaluator's own fuel, i.e. from unboundedly recursive user functions).

   Contents
     A. C09_no_lt_panic (re-exported from Proofs/C03Proofs.v) and its consequence for the
        comparison node: a panic of `a < b` is a panic of an operand
     B. merge / mergeSort: for ANY comparator (also one that fails) fuel |l| + 1 suffices
     C. callMatchFunc on a regex literal: fuel (number of matches) + 1   (from C17Proofs)
     D. expandReplaceString: the loop never exhausts its fuel                (from C17Proofs)
     E. lambdaCallable.validArgType: the verdict is independent of the fuel once the fuel
        exceeds the array nesting depth of the argument
     F. environment lookup: with parents older than their children (frames_wf, preserved by
        new_frame and bind_var) the walk up the scope chain needs at most env + 1 steps, so
        the fuel lookup_var passes (number of frames + 1) is never exhausted
   Part C's bound and part A are closed under the global context; nothing here uses axioms. *)
From Coq Require Import List Bool Arith ZArith Lia String.
From JV Require Import Base.Bytes Base.F64 Base.Res.
From JV Require Import Model.Value Model.Builtins Model.Ops Model.LibCore Model.Eval Model.LibString.
From JV Require Import Spec.C17 Proofs.MonadFacts Proofs.C01Proofs Proofs.C03Proofs Proofs.C17Proofs.
Import ListNotations.
Local Open Scope nat_scope.
Local Open Scope list_scope.

(* ==================================================================================== *)
(* A. the explicit panic of lt                                                          *)
(* ==================================================================================== *)
(* evalComparisonOperator's type gate lets only number/number and string/string through to
   lt, so its `panic("lt: invalid types")` is dead code *)
Theorem C09_no_lt_panic : forall o a b, comparison_result o a b <> None.
Proof. exact C03_no_lt_panic. Qed.
Print Assumptions C09_no_lt_panic.

Section Comparison.
  Variables (fm : f64 -> string) (rx : string -> string -> option (list (list (Z * Z))))
            (pw : f64 -> f64 -> option f64) (xl : string -> list carg -> option (lres ovalue)).
  Notation eval' := (eval fm rx pw xl).

  Lemma eval_comparison_eq f op lhs rhs input env :
    eval' (S f) (NComparison op lhs rhs) input env
    = (a <- eval' f lhs input env ;;
       b <- eval' f rhs input env ;;
       match comparison_result op a b with
       | Some r => lift_pure r
       | None => panic "lt: invalid types"
       end).
  Proof. reflexivity. Qed.

  (* a comparison node panics only if one of its operands does *)
  Theorem C09_comparison_panic_is_operand_panic f op lhs rhs input env w why :
    eval' (S f) (NComparison op lhs rhs) input env w = Panic why ->
    eval' f lhs input env w = Panic why \/
    exists a w1, eval' f lhs input env w = Ok a w1 /\ eval' f rhs input env w1 = Panic why.
  Proof.
    rewrite eval_comparison_eq. unfold bind at 1.
    destruct (eval' f lhs input env w) as [a w1| | | |] eqn:El; try discriminate.
    - unfold bind at 1. destruct (eval' f rhs input env w1) as [b w2| | | |] eqn:Er; try discriminate.
      + destruct (comparison_result op a b) as [r|] eqn:Ec.
        * destruct r; discriminate.
        * exfalso. exact (C09_no_lt_panic _ _ _ Ec).
      + intro H. right. exists a, w1. split; [reflexivity|]. congruence.
    - intro H. left. congruence.
  Qed.
End Comparison.
Print Assumptions C09_comparison_panic_is_operand_panic.

(* ==================================================================================== *)
(* B. merge / mergeSort with an arbitrary comparator                                    *)
(* ==================================================================================== *)
Section MergeFuel.
  Variable swap : value -> value -> M bool.
  (* the comparator itself does not run out of fuel (it may fail, panic, ask the oracle) *)
  Hypothesis Hswap : forall x y w, swap x y w <> OutOfFuel.

  Definition fuel_ok {A} (P : A -> Prop) (r : res A) : Prop :=
    match r with Ok t _ => P t | OutOfFuel => False | _ => True end.

  Lemma merge_fuel_ok : forall fuel l r w,
    fuel > List.length l + List.length r ->
    fuel_ok (fun t => List.length t = List.length l + List.length r) (merge_fuel fuel swap l r w).
  Proof.
    induction fuel as [|f IH]; intros l r w Hf; [lia|].
    destruct l as [|x l'], r as [|y r']; cbn [merge_fuel]; try (cbn; lia).
    unfold bind at 1. pose proof (Hswap x y w) as Hs.
    destruct (swap x y w) as [b w1| | | |]; try exact I; [|congruence].
    simpl in Hf. destruct b.
    - specialize (IH (x :: l') r' w1 ltac:(simpl; lia)). unfold bind.
      destruct (merge_fuel f swap (x :: l') r' w1) as [t w2| | | |]; cbn in *; try exact I; try lia.
    - specialize (IH l' (y :: r') w1 ltac:(simpl; lia)). unfold bind.
      destruct (merge_fuel f swap l' (y :: r') w1) as [t w2| | | |]; cbn in *; try exact I; try lia.
  Qed.

  Lemma merge_sort_fuel_ok : forall fuel l w,
    fuel > List.length l ->
    fuel_ok (fun t => List.length t = List.length l) (merge_sort_fuel fuel swap l w).
  Proof.
    induction fuel as [|f IH]; intros l w Hf; [lia|].
    cbn [merge_sort_fuel]. cbv zeta.
    destruct (List.length l <? 2) eqn:E; [reflexivity|].
    apply Nat.ltb_ge in E.
    assert (H1 : Nat.div (List.length l) 2 < List.length l) by (apply Nat.div_lt; lia).
    assert (H2 : 0 < Nat.div (List.length l) 2) by (apply Nat.div_str_pos; lia).
    set (pos := Nat.div (List.length l) 2) in *.
    pose proof (IH (firstn pos l) w ltac:(rewrite firstn_length; lia)) as Ia.
    unfold bind at 1.
    destruct (merge_sort_fuel f swap (firstn pos l) w) as [a w1| | | |]; cbn in Ia; try exact I; try contradiction.
    pose proof (IH (skipn pos l) w1 ltac:(rewrite skipn_length; lia)) as Ib.
    unfold bind at 1.
    destruct (merge_sort_fuel f swap (skipn pos l) w1) as [b w2| | | |]; cbn in Ib; try exact I; try contradiction.
    rewrite firstn_length in Ia. rewrite skipn_length in Ib.
    pose proof (merge_fuel_ok (S (List.length l)) a b w2 ltac:(lia)) as Im.
    destruct (merge_fuel (S (List.length l)) swap a b w2); cbn in *; try exact I; try lia.
  Qed.

  (* the fuel lib_sort passes, |l| + 1, is enough whatever the comparator does; a successful
     sort returns as many members as it was given *)
  Theorem merge_sort_fuel_total fuel l w :
    fuel > List.length l ->
    merge_sort_fuel fuel swap l w <> OutOfFuel /\
    forall t w', merge_sort_fuel fuel swap l w = Ok t w' -> List.length t = List.length l.
  Proof.
    intro Hf. pose proof (merge_sort_fuel_ok fuel l w Hf) as H.
    destruct (merge_sort_fuel fuel swap l w); cbn in H; split; try discriminate; try contradiction.
    intros t w' E. inversion E; subst. exact H.
  Qed.

  Theorem merge_fuel_total fuel l r w :
    fuel > List.length l + List.length r -> merge_fuel fuel swap l r w <> OutOfFuel.
  Proof.
    intro Hf. pose proof (merge_fuel_ok fuel l r w Hf) as H.
    destruct (merge_fuel fuel swap l r w); cbn in H; try discriminate; contradiction.
  Qed.
End MergeFuel.
Print Assumptions merge_sort_fuel_total.

(* ==================================================================================== *)
(* C, D. the regex chain and the replacement template (proved in C17Proofs)             *)
(* ==================================================================================== *)
Theorem C09_call_match_func_terminates rx apply s src ms fuel w :
  chain_apply_ok rx apply -> int_exact (Z.of_nat (slen s)) ->
  rx src s = Some ms -> wf_matches s ms -> fuel > List.length ms ->
  call_match_func fuel apply (CRegex src) [Some (VStr s)] [] w <> OutOfFuel.
Proof.
  intros Ha Hi Ho Hw Hf.
  rewrite (match_chain_enumerates rx apply Ha s Hi src ms Ho Hw fuel w Hf). discriminate.
Qed.

Theorem C09_extract_matches_terminates rx apply s src ms limit w :
  chain_apply_ok rx apply -> int_exact (Z.of_nat (slen s)) ->
  rx src s = Some ms -> wf_matches s ms ->
  extract_matches apply (CRegex src) s limit w <> OutOfFuel.
Proof.
  intros Ha Hi Ho Hw. rewrite (extract_matches_spec rx apply Ha s src ms Hi Ho Hw). discriminate.
Qed.

Theorem C09_expand_replace_string_terminates t mv gs : expand_replace_string t mv gs <> LFuel.
Proof. apply expand_never_out_of_fuel. Qed.

Print Assumptions C09_call_match_func_terminates.
Print Assumptions C09_expand_replace_string_terminates.

(* ==================================================================================== *)
(* E. validArgType                                                                      *)
(* ==================================================================================== *)
(* array nesting depth of a value *)
Fixpoint adepth (v : value) : nat :=
  let fix dl (l : list value) : nat :=
    match l with [] => 0 | x :: r => Nat.max (adepth x) (dl r) end in
  match v with
  | VArr l => S (dl l)
  | _ => 0
  end.

Lemma adepth_arr l : adepth (VArr l) = S (fold_right (fun x d => Nat.max (adepth x) d) 0 l).
Proof. reflexivity. Qed.

Lemma adepth_member l x : In x l -> adepth x < adepth (VArr l).
Proof.
  rewrite adepth_arr. induction l as [|y r IH]; [contradiction|].
  intros [->|H]; cbn [fold_right]; [lia|]. specialize (IH H). lia.
Qed.

Lemma valid_arg_type_S f arg p :
  valid_arg_type (S f) arg p
  = let '(Param typ _ sub) := p in
    let has := fun (bit : N) => negb (N.eqb (N.land typ bit) 0) in
    if has PT_any then true else
    let j := has PT_json in
    match arg with
    | VStr _ => j || has PT_string
    | VNum _ => j || has PT_number
    | VBool _ => j || has PT_bool
    | VFun _ => has PT_func
    | VArr l =>
        if j then true
        else if has PT_array then
               match sub with
               | None | Some [] => true
               | Some (sp :: _) => forallb (fun x => valid_arg_type f x sp) l
               end
             else false
    | VObj _ => j || has PT_object
    | VNull => false
    end.
Proof. reflexivity. Qed.

Lemma forallb_ext_in' {A} (g h : A -> bool) l : (forall x, In x l -> g x = h x) -> forallb g l = forallb h l.
Proof.
  induction l as [|x r IH]; intro H; [reflexivity|]. cbn [forallb].
  rewrite (H x (or_introl eq_refl)). f_equal. apply IH. intros y Hy. apply H. now right.
Qed.

(* once the fuel exceeds the argument's array nesting depth the verdict no longer depends on
   it: the "false" of an exhausted fuel is never what decides *)
Theorem valid_arg_type_fuel arg : forall p f1 f2,
  f1 > adepth arg -> f2 > adepth arg -> valid_arg_type f1 arg p = valid_arg_type f2 arg p.
Proof.
  induction arg as [v Hv|l IH|m _] using value_ind'; intros p f1 f2 H1 H2;
    (destruct f1 as [|f1]; [lia|]); (destruct f2 as [|f2]; [lia|]);
    rewrite !valid_arg_type_S; destruct p as [typ opt sub]; cbv zeta.
  - destruct v; try contradiction; reflexivity.
  - destruct (negb (N.eqb (N.land typ PT_any) 0)); [reflexivity|].
    destruct (negb (N.eqb (N.land typ PT_json) 0)); [reflexivity|].
    destruct (negb (N.eqb (N.land typ PT_array) 0)); [|reflexivity].
    destruct sub as [[|sp rest]|]; try reflexivity.
    apply forallb_ext_in'. intros x Hx.
    pose proof (adepth_member l x Hx) as D.
    apply (proj1 (Forall_forall _ _) IH x Hx); lia.
  - reflexivity.
Qed.
Print Assumptions valid_arg_type_fuel.

(* ==================================================================================== *)
(* F. environment lookup                                                                *)
(* ==================================================================================== *)
(* every frame's parent was created before it *)
Definition frames_wf (fs : list frame) : Prop :=
  forall i fr p, nth_error fs i = Some fr -> fparent fr = Some p -> p < i.

(* walking up from frame [env] takes at most env + 1 steps *)
Theorem lookup_fuel_stable fs name : frames_wf fs -> forall env f1 f2,
  f1 > env -> f2 > env -> lookup_fuel f1 fs env name = lookup_fuel f2 fs env name.
Proof.
  intro W. induction env as [env IH] using lt_wf_ind. intros f1 f2 H1 H2.
  destruct f1 as [|f1]; [lia|]. destruct f2 as [|f2]; [lia|]. cbn [lookup_fuel].
  destruct (nth_error fs env) as [fr|] eqn:E; [|reflexivity].
  destruct (assoc_get name (fsyms fr)); [reflexivity|].
  destruct (fparent fr) as [p|] eqn:Ep; [|reflexivity].
  pose proof (W env fr p E Ep). apply IH; lia.
Qed.

(* the fuel lookup_var passes is never the reason for "not found": any larger fuel gives the
   same answer *)
Corollary lookup_var_fuel_enough fs name env extra :
  frames_wf fs ->
  lookup_fuel (S (List.length fs) + extra) fs env name = lookup_fuel (S (List.length fs)) fs env name.
Proof.
  intro W. destruct (le_lt_dec (List.length fs) env) as [L|L].
  - cbn [lookup_fuel Nat.add]. apply nth_error_None in L. now rewrite L.
  - apply lookup_fuel_stable; [exact W|lia|lia].
Qed.

Lemma frames_wf_nil : frames_wf [].
Proof. intros i fr p H. destruct i; discriminate. Qed.

(* newEnv: a new frame whose parent exists keeps the invariant *)
Theorem new_frame_wf parent w id w' :
  frames_wf (frames w) ->
  match parent with Some p => p < List.length (frames w) | None => True end ->
  new_frame parent w = Ok id w' ->
  frames_wf (frames w') /\ id = List.length (frames w) /\
  List.length (frames w') = S (List.length (frames w)).
Proof.
  intros W Hp H. unfold new_frame in H. inversion H; subst. cbn [frames].
  split; [|split; [reflexivity|rewrite app_length; simpl; lia]].
  intros i fr p Hi Hpar. destruct (lt_dec i (List.length (frames w))) as [L|L].
  - rewrite nth_error_app1 in Hi by exact L. eapply W; eauto.
  - rewrite nth_error_app2 in Hi by lia.
    destruct (i - List.length (frames w)) as [|k] eqn:Ek.
    + cbn in Hi. inversion Hi; subst. cbn in Hpar. subst parent. lia.
    + cbn in Hi. destruct k; discriminate.
Qed.

Lemma nth_error_list_update {A} (g : A -> A) : forall l n i,
  nth_error (list_update n g l) i
  = if i =? n then option_map g (nth_error l i) else nth_error l i.
Proof.
  induction l as [|x r IH]; intros n i.
  - cbn [list_update]. destruct n; destruct (i =? _); destruct i; reflexivity.
  - destruct n as [|n]; destruct i as [|i]; cbn [list_update nth_error Nat.eqb option_map]; try reflexivity.
    apply IH.
Qed.

(* binding a variable does not touch the parent links *)
Theorem bind_var_wf env name v w u w' :
  frames_wf (frames w) -> bind_var env name v w = Ok u w' ->
  frames_wf (frames w') /\ List.length (frames w') = List.length (frames w).
Proof.
  intros W H. unfold bind_var in H. inversion H; subst. cbn [frames]. split.
  - intros i fr p Hi Hpar. rewrite nth_error_list_update in Hi.
    destruct (i =? env).
    + destruct (nth_error (frames w) i) as [fr0|] eqn:E; [|discriminate].
      cbn in Hi. inversion Hi; subst. cbn in Hpar. eapply W; eauto.
    + eapply W; eauto.
  - clear. generalize env. induction (frames w) as [|x r IH]; intros [|n]; cbn [list_update List.length]; auto.
Qed.

Print Assumptions lookup_fuel_stable.
Print Assumptions new_frame_wf.
Print Assumptions bind_var_wf.

(* ==================================================================================== *)
(* Examples                                                                             *)
(* ==================================================================================== *)
Example c09_frames :
  let fs := [mkFrame None [("a", Some VNull)]; mkFrame (Some 0) []; mkFrame (Some 1) []]%string in
  frames_wf fs /\ lookup_fuel 3 fs 2 "a" = Some (Some VNull) /\ lookup_fuel 2 fs 2 "a" = None.
Proof.
  cbv zeta. split; [|split; reflexivity].
  intros i fr p Hi Hp. destruct i as [|[|[|i]]]; cbn in Hi; inversion Hi; subst; cbn in Hp;
    try discriminate; try (inversion Hp; lia). destruct i; discriminate.
Qed.

Example c09_valid_arg :
  adepth (VArr [VArr [VStr "x"]]) = 2 /\
  valid_arg_type 3 (VArr [VArr [VStr "x"]]) (Param PT_array OptNone (Some [Param PT_array OptNone (Some [Param PT_string OptNone None])])) = true /\
  valid_arg_type 2 (VArr [VArr [VStr "x"]]) (Param PT_array OptNone (Some [Param PT_array OptNone (Some [Param PT_string OptNone None])])) = false.
Proof. repeat split; reflexivity. Qed.

Example c09_merge_sort_failing_comparator :
  merge_sort_fuel 4 (fun _ _ => fail (ELib "boom")) [VNull; VNull; VNull] (mkWorld []) = Err (ELib "boom").
Proof. reflexivity. Qed.

(* the slice expressions of $split and $replace (s[pos:start], cur[:start], cur[end:]) never
   panic on the answers of the regular-expression engine *)
Theorem C09_split_no_panic fm rx pw xl s src ms f lim w why :
  (Z.of_nat (slen s) < 2 ^ 53)%Z -> rx src s = Some ms -> wf_matches s ms ->
  call_builtin fm rx pw xl (S (S (S f))) "split" [AStr s; AFun (CRegex src); lim] w <> Panic why.
Proof.
  intros Hl Ho Hw. rewrite (C17_split fm rx pw xl s src ms Hl Ho Hw).
  destruct (limit_or lim 0 <? 0)%Z; discriminate.
Qed.

Theorem C09_replace_literal_no_panic fm rx pw xl s src ms f t lim w why :
  (Z.of_nat (slen s) < 2 ^ 53)%Z -> rx src s = Some ms -> wf_matches s ms ->
  scontains "$" t = false ->
  call_builtin fm rx pw xl (S (S (S f))) "replace" [AStr s; AFun (CRegex src); AStr t; lim] w <> Panic why.
Proof.
  intros Hl Ho Hw Ht.
  destruct (Z_lt_ge_dec (limit_or lim 0) 0) as [L|L].
  - rewrite (C17_replace fm rx pw xl s src ms Hl Ho Hw f (AStr t) lim w I).
    replace (limit_or lim 0 <? 0)%Z with true by lia. discriminate.
  - rewrite (replace_literal fm rx pw xl s src ms (int_exact_small _ Hl) Ho Hw f t lim w Ht) by lia.
    discriminate.
Qed.
Print Assumptions C09_split_no_panic.
Print Assumptions C09_replace_literal_no_panic.
