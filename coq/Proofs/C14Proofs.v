(* Proofs/C14Proofs.v — property C14: object construction, grouping and the object functions
   share one object model.  Theorems about Model/Value.v (sorted-object helpers),
   Model/Eval.v (group_items, group_pairs, object_with) and Model/LibCore.v (keys, each, sift,
   spread, merge, lookup) against the declarative definitions of Spec/C14.v. *)
From Coq Require Import Sorted Permutation Lia.
From JV Require Import Model.Value Model.Eval Proofs.MonadFacts Spec.C14.
Local Open Scope nat_scope.
Local Open Scope list_scope.

(* ================================================================================== *)
(** * 0. [sltb] is a strict total order on byte strings *)

Lemma byte_of_inj x y : byte_of x = byte_of y -> x = y.
Proof.
  unfold byte_of. intro H. apply N2Z.inj in H.
  rewrite <- (ascii_N_embedding x), <- (ascii_N_embedding y). now rewrite H.
Qed.

Lemma seqb_neq a b : seqb a b = false <-> a <> b.
Proof.
  split.
  - intros H E. apply seqb_eq in E. congruence.
  - intro N. destruct (seqb a b) eqn:E; [|reflexivity]. apply seqb_eq in E. contradiction.
Qed.

Lemma seqb_sym a b : seqb a b = seqb b a.
Proof.
  destruct (seqb a b) eqn:E.
  - apply seqb_eq in E. subst. now rewrite seqb_refl.
  - symmetry. apply seqb_neq. apply seqb_neq in E. congruence.
Qed.

Lemma sltb_irrefl a : sltb a a = false.
Proof. induction a as [|x a IH]; simpl; [reflexivity|]. now rewrite Z.ltb_irrefl. Qed.

Lemma sltb_trans a b c : sltb a b = true -> sltb b c = true -> sltb a c = true.
Proof.
  revert b c. induction a as [|x a IH]; intros [|y b] [|z c]; simpl; try discriminate; auto.
  destruct (byte_of x <? byte_of y)%Z eqn:Exy.
  - intros _. destruct (byte_of y <? byte_of z)%Z eqn:Eyz.
    + intros _. assert (H : (byte_of x <? byte_of z)%Z = true) by lia. now rewrite H.
    + destruct (byte_of z <? byte_of y)%Z eqn:Ezy; [discriminate|].
      intros _. assert (H : (byte_of x <? byte_of z)%Z = true) by lia. now rewrite H.
  - destruct (byte_of y <? byte_of x)%Z eqn:Eyx; [discriminate|].
    intro Hab. destruct (byte_of y <? byte_of z)%Z eqn:Eyz.
    + intros _. assert (H : (byte_of x <? byte_of z)%Z = true) by lia. now rewrite H.
    + destruct (byte_of z <? byte_of y)%Z eqn:Ezy; [discriminate|].
      intro Hbc.
      assert (H1 : (byte_of x <? byte_of z)%Z = false) by lia.
      assert (H2 : (byte_of z <? byte_of x)%Z = false) by lia.
      rewrite H1, H2. eauto.
Qed.

Lemma sltb_total a b : seqb a b = false -> sltb a b = false -> sltb b a = true.
Proof.
  revert b. induction a as [|x a IH]; intros [|y b]; simpl; try discriminate; auto.
  destruct (byte_of x <? byte_of y)%Z eqn:Exy; [discriminate|].
  destruct (byte_of y <? byte_of x)%Z eqn:Eyx; [reflexivity|].
  assert (E : x = y) by (apply byte_of_inj; lia). subst y.
  rewrite Ascii.eqb_refl. simpl. apply IH.
Qed.

Lemma sltb_asym a b : sltb a b = true -> sltb b a = false.
Proof.
  intro H. destruct (sltb b a) eqn:E; [|reflexivity].
  pose proof (sltb_trans _ _ _ H E) as T. now rewrite sltb_irrefl in T.
Qed.

Lemma sltb_neq a b : sltb a b = true -> seqb a b = false.
Proof.
  intro H. apply seqb_neq. intros ->. now rewrite sltb_irrefl in H.
Qed.

(* ================================================================================== *)
(** * 1. Association lists and the sorted-object helpers *)

Lemma assoc_get_app {A} k (l1 l2 : list (string * A)) :
  assoc_get k (l1 ++ l2) = match assoc_get k l1 with Some v => Some v | None => assoc_get k l2 end.
Proof.
  induction l1 as [|[k' v'] r IH]; simpl; [reflexivity|]. destruct (seqb k k'); auto.
Qed.

Lemma assoc_get_In {A} k (v : A) l : assoc_get k l = Some v -> In (k, v) l.
Proof.
  induction l as [|[k' v'] r IH]; simpl; [discriminate|].
  destruct (seqb k k') eqn:E.
  - intro H. inversion H; subst. apply seqb_eq in E. subst. now left.
  - intro H. right. auto.
Qed.

Lemma assoc_get_None {A} k (l : list (string * A)) : assoc_get k l = None <-> ~ In k (map fst l).
Proof.
  induction l as [|[k' v'] r IH]; simpl; [tauto|].
  destruct (seqb k k') eqn:E.
  - apply seqb_eq in E. subst. split; [discriminate|]. intro H. exfalso. apply H. now left.
  - apply seqb_neq in E. rewrite IH. split.
    + intros H [F|F]; [congruence|auto].
    + intros H F. apply H. now right.
Qed.

Lemma assoc_get_Some_In_keys {A} k (v : A) l : assoc_get k l = Some v -> In k (map fst l).
Proof. intro H. apply assoc_get_In in H. apply in_map_iff. now exists (k, v). Qed.

Lemma In_assoc_get {A} k (v : A) l : NoDup (map fst l) -> In (k, v) l -> assoc_get k l = Some v.
Proof.
  induction l as [|[k' v'] r IH]; simpl; [tauto|].
  intros ND [H|H].
  - inversion H; subst. now rewrite seqb_refl.
  - inversion ND as [|? ? NI ND']; subst.
    destruct (seqb k k') eqn:E.
    + apply seqb_eq in E. subst. exfalso. apply NI. apply in_map_iff. now exists (k', v).
    + auto.
Qed.

Lemma assoc_get_set {A} k k2 (v : A) l :
  assoc_get k2 (assoc_set k v l) = if seqb k2 k then Some v else assoc_get k2 l.
Proof.
  induction l as [|[k' v'] r IH]; simpl.
  - destruct (seqb k2 k); reflexivity.
  - destruct (seqb k k') eqn:E; simpl.
    + apply seqb_eq in E. subst k'. destruct (seqb k2 k); reflexivity.
    + rewrite IH. destruct (seqb k2 k') eqn:E2; [|reflexivity].
      apply seqb_eq in E2. subst k2. rewrite seqb_sym, E. reflexivity.
Qed.

Lemma assoc_set_keys {A} k (v : A) l :
  In k (map fst l) -> map fst (assoc_set k v l) = map fst l.
Proof.
  induction l as [|[k' v'] r IH]; simpl; [tauto|].
  destruct (seqb k k') eqn:E; simpl.
  - apply seqb_eq in E. now subst.
  - intros [H|H]; [apply seqb_neq in E; congruence|]. now rewrite IH.
Qed.

(** get after insert: the inserted key yields the new value, every other key is unchanged
    (no well-formedness needed) *)
Theorem assoc_get_obj_insert k v m k2 :
  assoc_get k2 (obj_insert k v m) = if seqb k2 k then Some v else assoc_get k2 m.
Proof.
  induction m as [|[k' v'] r IH]; simpl.
  - destruct (seqb k2 k); reflexivity.
  - destruct (seqb k k') eqn:E; simpl.
    + apply seqb_eq in E. subst k'. destruct (seqb k2 k); reflexivity.
    + destruct (sltb k k') eqn:L; simpl.
      * destruct (seqb k2 k); reflexivity.
      * rewrite IH. destruct (seqb k2 k') eqn:E2; [|reflexivity].
        apply seqb_eq in E2. subst k2. rewrite seqb_sym, E. reflexivity.
Qed.

Corollary assoc_get_obj_insert_same k v m : assoc_get k (obj_insert k v m) = Some v.
Proof. rewrite assoc_get_obj_insert. now rewrite seqb_refl. Qed.

Corollary assoc_get_obj_insert_other k v m k2 :
  k2 <> k -> assoc_get k2 (obj_insert k v m) = assoc_get k2 m.
Proof. intro N. rewrite assoc_get_obj_insert. apply seqb_neq in N. now rewrite N. Qed.

(** ** well-formedness *)
Lemma wf_obj_nil : wf_obj [].
Proof. constructor. Qed.

Lemma wf_obj_cons k v m :
  wf_obj ((k, v) :: m) <-> wf_obj m /\ Forall (slt k) (map fst m).
Proof.
  unfold wf_obj. simpl. split.
  - intro H. inversion H; subst. auto.
  - intros [H1 H2]. now constructor.
Qed.

Lemma wf_obj_NoDup m : wf_obj m -> NoDup (map fst m).
Proof.
  unfold wf_obj. induction (map fst m) as [|k r IH]; intro H; [constructor|].
  inversion H as [|? ? S F]; subst. constructor; [|auto].
  intro I. rewrite Forall_forall in F. specialize (F _ I). unfold slt in F.
  now rewrite sltb_irrefl in F.
Qed.

Lemma obj_insert_keys_In k v m x :
  In x (map fst (obj_insert k v m)) <-> x = k \/ In x (map fst m).
Proof.
  induction m as [|[k' v'] r IH]; simpl; [intuition|].
  destruct (seqb k k') eqn:E; simpl.
  - apply seqb_eq in E. subst. intuition.
  - destruct (sltb k k'); simpl; [intuition|]. rewrite IH. intuition.
Qed.

Theorem obj_insert_wf k v m : wf_obj m -> wf_obj (obj_insert k v m).
Proof.
  induction m as [|[k' v'] r IH]; intro W; simpl.
  - apply wf_obj_cons. split; [constructor|constructor].
  - apply wf_obj_cons in W as [Wr Fr].
    destruct (seqb k k') eqn:E.
    + apply seqb_eq in E. subst k'. apply wf_obj_cons. auto.
    + destruct (sltb k k') eqn:L.
      * apply wf_obj_cons. split; [apply wf_obj_cons; auto|].
        simpl. constructor; [exact L|].
        eapply Forall_impl; [|exact Fr]. intros a Ha. unfold slt in *. eapply sltb_trans; eauto.
      * apply wf_obj_cons. split; [auto|].
        apply Forall_forall. intros x Hx. apply obj_insert_keys_In in Hx as [->|Hx].
        -- unfold slt. apply sltb_total; assumption.
        -- rewrite Forall_forall in Fr. auto.
Qed.

Lemma fold_insert_wf l : forall m, wf_obj m ->
  wf_obj (fold_left (fun m kv => obj_insert (fst kv) (snd kv) m) l m).
Proof.
  induction l as [|[k v] r IH]; intros m W; simpl; [assumption|].
  apply IH. now apply obj_insert_wf.
Qed.

Theorem obj_of_list_wf l : wf_obj (obj_of_list l).
Proof. apply fold_insert_wf, wf_obj_nil. Qed.

Lemma obj_remove_keys_In k m x : In x (map fst (obj_remove k m)) -> In x (map fst m).
Proof.
  induction m as [|[k' v'] r IH]; simpl; [tauto|].
  destruct (seqb k k'); simpl; intuition.
Qed.

Theorem obj_remove_wf k m : wf_obj m -> wf_obj (obj_remove k m).
Proof.
  induction m as [|[k' v'] r IH]; intro W; simpl; [assumption|].
  apply wf_obj_cons in W as [Wr Fr].
  destruct (seqb k k'); [assumption|].
  apply wf_obj_cons. split; [auto|].
  apply Forall_forall. intros x Hx. apply obj_remove_keys_In in Hx.
  rewrite Forall_forall in Fr. auto.
Qed.

(** removal really removes, and only that key *)
Theorem assoc_get_obj_remove k m k2 : wf_obj m ->
  assoc_get k2 (obj_remove k m) = if seqb k2 k then None else assoc_get k2 m.
Proof.
  induction m as [|[k' v'] r IH]; intro W; simpl.
  - destruct (seqb k2 k); reflexivity.
  - apply wf_obj_cons in W as [Wr Fr].
    destruct (seqb k k') eqn:E; simpl.
    + apply seqb_eq in E. subst k'. destruct (seqb k2 k) eqn:E2; [|reflexivity].
      apply seqb_eq in E2. subst k2. apply assoc_get_None. intro I.
      rewrite Forall_forall in Fr. specialize (Fr _ I). unfold slt in Fr.
      now rewrite sltb_irrefl in Fr.
    + rewrite IH by assumption. destruct (seqb k2 k') eqn:E2; [|reflexivity].
      apply seqb_eq in E2. subst k2. rewrite seqb_sym, E. reflexivity.
Qed.

(** [obj_of_list] keeps the LAST value given for a repeated key *)
Lemma fold_insert_get l : forall m k,
  assoc_get k (fold_left (fun m kv => obj_insert (fst kv) (snd kv) m) l m) =
  match later_wins l k with Some v => Some v | None => assoc_get k m end.
Proof.
  unfold later_wins.
  induction l as [|[k' v'] r IH]; intros m k; simpl; [reflexivity|].
  rewrite IH, assoc_get_app. destruct (assoc_get k (rev r)); [reflexivity|].
  simpl. rewrite assoc_get_obj_insert. destruct (seqb k k'); reflexivity.
Qed.

Theorem obj_of_list_last l k : assoc_get k (obj_of_list l) = later_wins l k.
Proof.
  unfold obj_of_list. rewrite fold_insert_get. simpl. now destruct (later_wins l k).
Qed.

Lemma later_wins_NoDup {A} (l : list (string * A)) k v :
  NoDup (map fst l) -> (later_wins l k = Some v <-> In (k, v) l).
Proof.
  intro ND. unfold later_wins.
  assert (ND' : NoDup (map fst (rev l))) by (rewrite map_rev; now apply NoDup_rev).
  split.
  - intro H. apply assoc_get_In in H. now apply in_rev.
  - intro H. apply In_assoc_get; [assumption|]. now apply in_rev in H.
Qed.

(** a sorted object is rebuilt unchanged by [obj_of_list] *)
Lemma obj_insert_max k v m : Forall (fun x => slt x k) (map fst m) -> obj_insert k v m = m ++ [(k, v)].
Proof.
  induction m as [|[k' v'] r IH]; intro F; simpl; [reflexivity|].
  simpl in F. inversion F as [|? ? L F']; subst. unfold slt in L.
  assert (E : seqb k k' = false) by (rewrite seqb_sym; now apply sltb_neq).
  rewrite E, (sltb_asym _ _ L). now rewrite IH.
Qed.

Lemma sorted_app_max (l1 : list string) k l2 :
  StronglySorted slt (l1 ++ k :: l2) -> Forall (fun x => slt x k) l1.
Proof.
  induction l1 as [|a l1 IH]; simpl; intro S; [constructor|].
  inversion S as [|? ? S' F]; subst. constructor; [|auto].
  rewrite Forall_forall in F. apply F. apply in_or_app. right. now left.
Qed.

Lemma fold_insert_sorted m : forall acc, wf_obj (acc ++ m) ->
  fold_left (fun m kv => obj_insert (fst kv) (snd kv) m) m acc = acc ++ m.
Proof.
  induction m as [|[k v] r IH]; intros acc W; simpl; [now rewrite app_nil_r|].
  rewrite obj_insert_max.
  - rewrite IH; rewrite <- app_assoc; [reflexivity|exact W].
  - unfold wf_obj in W. rewrite map_app in W. simpl in W. eapply sorted_app_max; eauto.
Qed.

Theorem obj_of_list_wf_id m : wf_obj m -> obj_of_list m = m.
Proof. intro W. unfold obj_of_list. now rewrite fold_insert_sorted. Qed.

Example obj_insert_example :
  obj_of_list [("b", VNull); ("a", VBool true); ("b", VBool false)] = [("a", VBool true); ("b", VBool false)].
Proof. reflexivity. Qed.

Print Assumptions obj_insert_wf.
Print Assumptions obj_of_list_wf.
Print Assumptions obj_remove_wf.
Print Assumptions assoc_get_obj_insert.
Print Assumptions obj_of_list_last.
(* ================================================================================== *)
(** * 2. [nodup_str]: first occurrences, in order *)

Lemma existsb_seqb_In s l : existsb (seqb s) l = true <-> In s l.
Proof.
  rewrite existsb_exists. split.
  - intros (x & I & E). apply seqb_eq in E. now subst.
  - intro I. exists s. split; [assumption|apply seqb_refl].
Qed.

Lemma existsb_seqb_ext s l1 l2 :
  (forall x, In x l1 <-> In x l2) -> existsb (seqb s) l1 = existsb (seqb s) l2.
Proof.
  intro H. destruct (existsb (seqb s) l2) eqn:E.
  - apply existsb_seqb_In. apply H. now apply existsb_seqb_In.
  - destruct (existsb (seqb s) l1) eqn:E1; [|reflexivity].
    apply existsb_seqb_In in E1. apply H in E1. apply existsb_seqb_In in E1. congruence.
Qed.

Lemma nodup_str_acc_ext l : forall seen1 seen2,
  (forall x, In x seen1 <-> In x seen2) -> nodup_str_acc seen1 l = nodup_str_acc seen2 l.
Proof.
  induction l as [|s r IH]; intros seen1 seen2 H; simpl; [reflexivity|].
  rewrite (existsb_seqb_ext s seen1 seen2 H).
  destruct (existsb (seqb s) seen2); [now apply IH|].
  f_equal. apply IH. intro x. simpl. rewrite H. tauto.
Qed.

Lemma nodup_str_acc_In l : forall seen s,
  In s (nodup_str_acc seen l) <-> In s l /\ ~ In s seen.
Proof.
  induction l as [|a r IH]; intros seen s; simpl; [tauto|].
  destruct (existsb (seqb a) seen) eqn:E.
  - apply existsb_seqb_In in E. rewrite IH. split.
    + intros [H1 H2]. auto.
    + intros [[->|H1] H2]; [contradiction|auto].
  - assert (N : ~ In a seen) by (intro I; apply existsb_seqb_In in I; congruence).
    simpl. rewrite IH. simpl. split.
    + intros [->|[H1 H2]]; [auto|]. split; [auto|]. intro; apply H2; auto.
    + intros [[->|H1] H2]; [auto|].
      destruct (string_dec a s) as [->|D]; [auto|]. right. split; [auto|]. intros [F|F]; auto.
Qed.

Lemma nodup_str_acc_NoDup l : forall seen, NoDup (nodup_str_acc seen l).
Proof.
  induction l as [|a r IH]; intro seen; simpl; [constructor|].
  destruct (existsb (seqb a) seen); [apply IH|].
  constructor; [|apply IH]. rewrite nodup_str_acc_In. simpl. tauto.
Qed.

Lemma nodup_str_In l s : In s (nodup_str l) <-> In s l.
Proof. unfold nodup_str. rewrite nodup_str_acc_In. simpl. tauto. Qed.

Lemma nodup_str_NoDup l : NoDup (nodup_str l).
Proof. apply nodup_str_acc_NoDup. Qed.

Lemma nodup_str_acc_app l1 : forall seen l2 seen',
  (forall x, In x seen' <-> In x seen \/ In x l1) ->
  nodup_str_acc seen (l1 ++ l2) = nodup_str_acc seen l1 ++ nodup_str_acc seen' l2.
Proof.
  induction l1 as [|a r IH]; intros seen l2 seen' H; simpl.
  - apply nodup_str_acc_ext. intro x. rewrite H. simpl. tauto.
  - destruct (existsb (seqb a) seen) eqn:E.
    + apply existsb_seqb_In in E. apply IH. intro x. rewrite H. simpl.
      split; [intros [?|[->|?]]; auto|tauto].
    + simpl. f_equal. apply IH. intro x. rewrite H. simpl. tauto.
Qed.

Lemma nodup_str_app l1 l2 :
  nodup_str (l1 ++ l2) = nodup_str l1 ++ nodup_str_acc (nodup_str l1) l2.
Proof.
  unfold nodup_str at 1 2. apply nodup_str_acc_app. intro x. rewrite nodup_str_In. simpl. tauto.
Qed.

(** a duplicate-free list is left alone *)
Lemma nodup_str_acc_id l : forall seen,
  NoDup l -> (forall x, In x l -> ~ In x seen) -> nodup_str_acc seen l = l.
Proof.
  induction l as [|a r IH]; intros seen ND H; simpl; [reflexivity|].
  inversion ND as [|? ? NI ND']; subst.
  destruct (existsb (seqb a) seen) eqn:E.
  - apply existsb_seqb_In in E. exfalso. eapply H; [now left|eassumption].
  - f_equal. apply IH; [assumption|]. intros x I [F|F]; [subst; contradiction|].
    eapply H; [right; eassumption|assumption].
Qed.

Lemma nodup_str_id l : NoDup l -> nodup_str l = l.
Proof. intro ND. apply nodup_str_acc_id; auto. Qed.
(* ================================================================================== *)
(** * 3. Grouping: [group_items] and [group_pairs] *)

(** item indexes (counted from [j]) of the items whose key is [s] *)
Fixpoint hits (f : ovalue -> ovalue) (its : list ovalue) (j : nat) (s : string) : list nat :=
  match its with
  | [] => []
  | it :: r => if is_key (f it) s then j :: hits f r (S j) s else hits f r (S j) s
  end.

Lemma hits_filter f its : forall pre s,
  hits f its (List.length pre) s =
  filter (fun t => is_key (f (nth t (pre ++ its) None)) s) (seq (List.length pre) (List.length its)).
Proof.
  induction its as [|it r IH]; intros pre s; simpl; [reflexivity|].
  rewrite app_nth2 by lia. rewrite Nat.sub_diag. simpl.
  specialize (IH (pre ++ [it]) s). rewrite app_length in IH. simpl in IH.
  rewrite Nat.add_1_r in IH. rewrite <- app_assoc in IH. simpl in IH.
  destruct (is_key (f it) s); now rewrite IH.
Qed.

Lemma hits_nonempty f its j s : hits f its j s <> [] <-> In s (key_strs (map f its)).
Proof.
  revert j. induction its as [|it r IH]; intro j; simpl; [tauto|].
  unfold key_strs in *. simpl. rewrite in_app_iff.
  destruct (f it) as [[| | |s'| | |]|] eqn:E; simpl; try (rewrite IH; tauto).
  destruct (seqb s' s) eqn:Es.
  - apply seqb_eq in Es. subst. split; [auto|discriminate].
  - rewrite IH. apply seqb_neq in Es. split; [auto|]. intros [[?|[]]|?]; [congruence|auto].
Qed.

Section Grouping.
  Variable evn : node -> ovalue -> M ovalue.
  Variable ev : node -> ovalue -> ovalue.
  Hypothesis Hpure : pure_evn evn ev.

  Lemma group_items_cons k i it r j acc w :
    group_items evn k i (it :: r) j acc w =
    match ev k it with
    | Some (VStr key) =>
        match assoc_get key acc with
        | None => group_items evn k i r (S j) (acc ++ [(key, (i, [j]))]) w
        | Some (p, idxs) =>
            if negb (p =? i) then Err (EEval ErrDuplicateKey)
            else group_items evn k i r (S j) (assoc_set key (i, idxs ++ [j]) acc) w
        end
    | _ => Err (EEval ErrIllegalKey)
    end.
  Proof.
    cbn [group_items]. unfold bind. rewrite Hpure.
    destruct (ev k it) as [[| | |key| | |]|]; try reflexivity.
    destruct (assoc_get key acc) as [[p idxs]|]; [|reflexivity].
    destruct (negb (p =? i)); reflexivity.
  Qed.

  Definition gi_post (k : node) (i : nat) (its : list ovalue) (j : nat) (acc : groups_t) (w : world)
             (r : res groups_t) : Prop :=
    match r with
    | Ok acc' w' =>
        w' = w /\
        Forall (fun it => is_str (ev k it) = true) its /\
        map fst acc' = map fst acc ++ nodup_str_acc (map fst acc) (key_strs (map (ev k) its)) /\
        (forall s, assoc_get s acc' =
                   match assoc_get s acc with
                   | Some (p, idxs) => Some (p, idxs ++ hits (ev k) its j s)
                   | None => match hits (ev k) its j s with [] => None | h => Some (i, h) end
                   end) /\
        (forall s p idxs, assoc_get s acc = Some (p, idxs) ->
                          In s (key_strs (map (ev k) its)) -> p = i)
    | Err e =>
        (e = EEval ErrIllegalKey /\ Exists (fun it => is_str (ev k it) = false) its) \/
        (e = EEval ErrDuplicateKey /\
         exists s p idxs, In s (key_strs (map (ev k) its)) /\ assoc_get s acc = Some (p, idxs) /\ p <> i)
    | _ => False
    end.

  Lemma group_items_post k i its : forall j acc w, gi_post k i its j acc w (group_items evn k i its j acc w).
  Proof.
    induction its as [|it r IH]; intros j acc w.
    - simpl. repeat split; auto.
      + now rewrite app_nil_r.
      + intro s. destruct (assoc_get s acc) as [[p idxs]|]; [now rewrite app_nil_r|reflexivity].
      + intros s p idxs _ [].
    - rewrite group_items_cons.
      destruct (ev k it) as [[| | |key| | |]|] eqn:Ek;
        try (left; split; [reflexivity|]; apply Exists_cons_hd; unfold is_str; now rewrite Ek).
      assert (KS : key_strs (map (ev k) (it :: r)) = key :: key_strs (map (ev k) r))
        by (unfold key_strs; simpl; now rewrite Ek).
      assert (HS : forall s, hits (ev k) (it :: r) j s =
                             if seqb key s then j :: hits (ev k) r (S j) s else hits (ev k) r (S j) s)
        by (intro s; simpl; now rewrite Ek).
      destruct (assoc_get key acc) as [[p idxs]|] eqn:Ea.
      + destruct (negb (p =? i)) eqn:Ep.
        * right. split; [reflexivity|]. exists key, p, idxs. rewrite KS. split; [now left|].
          split; [assumption|]. apply negb_true_iff in Ep. now apply Nat.eqb_neq.
        * apply negb_false_iff in Ep. apply Nat.eqb_eq in Ep. subst p.
          specialize (IH (S j) (assoc_set key (i, idxs ++ [j]) acc) w).
          assert (Hget : forall s, assoc_get s (assoc_set key (i, idxs ++ [j]) acc) =
                                   if seqb s key then Some (i, idxs ++ [j]) else assoc_get s acc)
            by (intro s; apply assoc_get_set).
          assert (Hkeys : map fst (assoc_set key (i, idxs ++ [j]) acc) = map fst acc)
            by (apply assoc_set_keys; eapply assoc_get_Some_In_keys; eauto).
          destruct (group_items evn k i r (S j) (assoc_set key (i, idxs ++ [j]) acc) w)
            as [acc' w'|e| | |]; unfold gi_post in *; try assumption.
          -- destruct IH as (Hw & HF & HK & HG & HP). split; [assumption|].
             split; [constructor; [unfold is_str; now rewrite Ek|assumption]|].
             split; [|split].
             ++ rewrite HK, Hkeys, KS. simpl.
                assert (E : existsb (seqb key) (map fst acc) = true)
                  by (apply existsb_seqb_In; eapply assoc_get_Some_In_keys; eauto).
                now rewrite E.
             ++ intro s. rewrite HG, Hget, HS. rewrite (seqb_sym key s).
                destruct (seqb s key) eqn:Es.
                ** apply seqb_eq in Es. subst s. rewrite Ea. now rewrite <- app_assoc.
                ** reflexivity.
             ++ intros s p idxs' Hs Hin. rewrite KS in Hin.
                destruct (seqb s key) eqn:Es.
                ** apply seqb_eq in Es. subst s. congruence.
                ** destruct Hin as [Hin|Hin]; [apply seqb_neq in Es; congruence|].
                   eapply HP; [|exact Hin]. rewrite Hget, Es. exact Hs.
          -- destruct IH as [[He HE]|[He (s & p & idxs' & Hin & Hs & Hp)]].
             ++ left. split; [assumption|]. now apply Exists_cons_tl.
             ++ right. split; [assumption|]. exists s, p, idxs'. rewrite KS.
                rewrite Hget in Hs. destruct (seqb s key) eqn:Es; [congruence|].
                split; [now right|]. split; assumption.
      + specialize (IH (S j) (acc ++ [(key, (i, [j]))]) w).
        assert (Hget : forall s, assoc_get s (acc ++ [(key, (i, [j]))]) =
                                 match assoc_get s acc with
                                 | Some x => Some x
                                 | None => if seqb s key then Some (i, [j]) else None
                                 end)
          by (intro s; rewrite assoc_get_app; reflexivity).
        assert (Hkeys : map fst (acc ++ [(key, (i, [j]))]) = map fst acc ++ [key])
          by (now rewrite map_app).
        assert (Hnk : ~ In key (map fst acc)) by (now apply assoc_get_None).
        destruct (group_items evn k i r (S j) (acc ++ [(key, (i, [j]))]) w)
          as [acc' w'|e| | |]; unfold gi_post in *; try assumption.
        * destruct IH as (Hw & HF & HK & HG & HP). split; [assumption|].
          split; [constructor; [unfold is_str; now rewrite Ek|assumption]|].
          split; [|split].
          -- rewrite HK, Hkeys, KS. simpl.
             assert (E : existsb (seqb key) (map fst acc) = false).
             { destruct (existsb (seqb key) (map fst acc)) eqn:E; [|reflexivity].
               apply existsb_seqb_In in E. contradiction. }
             rewrite E, <- app_assoc. simpl. do 2 f_equal.
             apply nodup_str_acc_ext. intro x. rewrite in_app_iff. simpl. tauto.
          -- intro s. rewrite HG, Hget, HS. rewrite (seqb_sym key s).
             destruct (assoc_get s acc) as [[p idxs]|] eqn:Es.
             ++ destruct (seqb s key) eqn:Esk; [|reflexivity].
                apply seqb_eq in Esk. subst s. congruence.
             ++ destruct (seqb s key); reflexivity.
          -- intros s p idxs Hs Hin. rewrite KS in Hin.
             destruct Hin as [Hin|Hin]; [subst s; congruence|].
             eapply HP; [|exact Hin]. rewrite Hget, Hs. reflexivity.
        * destruct IH as [[He HE]|[He (s & p & idxs' & Hin & Hs & Hp)]].
          -- left. split; [assumption|]. now apply Exists_cons_tl.
          -- right. split; [assumption|]. exists s, p, idxs'. rewrite KS.
             rewrite Hget in Hs. destruct (assoc_get s acc) as [x|] eqn:Esa.
             ++ split; [now right|]. split; [congruence|assumption].
             ++ destruct (seqb s key); [|discriminate]. inversion Hs. congruence.
  Qed.
End Grouping.
Section GroupPairs.
  Variable evn : node -> ovalue -> M ovalue.
  Variable ev : node -> ovalue -> ovalue.
  Hypothesis Hpure : pure_evn evn ev.
  Variable items : list ovalue.

  Lemma all_keys_app ps1 ps2 : all_keys ev items (ps1 ++ ps2) = all_keys ev items ps1 ++ all_keys ev items ps2.
  Proof. unfold all_keys. apply flat_map_app. Qed.

  Lemma groups_spec_nil : groups_spec ev items [] [].
  Proof.
    split; [reflexivity|]. intros s p idxs. split; [discriminate|].
    intros (k & v & H & _). destruct p; discriminate.
  Qed.

  (** adding the groups of one more pair *)
  Lemma groups_spec_extend pre acc k v acc' :
    groups_spec ev items pre acc ->
    map fst acc' = map fst acc ++ nodup_str_acc (map fst acc) (pair_keys ev items k) ->
    (forall s, In s (pair_keys ev items k) ->
               assoc_get s acc' = Some (List.length pre, pair_idxs ev items k s)) ->
    (forall s, ~ In s (pair_keys ev items k) -> assoc_get s acc' = assoc_get s acc) ->
    (forall s, In s (pair_keys ev items k) -> assoc_get s acc = None) ->
    groups_spec ev items (pre ++ [(k, v)]) acc'.
  Proof.
    intros [HK HG] HK' Hin Hout Hfresh. split.
    - rewrite all_keys_app, nodup_str_app, <- HK, HK'. unfold all_keys. simpl.
      now rewrite app_nil_r.
    - intros s p idxs. split.
      + intro Hs. destruct (in_dec string_dec s (pair_keys ev items k)) as [I|NI].
        * rewrite (Hin s I) in Hs. inversion Hs; subst. exists k, v.
          rewrite nth_error_app2, Nat.sub_diag by lia. auto.
        * rewrite (Hout s NI) in Hs. apply HG in Hs as (k0 & v0 & Hn & Hp & Hi).
          exists k0, v0. rewrite nth_error_app1; [auto|]. apply nth_error_Some. congruence.
      + intros (k0 & v0 & Hn & Hp & Hi).
        destruct (Nat.lt_ge_cases p (List.length pre)) as [L|L].
        * rewrite nth_error_app1 in Hn by assumption.
          assert (Hs : assoc_get s acc = Some (p, idxs)) by (apply HG; eauto).
          rewrite Hout; [assumption|]. intro I. rewrite (Hfresh s I) in Hs. discriminate.
        * rewrite nth_error_app2 in Hn by assumption.
          destruct (p - List.length pre) as [|d] eqn:Ed; simpl in Hn.
          -- inversion Hn; subst k0 v0. assert (p = List.length pre) by lia. subst p.
             rewrite Hi. now apply Hin.
          -- destruct d; discriminate.
  Qed.

  Lemma groups_spec_lt pre acc s p idxs :
    groups_spec ev items pre acc -> assoc_get s acc = Some (p, idxs) -> p < List.length pre.
  Proof.
    intros [_ HG] Hs. apply HG in Hs as (k & v & Hn & _). apply nth_error_Some. congruence.
  Qed.

  Lemma hits_pair_idxs k s :
    is_literal k = false -> hits (ev k) items 0 s = pair_idxs ev items k s.
  Proof.
    intro L. pose proof (hits_filter (ev k) items [] s) as H. simpl in H. rewrite H.
    destruct k; try reflexivity. discriminate.
  Qed.

  Lemma pair_keys_nonlit k : is_literal k = false -> pair_keys ev items k = key_strs (map (ev k) items).
  Proof. destruct k; try reflexivity. discriminate. Qed.

  Definition gp_post (pre ps : list (node * node)) (w : world) (r : res groups_t) : Prop :=
    match r with
    | Ok g w' => w' = w /\ groups_spec ev items (pre ++ ps) g /\ ~ illegal_key ev items ps
    | Err e => (e = EEval ErrIllegalKey /\ illegal_key ev items ps) \/
               (e = EEval ErrDuplicateKey /\ duplicate_key ev items (pre ++ ps))
    | _ => False
    end.

  Lemma illegal_key_cons_lit k v ps :
    is_literal k = true -> illegal_key ev items ((k, v) :: ps) -> illegal_key ev items ps.
  Proof.
    intros L (k0 & v0 & it & [H|H] & Hl & Hi & Hs).
    - inversion H; subst. congruence.
    - exists k0, v0, it. auto.
  Qed.

  Lemma illegal_key_tl k v ps : illegal_key ev items ps -> illegal_key ev items ((k, v) :: ps).
  Proof. intros (k0 & v0 & it & H & R). exists k0, v0, it. split; [now right|exact R]. Qed.

  Lemma group_pairs_post ps : forall pre acc w,
    groups_spec ev items pre acc ->
    gp_post pre ps w (group_pairs evn items ps (List.length pre) acc w).
  Proof.
    induction ps as [|[k v] rest IH]; intros pre acc w Hinv.
    - simpl. rewrite app_nil_r. split; [reflexivity|]. split; [assumption|].
      intros (k & v & it & [] & _).
    - assert (Hlen : S (List.length pre) = List.length (pre ++ [(k, v)]))
        by (rewrite app_length; simpl; lia).
      assert (Happ : pre ++ (k, v) :: rest = (pre ++ [(k, v)]) ++ rest)
        by (now rewrite <- app_assoc).
      assert (Hnth : nth_error (pre ++ (k, v) :: rest) (List.length pre) = Some (k, v))
        by (rewrite nth_error_app2, Nat.sub_diag by lia; reflexivity).
      destruct (is_literal k) eqn:Lk.
      + destruct k; try discriminate. cbn [group_pairs].
        destruct (assoc_get s acc) as [[p idxs]|] eqn:Ea.
        * right. split; [reflexivity|].
          pose proof (groups_spec_lt _ _ _ _ _ Hinv Ea) as Lp.
          destruct Hinv as [_ HG]. apply HG in Ea as (k1 & v1 & Hn & Hp & _).
          exists p, (List.length pre), k1, v1, (NString s), v, s.
          split; [lia|]. split; [rewrite nth_error_app1; assumption|].
          split; [assumption|]. split; [assumption|]. now left.
        * assert (Hinv' : groups_spec ev items (pre ++ [(NString s, v)])
                                      (acc ++ [(s, (List.length pre, []))])).
          { apply groups_spec_extend with (acc := acc); auto.
            - rewrite map_app. simpl.
              assert (E : existsb (seqb s) (map fst acc) = false).
              { destruct (existsb (seqb s) (map fst acc)) eqn:E; [|reflexivity].
                apply existsb_seqb_In in E. apply assoc_get_None in Ea. contradiction. }
              now rewrite E.
            - intros s0 [<-|[]]. rewrite assoc_get_app, Ea. simpl. now rewrite seqb_refl.
            - intros s0 NI. rewrite assoc_get_app. destruct (assoc_get s0 acc); [reflexivity|].
              simpl. destruct (seqb s0 s) eqn:E; [|reflexivity].
              apply seqb_eq in E. subst. exfalso. apply NI. now left.
            - intros s0 [<-|[]]. assumption. }
          specialize (IH _ _ w Hinv'). rewrite <- Hlen in IH.
          destruct (group_pairs evn items rest (S (List.length pre)) (acc ++ [(s, (List.length pre, []))]) w)
            as [g w'|e| | |]; unfold gp_post in *; rewrite ?Happ; try assumption.
          -- destruct IH as (Hw & HS & HI). split; [assumption|]. split; [assumption|].
             intro F. apply HI. eapply illegal_key_cons_lit; eauto.
          -- destruct IH as [[He HI]|[He HD]]; [left|right]; split; auto.
             now apply illegal_key_tl.
      + assert (Hgp : group_pairs evn items ((k, v) :: rest) (List.length pre) acc w =
                      bind (group_items evn k (List.length pre) items 0 acc)
                           (fun acc' => group_pairs evn items rest (S (List.length pre)) acc') w)
          by (destruct k; try reflexivity; discriminate).
        rewrite Hgp. unfold bind.
        pose proof (group_items_post evn ev Hpure k (List.length pre) items 0 acc w) as GI.
        destruct (group_items evn k (List.length pre) items 0 acc w) as [acc' w'|e| | |];
          unfold gi_post in GI; try contradiction.
        * destruct GI as (Hw & HF & HK & HG & HP). subst w'.
          assert (Hfresh : forall s, In s (pair_keys ev items k) -> assoc_get s acc = None).
          { intros s I. rewrite pair_keys_nonlit in I by assumption.
            destruct (assoc_get s acc) as [[p idxs]|] eqn:Es; [|reflexivity].
            pose proof (HP _ _ _ Es I). pose proof (groups_spec_lt _ _ _ _ _ Hinv Es). lia. }
          assert (Hinv' : groups_spec ev items (pre ++ [(k, v)]) acc').
          { apply groups_spec_extend with (acc := acc); auto.
            - now rewrite pair_keys_nonlit.
            - intros s I. rewrite HG, (Hfresh s I), hits_pair_idxs by assumption.
              rewrite pair_keys_nonlit in I by assumption.
              apply hits_nonempty with (j := 0) in I. rewrite hits_pair_idxs in I by assumption.
              destruct (pair_idxs ev items k s); [contradiction|reflexivity].
            - intros s NI. rewrite HG. rewrite pair_keys_nonlit in NI by assumption.
              assert (E : hits (ev k) items 0 s = []).
              { destruct (hits (ev k) items 0 s) eqn:E; [reflexivity|].
                exfalso. apply NI. apply (hits_nonempty (ev k) items 0 s). rewrite E. discriminate. }
              rewrite E. destruct (assoc_get s acc) as [[p idxs]|]; [now rewrite app_nil_r|reflexivity]. }
          specialize (IH _ _ w Hinv'). rewrite <- Hlen in IH.
          destruct (group_pairs evn items rest (S (List.length pre)) acc' w)
            as [g w'|e| | |]; unfold gp_post in *; rewrite ?Happ; try assumption.
          -- destruct IH as (Hw & HS & HI). split; [assumption|]. split; [assumption|].
             intros (k0 & v0 & it & [H|H] & Hl & Hi & Hs).
             ++ inversion H; subst k0 v0. rewrite Forall_forall in HF. rewrite (HF _ Hi) in Hs. discriminate.
             ++ apply HI. exists k0, v0, it. auto.
          -- destruct IH as [[He HI]|[He HD]]; [left|right]; split; auto.
             now apply illegal_key_tl.
        * destruct GI as [[He HE]|[He (s & p & idxs & Hin & Hs & Hp)]].
          -- left. split; [assumption|]. apply Exists_exists in HE as (it & Hi & Hs).
             exists k, v, it. split; [now left|auto].
          -- right. split; [assumption|].
             pose proof (groups_spec_lt _ _ _ _ _ Hinv Hs) as Lp.
             destruct Hinv as [_ HG]. apply HG in Hs as (k1 & v1 & Hn & Hpr & _).
             exists p, (List.length pre), k1, v1, k, v, s.
             split; [lia|]. split; [rewrite nth_error_app1; assumption|].
             split; [assumption|]. split; [assumption|].
             unfold produces. now rewrite pair_keys_nonlit.
  Qed.

  (** *** Main theorems on grouping *)

  (** success: the table is exactly the declarative grouping *)
  Theorem group_pairs_spec ps w g w' :
    group_pairs evn items ps 0 [] w = Ok g w' ->
    w' = w /\ groups_spec ev items ps g /\ ~ illegal_key ev items ps.
  Proof.
    intro H. pose proof (group_pairs_post ps [] [] w groups_spec_nil) as P.
    simpl in P. rewrite H in P. exact P.
  Qed.

  Lemma groups_spec_no_dup ps g : groups_spec ev items ps g -> ~ duplicate_key ev items ps.
  Proof.
    intros [_ HG] (p1 & p2 & k1 & v1 & k2 & v2 & s & Hne & H1 & H2 & P1 & P2).
    assert (E1 : assoc_get s g = Some (p1, pair_idxs ev items k1 s)) by (apply HG; eauto).
    assert (E2 : assoc_get s g = Some (p2, pair_idxs ev items k2 s)) by (apply HG; eauto).
    congruence.
  Qed.

  (** the outcome of grouping is a table or one of the two key errors (the sub-evaluator
      being pure), and each error implies its situation *)
  Theorem group_pairs_outcome ps w :
    (exists g, group_pairs evn items ps 0 [] w = Ok g w) \/
    (group_pairs evn items ps 0 [] w = Err (EEval ErrIllegalKey) /\ illegal_key ev items ps) \/
    (group_pairs evn items ps 0 [] w = Err (EEval ErrDuplicateKey) /\ duplicate_key ev items ps).
  Proof.
    pose proof (group_pairs_post ps [] [] w groups_spec_nil) as P. simpl in P.
    destruct (group_pairs evn items ps 0 [] w) as [g w'|e| | |]; try contradiction.
    - destruct P as (-> & _). left. eauto.
    - destruct P as [[-> H]|[-> H]]; auto.
  Qed.

  (** C14_errors *)
  Theorem C14_errors ps w :
    let r := group_pairs evn items ps 0 [] w in
    (* success implies neither situation *)
    (forall g w', r = Ok g w' -> ~ illegal_key ev items ps /\ ~ duplicate_key ev items ps) /\
    (* each error implies its situation *)
    (r = Err (EEval ErrIllegalKey) -> illegal_key ev items ps) /\
    (r = Err (EEval ErrDuplicateKey) -> duplicate_key ev items ps) /\
    (* either situation makes grouping fail with one of the two errors *)
    (illegal_key ev items ps \/ duplicate_key ev items ps ->
     r = Err (EEval ErrIllegalKey) \/ r = Err (EEval ErrDuplicateKey)) /\
    (* exactly the stated error when only one situation is present *)
    (~ duplicate_key ev items ps -> (r = Err (EEval ErrIllegalKey) <-> illegal_key ev items ps)) /\
    (~ illegal_key ev items ps -> (r = Err (EEval ErrDuplicateKey) <-> duplicate_key ev items ps)).
  Proof.
    intro r.
    assert (Hok : forall g w', r = Ok g w' -> ~ illegal_key ev items ps /\ ~ duplicate_key ev items ps).
    { intros g w' H. apply group_pairs_spec in H as (_ & HS & HI). split; [assumption|].
      eapply groups_spec_no_dup; eauto. }
    pose proof (group_pairs_outcome ps w) as O. fold r in O.
    assert (H1 : r = Err (EEval ErrIllegalKey) -> illegal_key ev items ps).
    { intro H. destruct O as [(g & E)|[[E I]|[E D]]]; [congruence|assumption|congruence]. }
    assert (H2 : r = Err (EEval ErrDuplicateKey) -> duplicate_key ev items ps).
    { intro H. destruct O as [(g & E)|[[E I]|[E D]]]; [congruence|congruence|assumption]. }
    assert (H3 : illegal_key ev items ps \/ duplicate_key ev items ps ->
                 r = Err (EEval ErrIllegalKey) \/ r = Err (EEval ErrDuplicateKey)).
    { intro H. destruct O as [(g & E)|[[E I]|[E D]]]; [|auto|auto].
      destruct (Hok _ _ E). tauto. }
    split; [exact Hok|]. split; [exact H1|]. split; [exact H2|]. split; [exact H3|]. split.
    - intro ND. split; [exact H1|]. intro I.
      destruct (H3 (or_introl I)) as [E|E]; [assumption|]. exfalso. auto.
    - intro NI. split; [exact H2|]. intro D.
      destruct (H3 (or_intror D)) as [E|E]; [|assumption]. exfalso. auto.
  Qed.
End GroupPairs.

Print Assumptions group_pairs_spec.
Print Assumptions C14_errors.
(* ================================================================================== *)
(** * 4. The partition law *)

Lemma filter_all {A} (f : A -> bool) l : (forall x, In x l -> f x = true) -> filter f l = l.
Proof.
  induction l as [|a r IH]; intro H; simpl; [reflexivity|].
  rewrite (H a (or_introl eq_refl)). f_equal. apply IH. intros x I. apply H. now right.
Qed.

Lemma filter_map_swap {A B} (f : B -> bool) (g : A -> B) l :
  filter f (map g l) = map g (filter (fun x => f (g x)) l).
Proof.
  induction l as [|a r IH]; simpl; [reflexivity|]. destruct (f (g a)); simpl; now rewrite IH.
Qed.

Lemma map_nth_seq {A} (l : list A) d : map (fun j => nth j l d) (seq 0 (List.length l)) = l.
Proof.
  induction l as [|a r IH]; simpl; [reflexivity|]. f_equal.
  rewrite <- seq_shift, map_map. exact IH.
Qed.

Lemma filter_length_le' {A} (f : A -> bool) l : List.length (filter f l) <= List.length l.
Proof. induction l as [|a r IH]; simpl; [lia|]. destruct (f a); simpl; lia. Qed.

Lemma filter_length_all {A} (f : A -> bool) l : List.length (filter f l) = List.length l -> filter f l = l.
Proof.
  induction l as [|a r IH]; simpl; [reflexivity|].
  destruct (f a); simpl; intro H.
  - f_equal. apply IH. lia.
  - pose proof (filter_length_le' f r). lia.
Qed.

Lemma filter_disjoint_perm {A} (p q : A -> bool) l :
  (forall x, In x l -> p x = true -> q x = false) ->
  Permutation (filter p l ++ filter q l) (filter (fun x => p x || q x) l).
Proof.
  induction l as [|a r IH]; intro H; simpl; [constructor|].
  assert (IH' : Permutation (filter p r ++ filter q r) (filter (fun x => p x || q x) r))
    by (apply IH; intros x I; apply H; now right).
  destruct (p a) eqn:Ep; simpl.
  - rewrite (H a (or_introl eq_refl) Ep). now constructor.
  - destruct (q a); simpl; [|assumption].
    apply Permutation_sym. apply Permutation_cons_app. now apply Permutation_sym.
Qed.

Lemma flat_map_filter_perm {A} (F : string -> A -> bool) l ks :
  (forall s1 s2 x, F s1 x = true -> F s2 x = true -> s1 = s2) ->
  NoDup ks ->
  Permutation (flat_map (fun s => filter (F s) l) ks)
              (filter (fun x => existsb (fun s => F s x) ks) l).
Proof.
  intros Hinj. induction ks as [|s ks IH]; intro ND; simpl.
  - induction l; simpl; auto.
  - inversion ND as [|? ? NI ND']; subst.
    eapply Permutation_trans; [apply Permutation_app_head, IH, ND'|].
    apply filter_disjoint_perm. intros x _ Hs.
    destruct (existsb (fun s0 => F s0 x) ks) eqn:E; [|reflexivity].
    apply existsb_exists in E as (s' & I & Hs'). rewrite (Hinj _ _ _ Hs Hs') in NI. contradiction.
Qed.

Lemma NoDup_map_filter {A B} (g : A -> B) (f : A -> bool) l : NoDup (map g l) -> NoDup (map g (filter f l)).
Proof.
  induction l as [|a r IH]; simpl; intro ND; [constructor|].
  inversion ND as [|? ? NI ND']; subst.
  destruct (f a); simpl; [|auto]. constructor; [|auto].
  intro I. apply NI. apply in_map_iff in I as (x & E & I). apply filter_In in I as [I _].
  apply in_map_iff. eauto.
Qed.

Section Partition.
  Variable ev : node -> ovalue -> ovalue.
  Variable items : list ovalue.

  Lemma groups_NoDup ps g : groups_spec ev items ps g -> NoDup (map fst g).
  Proof. intros [HK _]. rewrite HK. apply nodup_str_NoDup. Qed.

  (** the key set of the table is exactly the set of key strings produced *)
  Theorem groups_key_set ps g s :
    groups_spec ev items ps g ->
    (In s (map fst g) <-> exists k v, In (k, v) ps /\ produces ev items k s).
  Proof.
    intros [HK _]. rewrite HK, nodup_str_In. unfold all_keys. rewrite in_flat_map. split.
    - intros ([k v] & I & P). eauto.
    - intros (k & v & I & P). exists (k, v). auto.
  Qed.

  (** membership form of the table characterisation *)
  Theorem groups_members ps g s p idxs :
    groups_spec ev items ps g ->
    (In (s, (p, idxs)) g <->
     exists k v, nth_error ps p = Some (k, v) /\ produces ev items k s /\ idxs = pair_idxs ev items k s).
  Proof.
    intro HS. pose proof (groups_NoDup _ _ HS) as ND. destruct HS as [_ HG].
    rewrite <- HG. split; [now apply In_assoc_get|apply assoc_get_In].
  Qed.

  (** every item index lands in exactly one group of a non-literal pair whose keys are all
      strings: the groups of the pair partition [0..n) *)
  Theorem C14_partition ps g p k v :
    groups_spec ev items ps g ->
    nth_error ps p = Some (k, v) -> is_literal k = false ->
    (forall it, In it items -> is_str (ev k it) = true) ->
    Permutation (List.concat (map (fun e => snd (snd e)) (filter (fun e => fst (snd e) =? p) g)))
                (seq 0 (List.length items)).
  Proof.
    intros HS Hn Lk Hstr.
    set (gp := filter (fun e : string * (nat * list nat) => fst (snd e) =? p) g).
    set (F := fun (s : string) (j : nat) => is_key (ev k (nth j items None)) s).
    set (L := seq 0 (List.length items)).
    assert (Hpi : forall s, pair_idxs ev items k s = filter (F s) L)
      by (intro s; destruct k; try reflexivity; discriminate).
    assert (E1 : map (fun e => snd (snd e)) gp = map (fun s => filter (F s) L) (map fst gp)).
    { rewrite map_map. apply map_ext_in. intros [s [p' idxs]] I. simpl.
      apply filter_In in I as [I Ep]. simpl in Ep. apply Nat.eqb_eq in Ep. subst p'.
      apply (groups_members _ _ _ _ _ HS) in I as (k' & v' & Hn' & _ & Hi).
      rewrite Hn in Hn'. inversion Hn'; subst k' v'. now rewrite Hi, Hpi. }
    rewrite E1, <- flat_map_concat_map.
    eapply Permutation_trans.
    - apply flat_map_filter_perm.
      + intros s1 s2 j H1 H2. unfold F, is_key in *.
        destruct (ev k (nth j items None)) as [[| | |s'| | |]|]; try discriminate.
        apply seqb_eq in H1, H2. congruence.
      + apply NoDup_map_filter. eapply groups_NoDup; eauto.
    - rewrite filter_all; [apply Permutation_refl|].
      intros j Ij. unfold L in Ij. apply in_seq in Ij.
      assert (Iit : In (nth j items None) items) by (apply nth_In; lia).
      pose proof (Hstr _ Iit) as Hs. unfold is_str in Hs.
      destruct (ev k (nth j items None)) as [[| | |s| | |]|] eqn:Ek; try discriminate.
      apply existsb_exists. exists s. split.
      + assert (P : produces ev items k s).
        { unfold produces. destruct k; try discriminate; simpl;
            unfold key_strs; apply in_flat_map; (eexists; split; [apply in_map; exact Iit|]);
            rewrite Ek; now left. }
        assert (I : In (s, (p, pair_idxs ev items k s)) g)
          by (apply (groups_members _ _ _ _ _ HS); eauto).
        apply in_map_iff. exists (s, (p, pair_idxs ev items k s)). split; [reflexivity|].
        apply filter_In. split; [assumption|]. simpl. apply Nat.eqb_refl.
      + unfold F. rewrite Ek. simpl. apply seqb_refl.
  Qed.

  (** the index list of a group, read as items, is the sub-sequence of the items having that key *)
  Lemma pair_idxs_items k s :
    is_literal k = false ->
    map (fun j => nth j items None) (pair_idxs ev items k s) = group_of ev items k s.
  Proof.
    intro Lk.
    assert (E : pair_idxs ev items k s =
                filter (fun j => is_key (ev k (nth j items None)) s) (seq 0 (List.length items)))
      by (destruct k; try reflexivity; discriminate).
    assert (E' : group_of ev items k s = filter (fun it => is_key (ev k it) s) items)
      by (destruct k; try reflexivity; discriminate).
    rewrite E, E'.
    rewrite <- (filter_map_swap (fun it => is_key (ev k it) s) (fun j => nth j items None)).
    now rewrite map_nth_seq.
  Qed.
End Partition.

Print Assumptions C14_partition.
(* ================================================================================== *)
(** * 5. [group_items] alone, and [object_with] *)

Lemma insert_by_perm {A} (lt : A -> A -> bool) x l : Permutation (insert_by lt x l) (x :: l).
Proof.
  induction l as [|y r IH]; simpl; [apply Permutation_refl|].
  destruct (lt y x); [|apply Permutation_refl].
  eapply Permutation_trans; [apply perm_skip, IH|apply perm_swap].
Qed.

Lemma stable_sort_perm {A} (lt : A -> A -> bool) l : Permutation (stable_sort lt l) l.
Proof.
  induction l as [|x r IH]; simpl; [constructor|].
  eapply Permutation_trans; [apply insert_by_perm|]. now constructor.
Qed.

Lemma flat_map_keys {A} (f : string * A -> list (string * value)) (l : list (string * A)) :
  (forall e, In e l -> f e = [] \/ exists x, f e = [(fst e, x)]) ->
  forall s, In s (map fst (flat_map f l)) -> In s (map fst l).
Proof.
  intros H s I. apply in_map_iff in I as ([s' x] & <- & I). apply in_flat_map in I as (e & Ie & If).
  destruct (H e Ie) as [E|(y & E)]; rewrite E in If; [contradiction|].
  destruct If as [If|[]]. inversion If; subst. simpl. now apply in_map.
Qed.

Lemma flat_map_keys_NoDup {A} (f : string * A -> list (string * value)) (l : list (string * A)) :
  NoDup (map fst l) ->
  (forall e, In e l -> f e = [] \/ exists x, f e = [(fst e, x)]) ->
  NoDup (map fst (flat_map f l)).
Proof.
  induction l as [|e r IH]; simpl; intros ND H; [constructor|].
  inversion ND as [|? ? NI ND']; subst.
  assert (IH' : NoDup (map fst (flat_map f r))) by (apply IH; auto).
  destruct (H e (or_introl eq_refl)) as [E|(y & E)]; rewrite E; simpl; [assumption|].
  constructor; [|assumption]. intro I. apply NI. eapply flat_map_keys; [|exact I]. auto.
Qed.

Section ObjectWith.
  Variable evn : node -> ovalue -> M ovalue.
  Variable ev : node -> ovalue -> ovalue.
  Hypothesis Hpure : pure_evn evn ev.

  (** grouping by one key expression, from an empty table *)
  Theorem group_items_spec k i items w g w' :
    group_items evn k i items 0 [] w = Ok g w' ->
    w' = w /\
    (forall it, In it items -> is_str (ev k it) = true) /\
    map fst g = nodup_str (key_strs (map (ev k) items)) /\
    forall s, assoc_get s g =
              match filter (fun j => is_key (ev k (nth j items None)) s) (seq 0 (List.length items)) with
              | [] => None
              | h => Some (i, h)
              end.
  Proof.
    intro H. pose proof (group_items_post evn ev Hpure k i items 0 [] w) as P.
    rewrite H in P. destruct P as (Hw & HF & HK & HG & _).
    split; [assumption|]. split; [now apply Forall_forall|]. split; [exact HK|].
    intro s. rewrite HG. simpl. pose proof (hits_filter (ev k) items [] s) as E. simpl in E.
    now rewrite E.
  Qed.

  (** the member contributed by one group, computed purely *)
  Definition member_of (pairs : list (node * node)) (items : list ovalue) (g : string * (nat * list nat))
    : list (string * value) :=
    let '(key, (p, idxs)) := g in
    let sel : list ovalue :=
      let n := List.length idxs in
      if negb (n =? 0) && negb (n =? List.length items)
      then map (fun j => nth j items None) idxs
      else items in
    match nth_error pairs p with
    | Some (_, vn) => match ev vn (group_arg sel) with Some x => [(key, x)] | None => [] end
    | None => []
    end.

  Lemma object_with_unfold pairs data w :
    object_with evn pairs data w =
    match group_pairs evn (ctx_items data) pairs 0 [] w with
    | Ok g w1 =>
        Ok (Some (VObj (obj_of_list (List.concat (map (member_of pairs (ctx_items data))
                 (stable_sort (fun a b => sltb (fst a) (fst b)) g)))))) w1
    | Err e => Err e
    | Panic s => Panic s
    | OutOfFuel => OutOfFuel
    | Need q => Need q
    end.
  Proof.
    unfold object_with. fold (ctx_items data). unfold bind at 1.
    destruct (group_pairs evn (ctx_items data) pairs 0 [] w) as [g w1|e|s| |q]; try reflexivity.
    unfold bind at 1. erewrite mapM_pure with (g := member_of pairs (ctx_items data)); [reflexivity|].
    intros [key [p idxs]] w2. unfold member_of, group_arg, denull.
    destruct (nth_error pairs p) as [[k vn]|]; [|reflexivity].
    unfold bind. rewrite Hpure. reflexivity.
  Qed.

  (** the selection of items made by evalObject is the group's items *)
  Lemma sel_is_group items k s :
    produces ev items k s ->
    (if negb (List.length (pair_idxs ev items k s) =? 0) &&
        negb (List.length (pair_idxs ev items k s) =? List.length items)
     then map (fun j => nth j items None) (pair_idxs ev items k s)
     else items) = group_of ev items k s.
  Proof.
    intro P. destruct (is_literal k) eqn:Lk.
    - destruct k; try discriminate. reflexivity.
    - pose proof (pair_idxs_items ev items k s Lk) as E.
      destruct (List.length (pair_idxs ev items k s) =? 0) eqn:E0; simpl.
      + apply Nat.eqb_eq in E0. exfalso.
        unfold produces in P. rewrite pair_keys_nonlit in P by assumption.
        apply hits_nonempty with (j := 0) in P. rewrite hits_pair_idxs in P by assumption.
        destruct (pair_idxs ev items k s); [contradiction|discriminate].
      + destruct (List.length (pair_idxs ev items k s) =? List.length items) eqn:En; simpl;
          [|exact E].
        apply Nat.eqb_eq in En. rewrite <- E.
        assert (Ei : pair_idxs ev items k s = seq 0 (List.length items)).
        { assert (Ep : pair_idxs ev items k s =
                       filter (fun j => is_key (ev k (nth j items None)) s) (seq 0 (List.length items)))
            by (destruct k; try reflexivity; discriminate).
          rewrite Ep in *. apply filter_length_all. now rewrite seq_length. }
        rewrite Ei. now rewrite map_nth_seq.
  Qed.

  (** object_with_spec: the object has exactly one member per group whose value expression
      yields a value, that value being the expression evaluated on the array of the group's
      items in order; absent values are omitted; the result is well formed *)
  Theorem object_with_spec pairs data w r w' :
    object_with evn pairs data w = Ok r w' ->
    w' = w /\
    exists m, r = Some (VObj m) /\ wf_obj m /\ object_spec ev (ctx_items data) pairs m.
  Proof.
    rewrite object_with_unfold.
    destruct (group_pairs evn (ctx_items data) pairs 0 [] w) as [g w1|e|s| |q] eqn:Eg; try discriminate.
    intro H. inversion H; subst r w'. clear H.
    apply (group_pairs_spec evn ev Hpure) in Eg as (-> & HS & _).
    split; [reflexivity|]. eexists. split; [reflexivity|]. split; [apply obj_of_list_wf|].
    set (items := ctx_items data) in *.
    set (sorted := stable_sort (fun a b : string * (nat * list nat) => sltb (fst a) (fst b)) g).
    assert (Hperm : Permutation sorted g) by apply stable_sort_perm.
    assert (Hshape : forall e, In e sorted ->
               member_of pairs items e = [] \/ exists x, member_of pairs items e = [(fst e, x)]).
    { intros [key [p idxs]] _. unfold member_of. destruct (nth_error pairs p) as [[k vn]|]; [|now left].
      match goal with |- context [ev vn ?a] => destruct (ev vn a) as [x|] end; [right; eauto|now left]. }
    assert (NDs : NoDup (map fst sorted)).
    { eapply Permutation_NoDup; [apply Permutation_sym, Permutation_map, Hperm|].
      eapply groups_NoDup; eauto. }
    intros s x. rewrite obj_of_list_last, <- flat_map_concat_map.
    rewrite later_wins_NoDup by (apply flat_map_keys_NoDup; assumption).
    rewrite in_flat_map. split.
    - intros ([key [p idxs]] & Ie & Im).
      assert (Ig : In (key, (p, idxs)) g) by (eapply Permutation_in; eauto).
      apply (groups_members _ _ _ _ _ _ _ HS) in Ig as (k & vn & Hn & Hp & Hi).
      unfold member_of in Im. rewrite Hn in Im. rewrite Hi in Im. cbv zeta in Im.
      rewrite (sel_is_group items k key Hp) in Im.
      destruct (ev vn (group_arg (group_of ev items k key))) as [y|] eqn:Ev; [|contradiction].
      destruct Im as [Im|[]]. inversion Im; subst key y. exists p, k, vn. auto.
    - intros (p & k & vn & Hn & Hp & Hv).
      exists (s, (p, pair_idxs ev items k s)). split.
      + eapply Permutation_in; [apply Permutation_sym; exact Hperm|].
        apply (groups_members _ _ _ _ _ _ _ HS). eauto.
      + unfold member_of. rewrite Hn. cbv zeta. rewrite (sel_is_group items k s Hp), Hv. now left.
  Qed.

  (** the only failures of an object constructor over a pure sub-evaluator are the two key errors *)
  Theorem object_with_outcome pairs data w :
    (exists m, object_with evn pairs data w = Ok (Some (VObj m)) w) \/
    (object_with evn pairs data w = Err (EEval ErrIllegalKey) /\ illegal_key ev (ctx_items data) pairs) \/
    (object_with evn pairs data w = Err (EEval ErrDuplicateKey) /\ duplicate_key ev (ctx_items data) pairs).
  Proof.
    rewrite object_with_unfold.
    destruct (group_pairs_outcome evn ev Hpure (ctx_items data) pairs w) as [(g & E)|[[E I]|[E D]]];
      rewrite E; eauto.
  Qed.
End ObjectWith.

Print Assumptions group_items_spec.
Print Assumptions object_with_spec.
Print Assumptions object_with_outcome.
(* ================================================================================== *)
(** * 6. The object functions agree with the object model *)

(** ** $keys *)
Lemma keys_of_obj m : keys_of (VObj m) = map fst m.
Proof. reflexivity. Qed.

Lemma keys_of_arr l : keys_of (VArr l) = nodup_str (flat_map keys_of l).
Proof.
  reflexivity.
Qed.

(** each distinct member name exactly once *)
Theorem keys_nodup v : (forall m, v = VObj m -> wf_obj m) -> NoDup (keys_of v).
Proof.
  intro H. destruct v; try (simpl; constructor).
  - rewrite keys_of_arr. apply nodup_str_NoDup.
  - rewrite keys_of_obj. apply wf_obj_NoDup. now apply H.
Qed.

Theorem keys_obj_members m s : In s (keys_of (VObj m)) <-> exists v, In (s, v) m.
Proof.
  rewrite keys_of_obj, in_map_iff. split.
  - intros ([s' v] & <- & I). eauto.
  - intros (v & I). exists (s, v). auto.
Qed.

Theorem keys_arr_members l s : In s (keys_of (VArr l)) <-> exists x, In x l /\ In s (keys_of x).
Proof. rewrite keys_of_arr, nodup_str_In, in_flat_map. reflexivity. Qed.

Theorem lib_keys_obj m : lib_keys (Some (VObj m)) = norm_results (map VStr (map fst m)).
Proof. reflexivity. Qed.

(** ** $spread *)
Theorem spread_singletons m : spread_of (VObj m) = VArr (map (fun kv => VObj [kv]) m).
Proof. reflexivity. Qed.

(** ** $merge *)
Definition nonnull (kv : string * value) : bool := negb (is_null (snd kv)).

Lemma merge_into_fold d s :
  merge_into d s = fold_left (fun m kv => obj_insert (fst kv) (snd kv) m) (filter nonnull s) d.
Proof.
  unfold merge_into. revert d. induction s as [|[k v] r IH]; intro d; simpl; [reflexivity|].
  unfold nonnull at 1. simpl. destruct v; simpl; apply IH.
Qed.

(** later members override earlier ones (null members are skipped, as mergeMapFast does) *)
Theorem merge_later_wins d s k :
  assoc_get k (merge_into d s) =
  match later_wins (filter nonnull s) k with Some v => Some v | None => assoc_get k d end.
Proof. rewrite merge_into_fold. apply fold_insert_get. Qed.

Theorem merge_into_wf d s : wf_obj d -> wf_obj (merge_into d s).
Proof. intro W. rewrite merge_into_fold. now apply fold_insert_wf. Qed.

Lemma null_free_filter m : null_free m -> filter nonnull m = m.
Proof.
  intro NF. apply filter_all. intros [k v] I. unfold nonnull. simpl. now rewrite (NF k v I).
Qed.

Theorem merge_into_nil_id m : wf_obj m -> null_free m -> merge_into [] m = m.
Proof.
  intros W NF. rewrite merge_into_fold, null_free_filter by assumption. now apply obj_of_list_wf_id.
Qed.

(** merging an array of objects: the union, later objects taking precedence *)
Lemma lib_merge_objs ms w :
  lib_merge (Some (VArr (map VObj ms))) w = Ok (Some (VObj (fold_left merge_into ms []))) w.
Proof.
  unfold lib_merge.
  assert (E : forallb (fun x => match x with VObj _ | VFun _ => true | _ => false end) (map VObj ms) = true)
    by (apply forallb_forall; intros x I; apply in_map_iff in I as (m & <- & _); reflexivity).
  rewrite E. unfold ret. do 3 f_equal. clear E.
  generalize (@nil (string * value)). induction ms as [|m r IH]; intro d; simpl; [reflexivity|]. apply IH.
Qed.

Lemma fold_merge_get ms : forall d k,
  assoc_get k (fold_left merge_into ms d) =
  match later_wins (filter nonnull (List.concat ms)) k with Some v => Some v | None => assoc_get k d end.
Proof.
  induction ms as [|m r IH]; intros d k; simpl; [reflexivity|].
  rewrite IH, merge_later_wins. unfold later_wins. rewrite filter_app, rev_app_distr, assoc_get_app.
  destruct (assoc_get k (rev (filter nonnull (List.concat r)))); reflexivity.
Qed.

Theorem merge_union ms w :
  exists m, lib_merge (Some (VArr (map VObj ms))) w = Ok (Some (VObj m)) w /\ wf_obj m /\
            forall k, assoc_get k m = later_wins (filter nonnull (List.concat ms)) k.
Proof.
  eexists. split; [apply lib_merge_objs|]. split.
  - generalize wf_obj_nil. generalize (@nil (string * value)).
    induction ms as [|m r IH]; intros d W; simpl; [assumption|]. apply IH. now apply merge_into_wf.
  - intro k. rewrite fold_merge_get. simpl. now destruct (later_wins _ k).
Qed.

Lemma fold_merge_singletons m : forall d,
  fold_left merge_into (map (fun kv => [kv]) m) d = merge_into d m.
Proof.
  induction m as [|kv r IH]; intro d; [reflexivity|].
  cbn [map fold_left]. rewrite IH. reflexivity.
Qed.

(** $merge($spread(o)) = o *)
Theorem merge_spread_id m w :
  wf_obj m -> null_free m ->
  lib_merge (lib_spread (Some (VObj m))) w = Ok (Some (VObj m)) w.
Proof.
  intros W NF. unfold lib_spread. rewrite spread_singletons.
  rewrite <- (map_map (fun kv => [kv]) VObj), lib_merge_objs.
  now rewrite fold_merge_singletons, merge_into_nil_id.
Qed.

(** ** $lookup *)
Theorem lookup_is_field m k v :
  assoc_get k m = Some v ->
  lib_lookup (Some (VObj m)) k = Some v /\ eval_name_value k (Some (VObj m)) = Some v.
Proof. intro H. unfold lib_lookup. simpl. now rewrite H. Qed.

Theorem lookup_field_agree m k :
  In k (map fst m) -> lib_lookup (Some (VObj m)) k = eval_name_value k (Some (VObj m)).
Proof.
  intro I. destruct (assoc_get k m) as [v|] eqn:E.
  - destruct (lookup_is_field m k v E) as [-> ->]. reflexivity.
  - apply assoc_get_None in E. contradiction.
Qed.

Theorem lookup_absent m k : ~ In k (map fst m) -> lib_lookup (Some (VObj m)) k = Some VNull.
Proof. intro NI. apply assoc_get_None in NI. unfold lib_lookup. simpl. now rewrite NI. Qed.

(** ** $count($keys(o)) = $count($spread(o)) *)
Theorem count_keys_spread m :
  lib_count (lib_keys (Some (VObj m))) = lib_count (lib_spread (Some (VObj m))) /\
  lib_count (lib_spread (Some (VObj m))) = vnat (List.length m).
Proof.
  split.
  - rewrite lib_keys_obj. unfold lib_spread. rewrite spread_singletons.
    destruct m as [|a [|b r]]; try reflexivity.
    cbn [map norm_results lib_count List.length]. now rewrite !map_length.
  - unfold lib_spread. rewrite spread_singletons. cbn [lib_count]. now rewrite map_length.
Qed.

(** ** $each / $sift *)
Lemma bind_unf {A B} (m : M A) (f : A -> M B) w :
  bind m f w = match m w with
               | Ok a w' => f a w' | Err e => Err e | Panic s => Panic s
               | OutOfFuel => OutOfFuel | Need q => Need q end.
Proof. reflexivity. Qed.

Lemma mapM_post {A B C} (f : A -> M B) (g : A -> B -> C) l : forall w,
  mapM (fun x => r <- f x ;; ret (g x r)) l w =
  bind (mapM f l) (fun rs => ret (map (fun p => g (fst p) (snd p)) (combine l rs))) w.
Proof.
  set (h := fun x => r <- f x ;; ret (g x r)).
  induction l as [|x r IH]; intro w; [reflexivity|].
  cbn [mapM]. rewrite !bind_unf. unfold h at 1. rewrite bind_unf.
  destruct (f x w) as [y w1|e|s| |q]; try reflexivity.
  unfold ret at 1. rewrite !bind_unf. rewrite IH. rewrite bind_unf.
  destruct (mapM f r w1) as [ys w2|e|s| |q]; reflexivity.
Qed.

Lemma steps_pure {A B} (f : A -> M B) g l w ys w' :
  pure_ev f g -> steps f l w ys w' -> ys = map g l /\ w' = w.
Proof.
  intros P H. apply mapM_ok in H. rewrite (mapM_pure f g l w P) in H. inversion H; auto.
Qed.

Section EachSift.
  Variable apply : callable -> list ovalue -> M ovalue.
  Variable pcount : callable -> nat.

  Definition arity_ok (fn : callable) : Prop := 1 <= pcount fn <= 3.

  Lemma arity_ok_test fn : arity_ok fn -> (pcount fn <? 1) || (3 <? pcount fn) = false.
  Proof.
    unfold arity_ok. intro H. apply orb_false_iff. split; apply Nat.ltb_ge; lia.
  Qed.

  (** the call made for one member *)
  Definition member_call (m : list (string * value)) (fn : callable) (kv : string * value) : M ovalue :=
    apply fn (each_args (snd kv) (fst kv) (VObj m) (pcount fn)).

  (** what $sift keeps, given the callback results *)
  Definition sift_result (m : list (string * value)) (rs : list ovalue) : ovalue :=
    match map fst (filter (fun p => otruthy (snd p)) (combine m rs)) with
    | [] => None
    | l => Some (VObj l)
    end.

  (** $each is one callback run per member, in key order (any callback, world threaded) *)
  Theorem each_once m fn w :
    arity_ok fn ->
    lib_each apply pcount (Some (VObj m)) fn w =
    bind (mapM (member_call m fn) m) (fun rs => ret (norm_results (somes rs))) w.
  Proof. intro A. unfold lib_each. now rewrite (arity_ok_test fn A). Qed.

  Theorem each_once_steps m fn w r w' :
    arity_ok fn ->
    (lib_each apply pcount (Some (VObj m)) fn w = Ok r w' <->
     exists rs, steps (member_call m fn) m w rs w' /\ r = norm_results (somes rs)).
  Proof.
    intro A. rewrite each_once by assumption. rewrite bind_ok. split.
    - intros (rs & w1 & Hm & Hr). apply mapM_ok in Hm. apply ret_ok in Hr as [<- <-]. eauto.
    - intros (rs & Hs & ->). exists rs, w'. split; [now apply mapM_ok|reflexivity].
  Qed.

  Theorem sift_once m fn w :
    arity_ok fn ->
    lib_sift apply pcount (Some (VObj m)) fn w =
    bind (mapM (member_call m fn) m) (fun rs => ret (sift_result m rs)) w.
  Proof.
    intro A. unfold lib_sift. rewrite (arity_ok_test fn A).
    pose proof (mapM_post (member_call m fn) (fun kv r => if otruthy r then [kv] else []) m w) as E.
    cbv beta in E. unfold member_call in *. rewrite bind_unf, E, !bind_unf. clear E.
    destruct (mapM (fun kv => apply fn (each_args (snd kv) (fst kv) (VObj m) (pcount fn))) m w)
      as [rs w1|e|s| |q]; try reflexivity.
    unfold ret at 1. unfold sift_result.
    assert (E : List.concat (map (fun p : (string * value) * ovalue =>
                                    if otruthy (snd p) then [fst p] else []) (combine m rs)) =
                map fst (filter (fun p => otruthy (snd p)) (combine m rs))).
    { induction (combine m rs) as [|[kv r] l IH]; simpl; [reflexivity|].
      destruct (otruthy r); simpl; now rewrite IH. }
    rewrite E. destruct (map fst (filter _ (combine m rs))); reflexivity.
  Qed.

  Theorem sift_once_steps m fn w r w' :
    arity_ok fn ->
    (lib_sift apply pcount (Some (VObj m)) fn w = Ok r w' <->
     exists rs, steps (member_call m fn) m w rs w' /\ r = sift_result m rs).
  Proof.
    intro A. rewrite sift_once by assumption. rewrite bind_ok. split.
    - intros (rs & w1 & Hm & Hr). apply mapM_ok in Hm. apply ret_ok in Hr as [<- <-]. eauto.
    - intros (rs & Hs & ->). exists rs, w'. split; [now apply mapM_ok|reflexivity].
  Qed.

  (** with a pure callback: the present results / the members with a truthy result *)
  Variable cb : callable -> list ovalue -> ovalue.
  Hypothesis Hcb : pure_apply apply cb.

  Definition member_result (m : list (string * value)) (fn : callable) (kv : string * value) : ovalue :=
    cb fn (each_args (snd kv) (fst kv) (VObj m) (pcount fn)).

  Theorem each_pure m fn w :
    arity_ok fn ->
    lib_each apply pcount (Some (VObj m)) fn w =
    Ok (norm_results (somes (map (member_result m fn) m))) w.
  Proof.
    intro A. rewrite each_once by assumption. unfold bind.
    rewrite (mapM_pure (member_call m fn) (member_result m fn)); [reflexivity|].
    intros kv w0. apply Hcb.
  Qed.

  Lemma combine_map_filter {A B} (g : A -> B) (t : B -> bool) (l : list A) :
    map fst (filter (fun p => t (snd p)) (combine l (map g l))) = filter (fun x => t (g x)) l.
  Proof.
    induction l as [|a r IH]; simpl; [reflexivity|]. destruct (t (g a)); simpl; now rewrite IH.
  Qed.

  Theorem sift_pure m fn w :
    arity_ok fn ->
    lib_sift apply pcount (Some (VObj m)) fn w =
    Ok (match filter (fun kv => otruthy (member_result m fn kv)) m with
        | [] => None
        | l => Some (VObj l)
        end) w.
  Proof.
    intro A. rewrite sift_once by assumption. unfold bind.
    rewrite (mapM_pure (member_call m fn) (member_result m fn)); [|intros kv w0; apply Hcb].
    unfold ret, sift_result. now rewrite combine_map_filter.
  Qed.

  (** the sifted object is again well formed *)
  Lemma wf_obj_filter (t : string * value -> bool) m : wf_obj m -> wf_obj (filter t m).
  Proof.
    induction m as [|[k v] r IH]; simpl; intro W; [assumption|].
    apply wf_obj_cons in W as [Wr Fr]. destruct (t (k, v)); [|auto].
    apply wf_obj_cons. split; [auto|]. apply Forall_forall. intros x I.
    rewrite Forall_forall in Fr. apply Fr. apply in_map_iff in I as (e & <- & I).
    apply filter_In in I as [I _]. now apply in_map.
  Qed.
End EachSift.

Print Assumptions keys_nodup.
Print Assumptions merge_later_wins.
Print Assumptions merge_spread_id.
Print Assumptions merge_union.
Print Assumptions lookup_is_field.
Print Assumptions count_keys_spread.
Print Assumptions each_once_steps.
Print Assumptions sift_once_steps.
Print Assumptions each_pure.
Print Assumptions sift_pure.
(* ================================================================================== *)
(** * 7. Examples: the hypotheses are satisfiable on non-trivial instances *)
Module C14Examples.
  (** a pure evaluator for field names, string literals and [$] *)
  Definition ex_ev (k : node) (it : ovalue) : ovalue :=
    match k with
    | NName s _ => eval_name_value s it
    | NString s => Some (VStr s)
    | NVariable _ => it
    | _ => None
    end.
  Definition ex_evn (k : node) (it : ovalue) : M ovalue := ret (ex_ev k it).

  Lemma ex_pure : pure_evn ex_evn ex_ev.
  Proof. intros k it w. reflexivity. Qed.

  Definition n (z : Z) : value := VNum (f_of_Z z).
  Definition row (t : string) (z : Z) : value := VObj [("n", n z); ("t", VStr t)].
  Definition ex_rows : list value := [row "a" 1; row "b" 2; row "a" 3; row "c" 4; row "b" 5].
  Definition ex_data : ovalue := Some (VArr ex_rows).
  Definition w0 : world := mkWorld [].

  (** rows{t: n, "all": $} *)
  Definition ex_pairs : list (node * node) :=
    [(NName "t" false, NName "n" false); (NString "all", NVariable "")].

  Example group_pairs_example :
    group_pairs ex_evn (ctx_items ex_data) ex_pairs 0 [] w0 =
    Ok [("a", (0, [0; 2])); ("b", (0, [1; 4])); ("c", (0, [3])); ("all", (1, []))] w0.
  Proof. vm_compute. reflexivity. Qed.

  Example group_pairs_example_spec :
    groups_spec ex_ev (ctx_items ex_data) ex_pairs
                [("a", (0, [0; 2])); ("b", (0, [1; 4])); ("c", (0, [3])); ("all", (1, []))].
  Proof. exact (proj1 (proj2 (group_pairs_spec _ _ ex_pure _ _ _ _ _ group_pairs_example))). Qed.

  Example partition_example :
    Permutation ([0; 2] ++ [1; 4] ++ [3]) (seq 0 5).
  Proof.
    apply (C14_partition ex_ev (ctx_items ex_data) ex_pairs _ 0 (NName "t" false) (NName "n" false)
                         group_pairs_example_spec eq_refl eq_refl).
    intros it I. vm_compute in I. repeat (destruct I as [<-|I]; [reflexivity|]). contradiction.
  Qed.

  Example object_with_example :
    object_with ex_evn ex_pairs ex_data w0 =
    Ok (Some (VObj [("a", VArr [n 1; n 3]); ("all", VArr ex_rows); ("b", VArr [n 2; n 5]); ("c", n 4)])) w0.
  Proof. vm_compute. reflexivity. Qed.

  (** a member whose value is absent is omitted: rows{t: missing} has no members *)
  Example object_with_absent :
    object_with ex_evn [(NName "t" false, NName "missing" false)] ex_data w0 = Ok (Some (VObj [])) w0.
  Proof. vm_compute. reflexivity. Qed.

  (** a non-string key *)
  Example illegal_key_example :
    object_with ex_evn [(NName "n" false, NName "t" false)] ex_data w0 = Err (EEval ErrIllegalKey) /\
    illegal_key ex_ev (ctx_items ex_data) [(NName "n" false, NName "t" false)].
  Proof.
    split; [vm_compute; reflexivity|].
    exists (NName "n" false), (NName "t" false), (Some (row "a" 1)).
    split; [now left|]. split; [reflexivity|]. split; [now left|]. reflexivity.
  Qed.

  (** the same key string from two different pairs *)
  Example duplicate_key_example :
    object_with ex_evn [(NName "t" false, NName "n" false); (NString "b", NVariable "")] ex_data w0
    = Err (EEval ErrDuplicateKey) /\
    duplicate_key ex_ev (ctx_items ex_data) [(NName "t" false, NName "n" false); (NString "b", NVariable "")].
  Proof.
    split; [vm_compute; reflexivity|].
    exists 0, 1, (NName "t" false), (NName "n" false), (NString "b"), (NVariable ""), "b".
    split; [discriminate|]. split; [reflexivity|]. split; [reflexivity|].
    split; [vm_compute; tauto|now left].
  Qed.

  (** object functions *)
  Definition ex_obj : list (string * value) := [("a", n 1); ("b", VStr "x"); ("c", VArr [n 2; VNull])].

  Example ex_obj_wf : wf_obj ex_obj /\ null_free ex_obj.
  Proof.
    split.
    - unfold wf_obj, ex_obj, slt. simpl. repeat constructor.
    - intros k v I. vm_compute in I.
      repeat (destruct I as [I|I]; [inversion I; reflexivity|]). contradiction.
  Qed.

  Example merge_spread_example :
    lib_merge (lib_spread (Some (VObj ex_obj))) w0 = Ok (Some (VObj ex_obj)) w0.
  Proof. vm_compute. reflexivity. Qed.

  Example merge_later_example :
    lib_merge (Some (VArr [VObj [("a", n 1); ("b", n 2)]; VObj [("b", n 3); ("c", VNull)]])) w0 =
    Ok (Some (VObj [("a", n 1); ("b", n 3)])) w0.
  Proof. vm_compute. reflexivity. Qed.

  Example keys_example :
    lib_keys (Some (VArr [VObj ex_obj; VObj [("b", n 0); ("z", n 0)]])) =
    Some (VArr [VStr "a"; VStr "b"; VStr "c"; VStr "z"]).
  Proof. vm_compute. reflexivity. Qed.

  Example lookup_example :
    lib_lookup (Some (VObj ex_obj)) "b" = Some (VStr "x") /\
    eval_name_value "b" (Some (VObj ex_obj)) = Some (VStr "x").
  Proof. apply lookup_is_field. reflexivity. Qed.

  (** a pure callback: function(v, k) returning v when it is truthy, nothing otherwise *)
  Definition ex_cb (c : callable) (args : list ovalue) : ovalue :=
    match args with Some v :: _ => if truthy v then Some v else None | _ => None end.
  Definition ex_apply (c : callable) (args : list ovalue) : M ovalue := ret (ex_cb c args).
  Definition ex_pcount (c : callable) : nat := 2.

  Lemma ex_apply_pure : pure_apply ex_apply ex_cb.
  Proof. intros c a w. reflexivity. Qed.

  Definition ex_obj2 : list (string * value) := [("a", n 1); ("b", n 0); ("c", VStr "x")].

  Example each_example :
    lib_each ex_apply ex_pcount (Some (VObj ex_obj2)) (CUndef "f") w0 = Ok (Some (VArr [n 1; VStr "x"])) w0.
  Proof. rewrite (each_pure _ _ _ ex_apply_pure); [reflexivity|]. unfold arity_ok, ex_pcount. lia. Qed.

  Example sift_example :
    lib_sift ex_apply ex_pcount (Some (VObj ex_obj2)) (CUndef "f") w0 =
    Ok (Some (VObj [("a", n 1); ("c", VStr "x")])) w0.
  Proof. rewrite (sift_pure _ _ _ ex_apply_pure); [reflexivity|]. unfold arity_ok, ex_pcount. lia. Qed.
End C14Examples.
