(* Proofs/C14Proofs.v — property C14: object construction, grouping and the object functions
   share one object model.  Theorems about Model/Value.v (sorted-object helpers),
   Model/Eval.v (group_items, group_pairs, object_with) and Model/LibCore.v (keys, each, sift,
   spread, merge, lookup) against the declarative definitions of Spec/C14.v. *)
From Coq Require Import Sorted Permutation Lia.
From JV Require Import Model.Value Model.Eval Proofs.MonadFacts Spec.C14.
Local Open Scope nat_scope.
Local Open Scope list_scope.

(* ================================================================================== *)
(** * 0. [sltb] is a strict total order on byte strings *)

Lemma byte_of_inj x y : byte_of x = byte_of y -> x = y.
Proof.
  unfold byte_of. intro H. apply N2Z.inj in H.
  rewrite <- (ascii_N_embedding x), <- (ascii_N_embedding y). now rewrite H.
Qed.

Lemma seqb_neq a b : seqb a b = false <-> a <> b.
Proof.
  split.
  - intros H E. apply seqb_eq in E. congruence.
  - intro N. destruct (seqb a b) eqn:E; [|reflexivity]. apply seqb_eq in E. contradiction.
Qed.

Lemma seqb_sym a b : seqb a b = seqb b a.
Proof.
  destruct (seqb a b) eqn:E.
  - apply seqb_eq in E. subst. now rewrite seqb_refl.
  - symmetry. apply seqb_neq. apply seqb_neq in E. congruence.
Qed.

Lemma sltb_irrefl a : sltb a a = false.
Proof. induction a as [|x a IH]; simpl; [reflexivity|]. now rewrite Z.ltb_irrefl. Qed.

Lemma sltb_trans a b c : sltb a b = true -> sltb b c = true -> sltb a c = true.
Proof.
  revert b c. induction a as [|x a IH]; intros [|y b] [|z c]; simpl; try discriminate; auto.
  destruct (byte_of x <? byte_of y)%Z eqn:Exy.
  - intros _. destruct (byte_of y <? byte_of z)%Z eqn:Eyz.
    + intros _. assert (H : (byte_of x <? byte_of z)%Z = true) by lia. now rewrite H.
    + destruct (byte_of z <? byte_of y)%Z eqn:Ezy; [discriminate|].
      intros _. assert (H : (byte_of x <? byte_of z)%Z = true) by lia. now rewrite H.
  - destruct (byte_of y <? byte_of x)%Z eqn:Eyx; [discriminate|].
    intro Hab. destruct (byte_of y <? byte_of z)%Z eqn:Eyz.
    + intros _. assert (H : (byte_of x <? byte_of z)%Z = true) by lia. now rewrite H.
    + destruct (byte_of z <? byte_of y)%Z eqn:Ezy; [discriminate|].
      intro Hbc.
      assert (H1 : (byte_of x <? byte_of z)%Z = false) by lia.
      assert (H2 : (byte_of z <? byte_of x)%Z = false) by lia.
      rewrite H1, H2. eauto.
Qed.

Lemma sltb_total a b : seqb a b = false -> sltb a b = false -> sltb b a = true.
Proof.
  revert b. induction a as [|x a IH]; intros [|y b]; simpl; try discriminate; auto.
  destruct (byte_of x <? byte_of y)%Z eqn:Exy; [discriminate|].
  destruct (byte_of y <? byte_of x)%Z eqn:Eyx; [reflexivity|].
  assert (E : x = y) by (apply byte_of_inj; lia). subst y.
  rewrite Ascii.eqb_refl. simpl. apply IH.
Qed.

Lemma sltb_asym a b : sltb a b = true -> sltb b a = false.
Proof.
  intro H. destruct (sltb b a) eqn:E; [|reflexivity].
  pose proof (sltb_trans _ _ _ H E) as T. now rewrite sltb_irrefl in T.
Qed.

Lemma sltb_neq a b : sltb a b = true -> seqb a b = false.
Proof.
  intro H. apply seqb_neq. intros ->. now rewrite sltb_irrefl in H.
Qed.

(* ================================================================================== *)
(** * 1. Association lists and the sorted-object helpers *)

Lemma assoc_get_app {A} k (l1 l2 : list (string * A)) :
  assoc_get k (l1 ++ l2) = match assoc_get k l1 with Some v => Some v | None => assoc_get k l2 end.
Proof.
  induction l1 as [|[k' v'] r IH]; simpl; [reflexivity|]. destruct (seqb k k'); auto.
Qed.

Lemma assoc_get_In {A} k (v : A) l : assoc_get k l = Some v -> In (k, v) l.
Proof.
  induction l as [|[k' v'] r IH]; simpl; [discriminate|].
  destruct (seqb k k') eqn:E.
  - intro H. inversion H; subst. apply seqb_eq in E. subst. now left.
  - intro H. right. auto.
Qed.

Lemma assoc_get_None {A} k (l : list (string * A)) : assoc_get k l = None <-> ~ In k (map fst l).
Proof.
  induction l as [|[k' v'] r IH]; simpl; [tauto|].
  destruct (seqb k k') eqn:E.
  - apply seqb_eq in E. subst. split; [discriminate|]. intro H. exfalso. apply H. now left.
  - apply seqb_neq in E. rewrite IH. split.
    + intros H [F|F]; [congruence|auto].
    + intros H F. apply H. now right.
Qed.

Lemma assoc_get_Some_In_keys {A} k (v : A) l : assoc_get k l = Some v -> In k (map fst l).
Proof. intro H. apply assoc_get_In in H. apply in_map_iff. now exists (k, v). Qed.

Lemma In_assoc_get {A} k (v : A) l : NoDup (map fst l) -> In (k, v) l -> assoc_get k l = Some v.
Proof.
  induction l as [|[k' v'] r IH]; simpl; [tauto|].
  intros ND [H|H].
  - inversion H; subst. now rewrite seqb_refl.
  - inversion ND as [|? ? NI ND']; subst.
    destruct (seqb k k') eqn:E.
    + apply seqb_eq in E. subst. exfalso. apply NI. apply in_map_iff. now exists (k', v).
    + auto.
Qed.

Lemma assoc_get_set {A} k k2 (v : A) l :
  assoc_get k2 (assoc_set k v l) = if seqb k2 k then Some v else assoc_get k2 l.
Proof.
  induction l as [|[k' v'] r IH]; simpl.
  - destruct (seqb k2 k); reflexivity.
  - destruct (seqb k k') eqn:E; simpl.
    + apply seqb_eq in E. subst k'. destruct (seqb k2 k); reflexivity.
    + rewrite IH. destruct (seqb k2 k') eqn:E2; [|reflexivity].
      apply seqb_eq in E2. subst k2. rewrite seqb_sym, E. reflexivity.
Qed.

Lemma assoc_set_keys {A} k (v : A) l :
  In k (map fst l) -> map fst (assoc_set k v l) = map fst l.
Proof.
  induction l as [|[k' v'] r IH]; simpl; [tauto|].
  destruct (seqb k k') eqn:E; simpl.
  - apply seqb_eq in E. now subst.
  - intros [H|H]; [apply seqb_neq in E; congruence|]. now rewrite IH.
Qed.

(** get after insert: the inserted key yields the new value, every other key is unchanged
    (no well-formedness needed) *)
Theorem assoc_get_obj_insert k v m k2 :
  assoc_get k2 (obj_insert k v m) = if seqb k2 k then Some v else assoc_get k2 m.
Proof.
  induction m as [|[k' v'] r IH]; simpl.
  - destruct (seqb k2 k); reflexivity.
  - destruct (seqb k k') eqn:E; simpl.
    + apply seqb_eq in E. subst k'. destruct (seqb k2 k); reflexivity.
    + destruct (sltb k k') eqn:L; simpl.
      * destruct (seqb k2 k); reflexivity.
      * rewrite IH. destruct (seqb k2 k') eqn:E2; [|reflexivity].
        apply seqb_eq in E2. subst k2. rewrite seqb_sym, E. reflexivity.
Qed.

Corollary assoc_get_obj_insert_same k v m : assoc_get k (obj_insert k v m) = Some v.
Proof. rewrite assoc_get_obj_insert. now rewrite seqb_refl. Qed.

Corollary assoc_get_obj_insert_other k v m k2 :
  k2 <> k -> assoc_get k2 (obj_insert k v m) = assoc_get k2 m.
Proof. intro N. rewrite assoc_get_obj_insert. apply seqb_neq in N. now rewrite N. Qed.

(** ** well-formedness *)
Lemma wf_obj_nil : wf_obj [].
Proof. constructor. Qed.

Lemma wf_obj_cons k v m :
  wf_obj ((k, v) :: m) <-> wf_obj m /\ Forall (slt k) (map fst m).
Proof.
  unfold wf_obj. simpl. split.
  - intro H. inversion H; subst. auto.
  - intros [H1 H2]. now constructor.
Qed.

Lemma wf_obj_NoDup m : wf_obj m -> NoDup (map fst m).
Proof.
  unfold wf_obj. induction (map fst m) as [|k r IH]; intro H; [constructor|].
  inversion H as [|? ? S F]; subst. constructor; [|auto].
  intro I. rewrite Forall_forall in F. specialize (F _ I). unfold slt in F.
  now rewrite sltb_irrefl in F.
Qed.

Lemma obj_insert_keys_In k v m x :
  In x (map fst (obj_insert k v m)) <-> x = k \/ In x (map fst m).
Proof.
  induction m as [|[k' v'] r IH]; simpl; [intuition|].
  destruct (seqb k k') eqn:E; simpl.
  - apply seqb_eq in E. subst. intuition.
  - destruct (sltb k k'); simpl; [intuition|]. rewrite IH. intuition.
Qed.

Theorem obj_insert_wf k v m : wf_obj m -> wf_obj (obj_insert k v m).
Proof.
  induction m as [|[k' v'] r IH]; intro W; simpl.
  - apply wf_obj_cons. split; [constructor|constructor].
  - apply wf_obj_cons in W as [Wr Fr].
    destruct (seqb k k') eqn:E.
    + apply seqb_eq in E. subst k'. apply wf_obj_cons. auto.
    + destruct (sltb k k') eqn:L.
      * apply wf_obj_cons. split; [apply wf_obj_cons; auto|].
        simpl. constructor; [exact L|].
        eapply Forall_impl; [|exact Fr]. intros a Ha. unfold slt in *. eapply sltb_trans; eauto.
      * apply wf_obj_cons. split; [auto|].
        apply Forall_forall. intros x Hx. apply obj_insert_keys_In in Hx as [->|Hx].
        -- unfold slt. apply sltb_total; assumption.
        -- rewrite Forall_forall in Fr. auto.
Qed.

Lemma fold_insert_wf l : forall m, wf_obj m ->
  wf_obj (fold_left (fun m kv => obj_insert (fst kv) (snd kv) m) l m).
Proof.
  induction l as [|[k v] r IH]; intros m W; simpl; [assumption|].
  apply IH. now apply obj_insert_wf.
Qed.

Theorem obj_of_list_wf l : wf_obj (obj_of_list l).
Proof. apply fold_insert_wf, wf_obj_nil. Qed.

Lemma obj_remove_keys_In k m x : In x (map fst (obj_remove k m)) -> In x (map fst m).
Proof.
  induction m as [|[k' v'] r IH]; simpl; [tauto|].
  destruct (seqb k k'); simpl; intuition.
Qed.

Theorem obj_remove_wf k m : wf_obj m -> wf_obj (obj_remove k m).
Proof.
  induction m as [|[k' v'] r IH]; intro W; simpl; [assumption|].
  apply wf_obj_cons in W as [Wr Fr].
  destruct (seqb k k'); [assumption|].
  apply wf_obj_cons. split; [auto|].
  apply Forall_forall. intros x Hx. apply obj_remove_keys_In in Hx.
  rewrite Forall_forall in Fr. auto.
Qed.

(** removal really removes, and only that key *)
Theorem assoc_get_obj_remove k m k2 : wf_obj m ->
  assoc_get k2 (obj_remove k m) = if seqb k2 k then None else assoc_get k2 m.
Proof.
  induction m as [|[k' v'] r IH]; intro W; simpl.
  - destruct (seqb k2 k); reflexivity.
  - apply wf_obj_cons in W as [Wr Fr].
    destruct (seqb k k') eqn:E; simpl.
    + apply seqb_eq in E. subst k'. destruct (seqb k2 k) eqn:E2; [|reflexivity].
      apply seqb_eq in E2. subst k2. apply assoc_get_None. intro I.
      rewrite Forall_forall in Fr. specialize (Fr _ I). unfold slt in Fr.
      now rewrite sltb_irrefl in Fr.
    + rewrite IH by assumption. destruct (seqb k2 k') eqn:E2; [|reflexivity].
      apply seqb_eq in E2. subst k2. rewrite seqb_sym, E. reflexivity.
Qed.

(** [obj_of_list] keeps the LAST value given for a repeated key *)
Lemma fold_insert_get l : forall m k,
  assoc_get k (fold_left (fun m kv => obj_insert (fst kv) (snd kv) m) l m) =
  match later_wins l k with Some v => Some v | None => assoc_get k m end.
Proof.
  unfold later_wins.
  induction l as [|[k' v'] r IH]; intros m k; simpl; [reflexivity|].
  rewrite IH, assoc_get_app. destruct (assoc_get k (rev r)); [reflexivity|].
  simpl. rewrite assoc_get_obj_insert. destruct (seqb k k'); reflexivity.
Qed.

Theorem obj_of_list_last l k : assoc_get k (obj_of_list l) = later_wins l k.
Proof.
  unfold obj_of_list. rewrite fold_insert_get. simpl. now destruct (later_wins l k).
Qed.

Lemma later_wins_NoDup {A} (l : list (string * A)) k v :
  NoDup (map fst l) -> (later_wins l k = Some v <-> In (k, v) l).
Proof.
  intro ND. unfold later_wins.
  assert (ND' : NoDup (map fst (rev l))) by (rewrite map_rev; now apply NoDup_rev).
  split.
  - intro H. apply assoc_get_In in H. now apply in_rev.
  - intro H. apply In_assoc_get; [assumption|]. now apply in_rev in H.
Qed.

(** a sorted object is rebuilt unchanged by [obj_of_list] *)
Lemma obj_insert_max k v m : Forall (fun x => slt x k) (map fst m) -> obj_insert k v m = m ++ [(k, v)].
Proof.
  induction m as [|[k' v'] r IH]; intro F; simpl; [reflexivity|].
  simpl in F. inversion F as [|? ? L F']; subst. unfold slt in L.
  assert (E : seqb k k' = false) by (rewrite seqb_sym; now apply sltb_neq).
  rewrite E, (sltb_asym _ _ L). now rewrite IH.
Qed.

Lemma sorted_app_max (l1 : list string) k l2 :
  StronglySorted slt (l1 ++ k :: l2) -> Forall (fun x => slt x k) l1.
Proof.
  induction l1 as [|a l1 IH]; simpl; intro S; [constructor|].
  inversion S as [|? ? S' F]; subst. constructor; [|auto].
  rewrite Forall_forall in F. apply F. apply in_or_app. right. now left.
Qed.

Lemma fold_insert_sorted m : forall acc, wf_obj (acc ++ m) ->
  fold_left (fun m kv => obj_insert (fst kv) (snd kv) m) m acc = acc ++ m.
Proof.
  induction m as [|[k v] r IH]; intros acc W; simpl; [now rewrite app_nil_r|].
  rewrite obj_insert_max.
  - rewrite IH; rewrite <- app_assoc; [reflexivity|exact W].
  - unfold wf_obj in W. rewrite map_app in W. simpl in W. eapply sorted_app_max; eauto.
Qed.

Theorem obj_of_list_wf_id m : wf_obj m -> obj_of_list m = m.
Proof. intro W. unfold obj_of_list. now rewrite fold_insert_sorted. Qed.

Example obj_insert_example :
  obj_of_list [("b", VNull); ("a", VBool true); ("b", VBool false)] = [("a", VBool true); ("b", VBool false)].
Proof. reflexivity. Qed.

Print Assumptions obj_insert_wf.
Print Assumptions obj_of_list_wf.
Print Assumptions obj_remove_wf.
Print Assumptions assoc_get_obj_insert.
Print Assumptions obj_of_list_last.
(* ================================================================================== *)
(** * 2. [nodup_str]: first occurrences, in order *)

Lemma existsb_seqb_In s l : existsb (seqb s) l = true <-> In s l.
Proof.
  rewrite existsb_exists. split.
  - intros (x & I & E). apply seqb_eq in E. now subst.
  - intro I. exists s. split; [assumption|apply seqb_refl].
Qed.

Lemma existsb_seqb_ext s l1 l2 :
  (forall x, In x l1 <-> In x l2) -> existsb (seqb s) l1 = existsb (seqb s) l2.
Proof.
  intro H. destruct (existsb (seqb s) l2) eqn:E.
  - apply existsb_seqb_In. apply H. now apply existsb_seqb_In.
  - destruct (existsb (seqb s) l1) eqn:E1; [|reflexivity].
    apply existsb_seqb_In in E1. apply H in E1. apply existsb_seqb_In in E1. congruence.
Qed.

Lemma nodup_str_acc_ext l : forall seen1 seen2,
  (forall x, In x seen1 <-> In x seen2) -> nodup_str_acc seen1 l = nodup_str_acc seen2 l.
Proof.
  induction l as [|s r IH]; intros seen1 seen2 H; simpl; [reflexivity|].
  rewrite (existsb_seqb_ext s seen1 seen2 H).
  destruct (existsb (seqb s) seen2); [now apply IH|].
  f_equal. apply IH. intro x. simpl. rewrite H. tauto.
Qed.

Lemma nodup_str_acc_In l : forall seen s,
  In s (nodup_str_acc seen l) <-> In s l /\ ~ In s seen.
Proof.
  induction l as [|a r IH]; intros seen s; simpl; [tauto|].
  destruct (existsb (seqb a) seen) eqn:E.
  - apply existsb_seqb_In in E. rewrite IH. split.
    + intros [H1 H2]. auto.
    + intros [[->|H1] H2]; [contradiction|auto].
  - assert (N : ~ In a seen) by (intro I; apply existsb_seqb_In in I; congruence).
    simpl. rewrite IH. simpl. split.
    + intros [->|[H1 H2]]; [auto|]. split; [auto|]. intro; apply H2; auto.
    + intros [[->|H1] H2]; [auto|].
      destruct (string_dec a s) as [->|D]; [auto|]. right. split; [auto|]. intros [F|F]; auto.
Qed.

Lemma nodup_str_acc_NoDup l : forall seen, NoDup (nodup_str_acc seen l).
Proof.
  induction l as [|a r IH]; intro seen; simpl; [constructor|].
  destruct (existsb (seqb a) seen); [apply IH|].
  constructor; [|apply IH]. rewrite nodup_str_acc_In. simpl. tauto.
Qed.

Lemma nodup_str_In l s : In s (nodup_str l) <-> In s l.
Proof. unfold nodup_str. rewrite nodup_str_acc_In. simpl. tauto. Qed.

Lemma nodup_str_NoDup l : NoDup (nodup_str l).
Proof. apply nodup_str_acc_NoDup. Qed.

Lemma nodup_str_acc_app l1 : forall seen l2 seen',
  (forall x, In x seen' <-> In x seen \/ In x l1) ->
  nodup_str_acc seen (l1 ++ l2) = nodup_str_acc seen l1 ++ nodup_str_acc seen' l2.
Proof.
  induction l1 as [|a r IH]; intros seen l2 seen' H; simpl.
  - apply nodup_str_acc_ext. intro x. rewrite H. simpl. tauto.
  - destruct (existsb (seqb a) seen) eqn:E.
    + apply existsb_seqb_In in E. apply IH. intro x. rewrite H. simpl.
      split; [intros [?|[->|?]]; auto|tauto].
    + simpl. f_equal. apply IH. intro x. rewrite H. simpl. tauto.
Qed.

Lemma nodup_str_app l1 l2 :
  nodup_str (l1 ++ l2) = nodup_str l1 ++ nodup_str_acc (nodup_str l1) l2.
Proof.
  unfold nodup_str at 1 2. apply nodup_str_acc_app. intro x. rewrite nodup_str_In. simpl. tauto.
Qed.

(** a duplicate-free list is left alone *)
Lemma nodup_str_acc_id l : forall seen,
  NoDup l -> (forall x, In x l -> ~ In x seen) -> nodup_str_acc seen l = l.
Proof.
  induction l as [|a r IH]; intros seen ND H; simpl; [reflexivity|].
  inversion ND as [|? ? NI ND']; subst.
  destruct (existsb (seqb a) seen) eqn:E.
  - apply existsb_seqb_In in E. exfalso. eapply H; [now left|eassumption].
  - f_equal. apply IH; [assumption|]. intros x I [F|F]; [subst; contradiction|].
    eapply H; [right; eassumption|assumption].
Qed.

Lemma nodup_str_id l : NoDup l -> nodup_str l = l.
Proof. intro ND. apply nodup_str_acc_id; auto. Qed.
(* ================================================================================== *)
(** * 3. Grouping: [group_items] and [group_pairs] *)

(** item indexes (counted from [j]) of the items whose key is [s] *)
Fixpoint hits (f : ovalue -> ovalue) (its : list ovalue) (j : nat) (s : string) : list nat :=
  match its with
  | [] => []
  | it :: r => if is_key (f it) s then j :: hits f r (S j) s else hits f r (S j) s
  end.

Lemma hits_filter f its : forall pre s,
  hits f its (List.length pre) s =
  filter (fun t => is_key (f (nth t (pre ++ its) None)) s) (seq (List.length pre) (List.length its)).
Proof.
  induction its as [|it r IH]; intros pre s; simpl; [reflexivity|].
  rewrite app_nth2 by lia. rewrite Nat.sub_diag. simpl.
  specialize (IH (pre ++ [it]) s). rewrite app_length in IH. simpl in IH.
  rewrite Nat.add_1_r in IH. rewrite <- app_assoc in IH. simpl in IH.
  destruct (is_key (f it) s); now rewrite IH.
Qed.

Lemma hits_nonempty f its j s : hits f its j s <> [] <-> In s (key_strs (map f its)).
Proof.
  revert j. induction its as [|it r IH]; intro j; simpl; [tauto|].
  unfold key_strs in *. simpl. rewrite in_app_iff.
  destruct (f it) as [[| | |s'| | |]|] eqn:E; simpl; try (rewrite IH; tauto).
  destruct (seqb s' s) eqn:Es.
  - apply seqb_eq in Es. subst. split; [auto|discriminate].
  - rewrite IH. apply seqb_neq in Es. split; [auto|]. intros [[?|[]]|?]; [congruence|auto].
Qed.

Section Grouping.
  Variable evn : node -> ovalue -> M ovalue.
  Variable ev : node -> ovalue -> ovalue.
  Hypothesis Hpure : pure_evn evn ev.

  Lemma group_items_cons k i it r j acc w :
    group_items evn k i (it :: r) j acc w =
    match ev k it with
    | Some (VStr key) =>
        match assoc_get key acc with
        | None => group_items evn k i r (S j) (acc ++ [(key, (i, [j]))]) w
        | Some (p, idxs) =>
            if negb (p =? i) then Err (EEval ErrDuplicateKey)
            else group_items evn k i r (S j) (assoc_set key (i, idxs ++ [j]) acc) w
        end
    | _ => Err (EEval ErrIllegalKey)
    end.
  Proof.
    cbn [group_items]. unfold bind. rewrite Hpure.
    destruct (ev k it) as [[| | |key| | |]|]; try reflexivity.
    destruct (assoc_get key acc) as [[p idxs]|]; [|reflexivity].
    destruct (negb (p =? i)); reflexivity.
  Qed.

  Definition gi_post (k : node) (i : nat) (its : list ovalue) (j : nat) (acc : groups_t) (w : world)
             (r : res groups_t) : Prop :=
    match r with
    | Ok acc' w' =>
        w' = w /\
        Forall (fun it => is_str (ev k it) = true) its /\
        map fst acc' = map fst acc ++ nodup_str_acc (map fst acc) (key_strs (map (ev k) its)) /\
        (forall s, assoc_get s acc' =
                   match assoc_get s acc with
                   | Some (p, idxs) => Some (p, idxs ++ hits (ev k) its j s)
                   | None => match hits (ev k) its j s with [] => None | h => Some (i, h) end
                   end) /\
        (forall s p idxs, assoc_get s acc = Some (p, idxs) ->
                          In s (key_strs (map (ev k) its)) -> p = i)
    | Err e =>
        (e = EEval ErrIllegalKey /\ Exists (fun it => is_str (ev k it) = false) its) \/
        (e = EEval ErrDuplicateKey /\
         exists s p idxs, In s (key_strs (map (ev k) its)) /\ assoc_get s acc = Some (p, idxs) /\ p <> i)
    | _ => False
    end.

  Lemma group_items_post k i its : forall j acc w, gi_post k i its j acc w (group_items evn k i its j acc w).
  Proof.
    induction its as [|it r IH]; intros j acc w.
    - simpl. repeat split; auto.
      + now rewrite app_nil_r.
      + intro s. destruct (assoc_get s acc) as [[p idxs]|]; [now rewrite app_nil_r|reflexivity].
      + intros s p idxs _ [].
    - rewrite group_items_cons.
      destruct (ev k it) as [[| | |key| | |]|] eqn:Ek;
        try (left; split; [reflexivity|]; apply Exists_cons_hd; unfold is_str; now rewrite Ek).
      assert (KS : key_strs (map (ev k) (it :: r)) = key :: key_strs (map (ev k) r))
        by (unfold key_strs; simpl; now rewrite Ek).
      assert (HS : forall s, hits (ev k) (it :: r) j s =
                             if seqb key s then j :: hits (ev k) r (S j) s else hits (ev k) r (S j) s)
        by (intro s; simpl; now rewrite Ek).
      destruct (assoc_get key acc) as [[p idxs]|] eqn:Ea.
      + destruct (negb (p =? i)) eqn:Ep.
        * right. split; [reflexivity|]. exists key, p, idxs. rewrite KS. split; [now left|].
          split; [assumption|]. apply negb_true_iff in Ep. now apply Nat.eqb_neq.
        * apply negb_false_iff in Ep. apply Nat.eqb_eq in Ep. subst p.
          specialize (IH (S j) (assoc_set key (i, idxs ++ [j]) acc) w).
          assert (Hget : forall s, assoc_get s (assoc_set key (i, idxs ++ [j]) acc) =
                                   if seqb s key then Some (i, idxs ++ [j]) else assoc_get s acc)
            by (intro s; apply assoc_get_set).
          assert (Hkeys : map fst (assoc_set key (i, idxs ++ [j]) acc) = map fst acc)
            by (apply assoc_set_keys; eapply assoc_get_Some_In_keys; eauto).
          destruct (group_items evn k i r (S j) (assoc_set key (i, idxs ++ [j]) acc) w)
            as [acc' w'|e| | |]; unfold gi_post in *; try assumption.
          -- destruct IH as (Hw & HF & HK & HG & HP). split; [assumption|].
             split; [constructor; [unfold is_str; now rewrite Ek|assumption]|].
             split; [|split].
             ++ rewrite HK, Hkeys, KS. simpl.
                assert (E : existsb (seqb key) (map fst acc) = true)
                  by (apply existsb_seqb_In; eapply assoc_get_Some_In_keys; eauto).
                now rewrite E.
             ++ intro s. rewrite HG, Hget, HS. rewrite (seqb_sym key s).
                destruct (seqb s key) eqn:Es.
                ** apply seqb_eq in Es. subst s. rewrite Ea. now rewrite <- app_assoc.
                ** reflexivity.
             ++ intros s p idxs' Hs Hin. rewrite KS in Hin.
                destruct (seqb s key) eqn:Es.
                ** apply seqb_eq in Es. subst s. congruence.
                ** destruct Hin as [Hin|Hin]; [apply seqb_neq in Es; congruence|].
                   eapply HP; [|exact Hin]. rewrite Hget, Es. exact Hs.
          -- destruct IH as [[He HE]|[He (s & p & idxs' & Hin & Hs & Hp)]].
             ++ left. split; [assumption|]. now apply Exists_cons_tl.
             ++ right. split; [assumption|]. exists s, p, idxs'. rewrite KS.
                rewrite Hget in Hs. destruct (seqb s key) eqn:Es; [congruence|].
                split; [now right|]. split; assumption.
      + specialize (IH (S j) (acc ++ [(key, (i, [j]))]) w).
        assert (Hget : forall s, assoc_get s (acc ++ [(key, (i, [j]))]) =
                                 match assoc_get s acc with
                                 | Some x => Some x
                                 | None => if seqb s key then Some (i, [j]) else None
                                 end)
          by (intro s; rewrite assoc_get_app; reflexivity).
        assert (Hkeys : map fst (acc ++ [(key, (i, [j]))]) = map fst acc ++ [key])
          by (now rewrite map_app).
        assert (Hnk : ~ In key (map fst acc)) by (now apply assoc_get_None).
        destruct (group_items evn k i r (S j) (acc ++ [(key, (i, [j]))]) w)
          as [acc' w'|e| | |]; unfold gi_post in *; try assumption.
        * destruct IH as (Hw & HF & HK & HG & HP). split; [assumption|].
          split; [constructor; [unfold is_str; now rewrite Ek|assumption]|].
          split; [|split].
          -- rewrite HK, Hkeys, KS. simpl.
             assert (E : existsb (seqb key) (map fst acc) = false).
             { destruct (existsb (seqb key) (map fst acc)) eqn:E; [|reflexivity].
               apply existsb_seqb_In in E. contradiction. }
             rewrite E, <- app_assoc. simpl. do 2 f_equal.
             apply nodup_str_acc_ext. intro x. rewrite in_app_iff. simpl. tauto.
          -- intro s. rewrite HG, Hget, HS. rewrite (seqb_sym key s).
             destruct (assoc_get s acc) as [[p idxs]|] eqn:Es.
             ++ destruct (seqb s key) eqn:Esk; [|reflexivity].
                apply seqb_eq in Esk. subst s. congruence.
             ++ destruct (seqb s key); reflexivity.
          -- intros s p idxs Hs Hin. rewrite KS in Hin.
             destruct Hin as [Hin|Hin]; [subst s; congruence|].
             eapply HP; [|exact Hin]. rewrite Hget, Hs. reflexivity.
        * destruct IH as [[He HE]|[He (s & p & idxs' & Hin & Hs & Hp)]].
          -- left. split; [assumption|]. now apply Exists_cons_tl.
          -- right. split; [assumption|]. exists s, p, idxs'. rewrite KS.
             rewrite Hget in Hs. destruct (assoc_get s acc) as [x|] eqn:Esa.
             ++ split; [now right|]. split; [congruence|assumption].
             ++ destruct (seqb s key); [|discriminate]. inversion Hs. congruence.
  Qed.
End Grouping.
