(* Proofs/F64Facts.v — Base/F64.v (Coq's SpecFloat at prec 53 / emax 1024) IS IEEE-754 binary64
   arithmetic as formalised by Flocq: the model's fadd/fsub/fmul/fdiv are the images under
   [B2SF] of Flocq's Bplus/Bminus/Bmult/Bdiv in round-to-nearest-even, so that Flocq's
   correctness theorems (the result is the rounding of the exact real result unless that
   overflows) transfer to the model (C03_arith_ieee); validity of the representation is
   preserved; and the facts about integers the range operator and $count rely on. *)
From Coq Require Import ZArith Reals Bool Lia Lra Floats.SpecFloat.
From Flocq Require Import Core IEEE754.BinarySingleNaN.
From JV.Base Require Import F64.
Local Open Scope Z_scope.

Local Instance Hprec : Prec_gt_0 F64.prec. Proof. reflexivity. Qed.
Local Instance Hmax : Prec_lt_emax F64.prec F64.emax. Proof. reflexivity. Qed.

Notation b64 := (binary_float F64.prec F64.emax).
Notation fexp64 := (SpecFloat.fexp F64.prec F64.emax).
Notation round64 := (round radix2 fexp64 ZnearestE).

(* ---- SpecFloat's rounding functions are Flocq's in mode_NE (Flocq's PrimFloat.v proves the
   same three lemmas for primitive floats; they are restated here to avoid that import) ---- *)
Lemma round_nearest_even_equiv s m l :
  round_nearest_even m l = choice_mode mode_NE s m l.
Proof.
  case l; [reflexivity|intro c].
  case c; [ | reflexivity..].
  now simpl; unfold Round.cond_incr; case Z.even.
Qed.

Lemma binary_round_aux_equiv sx mx ex lx :
  SpecFloat.binary_round_aux F64.prec F64.emax sx mx ex lx
  = BinarySingleNaN.binary_round_aux F64.prec F64.emax mode_NE sx mx ex lx.
Proof.
  unfold SpecFloat.binary_round_aux, BinarySingleNaN.binary_round_aux.
  set (mrse' := shr_fexp _ _ _).
  case mrse'; intros mrs' e'; simpl.
  now rewrite (round_nearest_even_equiv sx).
Qed.

Lemma binary_round_equiv s m e :
  SpecFloat.binary_round F64.prec F64.emax s m e =
  BinarySingleNaN.binary_round F64.prec F64.emax mode_NE s m e.
Proof.
  unfold SpecFloat.binary_round, BinarySingleNaN.binary_round, shl_align_fexp.
  set (mez := shl_align _ _ _); case mez as [mz ez].
  apply binary_round_aux_equiv.
Qed.

Lemma binary_normalize_equiv m e szero :
  SpecFloat.binary_normalize F64.prec F64.emax m e szero
  = B2SF (BinarySingleNaN.binary_normalize F64.prec F64.emax Hprec Hmax mode_NE m e szero).
Proof.
  case m as [ | p | p].
  - now simpl.
  - simpl; rewrite B2SF_SF2B; apply binary_round_equiv.
  - simpl; rewrite B2SF_SF2B; apply binary_round_equiv.
Qed.

(** The four operations of the model are Flocq's, through [B2SF]. *)
Theorem fadd_Bplus : forall x y : b64, fadd (B2SF x) (B2SF y) = B2SF (Bplus mode_NE x y).
Proof.
  intros [sx|sx| |sx mx ex Bx] [sy|sy| |sy my ey By];
    [now (trivial || simpl; case Bool.eqb).. | ].
  apply binary_normalize_equiv.
Qed.

Theorem fsub_Bminus : forall x y : b64, fsub (B2SF x) (B2SF y) = B2SF (Bminus mode_NE x y).
Proof.
  intros [sx|sx| |sx mx ex Bx] [sy|sy| |sy my ey By];
    [now (trivial || simpl; case Bool.eqb).. | ].
  unfold fsub. simpl. unfold Zminus. rewrite <- cond_Zopp_negb.
  apply binary_normalize_equiv.
Qed.

Theorem fmul_Bmult : forall x y : b64, fmul (B2SF x) (B2SF y) = B2SF (Bmult mode_NE x y).
Proof.
  intros [sx|sx| |sx mx ex Bx] [sy|sy| |sy my ey By]; [now trivial.. | ].
  simpl. rewrite B2SF_SF2B. apply binary_round_aux_equiv.
Qed.

Theorem fdiv_Bdiv : forall x y : b64, fdiv (B2SF x) (B2SF y) = B2SF (Bdiv mode_NE x y).
Proof.
  intros [sx|sx| |sx mx ex Bx] [sy|sy| |sy my ey By];
    [now (trivial || simpl; case Bool.eqb).. | ].
  simpl. rewrite B2SF_SF2B.
  set (melz := SFdiv_core_binary _ _ _ _ _ _).
  case melz as [[mz ez] lz].
  apply binary_round_aux_equiv.
Qed.
Print Assumptions fadd_Bplus.
Print Assumptions fdiv_Bdiv.

(* ------------------------------------------------------------------------------------ *)
(* validity of the representation                                                        *)
(* ------------------------------------------------------------------------------------ *)

(* a valid spec float is the image of a Flocq binary64 datum *)
Lemma valid_lift x : valid_f64 x = true -> exists b : b64, B2SF b = x.
Proof. intro H. exists (SF2B x H). apply B2SF_SF2B. Qed.

Lemma valid_B2SF (b : b64) : valid_f64 (B2SF b) = true.
Proof. apply valid_binary_B2SF. Qed.

Lemma finite_B2SF (b : b64) : F64.is_finite (B2SF b) = BinarySingleNaN.is_finite b.
Proof. now destruct b. Qed.

Lemma valid_f_of_Zexp m e s : valid_f64 (f_of_Zexp m e s) = true.
Proof. unfold f_of_Zexp. rewrite binary_normalize_equiv. apply valid_B2SF. Qed.

Theorem valid_fadd x y : valid_f64 x = true -> valid_f64 y = true -> valid_f64 (fadd x y) = true.
Proof.
  intros Hx Hy. destruct (valid_lift x Hx) as [bx <-]. destruct (valid_lift y Hy) as [by_ <-].
  rewrite fadd_Bplus. apply valid_B2SF.
Qed.
Theorem valid_fsub x y : valid_f64 x = true -> valid_f64 y = true -> valid_f64 (fsub x y) = true.
Proof.
  intros Hx Hy. destruct (valid_lift x Hx) as [bx <-]. destruct (valid_lift y Hy) as [by_ <-].
  rewrite fsub_Bminus. apply valid_B2SF.
Qed.
Theorem valid_fmul x y : valid_f64 x = true -> valid_f64 y = true -> valid_f64 (fmul x y) = true.
Proof.
  intros Hx Hy. destruct (valid_lift x Hx) as [bx <-]. destruct (valid_lift y Hy) as [by_ <-].
  rewrite fmul_Bmult. apply valid_B2SF.
Qed.
Theorem valid_fdiv x y : valid_f64 x = true -> valid_f64 y = true -> valid_f64 (fdiv x y) = true.
Proof.
  intros Hx Hy. destruct (valid_lift x Hx) as [bx <-]. destruct (valid_lift y Hy) as [by_ <-].
  rewrite fdiv_Bdiv. apply valid_B2SF.
Qed.
Theorem valid_fmod x y : valid_f64 x = true -> valid_f64 y = true -> valid_f64 (fmod x y) = true.
Proof.
  intros Hx Hy. destruct x as [sx|sx| |sx mx ex], y as [sy|sy| |sy my ey]; try reflexivity; try exact Hx.
  unfold fmod. apply valid_f_of_Zexp.
Qed.
Theorem valid_fopp x : valid_f64 x = true -> valid_f64 (fopp x) = true.
Proof. now destruct x. Qed.

(* ------------------------------------------------------------------------------------ *)
(* real-number meaning (IEEE-754: the correctly rounded exact result, unless it overflows) *)
(* ------------------------------------------------------------------------------------ *)

(* the real number denoted by a finite float (0 for infinities and NaN) *)
Definition R_of (x : f64) : R := SF2R radix2 x.

Lemma R_of_B2SF (b : b64) : R_of (B2SF b) = B2R b.
Proof. apply SF2R_B2SF. Qed.

Definition no_overflow (r : R) : bool := Rlt_bool (Rabs r) (bpow radix2 F64.emax).

Section Ieee.
  Variables x y : f64.
  Hypothesis Vx : valid_f64 x = true.
  Hypothesis Vy : valid_f64 y = true.
  Hypothesis Fx : F64.is_finite x = true.
  Hypothesis Fy : F64.is_finite y = true.

  Theorem fadd_ieee :
    let r := round64 (R_of x + R_of y) in
    if no_overflow r then R_of (fadd x y) = r /\ F64.is_finite (fadd x y) = true
    else F64.is_inf (fadd x y) = true.
  Proof.
    destruct (valid_lift x Vx) as [bx Ex]. destruct (valid_lift y Vy) as [by_ Ey]. subst x y.
    rewrite finite_B2SF in Fx, Fy. rewrite fadd_Bplus, !R_of_B2SF. cbv zeta.
    pose proof (Bplus_correct _ _ Hprec Hmax mode_NE bx by_ Fx Fy) as H. unfold no_overflow.
    change (round_mode mode_NE) with ZnearestE in H.
    destruct (Rlt_bool _ _).
    - destruct H as (H1 & H2 & _). rewrite ?R_of_B2SF, finite_B2SF. auto.
    - destruct H as [H _]. rewrite H. reflexivity.
  Qed.

  Theorem fsub_ieee :
    let r := round64 (R_of x - R_of y) in
    if no_overflow r then R_of (fsub x y) = r /\ F64.is_finite (fsub x y) = true
    else F64.is_inf (fsub x y) = true.
  Proof.
    destruct (valid_lift x Vx) as [bx Ex]. destruct (valid_lift y Vy) as [by_ Ey]. subst x y.
    rewrite finite_B2SF in Fx, Fy. rewrite fsub_Bminus, !R_of_B2SF. cbv zeta.
    pose proof (Bminus_correct _ _ Hprec Hmax mode_NE bx by_ Fx Fy) as H. unfold no_overflow.
    change (round_mode mode_NE) with ZnearestE in H.
    destruct (Rlt_bool _ _).
    - destruct H as (H1 & H2 & _). rewrite ?R_of_B2SF, finite_B2SF. auto.
    - destruct H as [H _]. rewrite H. reflexivity.
  Qed.

  Theorem fmul_ieee :
    let r := round64 (R_of x * R_of y) in
    if no_overflow r then R_of (fmul x y) = r /\ F64.is_finite (fmul x y) = true
    else F64.is_inf (fmul x y) = true.
  Proof.
    destruct (valid_lift x Vx) as [bx Ex]. destruct (valid_lift y Vy) as [by_ Ey]. subst x y.
    rewrite finite_B2SF in Fx, Fy. rewrite fmul_Bmult, !R_of_B2SF. cbv zeta.
    pose proof (Bmult_correct _ _ Hprec Hmax mode_NE bx by_) as H. unfold no_overflow.
    change (round_mode mode_NE) with ZnearestE in H.
    destruct (Rlt_bool _ _).
    - destruct H as (H1 & H2 & _). rewrite ?R_of_B2SF, finite_B2SF, H2, Fx, Fy. auto.
    - rewrite H. reflexivity.
  Qed.

  Theorem fdiv_ieee :
    R_of y <> 0%R ->
    let r := round64 (R_of x / R_of y) in
    if no_overflow r then R_of (fdiv x y) = r /\ F64.is_finite (fdiv x y) = true
    else F64.is_inf (fdiv x y) = true.
  Proof.
    destruct (valid_lift x Vx) as [bx Ex]. destruct (valid_lift y Vy) as [by_ Ey]. subst x y.
    rewrite finite_B2SF in Fx, Fy. rewrite fdiv_Bdiv, !R_of_B2SF. intro Ny. cbv zeta.
    pose proof (Bdiv_correct _ _ Hprec Hmax mode_NE bx by_ Ny) as H. unfold no_overflow.
    change (round_mode mode_NE) with ZnearestE in H.
    destruct (Rlt_bool _ _).
    - destruct H as (H1 & H2 & _). rewrite ?R_of_B2SF, finite_B2SF, H2, Fx. auto.
    - rewrite H. reflexivity.
  Qed.
End Ieee.
Print Assumptions fadd_ieee.

(* division by zero and the undefined forms, for completeness *)
Lemma fdiv_by_zero x s :
  fdiv x (S754_zero s) =
    match x with
    | S754_nan | S754_zero _ => S754_nan
    | S754_infinity sx | S754_finite sx _ _ => S754_infinity (xorb sx s)
    end.
Proof. now destruct x. Qed.

(* ------------------------------------------------------------------------------------ *)
(* integers: below 2^53 in magnitude the model's arithmetic is exact                    *)
(* ------------------------------------------------------------------------------------ *)

Definition bZ (z : Z) : b64 :=
  BinarySingleNaN.binary_normalize F64.prec F64.emax Hprec Hmax mode_NE z 0 false.

Lemma B2SF_bZ z : B2SF (bZ z) = f_of_Z z.
Proof. symmetry. apply binary_normalize_equiv. Qed.

Lemma F2R_int z : F2R (Float radix2 z 0) = IZR z.
Proof. unfold F2R. simpl. ring. Qed.

Lemma fexp64_eq e : fexp64 e = Z.max (e - 53) (-1074).
Proof. reflexivity. Qed.

Lemma generic_int z : Z.abs z < 2 ^ 53 -> generic_format radix2 fexp64 (IZR z).
Proof.
  intro H. rewrite <- F2R_int. apply generic_format_F2R. intro Nz.
  unfold cexp. rewrite fexp64_eq, F2R_int.
  assert (mag radix2 (IZR z) <= 53)%Z.
  { apply mag_le_bpow. now apply IZR_neq.
    rewrite <- abs_IZR. change (bpow radix2 53) with (IZR (2 ^ 53)). now apply IZR_lt. }
  lia.
Qed.

Lemma small_no_overflow r : (Rabs r < IZR (2 ^ 53))%R -> Rlt_bool (Rabs r) (bpow radix2 F64.emax) = true.
Proof.
  intro H. apply Rlt_bool_true. eapply Rlt_trans; [exact H|].
  change (IZR (2 ^ 53)) with (bpow radix2 53). apply bpow_lt. reflexivity.
Qed.

Lemma bZ_correct z : Z.abs z < 2 ^ 53 ->
  B2R (bZ z) = IZR z /\ BinarySingleNaN.is_finite (bZ z) = true /\ Bsign (bZ z) = (z <? 0).
Proof.
  intro H.
  pose proof (binary_normalize_correct _ _ Hprec Hmax mode_NE z 0 false) as C.
  cbv zeta in C. rewrite F2R_int in C.
  change (round_mode mode_NE) with ZnearestE in C.
  rewrite round_generic in C by (try apply valid_rnd_N; now apply generic_int).
  rewrite small_no_overflow in C by (rewrite <- abs_IZR; now apply IZR_lt).
  destruct C as (C1 & C2 & C3). fold (bZ z) in C1, C2, C3.
  split; [exact C1|]. split; [exact C2|]. rewrite C3.
  destruct (Rcompare_spec (IZR z) 0) as [L|E|G].
  - apply lt_IZR in L. lia.
  - apply eq_IZR in E. subst. reflexivity.
  - apply lt_IZR in G. lia.
Qed.

Lemma bZ_plus a b : Z.abs a < 2 ^ 53 -> Z.abs b < 2 ^ 53 -> Z.abs (a + b) < 2 ^ 53 ->
  Bplus mode_NE (bZ a) (bZ b) = bZ (a + b).
Proof.
  intros Ha Hb Hab.
  destruct (bZ_correct a Ha) as (Ra & Fa & Sa). destruct (bZ_correct b Hb) as (Rb & Fb & Sb).
  destruct (bZ_correct (a + b) Hab) as (Rc & Fc & Sc).
  pose proof (Bplus_correct _ _ Hprec Hmax mode_NE (bZ a) (bZ b) Fa Fb) as C.
  change (round_mode mode_NE) with ZnearestE in C.
  rewrite Ra, Rb, <- plus_IZR in C.
  rewrite round_generic in C by (try apply valid_rnd_N; now apply generic_int).
  rewrite small_no_overflow in C by (rewrite <- abs_IZR; now apply IZR_lt).
  destruct C as (C1 & C2 & C3).
  apply B2R_Bsign_inj; auto; [congruence|].
  rewrite C3, Sc, Sa, Sb.
  destruct (Rcompare_spec (IZR (a + b)) 0) as [L|E|G].
  - apply lt_IZR in L. lia.
  - apply eq_IZR in E. lia.
  - apply lt_IZR in G. lia.
Qed.

Lemma bZ_minus a b : Z.abs a < 2 ^ 53 -> Z.abs b < 2 ^ 53 -> Z.abs (a - b) < 2 ^ 53 ->
  Bminus mode_NE (bZ a) (bZ b) = bZ (a - b).
Proof.
  intros Ha Hb Hab.
  destruct (bZ_correct a Ha) as (Ra & Fa & Sa). destruct (bZ_correct b Hb) as (Rb & Fb & Sb).
  destruct (bZ_correct (a - b) Hab) as (Rc & Fc & Sc).
  pose proof (Bminus_correct _ _ Hprec Hmax mode_NE (bZ a) (bZ b) Fa Fb) as C.
  change (round_mode mode_NE) with ZnearestE in C.
  rewrite Ra, Rb, <- minus_IZR in C.
  rewrite round_generic in C by (try apply valid_rnd_N; now apply generic_int).
  rewrite small_no_overflow in C by (rewrite <- abs_IZR; now apply IZR_lt).
  destruct C as (C1 & C2 & C3).
  apply B2R_Bsign_inj; auto; [congruence|].
  rewrite C3, Sc, Sa, Sb.
  destruct (Rcompare_spec (IZR (a - b)) 0) as [L|E|G].
  - apply lt_IZR in L. lia.
  - apply eq_IZR in E. lia.
  - apply lt_IZR in G. lia.
Qed.

(** on integers below 2^53 in magnitude, + and - of the model are exact *)
Theorem fadd_int a b : Z.abs a < 2 ^ 53 -> Z.abs b < 2 ^ 53 -> Z.abs (a + b) < 2 ^ 53 ->
  fadd (f_of_Z a) (f_of_Z b) = f_of_Z (a + b).
Proof. intros. rewrite <- !B2SF_bZ, fadd_Bplus. now rewrite bZ_plus. Qed.

Theorem fsub_int a b : Z.abs a < 2 ^ 53 -> Z.abs b < 2 ^ 53 -> Z.abs (a - b) < 2 ^ 53 ->
  fsub (f_of_Z a) (f_of_Z b) = f_of_Z (a - b).
Proof. intros. rewrite <- !B2SF_bZ, fsub_Bminus. now rewrite bZ_minus. Qed.

Theorem fltb_int a b : Z.abs a < 2 ^ 53 -> Z.abs b < 2 ^ 53 ->
  fltb (f_of_Z a) (f_of_Z b) = (a <? b).
Proof.
  intros Ha Hb.
  destruct (bZ_correct a Ha) as (Ra & Fa & Sa). destruct (bZ_correct b Hb) as (Rb & Fb & Sb).
  rewrite <- !B2SF_bZ. change (fltb (B2SF (bZ a)) (B2SF (bZ b))) with (Bltb (bZ a) (bZ b)).
  rewrite Bltb_correct by auto. rewrite Ra, Rb.
  destruct (Z.ltb_spec a b) as [L|G].
  - apply Rlt_bool_true. now apply IZR_lt.
  - apply Rlt_bool_false. now apply IZR_le.
Qed.

(* the integer behind a finite float whose real value is an integer *)
Lemma abs_int_frac_int s m e z :
  F2R (Float radix2 (cond_Zopp s (Zpos m)) e) = IZR z ->
  let q := fst (abs_int_frac m e) in (if s then - q else q) = z.
Proof.
  unfold F2R. cbn [Fnum Fexp]. intro H. unfold abs_int_frac.
  destruct e as [|p|p].
  - cbn [fst]. simpl bpow in H. rewrite Rmult_1_r in H. apply eq_IZR in H.
    destruct s; cbn in H; lia.
  - cbn [fst]. rewrite <- IZR_Zpower in H by lia. rewrite <- mult_IZR in H. apply eq_IZR in H.
    change (Zpower radix2 (Z.pos p)) with (2 ^ Z.pos p) in H.
    destruct s; cbn [cond_Zopp] in H; lia.
  - cbn [fst].
    assert (H2 : (IZR (cond_Zopp s (Z.pos m)) = IZR z * bpow radix2 (Z.pos p))%R).
    { rewrite <- H. rewrite Rmult_assoc, <- bpow_plus.
      replace (Z.neg p + Z.pos p) with 0 by lia. simpl. ring. }
    rewrite <- IZR_Zpower in H2 by lia. rewrite <- mult_IZR in H2. apply eq_IZR in H2.
    change (Zpower radix2 (Z.pos p)) with (2 ^ Z.pos p) in H2.
    assert (0 < 2 ^ Z.pos p) by (apply Z.pow_pos_nonneg; lia).
    destruct s; cbn [cond_Zopp] in H2.
    + replace (Z.pos m) with ((- z) * 2 ^ Z.pos p) by lia. rewrite Z.div_mul by lia. lia.
    + rewrite H2. rewrite Z.div_mul by lia. reflexivity.
Qed.

Theorem Z_trunc_int z : Z.abs z < 2 ^ 53 -> Z_trunc (f_of_Z z) = Some z.
Proof.
  intro H. destruct (bZ_correct z H) as (Rz & Fz & Sz). rewrite <- B2SF_bZ.
  destruct (bZ z) as [s|s| |s m e B]; try discriminate.
  - cbn in *. apply eq_IZR in Rz. congruence.
  - cbn [B2SF Z_trunc]. cbn [B2R] in Rz. pose proof (abs_int_frac_int s m e z Rz) as Q.
    cbv zeta in Q. destruct (abs_int_frac m e) as [q fr]. cbn [fst] in Q. now rewrite Q.
Qed.

Theorem go_int_int z : Z.abs z < 2 ^ 53 -> go_int (f_of_Z z) = z.
Proof.
  intro H. unfold go_int. rewrite Z_trunc_int by exact H.
  replace ((- 2 ^ 63 <=? z) && (z <? 2 ^ 63)) with true by lia. reflexivity.
Qed.

Lemma feqb_refl_finite x : F64.is_finite x = true -> feqb x x = true.
Proof.
  destruct x as [s|s| |s m e]; try discriminate; try reflexivity.
  intros _. unfold feqb, SFeqb. cbn.
  rewrite Z.compare_refl. change (Pos.compare_cont Eq m m) with (Pos.compare m m).
  rewrite Pos.compare_refl. now destruct s.
Qed.

Theorem f_of_Z_finite z : Z.abs z < 2 ^ 53 -> F64.is_finite (f_of_Z z) = true.
Proof.
  intro H. destruct (bZ_correct z H) as (_ & Fz & _). now rewrite <- B2SF_bZ, finite_B2SF.
Qed.

Theorem ftrunc_int z : Z.abs z < 2 ^ 53 -> ftrunc (f_of_Z z) = f_of_Z z.
Proof.
  intro H. destruct (bZ_correct z H) as (Rz & Fz & Sz).
  assert (E : B2SF (bZ z) = f_of_Z z) by apply B2SF_bZ.
  destruct (bZ z) as [s|s| |s m e B]; try discriminate.
  - rewrite <- E. reflexivity.
  - rewrite <- E at 1. cbn [B2SF ftrunc]. destruct (0 <=? e) eqn:He; [exact E|].
    cbn [B2R] in Rz. pose proof (abs_int_frac_int s m e z Rz) as Q.
    cbv zeta in Q. destruct (abs_int_frac m e) as [q fr]. cbn [fst] in Q. rewrite Q.
    assert (z <> 0).
    { intro Z0. rewrite Z0 in Rz. apply eq_0_F2R in Rz. cbn in Rz. destruct s; discriminate. }
    unfold f_of_Z, f_of_Zexp. destruct z; [congruence | reflexivity | reflexivity].
Qed.

Theorem f_is_integer_int z : Z.abs z < 2 ^ 53 -> f_is_integer (f_of_Z z) = true.
Proof.
  intro H. unfold f_is_integer. rewrite ftrunc_int by exact H.
  apply feqb_refl_finite. now apply f_of_Z_finite.
Qed.

(* ---- x + 1 never overflows ---- *)
Local Notation rnd := (round radix2 fexp64 ZnearestE).

Lemma generic_B2R (b : b64) : generic_format radix2 fexp64 (B2R b).
Proof. apply generic_format_B2R. Qed.

Lemma plus_one_no_overflow (X : R) :
  generic_format radix2 fexp64 X ->
  (Rabs X <= bpow radix2 1024 - bpow radix2 971)%R ->
  (Rabs (rnd (X + 1)) < bpow radix2 1024)%R.
Proof.
  intros GX BX.
  assert (P971 : (0 < bpow radix2 971)%R) by apply bpow_gt_0.
  assert (P55 : (bpow radix2 55 < bpow radix2 1024)%R) by (apply bpow_lt; reflexivity).
  assert (E54 : bpow radix2 54 = 18014398509481984%R) by (simpl; lra).
  assert (E55 : bpow radix2 55 = 36028797018963968%R) by (simpl; lra).
  destruct (Rle_or_lt (Rabs X) (bpow radix2 54)) as [Small|Big].
  - (* |X| <= 2^54 : |round (X+1)| <= 2^55 *)
    apply Rle_lt_trans with (2 := P55).
    apply abs_round_le_generic; try apply valid_rnd_N; try apply fexp_correct; try reflexivity.
    + apply generic_format_bpow. rewrite fexp64_eq. lia.
    + apply Rle_trans with (Rabs X + Rabs 1)%R; [apply Rabs_triang|]. rewrite Rabs_R1. lra.
  - destruct (Rle_or_lt 0 X) as [Pos|Neg].
    + (* X > 2^54 : round (X+1) <= X *)
      rewrite Rabs_pos_eq in Big, BX by exact Pos.
      assert (U : (4 <= ulp radix2 fexp64 X)%R).
      { rewrite ulp_neq_0 by lra. change 4%R with (bpow radix2 2). apply bpow_le.
        unfold cexp. rewrite fexp64_eq.
        assert (55 <= mag radix2 X)%Z.
        { apply mag_ge_bpow. change (55 - 1) with 54. rewrite Rabs_pos_eq by exact Pos. lra. }
        lia. }
      assert (Hi : (rnd (X + 1) <= X)%R).
      { apply round_N_le_midp; [apply fexp_correct; reflexivity | exact GX |].
        rewrite succ_eq_pos by exact Pos. lra. }
      assert (Lo : (0 <= rnd (X + 1))%R).
      { apply round_ge_generic; try apply valid_rnd_N; try (apply fexp_correct; reflexivity).
        apply generic_format_0. lra. }
      rewrite Rabs_pos_eq by exact Lo. lra.
    + (* X < -2^54 : X <= round (X+1) <= 0 *)
      rewrite Rabs_left in Big, BX by exact Neg.
      assert (Hi : (rnd (X + 1) <= 0)%R).
      { apply round_le_generic; try apply valid_rnd_N; try (apply fexp_correct; reflexivity).
        apply generic_format_0. lra. }
      assert (Lo : (X <= rnd (X + 1))%R).
      { apply round_ge_generic; try apply valid_rnd_N; try (apply fexp_correct; reflexivity).
        exact GX. lra. }
      rewrite Rabs_left1 by exact Hi. lra.
Qed.

Lemma R_of_int z : Z.abs z < 2 ^ 53 -> R_of (f_of_Z z) = IZR z.
Proof. intro H. rewrite <- B2SF_bZ, R_of_B2SF. now destruct (bZ_correct z H). Qed.

Lemma valid_f_of_Z z : valid_f64 (f_of_Z z) = true.
Proof. apply valid_f_of_Zexp. Qed.

(** incrementing a finite float never overflows (near the top of the range x + 1 rounds back
    to x): the loop of the range operator only ever produces finite numbers *)
Theorem fadd_one_finite x :
  valid_f64 x = true -> F64.is_finite x = true -> F64.is_finite (fadd x fone) = true.
Proof.
  intros Vx Fx.
  assert (F1 : F64.is_finite fone = true) by reflexivity.
  pose proof (fadd_ieee x fone Vx (valid_f_of_Z 1) Fx F1) as H. cbv zeta in H.
  unfold fone in H at 1. rewrite R_of_int in H by (vm_compute; reflexivity).
  destruct (valid_lift x Vx) as [bx Ex]. rewrite <- Ex in H. rewrite R_of_B2SF in H.
  unfold no_overflow in H. rewrite Rlt_bool_true in H.
  - rewrite <- Ex. apply H.
  - apply plus_one_no_overflow; [apply generic_B2R|].
    apply (abs_B2R_le_emax_minus_prec F64.prec F64.emax Hprec bx).
Qed.


(* ------------------------------------------------------------------------------------ *)
(* the operators of the evaluator (property C03)                                         *)
(* ------------------------------------------------------------------------------------ *)
From JV.Model Require Import Value Ops Eval.
From JV.Proofs Require Import C03Proofs.
Import ListNotations.

Definition real_op (o : numop) (a b : R) : R :=
  match o with
  | NumAdd => a + b
  | NumSub => a - b
  | NumMul => a * b
  | NumDiv => a / b
  | NumMod => 0
  end%R.

(** + - * / on two finite numbers: the IEEE-754 binary64 result, i.e. the exact real result
    rounded to nearest-even — returned as a (finite, valid) number when the rounded result is
    below 2^1024 in magnitude, reported as ErrNumberInf otherwise; never a non-finite value. *)
Theorem C03_arith_ieee : forall o x y,
  o <> NumMod ->
  valid_f64 x = true -> valid_f64 y = true ->
  F64.is_finite x = true -> F64.is_finite y = true ->
  (o = NumDiv -> R_of y <> 0%R) ->
  let r := round64 (real_op o (R_of x) (R_of y)) in
  if no_overflow r
  then exists z, numeric_result o (Some (VNum x)) (Some (VNum y)) = inl (Some (VNum z)) /\
                 R_of z = r /\ F64.is_finite z = true /\ valid_f64 z = true
  else numeric_result o (Some (VNum x)) (Some (VNum y)) = inr (EEval ErrNumberInf).
Proof.
  intros o x y No Vx Vy Fx Fy Ny r. rewrite C03_arith_value. cbv zeta. subst r.
  destruct o; try congruence; cbn [real_op num_apply].
  - pose proof (fadd_ieee x y Vx Vy Fx Fy) as H. cbv zeta in H.
    destruct (no_overflow _).
    + destruct H as [H1 H2]. exists (fadd x y). rewrite H2. auto using valid_fadd.
    + destruct (fadd x y); try discriminate; reflexivity.
  - pose proof (fsub_ieee x y Vx Vy Fx Fy) as H. cbv zeta in H.
    destruct (no_overflow _).
    + destruct H as [H1 H2]. exists (fsub x y). rewrite H2. auto using valid_fsub.
    + destruct (fsub x y); try discriminate; reflexivity.
  - pose proof (fmul_ieee x y Vx Vy Fx Fy) as H. cbv zeta in H.
    destruct (no_overflow _).
    + destruct H as [H1 H2]. exists (fmul x y). rewrite H2. auto using valid_fmul.
    + destruct (fmul x y); try discriminate; reflexivity.
  - pose proof (fdiv_ieee x y Vx Vy Fx Fy (Ny eq_refl)) as H. cbv zeta in H.
    destruct (no_overflow _).
    + destruct H as [H1 H2]. exists (fdiv x y). rewrite H2. auto using valid_fdiv.
    + destruct (fdiv x y); try discriminate; reflexivity.
Qed.
Print Assumptions C03_arith_ieee.

(** division by (either) zero: an error, NumberInf for a non-zero dividend, NumberNaN for 0/0;
    the remainder by zero is NumberNaN *)
Theorem C03_div_zero : forall x s,
  F64.is_finite x = true ->
  numeric_result NumDiv (Some (VNum x)) (Some (VNum (S754_zero s))) =
    inr (EEval (if is_zero x then ErrNumberNaN else ErrNumberInf)) /\
  numeric_result NumMod (Some (VNum x)) (Some (VNum (S754_zero s))) = inr (EEval ErrNumberNaN).
Proof. intros [sx|sx| |sx m e] s F; try discriminate; split; reflexivity. Qed.

Example C03_arith_ieee_ex :
  (* 0.1 + 0.2 = 0.30000000000000004 : the sum is rounded, not exact *)
  numeric_result NumAdd (Some (VNum (fdiv fone (f_of_Z 10)))) (Some (VNum (fdiv (f_of_Z 2) (f_of_Z 10)))) =
    inl (Some (VNum (f_of_bits 0x3FD3333333333334))) /\
  fdiv (f_of_Z 3) (f_of_Z 10) = f_of_bits 0x3FD3333333333333.
Proof. vm_compute. split; reflexivity. Qed.

(* ---- the range operator on integers below 2^53: exactly the integers from a to b ---- *)
Lemma range_items_int n : forall a,
  - 2 ^ 53 < a -> a + Z.of_nat n <= 2 ^ 53 ->
  range_items n (f_of_Z a) = map (fun k => VNum (f_of_Z (a + Z.of_nat k))) (seq 0 n).
Proof.
  induction n as [|n IH]; intros a Ha Hn; [reflexivity|].
  cbn [range_items seq map]. rewrite Z.add_0_r. f_equal.
  destruct n as [|n']; [reflexivity|].
  change fone with (f_of_Z 1). rewrite fadd_int by lia. rewrite IH by lia.
  rewrite <- seq_shift, map_map. apply map_ext. intro k. do 2 f_equal. lia.
Qed.

Theorem C03_range_exact : forall za zb,
  Z.abs za < 2 ^ 53 -> Z.abs zb < 2 ^ 53 -> zb - za < 2 ^ 53 ->
  range_result (Some (VNum (f_of_Z za))) (Some (VNum (f_of_Z zb))) =
    if zb <? za then inl None
    else if max_range_items <? zb - za + 1 then inr (EEval ErrMaxRangeItems)
    else inl (Some (VArr (map (fun k => VNum (f_of_Z (za + Z.of_nat k)))
                              (seq 0 (Z.to_nat (zb - za + 1)))))).
Proof.
  intros za zb Ha Hb Hd. rewrite C03_range. cbv zeta.
  rewrite !f_is_integer_int by assumption. cbn [negb].
  rewrite fltb_int by assumption.
  destruct (Z.ltb_spec zb za) as [L|G]; [reflexivity|].
  rewrite fsub_int by lia. rewrite go_int_int by lia.
  replace (zb - za + 1 <? 0) with false by lia. cbn [orb].
  destruct (max_range_items <? zb - za + 1) eqn:Em; [reflexivity|].
  rewrite range_items_int by lia. reflexivity.
Qed.
Print Assumptions C03_range_exact.

Example C03_range_exact_ex :
  range_result (Some (VNum (f_of_Z (-2)))) (Some (VNum (f_of_Z 1))) =
    inl (Some (VArr [VNum (f_of_Z (-2)); VNum (f_of_Z (-1)); VNum (f_of_Z 0); VNum (f_of_Z 1)])).
Proof. rewrite C03_range_exact by (vm_compute; reflexivity). reflexivity. Qed.

(** whatever the (finite) bounds, every member of a range is a finite number *)
Theorem range_items_finite n : forall a,
  valid_f64 a = true -> F64.is_finite a = true ->
  forallb value_finite (range_items n a) = true.
Proof.
  induction n as [|n IH]; intros a Va Fa; [reflexivity|].
  cbn [range_items forallb]. cbn [value_finite]. rewrite Fa. cbn [andb].
  apply IH; [apply valid_fadd; [exact Va | apply valid_f_of_Z] | now apply fadd_one_finite].
Qed.


(* ------------------------------------------------------------------------------------ *)
(* % : the exact truncated remainder, with the sign of the dividend                      *)
(* ------------------------------------------------------------------------------------ *)

Lemma bounded_facts m e :
  SpecFloat.bounded F64.prec F64.emax m e = true -> Z.pos m < 2 ^ 53 /\ -1074 <= e <= 971.
Proof.
  unfold SpecFloat.bounded, SpecFloat.canonical_mantissa. intro H.
  apply andb_true_iff in H as [H1 H2]. apply Zeq_bool_eq in H1. apply Zle_bool_imp_le in H2.
  change (F64.emax - F64.prec) with 971 in H2. rewrite fexp64_eq in H1.
  pose proof (Zdigits_correct radix2 (Z.pos m)) as D. rewrite <- Zpos_digits2_pos in D.
  set (d := Z.pos (digits2_pos m)) in *.
  assert (d <= 53) by lia.
  split; [|lia].
  apply Z.lt_le_trans with (radix2 ^ d); [simpl Z.abs in D; lia|].
  change (radix2 ^ d) with (2 ^ d). apply Z.pow_le_mono_r; lia.
Qed.

Lemma mag_int_le m : m <> 0 -> Z.abs m < 2 ^ 53 -> (mag radix2 (IZR m) <= 53)%Z.
Proof.
  intros Nz H. apply mag_le_bpow. now apply IZR_neq.
  rewrite <- abs_IZR. change (bpow radix2 53) with (IZR (2 ^ 53)). now apply IZR_lt.
Qed.

Lemma generic_small m e : Z.abs m < 2 ^ 53 -> -1074 <= e ->
  generic_format radix2 fexp64 (F2R (Float radix2 m e)).
Proof.
  intros Hm He. apply generic_format_F2R. intro Nz.
  unfold cexp. rewrite mag_F2R by exact Nz. rewrite fexp64_eq.
  pose proof (mag_int_le m Nz Hm). lia.
Qed.

Lemma sign_bit_B2SF (b : b64) : sign_bit (B2SF b) = Bsign b.
Proof. now destruct b. Qed.

(* m * 2^e with |m| < 2^53 and e in the exponent range is represented exactly *)
Lemma f_of_Zexp_exact m e s : Z.abs m < 2 ^ 53 -> -1074 <= e <= 971 ->
  R_of (f_of_Zexp m e s) = F2R (Float radix2 m e) /\
  F64.is_finite (f_of_Zexp m e s) = true /\
  sign_bit (f_of_Zexp m e s) = (if m =? 0 then s else m <? 0).
Proof.
  intros Hm He. unfold f_of_Zexp. rewrite binary_normalize_equiv.
  rewrite R_of_B2SF, finite_B2SF, sign_bit_B2SF.
  pose proof (binary_normalize_correct _ _ Hprec Hmax mode_NE m e s) as C. cbv zeta in C.
  change (round_mode mode_NE) with ZnearestE in C.
  rewrite round_generic in C by (try apply valid_rnd_N; apply generic_small; lia).
  rewrite Rlt_bool_true in C.
  - destruct C as (C1 & C2 & C3). split; [exact C1|]. split; [exact C2|]. rewrite C3.
    destruct (Rcompare_spec (F2R (Float radix2 m e)) 0) as [L|E|G].
    + apply lt_0_F2R in L. replace (m =? 0) with false by lia. lia.
    + apply eq_0_F2R in E. subst m. reflexivity.
    + apply gt_0_F2R in G. replace (m =? 0) with false by lia. lia.
  - rewrite <- F2R_Zabs.
    apply Rlt_le_trans with (F2R (Float radix2 (2 ^ 53) e)); [now apply F2R_lt|].
    unfold F2R. cbn [Fnum Fexp]. change (IZR (2 ^ 53)) with (bpow radix2 53).
    rewrite <- bpow_plus. apply bpow_le. change F64.emax with 1024. lia.
Qed.

Definition sgn (s : bool) : R := if s then (-1)%R else 1%R.

(** x % y for finite x and finite non-zero y: the result r is finite, has the sign bit of the
    dividend, and  r = x - sgn(x)·q·|y|  for a natural number q with |r| < |y| — exactly (no
    rounding): the truncated remainder (q = trunc(|x| / |y|)). *)
Theorem fmod_exact x y :
  valid_f64 x = true -> valid_f64 y = true ->
  F64.is_finite x = true -> F64.is_finite y = true -> is_zero y = false ->
  F64.is_finite (fmod x y) = true /\
  sign_bit (fmod x y) = sign_bit x /\
  exists q : Z, 0 <= q /\
    R_of (fmod x y) = (R_of x - sgn (sign_bit x) * IZR q * Rabs (R_of y))%R /\
    (Rabs (R_of (fmod x y)) < Rabs (R_of y))%R.
Proof.
  intros Vx Vy Fx Fy Ny.
  destruct y as [sy|sy| |sy my ey]; try discriminate.
  destruct x as [sx|sx| |sx mx ex]; try discriminate.
  - (* x = ±0 *)
    cbn [fmod]. split; [reflexivity|]. split; [reflexivity|]. exists 0. split; [lia|].
    unfold R_of. cbn [SF2R]. split.
    + simpl. ring.
    + rewrite Rabs_R0. apply Rabs_pos_lt. apply F2R_neq_0. now destruct sy.
  - (* both finite and non-zero *)
    apply bounded_facts in Vx as [Mx Ex]. apply bounded_facts in Vy as [My Ey].
    cbn [fmod]. set (e := Z.min ex ey).
    set (X := Z.pos mx * 2 ^ (ex - e)). set (Y := Z.pos my * 2 ^ (ey - e)).
    assert (Px : 0 < 2 ^ (ex - e)) by (apply Z.pow_pos_nonneg; lia).
    assert (Py : 0 < 2 ^ (ey - e)) by (apply Z.pow_pos_nonneg; lia).
    assert (HX : 0 < X) by (unfold X; lia). assert (HY : 0 < Y) by (unfold Y; lia).
    pose proof (Z.mod_pos_bound X Y HY) as HR.
    pose proof (Z.div_mod X Y ltac:(lia)) as HD.
    pose proof (Z.div_pos X Y ltac:(lia) HY) as HQ.
    set (Rm := X mod Y) in *. set (q := X / Y) in *.
    assert (RX : Rm <= X) by (unfold Rm; apply Z.mod_le; lia).
    assert (R53 : Rm < 2 ^ 53).
    { destruct (Z.le_ge_cases ex ey) as [L|G].
      - assert (e = ex) by (unfold e; lia). unfold X in RX. replace (ex - e) with 0 in RX by lia.
        simpl in RX. lia.
      - assert (e = ey) by (unfold e; lia). unfold Y in HR. replace (ey - e) with 0 in HR by lia.
        simpl in HR. lia. }
    destruct (f_of_Zexp_exact (if sx then - Rm else Rm) e sx) as (V1 & V2 & V3);
      [destruct sx; lia | unfold e; lia |].
    split; [exact V2|]. split.
    { rewrite V3. cbn [sign_bit]. destruct sx.
      - destruct (Z.eqb_spec (- Rm) 0); [reflexivity | lia].
      - destruct (Z.eqb_spec Rm 0); [reflexivity | lia]. }
    exists q. split; [exact HQ|]. rewrite V1.
    (* real values of x and |y| over the common exponent e *)
    assert (RXe : R_of (S754_finite sx mx ex) = (sgn sx * IZR X * bpow radix2 e)%R).
    { unfold R_of. cbn [SF2R]. rewrite F2R_cond_Zopp.
      rewrite (F2R_change_exp radix2 e _ ex) by (unfold e; lia).
      unfold F2R. cbn [Fnum Fexp].
      change (Z.pos mx * radix2 ^ (ex - e)) with X. destruct sx; unfold sgn, cond_Ropp; ring. }
    assert (RYe : Rabs (R_of (S754_finite sy my ey)) = (IZR Y * bpow radix2 e)%R).
    { unfold R_of. cbn [SF2R]. rewrite <- F2R_Zabs.
      replace (Z.abs (cond_Zopp sy (Z.pos my))) with (Z.pos my) by (destruct sy; reflexivity).
      rewrite (F2R_change_exp radix2 e _ ey) by (unfold e; lia).
      unfold F2R. cbn [Fnum Fexp]. reflexivity. }
    assert (RRe : F2R (Float radix2 (if sx then - Rm else Rm) e) = (sgn sx * IZR Rm * bpow radix2 e)%R).
    { unfold F2R. cbn [Fnum Fexp]. destruct sx; unfold sgn; rewrite ?opp_IZR; ring. }
    rewrite RXe, RYe, RRe. cbn [sign_bit].
    assert (Pe : (0 < bpow radix2 e)%R) by apply bpow_gt_0.
    split.
    + replace X with (Y * q + Rm) by lia. rewrite plus_IZR, mult_IZR. ring.
    + rewrite !Rabs_mult. rewrite (Rabs_pos_eq (bpow radix2 e)) by lra.
      replace (Rabs (sgn sx)) with 1%R by (destruct sx; unfold sgn, Rabs; destruct (Rcase_abs _); lra).
      rewrite Rmult_1_l. rewrite <- abs_IZR. apply Rmult_lt_compat_r; [exact Pe|].
      apply IZR_lt. lia.
Qed.
Print Assumptions fmod_exact.

Example fmod_exact_ex :
  fmod (f_of_Z (-7)) (f_of_Z 3) = f_of_Z (-1) /\ fmod (f_of_Z 7) (f_of_Z (-3)) = f_of_Z 1 /\
  fmod (f_of_Z (-6)) (f_of_Z 3) = fnzero /\
  fmod (fdiv (f_of_Z 11) (f_of_Z 2)) (f_of_Z 2) = fdiv (f_of_Z 3) (f_of_Z 2).
Proof. vm_compute. repeat split. Qed.

(* ------------------------------------------------------------------------------------ *)
(* comparisons and negation in terms of the real values                                  *)
(* ------------------------------------------------------------------------------------ *)

Theorem fltb_real x y :
  valid_f64 x = true -> valid_f64 y = true -> F64.is_finite x = true -> F64.is_finite y = true ->
  fltb x y = Rlt_bool (R_of x) (R_of y).
Proof.
  intros Vx Vy Fx Fy.
  destruct (valid_lift x Vx) as [bx <-]. destruct (valid_lift y Vy) as [by_ <-].
  rewrite finite_B2SF in Fx, Fy. rewrite !R_of_B2SF.
  change (fltb (B2SF bx) (B2SF by_)) with (Bltb bx by_). now apply Bltb_correct.
Qed.

Theorem feqb_real x y :
  valid_f64 x = true -> valid_f64 y = true -> F64.is_finite x = true -> F64.is_finite y = true ->
  feqb x y = Req_bool (R_of x) (R_of y).
Proof.
  intros Vx Vy Fx Fy.
  destruct (valid_lift x Vx) as [bx <-]. destruct (valid_lift y Vy) as [by_ <-].
  rewrite finite_B2SF in Fx, Fy. rewrite !R_of_B2SF.
  change (feqb (B2SF bx) (B2SF by_)) with (Beqb bx by_). now apply Beqb_correct.
Qed.

Theorem fopp_real x : R_of (fopp x) = (- R_of x)%R.
Proof.
  destruct x as [s|s| |s m e]; unfold R_of; cbn [fopp SFopp SF2R]; try (symmetry; apply Ropp_0).
  rewrite <- F2R_Zopp. f_equal. f_equal. now destruct s.
Qed.
Print Assumptions fltb_real.
