(* Proofs/F64Facts.v — Base/F64.v (Coq's SpecFloat at prec 53 / emax 1024) IS IEEE-754 binary64
   arithmetic as formalised by Flocq: the model's fadd/fsub/fmul/fdiv are the images under
   [B2SF] of Flocq's Bplus/Bminus/Bmult/Bdiv in round-to-nearest-even, so that Flocq's
   correctness theorems (the result is the rounding of the exact real result unless that
   overflows) transfer to the model (C03_arith_ieee); validity of the representation is
   preserved; and the facts about integers the range operator and $count rely on. *)
From Coq Require Import ZArith Reals Bool Lia Lra Floats.SpecFloat.
From Flocq Require Import Core IEEE754.BinarySingleNaN.
From JV.Base Require Import F64.
Local Open Scope Z_scope.

Local Instance Hprec : Prec_gt_0 F64.prec. Proof. reflexivity. Qed.
Local Instance Hmax : Prec_lt_emax F64.prec F64.emax. Proof. reflexivity. Qed.

Notation b64 := (binary_float F64.prec F64.emax).
Notation fexp64 := (SpecFloat.fexp F64.prec F64.emax).
Notation round64 := (round radix2 fexp64 ZnearestE).

(* ---- SpecFloat's rounding functions are Flocq's in mode_NE (Flocq's PrimFloat.v proves the
   same three lemmas for primitive floats; they are restated here to avoid that import) ---- *)
Lemma round_nearest_even_equiv s m l :
  round_nearest_even m l = choice_mode mode_NE s m l.
Proof.
  case l; [reflexivity|intro c].
  case c; [ | reflexivity..].
  now simpl; unfold Round.cond_incr; case Z.even.
Qed.

Lemma binary_round_aux_equiv sx mx ex lx :
  SpecFloat.binary_round_aux F64.prec F64.emax sx mx ex lx
  = BinarySingleNaN.binary_round_aux F64.prec F64.emax mode_NE sx mx ex lx.
Proof.
  unfold SpecFloat.binary_round_aux, BinarySingleNaN.binary_round_aux.
  set (mrse' := shr_fexp _ _ _).
  case mrse'; intros mrs' e'; simpl.
  now rewrite (round_nearest_even_equiv sx).
Qed.

Lemma binary_round_equiv s m e :
  SpecFloat.binary_round F64.prec F64.emax s m e =
  BinarySingleNaN.binary_round F64.prec F64.emax mode_NE s m e.
Proof.
  unfold SpecFloat.binary_round, BinarySingleNaN.binary_round, shl_align_fexp.
  set (mez := shl_align _ _ _); case mez as [mz ez].
  apply binary_round_aux_equiv.
Qed.

Lemma binary_normalize_equiv m e szero :
  SpecFloat.binary_normalize F64.prec F64.emax m e szero
  = B2SF (BinarySingleNaN.binary_normalize F64.prec F64.emax Hprec Hmax mode_NE m e szero).
Proof.
  case m as [ | p | p].
  - now simpl.
  - simpl; rewrite B2SF_SF2B; apply binary_round_equiv.
  - simpl; rewrite B2SF_SF2B; apply binary_round_equiv.
Qed.

(** The four operations of the model are Flocq's, through [B2SF]. *)
Theorem fadd_Bplus : forall x y : b64, fadd (B2SF x) (B2SF y) = B2SF (Bplus mode_NE x y).
Proof.
  intros [sx|sx| |sx mx ex Bx] [sy|sy| |sy my ey By];
    [now (trivial || simpl; case Bool.eqb).. | ].
  apply binary_normalize_equiv.
Qed.

Theorem fsub_Bminus : forall x y : b64, fsub (B2SF x) (B2SF y) = B2SF (Bminus mode_NE x y).
Proof.
  intros [sx|sx| |sx mx ex Bx] [sy|sy| |sy my ey By];
    [now (trivial || simpl; case Bool.eqb).. | ].
  unfold fsub. simpl. unfold Zminus. rewrite <- cond_Zopp_negb.
  apply binary_normalize_equiv.
Qed.

Theorem fmul_Bmult : forall x y : b64, fmul (B2SF x) (B2SF y) = B2SF (Bmult mode_NE x y).
Proof.
  intros [sx|sx| |sx mx ex Bx] [sy|sy| |sy my ey By]; [now trivial.. | ].
  simpl. rewrite B2SF_SF2B. apply binary_round_aux_equiv.
Qed.

Theorem fdiv_Bdiv : forall x y : b64, fdiv (B2SF x) (B2SF y) = B2SF (Bdiv mode_NE x y).
Proof.
  intros [sx|sx| |sx mx ex Bx] [sy|sy| |sy my ey By];
    [now (trivial || simpl; case Bool.eqb).. | ].
  simpl. rewrite B2SF_SF2B.
  set (melz := SFdiv_core_binary _ _ _ _ _ _).
  case melz as [[mz ez] lz].
  apply binary_round_aux_equiv.
Qed.
Print Assumptions fadd_Bplus.
Print Assumptions fdiv_Bdiv.

(* ------------------------------------------------------------------------------------ *)
(* validity of the representation                                                        *)
(* ------------------------------------------------------------------------------------ *)

(* a valid spec float is the image of a Flocq binary64 datum *)
Lemma valid_lift x : valid_f64 x = true -> exists b : b64, B2SF b = x.
Proof. intro H. exists (SF2B x H). apply B2SF_SF2B. Qed.

Lemma valid_B2SF (b : b64) : valid_f64 (B2SF b) = true.
Proof. apply valid_binary_B2SF. Qed.

Lemma finite_B2SF (b : b64) : F64.is_finite (B2SF b) = BinarySingleNaN.is_finite b.
Proof. now destruct b. Qed.

Lemma valid_f_of_Zexp m e s : valid_f64 (f_of_Zexp m e s) = true.
Proof. unfold f_of_Zexp. rewrite binary_normalize_equiv. apply valid_B2SF. Qed.

Theorem valid_fadd x y : valid_f64 x = true -> valid_f64 y = true -> valid_f64 (fadd x y) = true.
Proof.
  intros Hx Hy. destruct (valid_lift x Hx) as [bx <-]. destruct (valid_lift y Hy) as [by_ <-].
  rewrite fadd_Bplus. apply valid_B2SF.
Qed.
Theorem valid_fsub x y : valid_f64 x = true -> valid_f64 y = true -> valid_f64 (fsub x y) = true.
Proof.
  intros Hx Hy. destruct (valid_lift x Hx) as [bx <-]. destruct (valid_lift y Hy) as [by_ <-].
  rewrite fsub_Bminus. apply valid_B2SF.
Qed.
Theorem valid_fmul x y : valid_f64 x = true -> valid_f64 y = true -> valid_f64 (fmul x y) = true.
Proof.
  intros Hx Hy. destruct (valid_lift x Hx) as [bx <-]. destruct (valid_lift y Hy) as [by_ <-].
  rewrite fmul_Bmult. apply valid_B2SF.
Qed.
Theorem valid_fdiv x y : valid_f64 x = true -> valid_f64 y = true -> valid_f64 (fdiv x y) = true.
Proof.
  intros Hx Hy. destruct (valid_lift x Hx) as [bx <-]. destruct (valid_lift y Hy) as [by_ <-].
  rewrite fdiv_Bdiv. apply valid_B2SF.
Qed.
Theorem valid_fmod x y : valid_f64 x = true -> valid_f64 y = true -> valid_f64 (fmod x y) = true.
Proof.
  intros Hx Hy. destruct x as [sx|sx| |sx mx ex], y as [sy|sy| |sy my ey]; try reflexivity; try exact Hx.
  unfold fmod. apply valid_f_of_Zexp.
Qed.
Theorem valid_fopp x : valid_f64 x = true -> valid_f64 (fopp x) = true.
Proof. now destruct x. Qed.

(* ------------------------------------------------------------------------------------ *)
(* real-number meaning (IEEE-754: the correctly rounded exact result, unless it overflows) *)
(* ------------------------------------------------------------------------------------ *)

(* the real number denoted by a finite float (0 for infinities and NaN) *)
Definition R_of (x : f64) : R := SF2R radix2 x.

Lemma R_of_B2SF (b : b64) : R_of (B2SF b) = B2R b.
Proof. apply SF2R_B2SF. Qed.

Definition no_overflow (r : R) : bool := Rlt_bool (Rabs r) (bpow radix2 F64.emax).

Section Ieee.
  Variables x y : f64.
  Hypothesis Vx : valid_f64 x = true.
  Hypothesis Vy : valid_f64 y = true.
  Hypothesis Fx : F64.is_finite x = true.
  Hypothesis Fy : F64.is_finite y = true.

  Theorem fadd_ieee :
    let r := round64 (R_of x + R_of y) in
    if no_overflow r then R_of (fadd x y) = r /\ F64.is_finite (fadd x y) = true
    else F64.is_inf (fadd x y) = true.
  Proof.
    destruct (valid_lift x Vx) as [bx Ex]. destruct (valid_lift y Vy) as [by_ Ey]. subst x y.
    rewrite finite_B2SF in Fx, Fy. rewrite fadd_Bplus, !R_of_B2SF. cbv zeta.
    pose proof (Bplus_correct _ _ Hprec Hmax mode_NE bx by_ Fx Fy) as H. unfold no_overflow.
    change (round_mode mode_NE) with ZnearestE in H.
    destruct (Rlt_bool _ _).
    - destruct H as (H1 & H2 & _). rewrite ?R_of_B2SF, finite_B2SF. auto.
    - destruct H as [H _]. rewrite H. reflexivity.
  Qed.

  Theorem fsub_ieee :
    let r := round64 (R_of x - R_of y) in
    if no_overflow r then R_of (fsub x y) = r /\ F64.is_finite (fsub x y) = true
    else F64.is_inf (fsub x y) = true.
  Proof.
    destruct (valid_lift x Vx) as [bx Ex]. destruct (valid_lift y Vy) as [by_ Ey]. subst x y.
    rewrite finite_B2SF in Fx, Fy. rewrite fsub_Bminus, !R_of_B2SF. cbv zeta.
    pose proof (Bminus_correct _ _ Hprec Hmax mode_NE bx by_ Fx Fy) as H. unfold no_overflow.
    change (round_mode mode_NE) with ZnearestE in H.
    destruct (Rlt_bool _ _).
    - destruct H as (H1 & H2 & _). rewrite ?R_of_B2SF, finite_B2SF. auto.
    - destruct H as [H _]. rewrite H. reflexivity.
  Qed.

  Theorem fmul_ieee :
    let r := round64 (R_of x * R_of y) in
    if no_overflow r then R_of (fmul x y) = r /\ F64.is_finite (fmul x y) = true
    else F64.is_inf (fmul x y) = true.
  Proof.
    destruct (valid_lift x Vx) as [bx Ex]. destruct (valid_lift y Vy) as [by_ Ey]. subst x y.
    rewrite finite_B2SF in Fx, Fy. rewrite fmul_Bmult, !R_of_B2SF. cbv zeta.
    pose proof (Bmult_correct _ _ Hprec Hmax mode_NE bx by_) as H. unfold no_overflow.
    change (round_mode mode_NE) with ZnearestE in H.
    destruct (Rlt_bool _ _).
    - destruct H as (H1 & H2 & _). rewrite ?R_of_B2SF, finite_B2SF, H2, Fx, Fy. auto.
    - rewrite H. reflexivity.
  Qed.

  Theorem fdiv_ieee :
    R_of y <> 0%R ->
    let r := round64 (R_of x / R_of y) in
    if no_overflow r then R_of (fdiv x y) = r /\ F64.is_finite (fdiv x y) = true
    else F64.is_inf (fdiv x y) = true.
  Proof.
    destruct (valid_lift x Vx) as [bx Ex]. destruct (valid_lift y Vy) as [by_ Ey]. subst x y.
    rewrite finite_B2SF in Fx, Fy. rewrite fdiv_Bdiv, !R_of_B2SF. intro Ny. cbv zeta.
    pose proof (Bdiv_correct _ _ Hprec Hmax mode_NE bx by_ Ny) as H. unfold no_overflow.
    change (round_mode mode_NE) with ZnearestE in H.
    destruct (Rlt_bool _ _).
    - destruct H as (H1 & H2 & _). rewrite ?R_of_B2SF, finite_B2SF, H2, Fx. auto.
    - rewrite H. reflexivity.
  Qed.
End Ieee.
Print Assumptions fadd_ieee.

(* division by zero and the undefined forms, for completeness *)
Lemma fdiv_by_zero x s :
  fdiv x (S754_zero s) =
    match x with
    | S754_nan | S754_zero _ => S754_nan
    | S754_infinity sx | S754_finite sx _ _ => S754_infinity (xorb sx s)
    end.
Proof. now destruct x. Qed.
