(* Proofs/C03Proofs.v — property C03 (operators): the model's operator functions
   (Model/Eval.v) realise the declarative table of Spec/C03.v, for ALL operands.

   1. C03_numeric_table / C03_negation_table / C03_comparison_table / C03_boolean_table /
      C03_range_table(_fine) / C03_concat_table, collected in C03_table: the outcome of every
      operator lies in the cell [op_cell o (kind_of l) (kind_of r)]; C03_no_lt_panic.
      C03_error_never_value, C03_missing_operand: the 2nd and 3rd sentences of the property.
   2. C03_eval_*: the evaluator's operator cases are "evaluate left, then right, then apply
      the pure operator function".
   3. C03_arith_value: number x number arithmetic.
   4. C03_eq_struct, C03_eq_equivalence, C03_in, C03_lt_strings, C03_lt_numbers: equality,
      membership, order; 4b (end of file) C03_lt_codepoint: on valid UTF-8 the bytewise string
      order is the code-point order (uses Proofs/Utf8Proofs.v).
   5. C03_bool, C03_truthy_table, C03_cond_lazy_then / _else / C03_cond_fails.
   6. C03_range, C03_range_items, C03_range_empty: the range operator.
   7. IEEE-754 meaning of + - * / % (C03_arith_ieee, fmod_exact), exact integer ranges
      (C03_range_exact): Proofs/F64Facts.v (Flocq).
      String forms of & (C03_concat_value): Proofs/C10Proofs.v. *)
From Coq Require Import ZArith Bool List Ascii String Lia ZifyBool.
From JV.Base Require Import Bytes Utf8 F64 Res.
From JV.Model Require Import Value Ops Eval.
From JV.Spec Require Import C03.
From JV.Proofs Require Import MonadFacts.
Import ListNotations.
Local Open Scope list_scope.

(* ------------------------------------------------------------------------------------ *)
(* 0. small facts                                                                        *)
(* ------------------------------------------------------------------------------------ *)

Lemma finite_iff_not_inf_nan x : is_finite x = negb (is_inf x) && negb (is_nan x).
Proof. destruct x; reflexivity. Qed.

(* every operator outcome as one function of the evaluated operands; & needs the number
   formatter, and mirrors [stringify] (left operand first) *)
Definition ostring (fmt : f64 -> string) (v : ovalue) : lres string :=
  match v with
  | None => LOk ""%string
  | Some x => string_of_value fmt x
  end.

Definition lres_err {A} (r : lres A) : err :=
  match r with LErr t => ELib t | _ => ELib ""%string end.

Definition concat_result (fmt : f64 -> string) (a b : ovalue) : pure_res ovalue :=
  match ostring fmt a with
  | LOk s1 => match ostring fmt b with
              | LOk s2 => inl (Some (VStr (s1 ++ s2)))
              | e => inr (lres_err e)
              end
  | e => inr (lres_err e)
  end.

Definition op_result (fmt : f64 -> string) (o : op) (l r : ovalue) : option (pure_res ovalue) :=
  match o with
  | ONum n => Some (numeric_result n l r)
  | ONeg => Some (negation_result r)
  | OCmp c => comparison_result c l r
  | OBool b => Some (inl (boolean_result b l r))
  | OConcat => Some (concat_result fmt l r)
  | ORange => Some (range_result l r)
  end.

(* ------------------------------------------------------------------------------------ *)
(* 1. the table                                                                          *)
(* ------------------------------------------------------------------------------------ *)

Theorem C03_numeric_table : forall o l r,
  in_cell (ONum o) (op_cell (ONum o) (kind_of l) (kind_of r)) (numeric_result o l r).
Proof.
  intros o l r.
  destruct l as [[| | x | | | |]|]; destruct r as [[| | y | | | |]|]; try reflexivity.
  cbn. unfold numeric_result. cbn.
  destruct (is_inf (num_apply o x y)) eqn:Ei; [auto|].
  destruct (is_nan (num_apply o x y)) eqn:En; [auto|].
  left. exists (num_apply o x y). split; [|reflexivity].
  rewrite finite_iff_not_inf_nan, Ei, En. reflexivity.
Qed.
Print Assumptions C03_numeric_table.

Theorem C03_negation_table : forall l r,
  in_cell ONeg (op_cell ONeg l (kind_of r)) (negation_result r).
Proof.
  intros l r. destruct r as [[| | y | | | |]|]; try reflexivity.
  cbn. eexists. reflexivity.
Qed.
Print Assumptions C03_negation_table.

(* the explicit "lt: invalid types" panic of the port is unreachable: the type gate in front
   of it lets through only number/number and string/string *)
Theorem C03_no_lt_panic : forall o a b, comparison_result o a b <> None.
Proof.
  intros o a b.
  destruct a as [[| | x | | | |]|]; destruct b as [[| | y | | | |]|]; destruct o; discriminate.
Qed.
Print Assumptions C03_no_lt_panic.

Theorem C03_comparison_table : forall o l r,
  exists res, comparison_result o l r = Some res /\
              in_cell (OCmp o) (op_cell (OCmp o) (kind_of l) (kind_of r)) res.
Proof.
  intros o l r.
  destruct l as [[| | x | | | |]|]; destruct r as [[| | y | | | |]|]; destruct o;
    cbn; eexists; (split; [reflexivity|]); cbn; try reflexivity; eexists; reflexivity.
Qed.
Print Assumptions C03_comparison_table.

Theorem C03_boolean_table : forall o l r,
  in_cell (OBool o) (op_cell (OBool o) (kind_of l) (kind_of r)) (inl (boolean_result o l r)).
Proof. intros. cbn. eexists. reflexivity. Qed.

Lemma range_items_nums n : forall a, forallb is_num_value (range_items n a) = true.
Proof. induction n as [|n IH]; intro a; cbn; auto. Qed.

Theorem C03_range_table_fine : forall l r,
  in_range_cell (range_cell (rkind_of l) (rkind_of r)) (range_result l r).
Proof.
  intros l r. unfold range_result.
  destruct l as [[| | x | | | |]|]; destruct r as [[| | y | | | |]|]; try reflexivity; cbn;
    try (destruct (f_is_integer x) eqn:Ex; cbn; try reflexivity);
    try (destruct (f_is_integer y) eqn:Ey; cbn; try reflexivity).
  unfold range_value_shape.
  destruct (fltb y x); [auto|].
  destruct (_ || _); [auto|].
  left. eexists. split; [|reflexivity]. apply range_items_nums.
Qed.
Print Assumptions C03_range_table_fine.

Theorem C03_range_table : forall l r,
  in_cell ORange (op_cell ORange (kind_of l) (kind_of r)) (range_result l r).
Proof.
  intros l r. pose proof (C03_range_table_fine l r) as H.
  destruct l as [[| | x | | | |]|]; destruct r as [[| | y | | | |]|]; try exact H; cbn in *;
    try (destruct (f_is_integer x)); try (destruct (f_is_integer y)); cbn in *;
    unfold range_value_shape in *; intuition auto.
Qed.
Print Assumptions C03_range_table.

Lemma string_of_value_shape fmt v :
  (exists s, string_of_value fmt v = LOk s) \/ (exists t, string_of_value fmt v = LErr t).
Proof.
  destruct v; cbn; eauto.
  - destruct b; eauto.
  - destruct (is_finite x); eauto.
  - destruct (option_map _ _); eauto.
  - destruct (option_map _ _); eauto.
Qed.

Theorem C03_concat_table : forall fmt l r,
  in_cell OConcat (op_cell OConcat (kind_of l) (kind_of r)) (concat_result fmt l r).
Proof.
  intros fmt l r. cbn. unfold concat_result.
  assert (Hs : forall v, (exists s, ostring fmt v = LOk s) \/ (exists t, ostring fmt v = LErr t)).
  { intros [v|]; cbn; [apply string_of_value_shape | eauto]. }
  destruct (Hs l) as [[s1 ->]|[t ->]]; [|right; cbn; eauto].
  destruct (Hs r) as [[s2 ->]|[t ->]]; [left; eauto | right; cbn; eauto].
Qed.

(** The whole table at once: every operator, all operands. *)
Theorem C03_table : forall fmt o l r,
  exists res, op_result fmt o l r = Some res /\
              in_cell o (op_cell o (kind_of l) (kind_of r)) res.
Proof.
  intros fmt o l r. destruct o as [n| |c|b| |]; cbn [op_result].
  - eexists; split; [reflexivity | apply C03_numeric_table].
  - eexists; split; [reflexivity | apply C03_negation_table].
  - apply C03_comparison_table.
  - eexists; split; [reflexivity | apply C03_boolean_table].
  - eexists; split; [reflexivity | apply C03_concat_table].
  - eexists; split; [reflexivity | apply C03_range_table].
Qed.
Print Assumptions C03_table.

(** Third sentence of the property: in an error cell the outcome is that error — never a value. *)
Theorem C03_error_never_value : forall fmt o l r e res,
  op_cell o (kind_of l) (kind_of r) = CError e ->
  op_result fmt o l r = Some res ->
  res = inr (EEval e) /\ ~ is_value res.
Proof.
  intros fmt o l r e res Hc Hr.
  destruct (C03_table fmt o l r) as (res' & Hr' & Hin).
  rewrite Hr in Hr'. inversion Hr'; subst res'. rewrite Hc in Hin. cbn in Hin.
  split; [exact Hin|]. intros [v Hv]. rewrite Hin in Hv. discriminate.
Qed.
Print Assumptions C03_error_never_value.

(* and conversely a [CValue]/[CFalse] cell of a comparison or boolean operator is never an error *)
Theorem C03_cmp_value_never_error : forall o l r res,
  (op_cell (OCmp o) (kind_of l) (kind_of r) = CValue \/
   op_cell (OCmp o) (kind_of l) (kind_of r) = CFalse) ->
  comparison_result o l r = Some res -> exists b, res = inl (Some (VBool b)).
Proof.
  intros o l r res Hc Hr.
  destruct (C03_comparison_table o l r) as (res' & Hr' & Hin).
  rewrite Hr in Hr'. inversion Hr'; subst res'.
  destruct Hc as [Hc|Hc]; rewrite Hc in Hin; cbn in Hin; eauto.
Qed.

(** Second sentence of the property: a missing operand (the other one being acceptable to the
    operator) makes arithmetic and negation yield "no value", comparisons and `in` false,
    & the empty string, and a range empty. *)
Theorem C03_missing_operand :
  (forall o v, numberish (kind_of v) = true ->
     numeric_result o None v = inl None /\ numeric_result o v None = inl None) /\
  negation_result None = inl None /\
  (forall o v, (is_ordering o = true -> comparable (kind_of v) = true) ->
     comparison_result o None v = Some (inl (Some (VBool false))) /\
     comparison_result o v None = Some (inl (Some (VBool false)))) /\
  (forall o v, boolean_result o None v = boolean_result o (Some (VBool false)) v /\
               boolean_result o v None = boolean_result o v (Some (VBool false))) /\
  (forall fmt v, concat_result fmt None v = concat_result fmt (Some (VStr "")) v /\
                 concat_result fmt v None = concat_result fmt v (Some (VStr ""))) /\
  (forall v, rkind_of v <> ROther ->
     range_result None v = inl None /\ range_result v None = inl None).
Proof.
  repeat split.
  - destruct v as [[]|]; try discriminate; reflexivity.
  - destruct v as [[]|]; try discriminate; reflexivity.
  - destruct o; destruct v as [[]|]; cbn in *; try reflexivity; specialize (H eq_refl); discriminate.
  - destruct o; destruct v as [[]|]; cbn in *; try reflexivity; specialize (H eq_refl); discriminate.
  - destruct v as [[| |x| | | |]|]; cbn in *; try congruence; try reflexivity.
    destruct (f_is_integer x); cbn; congruence.
  - destruct v as [[| |x| | | |]|]; cbn in *; try congruence; try reflexivity.
    destruct (f_is_integer x); cbn; congruence.
Qed.
Print Assumptions C03_missing_operand.

Example C03_table_examples :
  numeric_result NumAdd (Some (VStr "1")) None = inr (EEval ErrNonNumberLHS) /\
  numeric_result NumAdd (Some (VBool true)) (Some (VStr "x")) = inr (EEval ErrNonNumberLHS) /\
  numeric_result NumMul None (Some VNull) = inr (EEval ErrNonNumberRHS) /\
  numeric_result NumDiv (Some (VNum fone)) (Some (VNum fzero)) = inr (EEval ErrNumberInf) /\
  numeric_result NumMod (Some (VNum fone)) (Some (VNum fzero)) = inr (EEval ErrNumberNaN) /\
  numeric_result NumSub (Some (VNum fone)) (Some (VNum (f_of_Z 3))) = inl (Some (VNum (f_of_Z (-2)))) /\
  comparison_result CmpLt (Some (VNum fone)) (Some (VStr "a")) = Some (inr (EEval ErrTypeMismatch)) /\
  comparison_result CmpLe (Some (VStr "a")) (Some (VStr "a")) = Some (inl (Some (VBool true))) /\
  comparison_result CmpLt (Some (VStr "a")) (Some (VStr "a")) = Some (inl (Some (VBool false))) /\
  comparison_result CmpGe None (Some (VArr [])) = Some (inr (EEval ErrNonComparableRHS)) /\
  comparison_result CmpGe (Some VNull) (Some (VArr [])) = Some (inr (EEval ErrNonComparableLHS)) /\
  comparison_result CmpEq None (Some (VArr [])) = Some (inl (Some (VBool false))) /\
  range_result (Some (VNum fone)) (Some (VNum (f_of_Z 3))) =
    inl (Some (VArr [VNum fone; VNum (f_of_Z 2); VNum (f_of_Z 3)])) /\
  range_result (Some (VNum (f_of_Z 3))) (Some (VNum fone)) = inl None /\
  range_result (Some (VNum (fdiv fone (f_of_Z 2)))) (Some (VStr "x")) = inr (EEval ErrNonIntegerLHS) /\
  range_result (Some (VNum fone)) (Some (VNum (f_of_Z 10000001))) = inr (EEval ErrMaxRangeItems).
Proof. vm_compute. repeat split. Qed.

(* ------------------------------------------------------------------------------------ *)
(* 2. the evaluator applies the operator functions to its evaluated operands             *)
(* ------------------------------------------------------------------------------------ *)

Lemma stringify_ostring fmt a w :
  stringify fmt a w = match ostring fmt a with
                      | LOk s => Ok s w
                      | e => Err (lres_err e)
                      end.
Proof.
  destruct a as [v|]; [|reflexivity]. cbn [stringify ostring].
  destruct (string_of_value_shape fmt v) as [[s E]|[t E]]; rewrite E; reflexivity.
Qed.

Lemma bind_not_ok {A B} (m : M A) (f g : A -> M B) w :
  (forall a w1, m w <> Ok a w1) -> bind m f w = bind m g w.
Proof.
  intro H. unfold bind. destruct (m w) eqn:E; try reflexivity. exfalso; eapply H; eauto.
Qed.

Definition binop_node (o : op) (l r : node) : option node :=
  match o with
  | ONum n => Some (NNumeric n l r)
  | OCmp c => Some (NComparison c l r)
  | OBool b => Some (NBoolOp b l r)
  | OConcat => Some (NConcat l r)
  | ORange => Some (NRange l r)
  | ONeg => None
  end.

Section EvalEquations.
  Variable fmt_num : f64 -> string.
  Variable regex_find : string -> string -> option (list (list (Z * Z))).
  Variable pow_fn : f64 -> f64 -> option f64.
  Variable xlib : string -> list carg -> option (lres ovalue).
  Let ev := eval fmt_num regex_find pow_fn xlib.

  Lemma C03_eval_numeric f o lhs rhs input env :
    ev (S f) (NNumeric o lhs rhs) input env =
    (a <- ev f lhs input env ;; b <- ev f rhs input env ;; lift_pure (numeric_result o a b)).
  Proof. reflexivity. Qed.

  Lemma C03_eval_negation f rhs input env :
    ev (S f) (NNegation rhs) input env =
    (v <- ev f rhs input env ;; lift_pure (negation_result v)).
  Proof. reflexivity. Qed.

  Lemma C03_eval_comparison f o lhs rhs input env :
    ev (S f) (NComparison o lhs rhs) input env =
    (a <- ev f lhs input env ;; b <- ev f rhs input env ;;
     match comparison_result o a b with
     | Some r => lift_pure r
     | None => panic "lt: invalid types"
     end).
  Proof. reflexivity. Qed.

  Lemma C03_eval_boolop f o lhs rhs input env :
    ev (S f) (NBoolOp o lhs rhs) input env =
    (a <- ev f lhs input env ;; b <- ev f rhs input env ;; ret (boolean_result o a b)).
  Proof. reflexivity. Qed.

  Lemma C03_eval_range f lhs rhs input env :
    ev (S f) (NRange lhs rhs) input env =
    (l <- ev f lhs input env ;; r <- ev f rhs input env ;; lift_pure (range_result l r)).
  Proof. reflexivity. Qed.

  Lemma C03_eval_concat f lhs rhs input env :
    ev (S f) (NConcat lhs rhs) input env =
    (a <- ev f lhs input env ;; b <- ev f rhs input env ;;
     s1 <- stringify fmt_num a ;; s2 <- stringify fmt_num b ;; ret (Some (VStr (s1 ++ s2)))).
  Proof. reflexivity. Qed.

  Lemma C03_eval_conditional f c t e input env :
    ev (S f) (NConditional c t e) input env =
    (v <- ev f c input env ;;
     if otruthy v then ev f t input env
     else match e with Some x => ev f x input env | None => ret None end).
  Proof. reflexivity. Qed.

  (** Every binary operator node: both operands are evaluated, left first, in the same
      context, the world threaded through; then the pure operator function decides. *)
  Theorem C03_eval_binop : forall o l r nd f input env w a w1 b w2,
    binop_node o l r = Some nd ->
    ev f l input env w = Ok a w1 ->
    ev f r input env w1 = Ok b w2 ->
    exists res, op_result fmt_num o a b = Some res /\
                ev (S f) nd input env w = lift_pure res w2 /\
                in_cell o (op_cell o (kind_of a) (kind_of b)) res.
  Proof.
    intros o l r nd f input env w a w1 b w2 Hn Ha Hb.
    destruct (C03_table fmt_num o a b) as (res & Hres & Hin).
    exists res. split; [exact Hres|]. split; [|exact Hin].
    destruct o; cbn in Hn; inversion Hn; subst nd; clear Hn; cbn [op_result] in Hres.
    - rewrite C03_eval_numeric. unfold bind. rewrite Ha, Hb. congruence.
    - rewrite C03_eval_comparison. unfold bind. rewrite Ha, Hb, Hres. reflexivity.
    - rewrite C03_eval_boolop. unfold bind. rewrite Ha, Hb. inversion Hres. reflexivity.
    - rewrite C03_eval_concat. unfold bind at 1 2. rewrite Ha, Hb.
      inversion Hres; subst res. unfold bind, concat_result.
      rewrite (stringify_ostring fmt_num a).
      destruct (ostring fmt_num a); try reflexivity.
      rewrite (stringify_ostring fmt_num b).
      destruct (ostring fmt_num b); reflexivity.
    - rewrite C03_eval_range. unfold bind. rewrite Ha, Hb. congruence.
  Qed.

  (** A failing left operand decides the outcome (the right one is not evaluated); with a
      successful left operand a failing right operand decides it. *)
  Theorem C03_eval_binop_left_fails : forall o l r r' nd nd' f input env w,
    binop_node o l r = Some nd -> binop_node o l r' = Some nd' ->
    (forall a w1, ev f l input env w <> Ok a w1) ->
    ev (S f) nd input env w = ev (S f) nd' input env w.
  Proof.
    intros o l r r' nd nd' f input env w Hn Hn' Hl.
    destruct o; cbn in Hn, Hn'; inversion Hn; inversion Hn'; subst;
      [rewrite !C03_eval_numeric | rewrite !C03_eval_comparison | rewrite !C03_eval_boolop
      | rewrite !C03_eval_concat | rewrite !C03_eval_range];
      apply bind_not_ok; exact Hl.
  Qed.

  Theorem C03_eval_binop_right_err : forall o l r nd f input env w a w1 e,
    binop_node o l r = Some nd ->
    ev f l input env w = Ok a w1 ->
    ev f r input env w1 = Err e ->
    ev (S f) nd input env w = Err e.
  Proof.
    intros o l r nd f input env w a w1 e Hn Ha Hb.
    destruct o; cbn in Hn; inversion Hn; subst;
      [rewrite C03_eval_numeric | rewrite C03_eval_comparison | rewrite C03_eval_boolop
      | rewrite C03_eval_concat | rewrite C03_eval_range];
      unfold bind at 1 2; rewrite Ha, Hb; reflexivity.
  Qed.

  Theorem C03_eval_neg : forall r f input env w b w2,
    ev f r input env w = Ok b w2 ->
    ev (S f) (NNegation r) input env w = lift_pure (negation_result b) w2 /\
    in_cell ONeg (op_cell ONeg KMissing (kind_of b)) (negation_result b).
  Proof.
    intros r f input env w b w2 Hb. split; [|apply C03_negation_table].
    rewrite C03_eval_negation. unfold bind. rewrite Hb. reflexivity.
  Qed.

  (** c ? x : y — only the branch chosen by the boolean cast of c is evaluated: the result is
      that of the chosen branch (in the world left by c), whatever the other branch is, were it
      an erring or a diverging expression. *)
  Theorem C03_cond_lazy_then : forall f c t e input env w v w1,
    ev f c input env w = Ok v w1 -> otruthy v = true ->
    ev (S f) (NConditional c t e) input env w = ev f t input env w1 /\
    forall e', ev (S f) (NConditional c t e') input env w = ev (S f) (NConditional c t e) input env w.
  Proof.
    intros f c t e input env w v w1 Hc Ht.
    assert (H : forall e0, ev (S f) (NConditional c t e0) input env w = ev f t input env w1).
    { intro e0. rewrite C03_eval_conditional. unfold bind. rewrite Hc, Ht. reflexivity. }
    split; [apply H|]. intro e'. now rewrite !H.
  Qed.

  Theorem C03_cond_lazy_else : forall f c t e input env w v w1,
    ev f c input env w = Ok v w1 -> otruthy v = false ->
    ev (S f) (NConditional c t e) input env w =
      match e with Some x => ev f x input env w1 | None => Ok None w1 end /\
    forall t', ev (S f) (NConditional c t' e) input env w = ev (S f) (NConditional c t e) input env w.
  Proof.
    intros f c t e input env w v w1 Hc Ht.
    assert (H : forall t0, ev (S f) (NConditional c t0 e) input env w =
                           match e with Some x => ev f x input env w1 | None => Ok None w1 end).
    { intro t0. rewrite C03_eval_conditional. unfold bind. rewrite Hc, Ht. destruct e; reflexivity. }
    split; [apply H|]. intro t'. now rewrite !H.
  Qed.

  (* the condition's own failure is the conditional's failure: neither branch is looked at *)
  Theorem C03_cond_fails : forall f c t e t' e' input env w,
    (forall v w1, ev f c input env w <> Ok v w1) ->
    ev (S f) (NConditional c t e) input env w = ev (S f) (NConditional c t' e') input env w.
  Proof.
    intros f c t e t' e' input env w Hc. rewrite !C03_eval_conditional. unfold bind.
    destruct (ev f c input env w) eqn:E; try reflexivity. exfalso; eapply Hc; eauto.
  Qed.
End EvalEquations.
Print Assumptions C03_eval_binop.
Print Assumptions C03_cond_lazy_then.
Print Assumptions C03_cond_lazy_else.

(* ------------------------------------------------------------------------------------ *)
(* 3. arithmetic on two numbers                                                          *)
(* ------------------------------------------------------------------------------------ *)

(** number (op) number is the float computed by [num_apply] when that float is finite, the
    error NumberInf exactly when it is an infinity and NumberNaN exactly when it is NaN — a
    non-finite number is never returned. ([num_apply] is IEEE-754 binary64 arithmetic: see
    F64Facts.C03_arith_ieee.) *)
Theorem C03_arith_value : forall o x y,
  let z := num_apply o x y in
  numeric_result o (Some (VNum x)) (Some (VNum y)) =
    if is_finite z then inl (Some (VNum z))
    else if is_inf z then inr (EEval ErrNumberInf)
    else inr (EEval ErrNumberNaN).
Proof.
  intros o x y z. unfold numeric_result. cbn. fold z. destruct z; reflexivity.
Qed.
Print Assumptions C03_arith_value.

Corollary C03_arith_cases : forall o x y,
  let z := num_apply o x y in
  let res := numeric_result o (Some (VNum x)) (Some (VNum y)) in
  (res = inl (Some (VNum z)) <-> is_finite z = true) /\
  (res = inr (EEval ErrNumberInf) <-> is_inf z = true) /\
  (res = inr (EEval ErrNumberNaN) <-> is_nan z = true) /\
  (forall v, res = inl (Some v) -> value_finite v = true).
Proof.
  intros o x y z res. subst res. rewrite C03_arith_value. fold z.
  destruct z; cbn; repeat split; intros; try discriminate; try reflexivity;
    try (inversion H; reflexivity).
Qed.

Example C03_arith_value_ex :
  numeric_result NumMod (Some (VNum (f_of_Z (-7)))) (Some (VNum (f_of_Z 3))) =
    inl (Some (VNum (f_of_Z (-1)))) /\
  numeric_result NumMul (Some (VNum (f_of_Zexp 1 1000 false))) (Some (VNum (f_of_Zexp 1 1000 false))) =
    inr (EEval ErrNumberInf) /\
  numeric_result NumDiv (Some (VNum fzero)) (Some (VNum fzero)) = inr (EEval ErrNumberNaN).
Proof. vm_compute. repeat split. Qed.

(** unary minus flips the sign (and nothing else) *)
Theorem C03_negation_value : forall x,
  negation_result (Some (VNum x)) = inl (Some (VNum (fopp x))) /\
  fopp (fopp x) = x /\ is_finite (fopp x) = is_finite x.
Proof. intro x. destruct x as [[]|[]| |[] m e]; repeat split. Qed.

(* ------------------------------------------------------------------------------------ *)
(* 4. equality, membership, order                                                        *)
(* ------------------------------------------------------------------------------------ *)

(* ---- numeric equality ---- *)
Definition same_num (x y : f64) : Prop :=
  match x, y with
  | S754_zero _, S754_zero _ => True
  | S754_infinity s, S754_infinity t => s = t
  | S754_finite s m e, S754_finite s' m' e' => s = s' /\ m = m' /\ e = e'
  | _, _ => False
  end.

Lemma feqb_spec x y : feqb x y = true <-> same_num x y.
Proof.
  unfold feqb, SFeqb.
  destruct x as [s|s| |s m e], y as [s'|s'| |s' m' e']; cbn; try (split; [discriminate|tauto]);
    try tauto.
  - destruct s'; split; (discriminate || tauto).
  - destruct s'; split; (discriminate || tauto).
  - destruct s; split; (discriminate || tauto).
  - destruct s, s'; split; (discriminate || tauto || auto).
  - destruct s; split; (discriminate || tauto).
  - destruct s; split; (discriminate || tauto).
  - destruct s'; split; (discriminate || tauto).
  - change (Pos.compare_cont Eq m m') with (Pos.compare m m').
    destruct s, s'; try (split; [discriminate | intros (H & _); discriminate]).
    + destruct (Z.compare_spec e e') as [He|He|He];
        [| split; [discriminate | intros (_ & _ & H); lia] ..].
      destruct (Pos.compare_spec m m') as [Hm|Hm|Hm]; cbn;
        [split; auto | split; [discriminate | intros (_ & H & _); lia] ..].
    + destruct (Z.compare_spec e e') as [He|He|He];
        [| split; [discriminate | intros (_ & _ & H); lia] ..].
      destruct (Pos.compare_spec m m') as [Hm|Hm|Hm]; cbn;
        [split; auto | split; [discriminate | intros (_ & H & _); lia] ..].
Qed.

(* Go's == on float64: equal as data unless NaN; the two zeros are equal *)
Lemma feqb_true_iff x y :
  feqb x y = true <-> (is_nan x = false /\ x = y) \/ (is_zero x = true /\ is_zero y = true).
Proof.
  rewrite feqb_spec.
  destruct x as [s|s| |s m e], y as [s'|s'| |s' m' e']; cbn; split; intro H;
    try tauto; try (intuition (discriminate || congruence)).
Qed.

Lemma feqb_refl x : is_nan x = false -> feqb x x = true.
Proof. intro H. apply feqb_true_iff. auto. Qed.

Lemma feqb_nan x : feqb S754_nan x = false /\ feqb x S754_nan = false.
Proof. destruct x; split; reflexivity. Qed.

Lemma feqb_sym x y : feqb x y = feqb y x.
Proof.
  apply eq_true_iff_eq. rewrite !feqb_spec.
  destruct x, y; cbn; intuition congruence.
Qed.

Lemma feqb_trans x y z : feqb x y = true -> feqb y z = true -> feqb x z = true.
Proof.
  rewrite !feqb_spec. destruct x, y, z; cbn; intuition congruence.
Qed.

Example C03_neg_zero_eq_zero :
  eq_values (VNum fnzero) (VNum fzero) = true /\ fnzero <> fzero /\
  eq_values (VArr [VNum fnzero]) (VArr [VNum fzero]) = true /\
  eq_values (VNum S754_nan) (VNum S754_nan) = false.
Proof. repeat split. discriminate. Qed.

(* ---- induction on values through the nested lists ---- *)
Section ValueInd.
  Variable P : value -> Prop.
  Hypothesis Hnull : P VNull.
  Hypothesis Hbool : forall b, P (VBool b).
  Hypothesis Hnum : forall x, P (VNum x).
  Hypothesis Hstr : forall s, P (VStr s).
  Hypothesis Harr : forall l, Forall P l -> P (VArr l).
  Hypothesis Hobj : forall m, Forall (fun kv => P (snd kv)) m -> P (VObj m).
  Hypothesis Hfun : forall c, P (VFun c).

  Fixpoint value_ind_nested (v : value) : P v :=
    match v with
    | VNull => Hnull
    | VBool b => Hbool b
    | VNum x => Hnum x
    | VStr s => Hstr s
    | VArr l =>
        Harr l ((fix go (l : list value) : Forall P l :=
                   match l with
                   | [] => Forall_nil P
                   | x :: r => Forall_cons x (value_ind_nested x) (go r)
                   end) l)
    | VObj m =>
        Hobj m ((fix go (m : list (string * value)) : Forall (fun kv => P (snd kv)) m :=
                   match m with
                   | [] => Forall_nil _
                   | kv :: r => Forall_cons kv (value_ind_nested (snd kv)) (go r)
                   end) m)
    | VFun c => Hfun c
    end.
End ValueInd.

(* ---- structural equality, with the nested loops named ---- *)
Fixpoint list_eqb (l1 l2 : list value) : bool :=
  match l1, l2 with
  | [], [] => true
  | x :: r1, y :: r2 => value_eqb x y && list_eqb r1 r2
  | _, _ => false
  end.
Fixpoint obj_eqb (m1 m2 : list (string * value)) : bool :=
  match m1, m2 with
  | [], [] => true
  | (k1, x) :: r1, (k2, y) :: r2 => seqb k1 k2 && value_eqb x y && obj_eqb r1 r2
  | _, _ => false
  end.

Lemma value_eqb_arr l1 l2 : value_eqb (VArr l1) (VArr l2) = list_eqb l1 l2.
Proof.
  destruct l1, l2; reflexivity.
Qed.
Lemma value_eqb_obj m1 m2 : value_eqb (VObj m1) (VObj m2) = obj_eqb m1 m2.
Proof.
  destruct m1 as [|[k x] r], m2 as [|[k2 y] r2]; reflexivity.
Qed.

Fixpoint plain_list (l : list value) : bool :=
  match l with [] => true | x :: r => plain x && plain_list r end.
Fixpoint plain_obj (m : list (string * value)) : bool :=
  match m with [] => true | (_, x) :: r => plain x && plain_obj r end.
Lemma plain_arr l : plain (VArr l) = plain_list l.
Proof. destruct l; reflexivity. Qed.
Lemma plain_objm m : plain (VObj m) = plain_obj m.
Proof. destruct m as [|[k x] r]; reflexivity. Qed.

Fixpoint dom_list (l : list value) : bool :=
  match l with [] => true | x :: r => eq_domain x && dom_list r end.
Fixpoint dom_obj (m : list (string * value)) : bool :=
  match m with [] => true | (_, x) :: r => eq_domain x && dom_obj r end.
Lemma dom_arr l : eq_domain (VArr l) = dom_list l.
Proof. destruct l; reflexivity. Qed.
Lemma dom_objm m : eq_domain (VObj m) = dom_obj m.
Proof. destruct m as [|[k x] r]; reflexivity. Qed.

Lemma seqb_sym a b : seqb a b = seqb b a.
Proof.
  apply eq_true_iff_eq. rewrite !seqb_eq. split; congruence.
Qed.

(** structural equality is symmetric on all values, *)
Theorem value_eqb_sym : forall a b, value_eqb a b = value_eqb b a.
Proof.
  induction a as [| x | x | s | l IH | m IH | c] using value_ind_nested; intros [| y | y | t | l2 | m2 | c2];
    try reflexivity.
  - cbn. destruct x, y; reflexivity.
  - cbn. apply feqb_sym.
  - cbn. apply seqb_sym.
  - rewrite !value_eqb_arr. revert l2. induction IH as [|x r Hx _ IHr]; intros [|y r2]; try reflexivity.
    cbn [list_eqb]. rewrite Hx, IHr. reflexivity.
  - rewrite !value_eqb_obj. revert m2. induction IH as [|[k x] r Hx _ IHr]; intros [|[k2 y] r2]; try reflexivity.
    cbn [obj_eqb]. cbn in Hx. rewrite Hx, IHr, (seqb_sym k k2). reflexivity.
Qed.

(** reflexive on values without NaN and functions, *)
Theorem value_eqb_refl : forall a, eq_domain a = true -> value_eqb a a = true.
Proof.
  induction a as [| x | x | s | l IH | m IH | c] using value_ind_nested; intro D; try reflexivity.
  - destruct x; reflexivity.
  - cbn in *. apply feqb_refl. now destruct (is_nan x).
  - cbn. apply seqb_refl.
  - rewrite value_eqb_arr. rewrite dom_arr in D.
    induction IH as [|x r Hx _ IHr]; [reflexivity|]. cbn [list_eqb dom_list] in *.
    apply andb_true_iff in D as [D1 D2]. rewrite Hx, IHr; auto.
  - rewrite value_eqb_obj. rewrite dom_objm in D.
    induction IH as [|[k x] r Hx _ IHr]; [reflexivity|]. cbn [obj_eqb dom_obj] in *.
    apply andb_true_iff in D as [D1 D2]. cbn in Hx. rewrite seqb_refl, Hx, IHr; auto.
  - discriminate.
Qed.

(** and transitive on all values. *)
Theorem value_eqb_trans : forall a b c,
  value_eqb a b = true -> value_eqb b c = true -> value_eqb a c = true.
Proof.
  induction a as [| x | x | s | l IH | m IH | f] using value_ind_nested;
    intros [| y | y | t | l2 | m2 | f2] [| z | z | u | l3 | m3 | f3]; try discriminate; try reflexivity.
  - cbn. destruct x, y, z; auto.
  - cbn. apply feqb_trans.
  - cbn. rewrite !seqb_eq. congruence.
  - rewrite !value_eqb_arr. revert l2 l3.
    induction IH as [|x r Hx _ IHr]; intros [|y r2] [|z r3]; try discriminate; try reflexivity.
    cbn [list_eqb]. rewrite !andb_true_iff. intros [A1 A2] [B1 B2]. split; eauto.
  - rewrite !value_eqb_obj. revert m2 m3.
    induction IH as [|[k x] r Hx _ IHr]; intros [|[k2 y] r2] [|[k3 z] r3]; try discriminate; try reflexivity.
    cbn [obj_eqb]. rewrite !andb_true_iff, !seqb_eq. cbn in Hx.
    intros [[A0 A1] A2] [[B0 B1] B2]. repeat split; eauto. congruence.
Qed.

(** On values without numbers and functions structural equality IS equality. *)
Theorem value_eqb_plain : forall a b, plain a = true -> (value_eqb a b = true <-> a = b).
Proof.
  induction a as [| x | x | s | l IH | m IH | c] using value_ind_nested; intros b Pa.
  - destruct b; cbn; split; (discriminate || auto).
  - destruct b as [| y | | | | |]; cbn; try (split; discriminate).
    rewrite Bool.eqb_true_iff. split; congruence.
  - discriminate.
  - destruct b as [| | | t | | |]; cbn; try (split; discriminate).
    rewrite seqb_eq. split; congruence.
  - destruct b as [| | | | l2 | |]; try (split; discriminate).
    rewrite value_eqb_arr. rewrite plain_arr in Pa.
    assert (H : list_eqb l l2 = true <-> l = l2).
    { revert l2. induction IH as [|x r Hx _ IHr]; intros [|y r2]; cbn [list_eqb];
        try (split; (discriminate || auto); fail).
      cbn [plain_list] in Pa. apply andb_true_iff in Pa as [P1 P2].
      rewrite andb_true_iff, (Hx y P1), (IHr P2 r2). split; [intros [E1 E2]; rewrite E1, E2; reflexivity | intro E; inversion E; auto]. }
    rewrite H. split; congruence.
  - destruct b as [| | | | | m2 |]; try (split; discriminate).
    rewrite value_eqb_obj. rewrite plain_objm in Pa.
    assert (H : obj_eqb m m2 = true <-> m = m2).
    { revert m2. induction IH as [|[k x] r Hx _ IHr]; intros [|[k2 y] r2]; cbn [obj_eqb];
        try (split; (discriminate || auto); fail).
      cbn [plain_obj] in Pa. apply andb_true_iff in Pa as [P1 P2]. cbn in Hx.
      rewrite !andb_true_iff, seqb_eq, (Hx y P1), (IHr P2 r2).
      split; [intros [[E0 E1] E2]; rewrite E0, E1, E2; reflexivity | intro E; inversion E; auto]. }
    rewrite H. split; congruence.
  - discriminate.
Qed.
Print Assumptions value_eqb_plain.

(** = on two values: numbers, strings, booleans by value; arrays and objects structurally;
    null equals null; values of different kinds are never equal. *)
Theorem C03_eq_struct :
  (forall x y, eq_values (VNum x) (VNum y) = feqb x y) /\
  (forall x y, eq_values (VStr x) (VStr y) = true <-> x = y) /\
  (forall x y, eq_values (VBool x) (VBool y) = true <-> x = y) /\
  eq_values VNull VNull = true /\
  (forall l1 l2, eq_values (VArr l1) (VArr l2) = value_eqb (VArr l1) (VArr l2)) /\
  (forall m1 m2, eq_values (VObj m1) (VObj m2) = value_eqb (VObj m1) (VObj m2)) /\
  (forall a b, kind_of (Some a) <> kind_of (Some b) -> eq_values a b = false) /\
  (* on function-free data = is structural equality *)
  (forall a b, kind_of (Some a) <> KFunction -> eq_values a b = value_eqb a b).
Proof.
  split; [reflexivity|].
  split; [intros x y; cbn; apply seqb_eq|].
  split; [intros x y; cbn; apply Bool.eqb_true_iff|].
  split; [reflexivity|]. split; [reflexivity|]. split; [reflexivity|].
  split.
  - intros a b H. destruct a, b; cbn in *; try reflexivity; try congruence; destruct c; reflexivity.
  - intros a b H. destruct a, b; cbn in *; try reflexivity; try congruence; destruct c; reflexivity.
Qed.
Print Assumptions C03_eq_struct.

(** = is an equivalence on NaN-free function-free values, and plain equality on number-free
    function-free ones. *)
Theorem C03_eq_equivalence :
  (forall a, eq_domain a = true -> eq_values a a = true) /\
  (forall a b, eq_domain a = true -> eq_values a b = eq_values b a) /\
  (forall a b c, eq_domain a = true -> eq_domain b = true ->
     eq_values a b = true -> eq_values b c = true -> eq_values a c = true) /\
  (forall a b, plain a = true -> (eq_values a b = true <-> a = b)).
Proof.
  destruct C03_eq_struct as (_ & _ & _ & _ & _ & _ & _ & Hs).
  assert (K : forall a, eq_domain a = true -> kind_of (Some a) <> KFunction).
  { intros [] D; cbn in *; discriminate. }
  repeat split.
  - intros a D. rewrite Hs by auto. now apply value_eqb_refl.
  - intros a b D. rewrite Hs by auto. rewrite value_eqb_sym.
    destruct b; try (rewrite Hs by (cbn; discriminate); reflexivity).
    destruct a; try discriminate; destruct c; reflexivity.
  - intros a b c Da Db. rewrite !Hs by auto. apply value_eqb_trans.
  - intros E. rewrite Hs in E. now apply value_eqb_plain in E. destruct a; cbn in *; discriminate.
  - intros ->. rewrite Hs. now apply value_eqb_plain. destruct b; cbn in *; discriminate.
Qed.
Print Assumptions C03_eq_equivalence.

Example C03_eq_struct_ex :
  eq_values (VObj [("a"%string, VArr [VNum fone; VStr "x"]); ("b"%string, VNull)])
            (VObj [("a"%string, VArr [VNum fone; VStr "x"]); ("b"%string, VNull)]) = true /\
  eq_values (VArr [VNum fone; VStr "x"]) (VArr [VStr "x"; VNum fone]) = false /\
  eq_values (VNum fone) (VStr "1") = false.
Proof. vm_compute. repeat split. Qed.

(** `in`: membership by = in the right operand taken as an array (a non-array is a
    one-member array). *)
Theorem C03_in : forall a b,
  kind_of (Some a) <> KFunction ->
  in_values a b = existsb (eq_values a) (arrayify (Some b)) /\
  (in_values a b = true <-> exists x, In x (arrayify (Some b)) /\ eq_values a x = true).
Proof.
  intros a b H.
  assert (E : in_values a b = existsb (eq_values a) (arrayify (Some b))).
  { destruct a; try reflexivity. cbn in H. congruence. }
  split; [exact E|]. rewrite E. apply existsb_exists.
Qed.
Print Assumptions C03_in.

Lemma C03_in_scalar : forall a b,
  kind_of (Some a) <> KFunction -> kind_of (Some b) <> KArray -> in_values a b = eq_values a b.
Proof.
  intros a b Ha Hb. destruct (C03_in a b Ha) as [-> _].
  destruct b; cbn in *; try apply orb_false_r. congruence.
Qed.

Example C03_in_ex :
  in_values (VNum fnzero) (VArr [VStr "a"; VNum fzero]) = true /\
  in_values (VStr "a") (VStr "a") = true /\
  in_values (VArr [VNum fone]) (VArr [VArr [VNum fone]]) = true /\
  in_values (VNum fone) (VArr [VArr [VNum fone]]) = false.
Proof. vm_compute. repeat split. Qed.

(* ---- order on strings ---- *)
Lemma byte_of_inj' a b : byte_of a = byte_of b -> a = b.
Proof.
  unfold byte_of. intro H. apply N2Z.inj in H.
  rewrite <- (ascii_N_embedding a), <- (ascii_N_embedding b). now rewrite H.
Qed.

Lemma sltb_irrefl a : sltb a a = false.
Proof. induction a as [|c a IH]; cbn; [reflexivity|]. rewrite Z.ltb_irrefl. exact IH. Qed.

Lemma sltb_trans a : forall b c, sltb a b = true -> sltb b c = true -> sltb a c = true.
Proof.
  induction a as [|x a IH]; intros [|y b] [|z c]; cbn; try discriminate; try reflexivity.
  destruct (byte_of x <? byte_of y)%Z eqn:Exy.
  - intros _. destruct (byte_of y <? byte_of z)%Z eqn:Eyz.
    + intros _. replace (byte_of x <? byte_of z)%Z with true by lia. reflexivity.
    + destruct (byte_of z <? byte_of y)%Z eqn:Ezy; [discriminate|].
      intros _. replace (byte_of x <? byte_of z)%Z with true by lia. reflexivity.
  - destruct (byte_of y <? byte_of x)%Z eqn:Eyx; [discriminate|].
    intro Hab. destruct (byte_of y <? byte_of z)%Z eqn:Eyz.
    + intros _. replace (byte_of x <? byte_of z)%Z with true by lia. reflexivity.
    + destruct (byte_of z <? byte_of y)%Z eqn:Ezy; [discriminate|].
      intro Hbc. replace (byte_of x <? byte_of z)%Z with false by lia.
      replace (byte_of z <? byte_of x)%Z with false by lia. eauto.
Qed.

Lemma sltb_trichotomy a : forall b,
  (sltb a b = true /\ a <> b /\ sltb b a = false) \/
  (sltb a b = false /\ a = b /\ sltb b a = false) \/
  (sltb a b = false /\ a <> b /\ sltb b a = true).
Proof.
  induction a as [|x a IH]; intros [|y b]; cbn.
  - right; left; auto.
  - left. repeat split; congruence.
  - right; right. repeat split; congruence.
  - destruct (byte_of x <? byte_of y)%Z eqn:Exy.
    + left. replace (byte_of y <? byte_of x)%Z with false by lia.
      repeat split. intro E; inversion E; subst. lia.
    + destruct (byte_of y <? byte_of x)%Z eqn:Eyx.
      * right; right. repeat split. intro E; inversion E; subst. lia.
      * assert (x = y) by (apply byte_of_inj'; lia). subst y.
        destruct (IH b) as [(A & B & C)|[(A & B & C)|(A & B & C)]].
        -- left. repeat split; auto. congruence.
        -- right; left. repeat split; auto. congruence.
        -- right; right. repeat split; auto. congruence.
Qed.

(** < on strings (Go's string <, bytewise lexicographic) is a strict total order, and
    <= > >= are derived from it and = as the evaluator does. *)
Theorem C03_lt_strings :
  (forall a, sltb a a = false) /\
  (forall a b c, sltb a b = true -> sltb b c = true -> sltb a c = true) /\
  (forall a b, sltb a b = true -> sltb b a = false) /\
  (forall a b, (sltb a b = true /\ seqb a b = false /\ sltb b a = false) \/
               (sltb a b = false /\ seqb a b = true /\ sltb b a = false) \/
               (sltb a b = false /\ seqb a b = false /\ sltb b a = true)) /\
  (forall a b, comparison_result CmpLt (Some (VStr a)) (Some (VStr b)) = Some (inl (Some (VBool (sltb a b)))) /\
               comparison_result CmpGt (Some (VStr a)) (Some (VStr b)) = Some (inl (Some (VBool (sltb b a)))) /\
               comparison_result CmpLe (Some (VStr a)) (Some (VStr b)) = Some (inl (Some (VBool (negb (sltb b a))))) /\
               comparison_result CmpGe (Some (VStr a)) (Some (VStr b)) = Some (inl (Some (VBool (negb (sltb a b)))))).
Proof.
  split; [exact sltb_irrefl|]. split; [exact sltb_trans|].
  assert (T : forall a b, (sltb a b = true /\ seqb a b = false /\ sltb b a = false) \/
               (sltb a b = false /\ seqb a b = true /\ sltb b a = false) \/
               (sltb a b = false /\ seqb a b = false /\ sltb b a = true)).
  { intros a b. destruct (sltb_trichotomy a b) as [(A & B & C)|[(A & B & C)|(A & B & C)]].
    - left. repeat split; auto. destruct (seqb a b) eqn:E; auto. apply seqb_eq in E. contradiction.
    - right; left. repeat split; auto. now apply seqb_eq.
    - right; right. repeat split; auto. destruct (seqb a b) eqn:E; auto. apply seqb_eq in E. contradiction. }
  split. { intros a b H. destruct (T a b) as [(A & B & C)|[(A & B & C)|(A & B & C)]]; congruence. }
  split; [exact T|].
  intros a b. cbn.
  destruct (T a b) as [(A & B & C)|[(A & B & C)|(A & B & C)]]; rewrite A, B, C; repeat split.
Qed.
Print Assumptions C03_lt_strings.

Example C03_lt_strings_ex :
  sltb "abc" "abd" = true /\ sltb "ab" "abc" = true /\ sltb "" "a" = true /\
  sltb "Z" "a" = true /\ sltb "10" "9" = true /\ sltb "abc" "abc" = false.
Proof. vm_compute. repeat split. Qed.

(* ---- order on numbers: < is IEEE comparison; the derived operators ---- *)
Lemma fltb_spec_cmp x y : fltb x y = match SFcompare x y with Some Lt => true | _ => false end.
Proof. reflexivity. Qed.

Lemma SFcompare_antisym x y :
  SFcompare y x = match SFcompare x y with Some c => Some (CompOpp c) | None => None end.
Proof.
  destruct x as [s|s| |s m e], y as [s'|s'| |s' m' e']; cbn; try reflexivity;
    try (destruct s; reflexivity); try (destruct s'; reflexivity);
    try (destruct s, s'; reflexivity).
  change (Pos.compare_cont Eq m m') with (Pos.compare m m').
  change (Pos.compare_cont Eq m' m) with (Pos.compare m' m).
  rewrite (Z.compare_antisym e e'), (Pos.compare_antisym m m').
  destruct s, s'; try reflexivity; destruct (e ?= e')%Z; cbn; try reflexivity;
    destruct (m ?= m')%positive; reflexivity.
Qed.

(** On numbers: a < b, a > b (= b < a), a <= b (= a < b or a = b), a >= b (= not a < b — so
    NaN >= x holds, as in the port). For non-NaN operands exactly one of <, =, > holds. *)
Theorem C03_lt_numbers : forall x y,
  comparison_result CmpLt (Some (VNum x)) (Some (VNum y)) = Some (inl (Some (VBool (fltb x y)))) /\
  comparison_result CmpLe (Some (VNum x)) (Some (VNum y)) = Some (inl (Some (VBool (fltb x y || feqb x y)))) /\
  comparison_result CmpGt (Some (VNum x)) (Some (VNum y)) = Some (inl (Some (VBool (negb (fltb x y || feqb x y))))) /\
  comparison_result CmpGe (Some (VNum x)) (Some (VNum y)) = Some (inl (Some (VBool (negb (fltb x y))))) /\
  (is_nan x = false -> is_nan y = false ->
     negb (fltb x y || feqb x y) = fltb y x /\ negb (fltb x y) = (fltb y x || feqb y x) /\
     (fltb x y = true /\ feqb x y = false /\ fltb y x = false \/
      fltb x y = false /\ feqb x y = true /\ fltb y x = false \/
      fltb x y = false /\ feqb x y = false /\ fltb y x = true)).
Proof.
  intros x y. split; [reflexivity|]. split; [reflexivity|]. split; [reflexivity|].
  split; [reflexivity|]. intros Nx Ny.
  assert (Hc : exists c, SFcompare x y = Some c).
  { destruct x, y; cbn; eauto; discriminate. }
  destruct Hc as [c Hc].
  unfold fltb, feqb, SFltb, SFeqb. rewrite (SFcompare_antisym x y), Hc.
  destruct c; cbn; auto 10.
Qed.
Print Assumptions C03_lt_numbers.

(* ------------------------------------------------------------------------------------ *)
(* 5. and / or                                                                           *)
(* ------------------------------------------------------------------------------------ *)

(** and/or combine the boolean casts of BOTH operands (both are evaluated: C03_eval_binop). *)
Theorem C03_bool : forall a b,
  boolean_result BoolAnd a b = Some (VBool (otruthy a && otruthy b)) /\
  boolean_result BoolOr a b = Some (VBool (otruthy a || otruthy b)).
Proof. intros; split; reflexivity. Qed.

(** the boolean cast (jlib.Boolean) *)
Theorem C03_truthy_table :
  otruthy None = false /\
  truthy VNull = false /\
  (forall b, truthy (VBool b) = b) /\
  (forall s, truthy (VStr s) = true <-> s <> ""%string) /\
  (forall x, truthy (VNum x) = false <-> is_zero x = true) /\
  (forall l, truthy (VArr l) = true <-> exists x, In x l /\ truthy x = true) /\
  (forall m, truthy (VObj m) = true <-> m <> []) /\
  (forall c, truthy (VFun c) = false).
Proof.
  repeat split; try reflexivity.
  - cbn. intros H E. subst. discriminate.
  - cbn. intro H. destruct s; [congruence | reflexivity].
  - cbn. rewrite negb_false_iff, feqb_true_iff. intros [[_ ->]|[H _]]; [reflexivity | exact H].
  - cbn. intro H. rewrite negb_false_iff, feqb_true_iff. right. auto.
  - cbn [truthy]. apply existsb_exists.
  - cbn [truthy]. apply existsb_exists.
  - destruct m; cbn; congruence.
  - destruct m; cbn; congruence.
Qed.
Print Assumptions C03_truthy_table.

Example C03_bool_ex :
  boolean_result BoolAnd (Some (VArr [VNum fzero; VStr "a"])) (Some (VObj [])) = Some (VBool false) /\
  boolean_result BoolOr None (Some (VNum fone)) = Some (VBool true) /\
  boolean_result BoolOr (Some (VStr "")) (Some (VNum fnzero)) = Some (VBool false).
Proof. vm_compute. repeat split. Qed.

(* ------------------------------------------------------------------------------------ *)
(* 6. the range operator                                                                 *)
(* ------------------------------------------------------------------------------------ *)

(* a, a+1, a+1+1, ... : k float64 increments, as the loop of evalRange does *)
Definition succ_iter (k : nat) (a : f64) : f64 := Nat.iter k (fun x => fadd x fone) a.

Lemma iter_succ_r' {A} (f : A -> A) n x : Nat.iter (S n) f x = Nat.iter n f (f x).
Proof. induction n as [|n IH]; [reflexivity|]. cbn in *. now rewrite IH. Qed.

Lemma range_items_length n : forall a, List.length (range_items n a) = n.
Proof. induction n as [|n IH]; intro a; cbn; [reflexivity | now rewrite IH]. Qed.

Lemma range_items_nth n : forall a k, (k < n)%nat ->
  nth_error (range_items n a) k = Some (VNum (succ_iter k a)).
Proof.
  induction n as [|n IH]; intros a k Hk; [lia|].
  destruct k as [|k]; [reflexivity|].
  cbn [range_items nth_error]. rewrite IH by lia.
  unfold succ_iter. now rewrite iter_succ_r'.
Qed.

Lemma range_items_nth_none n a k : (n <= k)%nat -> nth_error (range_items n a) k = None.
Proof. intro H. apply nth_error_None. now rewrite range_items_length. Qed.

(** [a..b] on two numbers, completely: an error iff a bound is not integer-valued (left bound
    first) or the item count b-a+1 (computed as the port does, int(b-a)+1) is negative or
    above ten million; nothing when b < a; otherwise the array of exactly that many numbers
    whose k-th member is a followed by k increments. *)
Theorem C03_range : forall a b,
  let size := (go_int (fsub b a) + 1)%Z in
  range_result (Some (VNum a)) (Some (VNum b)) =
    if negb (f_is_integer a) then inr (EEval ErrNonIntegerLHS)
    else if negb (f_is_integer b) then inr (EEval ErrNonIntegerRHS)
    else if fltb b a then inl None
    else if (size <? 0)%Z || (max_range_items <? size)%Z then inr (EEval ErrMaxRangeItems)
    else inl (Some (VArr (range_items (Z.to_nat size) a))).
Proof.
  intros a b size. unfold range_result. cbn.
  destruct (f_is_integer a); cbn; [|reflexivity].
  destruct (f_is_integer b); cbn; reflexivity.
Qed.
Print Assumptions C03_range.

Theorem C03_range_items : forall l r items,
  range_result l r = inl (Some (VArr items)) ->
  exists a b, l = Some (VNum a) /\ r = Some (VNum b) /\
    f_is_integer a = true /\ f_is_integer b = true /\ fltb b a = false /\
    let size := (go_int (fsub b a) + 1)%Z in
    (0 <= size <= max_range_items)%Z /\
    List.length items = Z.to_nat size /\
    (forall k, (k < Z.to_nat size)%nat -> nth_error items k = Some (VNum (succ_iter k a))) /\
    forallb is_num_value items = true.
Proof.
  intros l r items H.
  destruct l as [[|b1|a|s1|l1|m1|c1]|]; destruct r as [[|b2|b|s2|l2|m2|c2]|]; try discriminate;
    try (cbn in H; destruct (f_is_integer _); discriminate).
  exists a, b. rewrite C03_range in H.
  destruct (f_is_integer a); [|discriminate]. destruct (f_is_integer b); [|discriminate].
  destruct (fltb b a); [discriminate|]. cbn [negb] in H.
  destruct (_ || _) eqn:Es; [discriminate|]. inversion H; subst items.
  repeat split; try lia.
  - apply range_items_length.
  - intros k Hk. now apply range_items_nth.
  - apply range_items_nums.
Qed.
Print Assumptions C03_range_items.

(** the range is an array only in the case above; it is "no value" exactly when a bound is
    missing (the other one being an integer or missing too) or b < a. *)
Theorem C03_range_empty : forall l r,
  range_result l r = inl None <->
  (rkind_of l = RMissing /\ rkind_of r <> ROther) \/
  (rkind_of l = RInt /\ rkind_of r = RMissing) \/
  (exists a b, l = Some (VNum a) /\ r = Some (VNum b) /\
     f_is_integer a = true /\ f_is_integer b = true /\ fltb b a = true).
Proof.
  intros l r.
  destruct l as [[|b1|a|s1|l1|m1|c1]|]; destruct r as [[|b2|b|s2|l2|m2|c2]|];
    unfold range_result; cbn;
    repeat match goal with
           | |- context [f_is_integer ?x] =>
               let E := fresh "E" in destruct (f_is_integer x) eqn:E; cbn
           end;
    repeat match goal with
           | |- context [if ?c then _ else _] => let E := fresh "E" in destruct c eqn:E
           end;
    (split;
     [ try discriminate; intros _;
       first [ left; split; [reflexivity | discriminate]
             | right; left; split; reflexivity
             | right; right; eauto 10 ]
     | intros [[H1 H2]|[[H1 H2]|(a' & b' & H1 & H2 & H3 & H4 & H5)]];
       try discriminate; try congruence; try (exfalso; apply H2; reflexivity) ]).
Qed.
Print Assumptions C03_range_empty.

Example C03_range_ex :
  range_result (Some (VNum (f_of_Z (-1)))) (Some (VNum (f_of_Z 2))) =
    inl (Some (VArr [VNum (f_of_Z (-1)); VNum fzero; VNum fone; VNum (f_of_Z 2)])) /\
  succ_iter 3 (f_of_Z (-1)) = f_of_Z 2 /\
  range_result (Some (VNum (f_of_Z 5))) (Some (VNum (f_of_Z 5))) = inl (Some (VArr [VNum (f_of_Z 5)])) /\
  range_result (Some (VNum fzero)) (Some (VNum (f_of_Z 10000000))) = inr (EEval ErrMaxRangeItems) /\
  range_result (Some (VNum fone)) (Some (VNum (f_of_Zexp 1 600 false))) = inr (EEval ErrMaxRangeItems) /\
  range_result (Some (VNum fone)) (Some (VNum (fdiv (f_of_Z 5) (f_of_Z 2)))) = inr (EEval ErrNonIntegerRHS) /\
  range_result None (Some (VNum (fdiv (f_of_Z 5) (f_of_Z 2)))) = inr (EEval ErrNonIntegerRHS) /\
  range_result None (Some (VNum fone)) = inl None.
Proof. vm_compute. repeat split. Qed.


(* ------------------------------------------------------------------------------------ *)
(* 4b. on valid UTF-8, bytewise order is code-point order                                *)
(* ------------------------------------------------------------------------------------ *)
From JV.Proofs Require Import Utf8Proofs.

(* lexicographic < on code-point sequences *)
Fixpoint cp_ltb (l1 l2 : list rune) : bool :=
  match l1, l2 with
  | _, [] => false
  | [], _ :: _ => true
  | x :: r1, y :: r2 => if (x <? y)%Z then true else if (y <? x)%Z then false else cp_ltb r1 r2
  end.

Lemma sltb_cons_same c a b : sltb (String c a) (String c b) = sltb a b.
Proof. cbn [sltb]. now rewrite Z.ltb_irrefl. Qed.

Lemma sltb_app_same p a b : sltb (p ++ a) (p ++ b) = sltb a b.
Proof. induction p as [|c p IH]; [reflexivity|]. cbn [append]. now rewrite sltb_cons_same. Qed.

Lemma sltb_cons_lt x y a b : (0 <= x < 256)%Z -> (0 <= y < 256)%Z -> (x < y)%Z ->
  sltb (String (ascii_of_Z x) a) (String (ascii_of_Z y) b) = true.
Proof.
  intros Hx Hy L. cbn [sltb]. rewrite !byte_of_ascii_of_Z by assumption.
  now replace (x <? y)%Z with true by lia.
Qed.

Lemma sltb_cons_eq x y a b : (0 <= x < 256)%Z -> x = y ->
  sltb (String (ascii_of_Z x) a) (String (ascii_of_Z y) b) = sltb a b.
Proof. intros _ ->. apply sltb_cons_same. Qed.

(* one byte decides, or it is equal and the rest decides *)
Lemma sltb_step x y a b : (0 <= x < 256)%Z -> (0 <= y < 256)%Z -> (x <= y)%Z ->
  (x = y -> sltb a b = true) ->
  sltb (String (ascii_of_Z x) a) (String (ascii_of_Z y) b) = true.
Proof.
  intros Hx Hy L H. destruct (Z.eq_dec x y) as [E|N].
  - rewrite sltb_cons_eq by assumption. auto.
  - apply sltb_cons_lt; lia.
Qed.

(* the encoding is strictly monotone, whatever follows *)
Lemma encode_rune_lt r1 r2 s1 s2 :
  valid_rune r1 = true -> valid_rune r2 = true -> (r1 < r2)%Z ->
  sltb (encode_rune r1 ++ s1) (encode_rune r2 ++ s2) = true.
Proof.
  intros V1 V2 L. unfold encode_rune. rewrite V1, V2.
  unfold valid_rune, MaxRune in V1, V2.
  assert (B1 : (0 <= r1 <= 1114111)%Z) by lia. assert (B2 : (0 <= r2 <= 1114111)%Z) by lia.
  clear V1 V2.
  pose proof (Z.div_div r1 64 64 ltac:(lia) ltac:(lia)) as D1.
  pose proof (Z.div_div r2 64 64 ltac:(lia) ltac:(lia)) as D2.
  pose proof (Z.div_div r1 4096 64 ltac:(lia) ltac:(lia)) as D1'.
  pose proof (Z.div_div r2 4096 64 ltac:(lia) ltac:(lia)) as D2'.
  change (64 * 64)%Z with 4096%Z in *. change (4096 * 64)%Z with 262144%Z in *.
  destruct (r1 <? 128)%Z eqn:A1; [|destruct (r1 <? 2048)%Z eqn:A2; [|destruct (r1 <? 65536)%Z eqn:A3]];
  (destruct (r2 <? 128)%Z eqn:C1; [|destruct (r2 <? 2048)%Z eqn:C2; [|destruct (r2 <? 65536)%Z eqn:C3]]);
    try lia; unfold string_of_bytes; cbn [map string_of_list append];
    repeat (apply sltb_step; [lia | lia | lia | intro]); try lia;
    try (apply sltb_cons_lt; lia).
Qed.

Lemma sltb_asym a b : sltb a b = true -> sltb b a = false.
Proof. destruct C03_lt_strings as (_ & _ & H & _). apply H. Qed.

Theorem sltb_string_of_runes : forall l1 l2,
  valid_runes l1 -> valid_runes l2 ->
  sltb (string_of_runes l1) (string_of_runes l2) = cp_ltb l1 l2.
Proof.
  induction l1 as [|x r1 IH]; intros [|y r2] V1 V2.
  - reflexivity.
  - rewrite string_of_runes_cons, string_of_runes_nil. cbn [cp_ltb].
    pose proof (encode_rune_not_nil y) as N. destruct (encode_rune y); [congruence | reflexivity].
  - rewrite string_of_runes_nil. cbn [cp_ltb]. now destruct (string_of_runes (x :: r1)).
  - rewrite !string_of_runes_cons. cbn [cp_ltb].
    inversion V1 as [|? ? Vx V1']; inversion V2 as [|? ? Vy V2']; subst.
    destruct (Z.ltb_spec x y) as [L|G].
    + now apply encode_rune_lt.
    + destruct (Z.ltb_spec y x) as [L'|G'].
      * apply sltb_asym. now apply encode_rune_lt.
      * assert (x = y) by lia. subst y. rewrite sltb_app_same. now apply IH.
Qed.

(** < on two valid UTF-8 strings (the evaluator compares bytes) is the lexicographic order of
    their code-point sequences. *)
Theorem C03_lt_codepoint : forall a b,
  valid_utf8 a = true -> valid_utf8 b = true ->
  sltb a b = cp_ltb (runes a) (runes b).
Proof.
  intros a b Va Vb.
  rewrite <- (encode_runes_inverse a Va) at 1. rewrite <- (encode_runes_inverse b Vb) at 1.
  apply sltb_string_of_runes; now apply runes_valid.
Qed.
Print Assumptions C03_lt_codepoint.

Example C03_lt_codepoint_ex :
  (* U+FF5E (3 bytes) < U+1F600 (4 bytes): code-point order, where UTF-16 order would differ *)
  let a := encode_rune 65374 in let b := encode_rune 128512 in
  valid_utf8 a = true /\ valid_utf8 b = true /\ sltb a b = true /\ runes a = [65374%Z] /\
  comparison_result CmpLt (Some (VStr a)) (Some (VStr b)) = Some (inl (Some (VBool true))).
Proof. vm_compute. repeat split. Qed.

(* ------------------------------------------------------------------------------------ *)
(* examples on the evaluator itself (oracles that answer nothing)                        *)
(* ------------------------------------------------------------------------------------ *)
Definition ev0 := eval (fun _ => ""%string) (fun _ _ => None) (fun _ _ => None) (fun _ _ => None).
Definition w0 := mkWorld [mkFrame None []].

Example C03_cond_lazy_ex :
  (* the branch not taken would panic (NPlaceholder) resp. run out of fuel: it is not evaluated *)
  ev0 3 (NConditional (NBoolean true) (NNumber fone) (Some NPlaceholder)) None 0 w0 = Ok (Some (VNum fone)) w0 /\
  ev0 3 (NConditional (NString "") NPlaceholder (Some (NNumber fone))) None 0 w0 = Ok (Some (VNum fone)) w0 /\
  ev0 3 (NConditional (NName "nothing" false) NPlaceholder None) None 0 w0 = Ok None w0 /\
  ev0 2 (NConditional (NBoolean true) (NNumber fone)
           (Some (NNumeric NumAdd (NNumeric NumAdd (NNumber fone) (NNumber fone)) (NNumber fone)))) None 0 w0
    = Ok (Some (VNum fone)) w0.
Proof. vm_compute. repeat split. Qed.

Example C03_eval_binop_ex :
  ev0 3 (NNumeric NumAdd (NString "a") (NBoolean true)) None 0 w0 = Err (EEval ErrNonNumberLHS) /\
  ev0 3 (NNumeric NumAdd (NNumber fone) (NBoolean true)) None 0 w0 = Err (EEval ErrNonNumberRHS) /\
  ev0 3 (NNumeric NumAdd (NName "nothing" false) (NNumber fone)) None 0 w0 = Ok None w0 /\
  ev0 3 (NComparison CmpLt (NName "nothing" false) (NNumber fone)) None 0 w0 = Ok (Some (VBool false)) w0 /\
  ev0 3 (NComparison CmpLt (NString "a") (NNumber fone)) None 0 w0 = Err (EEval ErrTypeMismatch) /\
  ev0 3 (NConcat (NName "nothing" false) (NString "x")) None 0 w0 = Ok (Some (VStr "x")) w0 /\
  ev0 3 (NRange (NName "nothing" false) (NNumber fone)) None 0 w0 = Ok None w0 /\
  ev0 3 (NNegation (NName "nothing" false)) None 0 w0 = Ok None w0 /\
  ev0 3 (NBoolOp BoolOr (NName "nothing" false) (NNumber fone)) None 0 w0 = Ok (Some (VBool true)) w0.
Proof. vm_compute. repeat split. Qed.
