(* Proofs/TableLemmas.v — table lemmas: the model's data tables equal what the running
   implementation says NOW (Gen/*.v is regenerated from the built package on every run).
   Finite tables; proofs by vm_compute over the whole table (the bound is the table). *)
From JV Require Import Model.Builtins Model.Ops Gen.Builtins Gen.ParseTables.
Local Open Scope string_scope.
Local Open Scope list_scope.

(* ---- the built-in signature table ---- *)
Fixpoint insert_by_name {A} (x : string * A) (l : list (string * A)) : list (string * A) :=
  match l with
  | [] => [x]
  | y :: r => if sltb (fst x) (fst y) then x :: l else y :: insert_by_name x r
  end.
Definition sort_by_name {A} (l : list (string * A)) := fold_right insert_by_name [] l.

Fixpoint gtype_eqb (a b : gtype) : bool :=
  match a, b with
  | GIface, GIface | GValue, GValue | GString, GString | GInt, GInt | GInt64, GInt64
  | GFloat, GFloat | GBool, GBool | GCallable, GCallable | GUint8, GUint8 | GBytes, GBytes
  | GSliceIface, GSliceIface | GMapIface, GMapIface => true
  | _, _ => false
  end.
Fixpoint list_eqb {A} (eqb : A -> A -> bool) (l1 l2 : list A) : bool :=
  match l1, l2 with
  | [], [] => true
  | x :: r1, y :: r2 => eqb x y && list_eqb eqb r1 r2
  | _, _ => false
  end.
Definition gparam_eqb (a b : gparam) : bool :=
  match a, b with
  | GP x, GP y => gtype_eqb x y
  | GOpt x, GOpt y => gtype_eqb x y
  | GVariant xs, GVariant ys => list_eqb gtype_eqb xs ys
  | _, _ => false
  end.

Definition model_sigs : list (string * (list gparam * bool)) :=
  sort_by_name (map (fun e => (fst e, (bs_params (snd e), bs_variadic (snd e)))) builtin_table).

Definition sig_entry_eqb (a b : string * (list gparam * bool)) : bool :=
  seqb (fst a) (fst b) && list_eqb gparam_eqb (fst (snd a)) (fst (snd b))
  && Bool.eqb (snd (snd a)) (snd (snd b)).

(* every built-in of the implementation is in the model with the same Go signature, and
   vice versa *)
Lemma builtins_table_ok : list_eqb sig_entry_eqb model_sigs gen_builtins = true.
Proof. vm_compute. reflexivity. Qed.

(* ---- handlers: identified by their behaviour on the probe family ---- *)
Definition probe_kinds : list ovalue :=
  [None; Some (VNum (f_of_Z 1)); Some (VStr "s"); Some (VFun (CBuiltin "string")); Some (VBool true)].
Definition probe_family : list (list ovalue) :=
  [[]] ++ map (fun a => [a]) probe_kinds
       ++ flat_map (fun a => map (fun b => [a; b]) probe_kinds) probe_kinds
       ++ flat_map (fun a => flat_map (fun b => map (fun c => [a; b; c]) probe_kinds) probe_kinds) probe_kinds.

Definition model_undef_probe : list (string * (bool * list bool)) :=
  sort_by_name (map (fun e => (fst e, (match bs_undef (snd e) with UNone => false | _ => true end,
                                        map (undef_handler (bs_undef (snd e))) probe_family))) builtin_table).
Definition model_ctx_probe : list (string * (bool * list bool)) :=
  sort_by_name (map (fun e => (fst e, (match bs_ctx (snd e) with CNone => false | _ => true end,
                                        map (ctx_handler (bs_ctx (snd e))) probe_family))) builtin_table).

Definition probe_entry_eqb (a b : string * (bool * list bool)) : bool :=
  seqb (fst a) (fst b) && Bool.eqb (fst (snd a)) (fst (snd b)) && list_eqb Bool.eqb (snd (snd a)) (snd (snd b)).

(* which built-ins have an UndefinedHandler / EvalContextHandler, and what each handler
   answers on every argument vector of length 0..3 over {missing, number, string, function,
   boolean} (156 vectors) *)
Lemma undefined_handlers_ok : list_eqb probe_entry_eqb model_undef_probe gen_undef_probe = true.
Proof. vm_compute. reflexivity. Qed.
Lemma context_handlers_ok : list_eqb probe_entry_eqb model_ctx_probe gen_ctx_probe = true.
Proof. vm_compute. reflexivity. Qed.

Lemma max_range_items_ok : max_range_items = gen_max_range_items.
Proof. reflexivity. Qed.

(* every evaluation error type 0..19 exists with a non-empty message template *)
Lemma eval_errtypes_ok :
  map fst gen_eval_errtypes = seq 0 20 /\ forallb snd gen_eval_errtypes = true.
Proof. split; vm_compute; reflexivity. Qed.

(* every parse error type 1..27 exists with a non-empty message template *)
Lemma parse_errtypes_ok :
  map fst gen_parse_errtypes = seq 1 27 /\ forallb snd gen_parse_errtypes = true.
Proof. split; vm_compute; reflexivity. Qed.
