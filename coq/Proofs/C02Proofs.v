(* Proofs/C02Proofs.v — property C02 (predicates): the filter loop and the predicate loop of the
   evaluator model compute the declarative semantics of Spec/C02.v, for all lists, positions and
   numbers of stacked filters. *)
From Coq Require Import Lia ZifyBool ZifyNat.
From JV Require Import Model.Value Model.Ops Model.Eval Spec.C02 Proofs.MonadFacts.
Local Open Scope nat_scope.
Local Open Scope list_scope.

(* ------------------------------------------------------------------------------------------ *)
(** * The per-item count of the model is the declarative [copies] *)

Lemma all_numbers_all_nums l :
  (all_numbers l = true -> exists xs, all_nums l = Some xs /\ l = map VNum xs) /\
  (all_numbers l = false -> all_nums l = None).
Proof.
  induction l as [|v r [IH1 IH2]]; split; intro H; cbn in *; try discriminate.
  - exists []. auto.
  - destruct v; cbn in *; try discriminate.
    destruct (IH1 H) as (xs & E & ->). rewrite E. exists (x :: xs). auto.
  - destruct v; cbn in *; try reflexivity.
    rewrite (IH2 H). reflexivity.
Qed.

Lemma index_hits_wrap n i x :
  index_hits n i x = (wrap n (floor_pos x) =? Z.of_nat i)%Z.
Proof. reflexivity. Qed.

Lemma hits_count n i xs :
  List.length (filter (fun v => match v with VNum x => index_hits n i x | _ => false end)
                      (map VNum xs))
  = count_occ Z.eq_dec (map (wrap n) (map floor_pos xs)) (Z.of_nat i).
Proof.
  induction xs as [|x r IH]; cbn [map filter count_occ List.length]; [reflexivity|].
  rewrite index_hits_wrap.
  destruct (Z.eq_dec (wrap n (floor_pos x)) (Z.of_nat i)) as [E|E].
  - rewrite E, Z.eqb_refl. cbn [List.length]. now rewrite IH.
  - apply Z.eqb_neq in E. rewrite E. exact IH.
Qed.

(** [filter_copies] (the Go loop's test, transcribed) = [copies] (the specification) *)
Theorem filter_copies_spec n i r : filter_copies n i r = copies n i r.
Proof.
  destruct r as [v|]; [|reflexivity].
  destruct v; try reflexivity.
  - (* a number *)
    unfold filter_copies, copies, positions. cbn [arrayify all_numbers forallb andb].
    change [VNum x] with (map VNum [x]). rewrite hits_count. reflexivity.
  - (* an array *)
    unfold filter_copies, copies, positions.
    destruct (all_numbers l) eqn:A.
    + destruct (proj1 (all_numbers_all_nums l) A) as (xs & E & ->).
      rewrite E. cbn [option_map]. apply hits_count.
    + rewrite (proj2 (all_numbers_all_nums l) A). reflexivity.
Qed.
Print Assumptions filter_copies_spec.

(* ------------------------------------------------------------------------------------------ *)
(** * 1. The filter loop *)

(** success: if the predicate evaluates on each item in turn (world threaded left to right) to
    the results [rs], the loop returns the declarative kept list *)
Theorem filter_loop_spec ev1 n items : forall i w rs w',
  steps (fun x => ev1 (Some x)) items w rs w' ->
  filter_loop ev1 n items i w = Ok (filter_sem_from n i items rs) w'.
Proof.
  induction items as [|x r IH]; intros i w rs w' St;
    inversion St as [|? ? ? ? ? ? ? E1 St']; subst; cbn [filter_loop filter_sem_from].
  - reflexivity.
  - unfold bind at 1. rewrite E1. unfold bind at 1.
    rewrite (IH (S i) _ _ _ St'). rewrite filter_copies_spec. reflexivity.
Qed.
Print Assumptions filter_loop_spec.

(** and conversely: a successful loop is such a chain of successful evaluations *)
Theorem filter_loop_ok_inv ev1 n items : forall i w out w',
  filter_loop ev1 n items i w = Ok out w' ->
  exists rs, steps (fun x => ev1 (Some x)) items w rs w' /\ out = filter_sem_from n i items rs.
Proof.
  induction items as [|x r IH]; intros i w out w' H; cbn [filter_loop] in H.
  - apply ret_ok in H as [<- <-]. exists []. split; [constructor|reflexivity].
  - apply bind_ok in H as (res & w1 & E1 & H).
    apply bind_ok in H as (rest & w2 & E2 & H).
    apply ret_ok in H as [<- <-].
    destruct (IH _ _ _ _ E2) as (rs & St & ->).
    exists (res :: rs). split; [econstructor; eauto|].
    cbn [filter_sem_from]. now rewrite filter_copies_spec.
Qed.

(** [apply_filter]'s entry point: the whole list, positions from 0 *)
Corollary filter_loop_whole ev1 items w rs w' :
  steps (fun x => ev1 (Some x)) items w rs w' ->
  filter_loop ev1 (List.length items) items 0 w = Ok (filter_sem items rs) w'.
Proof. apply filter_loop_spec. Qed.

(** failure: the error of the first item whose predicate fails is the result *)
Theorem filter_loop_err ev1 n pre x post : forall i w rs w1 e,
  steps (fun x => ev1 (Some x)) pre w rs w1 ->
  ev1 (Some x) w1 = Err e ->
  filter_loop ev1 n (pre ++ x :: post) i w = Err e.
Proof.
  induction pre as [|y r IH]; intros i w rs w1 e St E;
    inversion St as [|? ? ? ? ? ? ? E1 St']; subst; cbn [app filter_loop].
  - unfold bind at 1. now rewrite E.
  - unfold bind at 1. rewrite E1. unfold bind at 1.
    now rewrite (IH (S i) _ _ _ _ St' E).
Qed.
Print Assumptions filter_loop_err.

(** a pure predicate (a function of the item, world untouched) *)
Corollary filter_loop_pure ev1 g items w :
  pure_ev ev1 g ->
  filter_loop ev1 (List.length items) items 0 w = Ok (filter_sem items (map (fun x => g (Some x)) items)) w.
Proof.
  intro P. apply filter_loop_whole. apply mapM_ok.
  apply (mapM_pure (fun x => ev1 (Some x)) (fun x => g (Some x))).
  intros x w0. apply P.
Qed.

(* ------------------------------------------------------------------------------------------ *)
(** * 2. Positional selection by one number *)

Definition is_pos (p : Z) (r : ovalue) : Prop := exists x, r = Some (VNum x) /\ floor_pos x = p.

Lemma copies_num len i x :
  copies len i (Some (VNum x)) = if (wrap len (floor_pos x) =? Z.of_nat i)%Z then 1 else 0.
Proof.
  unfold copies, positions. cbn [map count_occ].
  destruct (Z.eq_dec (wrap len (floor_pos x)) (Z.of_nat i)) as [E|E].
  - now rewrite E, Z.eqb_refl.
  - apply Z.eqb_neq in E. now rewrite E.
Qed.

(** generalised over the starting index: the one item kept (if any) is the one whose index is
    the wrapped position *)
Lemma index_select_from len p items : forall i rs,
  Forall (is_pos p) rs -> List.length rs = List.length items ->
  filter_sem_from len i items rs =
    if (wrap len p <? Z.of_nat i)%Z then []
    else match nth_error items (Z.to_nat (wrap len p - Z.of_nat i)) with
         | Some y => [y]
         | None => []
         end.
Proof.
  set (q := wrap len p).
  induction items as [|x xs IH]; intros i rs F L; destruct rs as [|r rs']; try discriminate L;
    cbn [filter_sem_from].
  - destruct (q <? Z.of_nat i)%Z; [reflexivity|].
    now destruct (Z.to_nat (q - Z.of_nat i)).
  - inversion F as [|? ? P0 F']; subst. destruct P0 as (x0 & -> & P).
    injection L as L.
    rewrite copies_num, P. fold q. rewrite (IH (S i) rs' F' L).
    destruct (q =? Z.of_nat i)%Z eqn:E1.
    + apply Z.eqb_eq in E1.
      replace (q <? Z.of_nat (S i))%Z with true by lia.
      replace (q <? Z.of_nat i)%Z with false by lia.
      replace (Z.to_nat (q - Z.of_nat i)) with 0 by lia. reflexivity.
    + apply Z.eqb_neq in E1. cbn [repeat app].
      destruct (q <? Z.of_nat i)%Z eqn:E2.
      * replace (q <? Z.of_nat (S i))%Z with true by lia. reflexivity.
      * replace (q <? Z.of_nat (S i))%Z with false by lia.
        replace (Z.to_nat (q - Z.of_nat i)) with (S (Z.to_nat (q - Z.of_nat (S i)))) by lia.
        reflexivity.
Qed.

(** e[n]: when the predicate yields, for every item, a number whose floor is [p], exactly the
    item at position [p] is kept — negative positions count back from the end, positions out of
    range select nothing; every list length, every integer [p] *)
Theorem index_select items rs p :
  Forall (is_pos p) rs -> List.length rs = List.length items ->
  filter_sem items rs = select_at items p.
Proof.
  intros F L. unfold filter_sem. rewrite (index_select_from _ p items 0 rs F L).
  unfold select_at, pos_of. cbn [Z.of_nat]. rewrite Z.sub_0_r.
  now destruct (wrap (List.length items) p <? 0)%Z.
Qed.
Print Assumptions index_select.

(** spelled out as in the property text *)
Corollary index_select_nth items rs p :
  Forall (is_pos p) rs -> List.length rs = List.length items ->
  filter_sem items rs =
    let q := if (p <? 0)%Z then (p + Z.of_nat (List.length items))%Z else p in
    if (q <? 0)%Z then []
    else match nth_error items (Z.to_nat q) with Some y => [y] | None => [] end.
Proof.
  intros F L. rewrite (index_select items rs p F L). unfold select_at, pos_of, wrap. cbn zeta.
  now destruct ((if (p <? 0)%Z then (p + Z.of_nat (List.length items))%Z else p) <? 0)%Z.
Qed.

(** a constant numeric predicate such as the literal in [e[2]], [e[-1]], [e[1.5]] *)
Corollary index_select_const ev1 x items w :
  pure_ev ev1 (fun _ => Some (VNum x)) ->
  filter_loop ev1 (List.length items) items 0 w = Ok (select_at items (floor_pos x)) w.
Proof.
  intro P. rewrite (filter_loop_pure ev1 _ items w P). f_equal.
  apply index_select.
  - apply Forall_forall. intros r I. apply in_map_iff in I as (y & <- & _). now exists x.
  - apply map_length.
Qed.
Print Assumptions index_select_const.

(** per-item numbers that differ from item to item (e.g. a computed position): item [k] is kept
    exactly when its own number designates [k] *)
Theorem index_select_each len items : forall i xs,
  List.length xs = List.length items ->
  filter_sem_from len i items (map (fun x => Some (VNum x)) xs) =
  map (fun t => snd (fst t))
      (filter (fun '(k, _, x) => (wrap len (floor_pos x) =? Z.of_nat k)%Z)
              (combine (combine (seq i (List.length items)) items) xs)).
Proof.
  induction items as [|y ys IH]; intros i xs L; destruct xs as [|x xs']; try discriminate L;
    cbn [filter_sem_from map List.length seq combine filter]; [reflexivity|].
  injection L as L. rewrite copies_num, (IH (S i) xs' L).
  now destruct (wrap len (floor_pos x) =? Z.of_nat i)%Z.
Qed.

(** what [select_at] means: at most one item, and it is the [k]-th one exactly when the wrapped
    position is [k] *)
Lemma select_at_some {A} (items : list A) p k y :
  nth_error items k = Some y -> wrap (List.length items) p = Z.of_nat k -> select_at items p = [y].
Proof.
  intros N W. unfold select_at, pos_of. rewrite W.
  replace (Z.of_nat k <? 0)%Z with false by lia. now rewrite Nat2Z.id, N.
Qed.

Lemma select_at_out_of_range {A} (items : list A) p :
  (wrap (List.length items) p < 0 \/ Z.of_nat (List.length items) <= wrap (List.length items) p)%Z ->
  select_at items p = [].
Proof.
  intros H. unfold select_at, pos_of.
  destruct (wrap (List.length items) p <? 0)%Z eqn:E; [reflexivity|].
  destruct (nth_error items (Z.to_nat (wrap (List.length items) p))) eqn:N; [|reflexivity].
  assert (Z.to_nat (wrap (List.length items) p) < List.length items)
    by (apply nth_error_Some; congruence). lia.
Qed.

(* ------------------------------------------------------------------------------------------ *)
(** * 3. Boolean selection *)

Definition non_positional (r : ovalue) : Prop := positions r = None.

Lemma bool_select_from len items : forall i rs,
  Forall non_positional rs -> List.length rs = List.length items ->
  filter_sem_from len i items rs = bool_sem items rs.
Proof.
  unfold bool_sem.
  induction items as [|x xs IH]; intros i rs F L; destruct rs as [|r rs']; try discriminate L;
    cbn [filter_sem_from combine filter map]; [reflexivity|].
  inversion F as [|? ? P F']; subst. injection L as L.
  unfold copies. rewrite P. cbn [snd]. rewrite (IH (S i) rs' F' L).
  now destruct (otruthy r).
Qed.

(** e[b]: when no per-item result is a number or an all-number array, the items whose result
    is true under boolean casting are kept, in order, once each *)
Theorem bool_select items rs :
  Forall non_positional rs -> List.length rs = List.length items ->
  filter_sem items rs = bool_sem items rs.
Proof. apply bool_select_from. Qed.
Print Assumptions bool_select.

Lemma bool_sem_fun (res : value -> ovalue) items :
  bool_sem items (map res items) = filter (fun x => otruthy (res x)) items.
Proof.
  unfold bool_sem. induction items as [|x xs IH]; cbn [map combine filter]; [reflexivity|].
  cbn [snd]. destruct (otruthy (res x)); cbn [map fst]; now rewrite IH.
Qed.

(** the predicate as a function of the item *)
Corollary bool_select_fun (res : value -> ovalue) items :
  (forall x, In x items -> non_positional (res x)) ->
  filter_sem items (map res items) = filter (fun x => otruthy (res x)) items.
Proof.
  intro H. rewrite bool_select, bool_sem_fun; auto using map_length.
  apply Forall_forall. intros r I. apply in_map_iff in I as (y & <- & I). auto.
Qed.

Lemma filter_sublist {A} (f : A -> bool) l : sublist (filter f l) l.
Proof.
  induction l as [|x r IH]; cbn [filter]; [constructor|].
  destruct (f x); now constructor.
Qed.

Corollary bool_select_sublist (res : value -> ovalue) items :
  (forall x, In x items -> non_positional (res x)) ->
  sublist (filter_sem items (map res items)) items.
Proof. intro H. rewrite (bool_select_fun res items H). apply filter_sublist. Qed.
Print Assumptions bool_select_sublist.

(** booleans, strings, objects, null, functions, missing values and arrays with a non-number
    member are all non-positional *)
Lemma non_positional_cases r :
  match r with
  | None | Some VNull | Some (VBool _) | Some (VStr _) | Some (VObj _) | Some (VFun _) => non_positional r
  | Some (VNum _) => ~ non_positional r
  | Some (VArr l) => non_positional r <-> all_numbers l = false
  end.
Proof.
  destruct r as [v|]; [|reflexivity]. destruct v; try reflexivity.
  - unfold non_positional, positions. discriminate.
  - unfold non_positional, positions. destruct (all_numbers l) eqn:A.
    + destruct (proj1 (all_numbers_all_nums l) A) as (xs & -> & _). cbn. split; discriminate.
    + rewrite (proj2 (all_numbers_all_nums l) A). cbn. tauto.
Qed.

(* ------------------------------------------------------------------------------------------ *)
(** * 4. Selection by an array of numbers *)

(** one item: kept once per listed number whose (floored, wrapped) position is the item's *)
Theorem index_array_copies len i xs :
  copies len i (Some (VArr (map VNum xs))) =
  count_occ Z.eq_dec (map (fun x => wrap len (floor_pos x)) xs) (Z.of_nat i).
Proof.
  unfold copies, positions.
  replace (all_nums (map VNum xs)) with (Some xs).
  - cbn [option_map]. now rewrite map_map.
  - induction xs as [|x r IH]; cbn; [reflexivity|]. now rewrite <- IH.
Qed.

(** the whole list: each item's result is an array of numbers [xss_k] *)
Theorem index_array_select len items : forall i xss,
  List.length xss = List.length items ->
  filter_sem_from len i items (map (fun xs => Some (VArr (map VNum xs))) xss) =
  List.concat (map (fun '(k, y, xs) =>
                      repeat y (count_occ Z.eq_dec (map (fun x => wrap len (floor_pos x)) xs) (Z.of_nat k)))
                   (combine (combine (seq i (List.length items)) items) xss)).
Proof.
  induction items as [|y ys IH]; intros i xss L; destruct xss as [|xs xss']; try discriminate L;
    cbn [filter_sem_from map List.length seq combine List.concat]; [reflexivity|].
  injection L as L. rewrite index_array_copies. now rewrite (IH (S i) xss' L).
Qed.
Print Assumptions index_array_select.

(** a constant index array: the multiplicity of item [k] is the number of listed positions
    that designate [k] ([0,0] keeps the first item twice) *)
Lemma index_array_const_from len xs items : forall i,
  filter_sem_from len i items (map (fun x => (fun _ : ovalue => Some (VArr (map VNum xs))) (Some x)) items) =
  List.concat (map (fun '(k, y) =>
          repeat y (count_occ Z.eq_dec (map (fun x => wrap len (floor_pos x)) xs) (Z.of_nat k)))
        (combine (seq i (List.length items)) items)).
Proof.
  induction items as [|y ys IH]; intro i; cbn [filter_sem_from map List.length seq combine List.concat];
    [reflexivity|].
  rewrite index_array_copies. now rewrite IH.
Qed.

Corollary index_array_const ev1 xs items w :
  pure_ev ev1 (fun _ => Some (VArr (map VNum xs))) ->
  filter_loop ev1 (List.length items) items 0 w =
  Ok (List.concat (map (fun '(k, y) =>
          repeat y (count_occ Z.eq_dec (map (fun x => wrap (List.length items) (floor_pos x)) xs) (Z.of_nat k)))
        (combine (seq 0 (List.length items)) items))) w.
Proof.
  intro P. rewrite (filter_loop_pure ev1 _ items w P). f_equal. apply index_array_const_from.
Qed.

(* ------------------------------------------------------------------------------------------ *)
(** a sub-evaluator whose result is a function of the item (the world may change) *)
Lemma steps_insens {A B} (g : A -> M B) (h : A -> B) l : forall w,
  (forall x w0, In x l -> exists w0', g x w0 = Ok (h x) w0') ->
  exists w', steps g l w (map h l) w'.
Proof.
  induction l as [|x r IH]; intros w H; cbn [map].
  - exists w. constructor.
  - destruct (H x w (or_introl eq_refl)) as (w1 & E).
    destruct (IH w1) as (w2 & St); [intros; apply H; now right|].
    exists w2. econstructor; eauto.
Qed.

(* ------------------------------------------------------------------------------------------ *)
(** * 5. Stacked predicates *)

(** relational description of a run of the predicate loop, world threaded *)
Inductive pred_run (flt : node -> list value -> M (list value)) :
  list node -> list value -> world -> ovalue -> world -> Prop :=
| pr_done cur w : pred_run flt [] cur w (Some (normalize_array cur)) w
| pr_empty f rest cur w w1 :
    flt f cur w = Ok [] w1 -> pred_run flt (f :: rest) cur w None w1
| pr_next f rest cur w kept w1 r w2 :
    flt f cur w = Ok kept w1 -> kept <> [] -> pred_run flt rest kept w1 r w2 ->
    pred_run flt (f :: rest) cur w r w2.

Theorem predicate_loop_run flt fs : forall cur w r w',
  predicate_loop flt fs cur w = Ok r w' <-> pred_run flt fs cur w r w'.
Proof.
  induction fs as [|f rest IH]; intros cur w r w'; cbn [predicate_loop].
  - rewrite ret_ok. split.
    + intros [<- <-]. constructor.
    + intro H. inversion H; subst. auto.
  - rewrite bind_ok. split.
    + intros (kept & w1 & E & H). destruct kept as [|k ks].
      * apply ret_ok in H as [<- <-]. now constructor.
      * eapply pr_next; eauto; [discriminate|]. now apply IH.
    + intro H. inversion H; subst.
      * exists [], w'. split; [assumption|reflexivity].
      * exists kept, w1. split; [assumption|].
        destruct kept; [congruence|]. now apply IH.
Qed.

(** functional form: if each filter's effect on a list is the function [F f] (whatever it does
    to the world), the loop computes [pred_sem]: each filter sees the survivors of the previous
    one; nothing kept = no value; one item kept = that item; otherwise the array *)
Theorem predicate_loop_spec flt (F : node -> list value -> list value) fs :
  (forall f cur w, In f fs -> exists w', flt f cur w = Ok (F f cur) w') ->
  forall cur w, exists w', predicate_loop flt fs cur w = Ok (pred_sem (map F fs) cur) w'.
Proof.
  induction fs as [|f rest IH]; intros H cur w; cbn [predicate_loop map pred_sem].
  - now exists w.
  - destruct (H f cur w (or_introl eq_refl)) as (w1 & E).
    unfold bind. rewrite E.
    destruct (F f cur) as [|k ks] eqn:K.
    + now exists w1.
    + apply IH. intros f' cur' w0 I. apply H. now right.
Qed.
Print Assumptions predicate_loop_spec.

(** error: the first failing filter's error is the result *)
Theorem predicate_loop_err flt f rest cur w e :
  flt f cur w = Err e -> predicate_loop flt (f :: rest) cur w = Err e.
Proof. intro E. cbn [predicate_loop]. unfold bind. now rewrite E. Qed.

Lemma normalize_array_normalize l : l <> [] -> Some (normalize_array l) = normalize l.
Proof. destruct l as [|x [|y r]]; intro H; [congruence|reflexivity|reflexivity]. Qed.

(** without the early exit: when filters keep nothing from nothing (true of every filter, see
    [filter_sem_nil]) the value is the normalised list of survivors of all the filters *)
Theorem pred_sem_fold Fs : forall cur,
  Forall (fun F => F [] = []) Fs -> (cur <> [] \/ Fs <> []) ->
  pred_sem Fs cur = pred_fold Fs cur.
Proof.
  unfold pred_fold.
  induction Fs as [|F rest IH]; intros cur A NE; cbn [pred_sem fold_left].
  - destruct NE as [NE|NE]; [|congruence]. now apply normalize_array_normalize.
  - inversion A as [|? ? A1 A2]; subst.
    destruct (F cur) as [|k ks] eqn:K.
    + clear -A2. induction rest as [|G r IHr]; cbn [fold_left]; [reflexivity|].
      inversion A2; subst. rewrite H1. now apply IHr.
    + apply IH; [assumption|]. left. discriminate.
Qed.
Print Assumptions pred_sem_fold.

Lemma filter_sem_nil rs : filter_sem [] rs = [].
Proof. reflexivity. Qed.

(** shape of the result *)
Lemma pred_sem_none_or_nonempty Fs cur :
  Forall (fun F => F [] = []) Fs -> Fs <> [] ->
  match pred_sem Fs cur with
  | None => fold_left (fun c F => F c) Fs cur = []
  | Some v => exists l, fold_left (fun c F => F c) Fs cur = l /\ l <> [] /\ v = normalize_array l
  end.
Proof.
  intros A NE. rewrite pred_sem_fold by auto. unfold pred_fold.
  destruct (fold_left (fun c F => F c) Fs cur) as [|x [|y r]] eqn:E; cbn [normalize].
  - reflexivity.
  - exists [x]. repeat split. discriminate.
  - exists (x :: y :: r). repeat split. discriminate.
Qed.

(* ------------------------------------------------------------------------------------------ *)
(** * 6. The evaluator's cases are these loops *)

Section EvalEquations.
  Variable fmt_num : f64 -> string.
  Variable regex_find : string -> string -> option (list (list (Z * Z))).
  Variable pow_fn : f64 -> f64 -> option f64.
  Variable xlib : string -> list carg -> option (lres ovalue).

  Local Notation eval := (eval fmt_num regex_find pow_fn xlib).
  Local Notation apply_filter := (apply_filter fmt_num regex_find pow_fn xlib).

  Lemma apply_filter_eq f flt items env :
    apply_filter (S f) flt items env =
    filter_loop (fun it => eval f flt it env) (List.length items) items 0.
  Proof. reflexivity. Qed.

  Lemma eval_predicate_eq f e filters input env :
    eval (S f) (NPredicate e filters) input env =
    bind (eval f e input env)
         (fun items => match items with
                       | None => ret None
                       | Some _ => predicate_loop (fun flt cur => apply_filter f flt cur env)
                                                  filters (arrayify items)
                       end).
  Proof. reflexivity. Qed.

  (** one application of a filter whose predicate evaluates successfully on every item *)
  Theorem apply_filter_spec f flt items env w rs w' :
    steps (fun x => eval f flt (Some x) env) items w rs w' ->
    apply_filter (S f) flt items env w = Ok (filter_sem items rs) w'.
  Proof. intro St. rewrite apply_filter_eq. now apply filter_loop_whole. Qed.

  (** e[p1]...[pk] when the predicates are functions of the item (the world may change, e.g. new
      frames, but the results do not depend on it): a non-array value of e counts as a one-item
      list; no value stays no value *)
  Theorem eval_predicate_spec f e filters input env w v w1
          (res : node -> value -> ovalue) :
    eval (S f) e input env w = Ok v w1 ->
    (forall p x w0, In p filters -> exists w0', eval f p (Some x) env w0 = Ok (res p x) w0') ->
    exists w',
      eval (S (S f)) (NPredicate e filters) input env w =
      Ok (match v with
          | None => None
          | Some _ => pred_sem (map (fun p items => filter_sem items (map (res p) items)) filters)
                               (arrayify v)
          end) w'.
  Proof.
    intros E H. rewrite eval_predicate_eq. unfold bind at 1. rewrite E.
    destruct v as [v0|]; [|now exists w1].
    apply (predicate_loop_spec (fun flt cur => apply_filter (S f) flt cur env)
                               (fun p items => filter_sem items (map (res p) items))).
    intros p cur w0 I.
    destruct (steps_insens (fun x => eval f p (Some x) env) (res p) cur w0) as (w0' & St).
    - intros x w2 _. now apply H.
    - exists w0'. now apply apply_filter_spec.
  Qed.

  (** closed instance: e[x] with a numeric literal x selects the item at position floor(x) of
      e's value (a non-array value is a one-item list), for every e, document and literal *)
  Theorem eval_index_literal f e x input env w v w1 :
    eval (S (S f)) e input env w = Ok (Some v) w1 ->
    eval (S (S (S f))) (NPredicate e [NNumber x]) input env w =
    Ok (hd_error (select_at (arrayify (Some v)) (floor_pos x))) w1.
  Proof.
    intro E. rewrite eval_predicate_eq. unfold bind at 1. rewrite E.
    cbn [predicate_loop]. unfold bind at 1. rewrite apply_filter_eq.
    rewrite (index_select_const (fun it => eval (S f) (NNumber x) it env) x); [|intros it w0; reflexivity].
    unfold select_at.
    destruct (pos_of (List.length (arrayify (Some v))) (floor_pos x)) as [k|]; [|reflexivity].
    now destruct (nth_error (arrayify (Some v)) k).
  Qed.
End EvalEquations.

Print Assumptions eval_predicate_spec.
Print Assumptions eval_index_literal.

(* ------------------------------------------------------------------------------------------ *)
(** * Examples: the hypotheses of the theorems above are satisfiable on concrete instances *)

Definition num_ (z : Z) : value := VNum (f_of_Z z).
Definition half_ (z : Z) : f64 := f_of_Zexp z (-1) false.       (* z / 2 *)
Definition ex_items : list value := [num_ 10; num_ 20; num_ 30; num_ 40].
Definition w0 : world := mkWorld [].

(* predicate "15 < item", a function of the item *)
Definition ex_gt15 (it : ovalue) : M ovalue :=
  ret (match it with Some (VNum x) => Some (VBool (fltb (f_of_Z 15) x)) | _ => None end).

Example filter_loop_spec_ex :
  exists rs, steps (fun x => ex_gt15 (Some x)) ex_items w0 rs w0 /\
             filter_loop ex_gt15 4 ex_items 0 w0 = Ok [num_ 20; num_ 30; num_ 40] w0.
Proof.
  exists [Some (VBool false); Some (VBool true); Some (VBool true); Some (VBool true)].
  assert (St : steps (fun x => ex_gt15 (Some x)) ex_items w0
                 [Some (VBool false); Some (VBool true); Some (VBool true); Some (VBool true)] w0)
    by (apply mapM_ok; vm_compute; reflexivity).
  split; [exact St|]. rewrite (filter_loop_spec _ _ _ _ _ _ _ St). vm_compute. reflexivity.
Qed.

(* the second item fails: its error is the loop's *)
Definition ex_fail2 (it : ovalue) : M ovalue :=
  match it with
  | Some (VNum x) => if feqb x (f_of_Z 20) then fail (EEval ErrTypeMismatch) else ret (Some (VBool true))
  | _ => ret None
  end.
Example filter_loop_err_ex : filter_loop ex_fail2 4 ex_items 0 w0 = Err (EEval ErrTypeMismatch).
Proof.
  apply (filter_loop_err ex_fail2 4 [num_ 10] (num_ 20) [num_ 30; num_ 40] 0 w0 [Some (VBool true)] w0).
  - apply mapM_ok. vm_compute. reflexivity.
  - vm_compute. reflexivity.
Qed.

(* e[-1.5]: floor = -2, counted back from the end of 4 items = index 2 *)
Example index_select_ex :
  filter_loop (fun _ => ret (Some (VNum (half_ (-3))))) 4 ex_items 0 w0 = Ok [num_ 30] w0.
Proof.
  rewrite (index_select_const _ (half_ (-3)) ex_items w0); [|intros it w; reflexivity].
  vm_compute. reflexivity.
Qed.
(* e[7]: out of range *)
Example index_select_ex_out : select_at ex_items (floor_pos (f_of_Z 7)) = [].
Proof. vm_compute. reflexivity. Qed.
Example index_select_ex_neg_out : select_at ex_items (floor_pos (f_of_Z (-5))) = [].
Proof. vm_compute. reflexivity. Qed.

(* strings as predicate results: non-positional, kept iff non-empty *)
Example bool_select_ex :
  filter_sem ex_items [Some (VStr "a"); Some (VStr ""); None; Some (VArr [VStr "x"; num_ 0])]
  = [num_ 10; num_ 40].
Proof.
  rewrite bool_select; [vm_compute; reflexivity| |reflexivity].
  repeat constructor.
Qed.

(* e[[0,0,-1]]: first item twice, last item once *)
Example index_array_ex :
  filter_loop (fun _ => ret (Some (VArr (map VNum [f_of_Z 0; f_of_Z 0; f_of_Z (-1)])))) 4 ex_items 0 w0
  = Ok [num_ 10; num_ 10; num_ 40] w0.
Proof.
  rewrite (index_array_const _ [f_of_Z 0; f_of_Z 0; f_of_Z (-1)] ex_items w0); [|intros it w; reflexivity].
  vm_compute. reflexivity.
Qed.

(* e[15 < $][0]: the second filter applies to the survivors of the first *)
Definition ex_flt (f : node) (cur : list value) : M (list value) :=
  filter_loop (match f with
               | NNumber x => fun _ => ret (Some (VNum x))
               | _ => ex_gt15
               end) (List.length cur) cur 0.
Definition ex_F (f : node) (cur : list value) : list value :=
  match f with
  | NNumber x => select_at cur (floor_pos x)
  | _ => filter (fun v => match v with VNum x => fltb (f_of_Z 15) x | _ => false end) cur
  end.

Example predicate_loop_ex :
  exists w', predicate_loop ex_flt [NNull; NNumber (f_of_Z 0)] ex_items w0 = Ok (Some (num_ 20)) w'.
Proof.
  assert (H : forall f cur w, In f [NNull; NNumber (f_of_Z 0)] ->
                              exists w', ex_flt f cur w = Ok (ex_F f cur) w').
  { intros f cur w I. exists w. destruct I as [<-|[<-|[]]]; unfold ex_flt, ex_F.
    - rewrite (filter_loop_pure ex_gt15
                 (fun it => match it with Some (VNum x) => Some (VBool (fltb (f_of_Z 15) x)) | _ => None end));
        [|intros it w1; reflexivity].
      f_equal. rewrite bool_select_fun.
      + apply filter_ext. intros [ | | | | | | ]; reflexivity.
      + intros [ | | | | | | ] _; reflexivity.
    - apply index_select_const. intros it w1. reflexivity. }
  destruct (predicate_loop_spec ex_flt ex_F _ H ex_items w0) as (w' & E).
  exists w'. rewrite E. vm_compute. reflexivity.
Qed.

(* the evaluator itself on [10,20,30,40][-1.5], dummy oracles *)
Example eval_index_literal_ex :
  eval (fun _ => "") (fun _ _ => None) (fun _ _ => None) (fun _ _ => None) 5
       (NPredicate (NArray [NNumber (f_of_Z 10); NNumber (f_of_Z 20); NNumber (f_of_Z 30); NNumber (f_of_Z 40)])
                   [NNumber (half_ (-3))]) None 0 w0
  = Ok (Some (num_ 30)) w0.
Proof.
  rewrite (eval_index_literal _ _ _ _ 2 _ _ None 0 w0 (VArr ex_items) w0); vm_compute; reflexivity.
Qed.
