(* Proofs/C20Proofs.v — property C20 (extensions: argument passing, typed failures, registry
   visibility) proved about the model: Model/Builtins.v ([prepare_call] = goCallable
   validateArgCount + validateArgTypes + processGoCallableArg) and Model/Process.v (registration
   validation, the registry state machine).  Declarative vocabulary: Spec/C20.v.

   All statements are for ALL signatures, argument lists and histories (induction; no bounds).
   No axioms: every [Print Assumptions] below reports "Closed under the global context". *)
From Coq Require Import Lia ZifyBool ZifyNat.
From JV Require Import Model.Process Spec.C20.
Local Open Scope nat_scope.
Local Open Scope list_scope.

(* ------------------------------------------------------------------------------------------ *)
(** * 1. Argument count *)

Lemma pad_optionals_spec ps : forall argv, pad_optionals ps argv = pad_spec ps argv.
Proof.
  unfold pad_spec. induction ps as [|p ps IH]; intros [|a r]; cbn [pad_optionals List.length skipn].
  - reflexivity.
  - cbn [opt_run repeat]. now rewrite app_nil_r.
  - cbn [opt_run app]. destruct (is_opt p) eqn:Ep; [|reflexivity].
    cbn [repeat]. rewrite (IH []). reflexivity.
  - cbn [app]. now rewrite IH.
Qed.

(* the padded list: the arguments are a prefix, nothing but "missing" is added, and nothing is
   added when the arguments already cover the parameters *)
Lemma pad_spec_length ps argv :
  List.length (pad_spec ps argv) = List.length argv + opt_run (skipn (List.length argv) ps).
Proof. unfold pad_spec. now rewrite app_length, repeat_length. Qed.

Lemma opt_run_le ps : opt_run ps <= List.length ps.
Proof. induction ps as [|p r IH]; cbn [opt_run List.length]; [lia|]. destruct (is_opt p); lia. Qed.

Lemma pad_spec_covered ps argv : List.length ps <= List.length argv -> pad_spec ps argv = argv.
Proof.
  intro H. unfold pad_spec. rewrite skipn_all2 by exact H. cbn. apply app_nil_r.
Qed.

Lemma pad_spec_length_le ps argv :
  List.length (pad_spec ps argv) <= Nat.max (List.length argv) (List.length ps).
Proof.
  rewrite pad_spec_length. pose proof (opt_run_le (skipn (List.length argv) ps)) as H.
  rewrite skipn_length in H. lia.
Qed.

(* all the parameters beyond the arguments are optional  <->  padding reaches the parameter count *)
Lemma pad_spec_full ps argv :
  List.length argv <= List.length ps ->
  (List.length (pad_spec ps argv) = List.length ps <->
   Forall (fun p => is_opt p = true) (skipn (List.length argv) ps)).
Proof.
  intro Hle. rewrite pad_spec_length.
  assert (G : forall l, opt_run l = List.length l <-> Forall (fun p => is_opt p = true) l).
  { induction l as [|p r IH]; cbn [opt_run List.length].
    - split; [constructor | reflexivity].
    - destruct (is_opt p) eqn:Ep.
      + split.
        * intro H. constructor; [exact Ep | apply IH; lia].
        * intro H. inversion H; subst. f_equal. now apply IH.
      + split; [lia | intro H; inversion H; congruence]. }
  rewrite <- G, skipn_length. lia.
Qed.

Definition with_context (sg : bsig) (ctx : ovalue) (argv : list ovalue) : list ovalue :=
  if ctx_handler (bs_ctx sg) argv then ctx :: argv else argv.

Theorem C20_arg_count sg ctx argv :
  let argv1 := with_context sg ctx argv in
  let argv2 := pad_spec (bs_params sg) argv1 in
  (* the undefined handler turns the call into "no value", before any count check *)
  (undef_handler (bs_undef sg) argv1 = true -> prepare_call sg ctx argv = PrepUndefined) /\
  (* otherwise: ArgCountError exactly when the padded count does not fit *)
  (undef_handler (bs_undef sg) argv1 = false ->
     prepare_call sg ctx argv <> PrepUndefined /\
     (prepare_call sg ctx argv = PrepArgCount <->
      ~ count_fits (bs_variadic sg) (List.length (bs_params sg)) (List.length argv2))).
Proof.
  cbv zeta. unfold prepare_call, with_context, count_fits.
  set (argv1 := if ctx_handler (bs_ctx sg) argv then ctx :: argv else argv).
  rewrite pad_optionals_spec.
  set (n := List.length (pad_spec (bs_params sg) argv1)).
  set (pc := List.length (bs_params sg)).
  split; intro Hu; rewrite Hu; [reflexivity|].
  destruct (bs_variadic sg) eqn:Ev; cbn [andb negb].
  - destruct (n <? pc - 1) eqn:En.
    + split; [discriminate|]. split; [lia | reflexivity].
    + destruct (conv_args _ _ _ _); (split; [discriminate|]); (split; [discriminate | lia]).
  - destruct (n =? pc) eqn:En; cbn [negb].
    + destruct (conv_args _ _ _ _); (split; [discriminate|]); (split; [discriminate | lia]).
    + split; [discriminate|]. split; [lia | reflexivity].
Qed.
Print Assumptions C20_arg_count.

(* what the handlers of env.go test (the two that extensions get by default are UNone/CNone) *)
Lemma undef_handler_arg0 argv :
  undef_handler UArg0 argv = true <-> exists r, argv = None :: r.
Proof.
  destruct argv as [|[v|] r]; cbn; split; try discriminate; eauto.
  - intros (r' & H); discriminate.
  - intros (r' & H); discriminate.
Qed.
Lemma undef_handler_none argv : undef_handler UNone argv = false.
Proof. reflexivity. Qed.
Lemma ctx_handler_none argv : ctx_handler CNone argv = false.
Proof. reflexivity. Qed.
Lemma ctx_handler_argc0 argv : ctx_handler CArgc0 argv = true <-> argv = [].
Proof. destruct argv; cbn; split; congruence. Qed.
Lemma ctx_handler_argc1 argv : ctx_handler CArgc1 argv = true <-> exists a, argv = [a].
Proof.
  destruct argv as [|a [|b r]]; cbn; split; try discriminate; eauto.
  - intros (x & H); discriminate.
  - intros (x & H); discriminate.
Qed.

(* $substring(start) in a path step: the context handler prepends the context item; the missing
   optional length is padded; the count fits *)
Example C20_arg_count_example :
  let sg := mkSig [GP GString; GP GInt; GOpt GInt] false UArg0 CSubstring in
  with_context sg (Some (VStr "hello")) [Some (VNum (f_of_Z 1))]
    = [Some (VStr "hello"); Some (VNum (f_of_Z 1))] /\
  pad_spec (bs_params sg) [Some (VStr "hello"); Some (VNum (f_of_Z 1))]
    = [Some (VStr "hello"); Some (VNum (f_of_Z 1)); None] /\
  prepare_call sg (Some (VStr "hello")) [Some (VNum (f_of_Z 1))]
    = PrepArgs [AStr "hello"; AInt 1; AOpt None] /\
  prepare_call sg (Some (VStr "hello")) [] = PrepArgCount /\
  prepare_call sg (Some (VStr "hello")) [None; Some (VNum (f_of_Z 1))] = PrepUndefined /\
  (* variadic: at least n-1 *)
  prepare_call (mkSig [GP GString; GP GFloat] true UNone CNone) None [] = PrepArgCount /\
  prepare_call (mkSig [GP GString; GP GFloat] true UNone CNone) None [Some (VStr "a")]
    = PrepArgs [AStr "a"].
Proof. vm_compute. repeat split. Qed.

(* ------------------------------------------------------------------------------------------ *)
(** * 2. The conversion matrix *)

Theorem C20_convert_simple t v c : conv_simple t v = Some c <-> converts t v c.
Proof.
  split.
  - destruct t, v; cbn; intro H; inversion H; subst; constructor.
  - intro H. destruct H; reflexivity.
Qed.

(* the matrix read by rows: which value kinds each parameter type accepts *)
Corollary conv_string_only_from_string v c :
  conv_simple GString v = Some c -> exists s, v = VStr s /\ c = AStr s.
Proof. intro H. apply C20_convert_simple in H. inversion H; subst. eauto. Qed.

Corollary conv_number_to_any_numeric x :
  conv_simple GFloat (VNum x) = Some (AFloat x) /\ conv_simple GInt (VNum x) = Some (AInt (go_int x)) /\
  conv_simple GInt64 (VNum x) = Some (AInt (go_int x)) /\ conv_simple GUint8 (VNum x) = Some AOther.
Proof. repeat split. Qed.

Corollary conv_any_to_iface v :
  conv_simple GIface v = Some (AVal (Some v)) /\ conv_simple GValue v = Some (AVal (Some v)).
Proof. split; reflexivity. Qed.

(* the complete table of accepted kinds: [kind_of v] against each type *)
Inductive vkind := KNull | KBool | KNum | KStr | KArr | KObj | KFun.
Definition kind_of (v : value) : vkind :=
  match v with
  | VNull => KNull | VBool _ => KBool | VNum _ => KNum | VStr _ => KStr
  | VArr _ => KArr | VObj _ => KObj | VFun _ => KFun
  end.
Definition accepts (t : gtype) (k : vkind) : bool :=
  match t, k with
  | GIface, _ | GValue, _ => true
  | GString, KStr | GBytes, KStr => true
  | GFloat, KNum | GInt, KNum | GInt64, KNum | GUint8, KNum => true
  | GBool, KBool => true
  | GCallable, KFun => true
  | GSliceIface, KArr => true
  | GMapIface, KObj => true
  | _, _ => false
  end.
Lemma conv_simple_accepts t v : (exists c, conv_simple t v = Some c) <-> accepts t (kind_of v) = true.
Proof.
  destruct t, v; cbn; split; intro H; try discriminate; try reflexivity; eauto;
    destruct H as (c0 & H0); discriminate.
Qed.

Lemma converts_fun t v c1 c2 : converts t v c1 -> converts t v c2 -> c1 = c2.
Proof. intros H1 H2. apply C20_convert_simple in H1, H2. congruence. Qed.

(* the variant loop of conv_arg, named *)
Fixpoint first_valid (ts : list gtype) (v : value) : option carg :=
  match ts with
  | [] => None
  | t :: r => match conv_simple t v with Some c => Some c | None => first_valid r v end
  end.
Lemma conv_arg_variant ts v : conv_arg (GVariant ts) (Some v) = first_valid ts v.
Proof. cbn [conv_arg]. induction ts as [|t r IH]; cbn [first_valid]; [reflexivity|]. now rewrite IH. Qed.

Lemma first_valid_some ts v c :
  first_valid ts v = Some c <->
  exists before t after, ts = before ++ t :: after /\
    (forall t', In t' before -> conv_simple t' v = None) /\ conv_simple t v = Some c.
Proof.
  induction ts as [|t r IH]; cbn [first_valid].
  - split; [discriminate|]. intros (b & t & a & H & _). destruct b; discriminate.
  - destruct (conv_simple t v) as [c0|] eqn:E.
    + split.
      * intro H. exists [], t, r. split; [reflexivity|]. split; [intros ? []|congruence].
      * intros ([|t0 b] & t1 & a & H & Hb & Hc); inversion H; subst.
        -- congruence.
        -- rewrite (Hb t0 (or_introl eq_refl)) in E. discriminate.
    + rewrite IH. split.
      * intros (b & t1 & a & -> & Hb & Hc). exists (t :: b), t1, a. split; [reflexivity|].
        split; [|exact Hc]. intros t' [<-|Hin]; [exact E | now apply Hb].
      * intros ([|t0 b] & t1 & a & H & Hb & Hc); inversion H; subst.
        -- congruence.
        -- exists b, t1, a. split; [reflexivity|]. split; [|exact Hc].
           intros t' Hin. apply Hb. now right.
Qed.

Lemma conv_none_iff t v : conv_simple t v = None <-> forall c, ~ converts t v c.
Proof.
  split.
  - intros H c Hc. apply C20_convert_simple in Hc. congruence.
  - intro H. destruct (conv_simple t v) as [c|] eqn:E; [|reflexivity].
    exfalso. apply (H c). now apply C20_convert_simple.
Qed.

Theorem C20_convert p a c : conv_arg p a = Some c <-> arg_converts p a c.
Proof.
  split.
  - destruct a as [v|].
    + destruct p as [t|t|ts].
      * cbn [conv_arg]. intro H. constructor. now apply C20_convert_simple.
      * cbn [conv_arg]. destruct (conv_simple t v) as [c0|] eqn:E; cbn [option_map]; intro H;
          inversion H; subst. constructor. now apply C20_convert_simple.
      * rewrite conv_arg_variant, first_valid_some.
        intros (b & t & af & -> & Hb & Hc). constructor.
        -- intros t' Hin. apply conv_none_iff. now apply Hb.
        -- now apply C20_convert_simple.
    + destruct p as [t|t|ts]; cbn [conv_arg]; try discriminate.
      * destruct t; intro H; inversion H; subst; constructor.
      * intro H; inversion H; subst; constructor.
  - intro H. destruct H as [t| | |t v c Hc|t v c Hc|b t af v c Hb Hc]; try reflexivity.
    + cbn [conv_arg]. now apply C20_convert_simple.
    + cbn [conv_arg]. apply C20_convert_simple in Hc. now rewrite Hc.
    + rewrite conv_arg_variant, first_valid_some. exists b, t, af. split; [reflexivity|].
      split; [|now apply C20_convert_simple].
      intros t' Hin. apply conv_none_iff. now apply Hb.
Qed.
Print Assumptions C20_convert.

(* conversion is a (partial) function of parameter and argument *)
Corollary arg_converts_fun p a c1 c2 : arg_converts p a c1 -> arg_converts p a c2 -> c1 = c2.
Proof. intros H1 H2. apply C20_convert in H1, H2. congruence. Qed.

(* a missing argument: unset for optional parameters, nil for interface{} / reflect.Value,
   an argument-type failure for everything else (in particular for every variant) *)
Corollary C20_convert_missing p c :
  arg_converts p None c <->
  (exists t, p = GOpt t /\ c = AOpt None) \/ ((p = GP GIface \/ p = GP GValue) /\ c = AVal None).
Proof.
  split.
  - intro H. inversion H; subst; eauto.
  - intros [(t & -> & ->)|([->| ->] & ->)]; constructor.
Qed.

Example C20_convert_example :
  (* the variant StringNumberBool = [bool; string; float64] takes the first valid type *)
  conv_arg SNB (Some (VStr "x")) = Some (AStr "x") /\
  conv_arg SNB (Some (VNum (f_of_Z 2))) = Some (AFloat (f_of_Z 2)) /\
  conv_arg SNB (Some VNull) = None /\ conv_arg SNB None = None /\
  (* nothing but a string converts to string: not even a number *)
  conv_arg (GP GString) (Some (VNum (f_of_Z 2))) = None /\
  conv_arg (GOpt GInt) (Some (VNum (f_of_Z 7))) = Some (AOpt (Some (AInt 7))) /\
  conv_arg (GOpt GInt) None = Some (AOpt None) /\
  conv_arg (GP GValue) None = Some (AVal None) /\ conv_arg (GP GFloat) None = None.
Proof. vm_compute. repeat split. Qed.

(* ------------------------------------------------------------------------------------------ *)
(** * 3. Argument types *)

Definition pick (ps : list gparam) (lastp : option gparam) (j : nat) : option gparam :=
  match nth_error ps j with Some p => Some p | None => lastp end.

Lemma pick_cons_S p ps lastp j : pick (p :: ps) lastp (S j) = pick ps lastp j.
Proof. reflexivity. Qed.
Lemma pick_nil lastp j : pick [] lastp j = lastp.
Proof. unfold pick. now destruct j. Qed.

Definition conv_at (ps : list gparam) (lastp : option gparam) (j : nat) (a : ovalue) : option carg :=
  match pick ps lastp j with Some p => conv_arg p a | None => None end.

Lemma conv_args_inl lastp : forall argv ps i cs,
  conv_args ps lastp argv i = inl cs ->
  List.length cs = List.length argv /\
  forall j a, nth_error argv j = Some a ->
    exists c, conv_at ps lastp j a = Some c /\ nth_error cs j = Some c.
Proof.
  induction argv as [|a r IH]; intros ps i cs H; cbn [conv_args] in H.
  - inversion H; subst. split; [reflexivity|]. intros [|j] a0 Hn; discriminate.
  - set (pp := match ps with p :: ps' => (Some p, ps') | [] => (lastp, []) end) in H.
    assert (Epp : pp = (pick ps lastp 0, tl ps)).
    { subst pp. destruct ps; reflexivity. }
    destruct pp as [p ps']. inversion Epp; subst p ps'. clear Epp.
    destruct (pick ps lastp 0) as [p|] eqn:Ep; [|discriminate].
    destruct (conv_arg p a) as [c|] eqn:Ec; [|discriminate].
    destruct (conv_args (tl ps) lastp r (S i)) as [cs'|k] eqn:Er; [|discriminate].
    inversion H; subst cs. destruct (IH _ _ _ Er) as [Hlen Hnth].
    split; [cbn; now rewrite Hlen|].
    intros [|j] a0 Hn; cbn [nth_error] in *.
    + inversion Hn; subst a0. exists c. unfold conv_at. rewrite Ep. auto.
    + destruct (Hnth j a0 Hn) as (c0 & Hc0 & Hn0). exists c0. split; [|exact Hn0].
      unfold conv_at in *. destruct ps as [|p0 ps0]; cbn [tl] in Hc0.
      * now rewrite pick_nil in *.
      * now rewrite pick_cons_S.
Qed.

Lemma conv_args_inr lastp : forall argv ps i k,
  conv_args ps lastp argv i = inr k ->
  exists j a, k = i + j /\ nth_error argv j = Some a /\ conv_at ps lastp j a = None /\
    forall j' a', j' < j -> nth_error argv j' = Some a' -> exists c, conv_at ps lastp j' a' = Some c.
Proof.
  induction argv as [|a r IH]; intros ps i k H; cbn [conv_args] in H; [discriminate|].
  set (pp := match ps with p :: ps' => (Some p, ps') | [] => (lastp, []) end) in H.
  assert (Epp : pp = (pick ps lastp 0, tl ps)).
  { subst pp. destruct ps; reflexivity. }
  destruct pp as [p ps']. inversion Epp; subst p ps'. clear Epp.
  assert (Hshift : forall j x, conv_at (tl ps) lastp j x = conv_at ps lastp (S j) x).
  { intros j x. unfold conv_at. destruct ps as [|p0 ps0]; cbn [tl].
    - now rewrite !pick_nil.
    - now rewrite pick_cons_S. }
  destruct (pick ps lastp 0) as [p|] eqn:Ep.
  - destruct (conv_arg p a) as [c|] eqn:Ec.
    + destruct (conv_args (tl ps) lastp r (S i)) as [cs'|k'] eqn:Er; [discriminate|].
      inversion H; subst k'. destruct (IH _ _ _ Er) as (j & a0 & Hk & Hn & Hbad & Hgood).
      exists (S j), a0. split; [lia|]. split; [exact Hn|]. split; [now rewrite <- Hshift|].
      intros [|j'] a' Hlt Hn'; cbn [nth_error] in Hn'.
      * inversion Hn'; subst a'. exists c. unfold conv_at. now rewrite Ep.
      * rewrite <- Hshift. apply Hgood; [lia | exact Hn'].
    + inversion H; subst k. exists 0, a. split; [lia|]. split; [reflexivity|].
      split; [unfold conv_at; now rewrite Ep|]. intros j' a' Hlt; lia.
  - inversion H; subst k. exists 0, a. split; [lia|]. split; [reflexivity|].
    split; [unfold conv_at; now rewrite Ep|]. intros j' a' Hlt; lia.
Qed.

Lemma last_map_some (ps : list gparam) : last (map Some ps) None = last_param ps.
Proof.
  unfold last_param. induction ps as [|p r IH]; [reflexivity|].
  destruct r as [|q r']; [reflexivity|].
  change (last (map Some (p :: q :: r')) None) with (last (map Some (q :: r')) None).
  rewrite IH. cbn [List.length]. replace (S (S (List.length r')) - 1) with (S (S (List.length r') - 1)) by lia.
  reflexivity.
Qed.

Lemma pick_param_for ps j : pick ps (last (map Some ps) None) j = param_for ps j.
Proof. unfold pick, param_for. now rewrite last_map_some. Qed.

Lemma conv_at_ok ps j a :
  (exists c, conv_at ps (last (map Some ps) None) j a = Some c) <-> arg_ok ps j a.
Proof.
  unfold conv_at, arg_ok. rewrite pick_param_for. destruct (param_for ps j) as [p|].
  - split.
    + intros (c & H). exists p, c. split; [reflexivity | now apply C20_convert].
    + intros (p' & c & Hp & H). inversion Hp; subst p'. exists c. now apply C20_convert.
  - split; [intros (c & H); discriminate | intros (p' & c & Hp & _); discriminate].
Qed.

Lemma nth_error_ext_eq {A} : forall (l l' : list A),
  (forall j, nth_error l j = nth_error l' j) -> l = l'.
Proof.
  induction l as [|x r IH]; intros [|y r'] H.
  - reflexivity.
  - specialize (H 0). discriminate.
  - specialize (H 0). discriminate.
  - pose proof (H 0) as H0. cbn in H0. inversion H0; subst. f_equal. apply IH.
    intro j. exact (H (S j)).
Qed.

(* the result of the conversion pass, declaratively *)
Lemma conv_args_spec ps argv :
  let r := conv_args ps (last (map Some ps) None) argv 1 in
  (forall cs, r = inl cs <-> converts_all ps argv cs) /\
  (forall k, r = inr k <-> exists j, k = S j /\ first_bad ps argv j).
Proof.
  cbv zeta. set (lastp := last (map Some ps) None).
  assert (Fwd1 : forall cs, conv_args ps lastp argv 1 = inl cs -> converts_all ps argv cs).
  { intros cs H. destruct (conv_args_inl _ _ _ _ _ H) as [Hlen Hnth]. split; [exact Hlen|].
    intros j a Hn. destruct (Hnth j a Hn) as (c & Hc & Hcs).
    unfold conv_at in Hc. subst lastp. rewrite pick_param_for in Hc.
    destruct (param_for ps j) as [p|]; [|discriminate].
    exists p, c. split; [reflexivity|]. split; [now apply C20_convert | exact Hcs]. }
  assert (Fwd2 : forall k, conv_args ps lastp argv 1 = inr k -> exists j, k = S j /\ first_bad ps argv j).
  { intros k H. destruct (conv_args_inr _ _ _ _ _ H) as (j & a & Hk & Hn & Hbad & Hgood).
    exists j. split; [lia|]. split.
    - exists a. split; [exact Hn|]. intro Hok. apply conv_at_ok in Hok. destruct Hok as (c & Hc).
      subst lastp. congruence.
    - intros j' a' Hlt Hn'. apply conv_at_ok. now apply (Hgood j' a'). }
  (* the two descriptions exclude one another, and each determines its witness *)
  assert (Excl : forall cs j, converts_all ps argv cs -> first_bad ps argv j -> False).
  { intros cs j [_ Hall] [(a & Hn & Hbad) _]. destruct (Hall j a Hn) as (p & c & Hp & Hc & _).
    apply Hbad. exists p, c. auto. }
  assert (Det1 : forall cs cs', converts_all ps argv cs -> converts_all ps argv cs' -> cs = cs').
  { intros cs cs' [L1 H1] [L2 H2]. apply nth_error_ext_eq. intro j.
    destruct (nth_error argv j) as [a|] eqn:Hn.
    - destruct (H1 j a Hn) as (p & c & Hp & Hc & Hcs).
      destruct (H2 j a Hn) as (p' & c' & Hp' & Hc' & Hcs').
      rewrite Hcs, Hcs'. f_equal. rewrite Hp in Hp'. inversion Hp'; subst p'.
      eapply arg_converts_fun; eauto.
    - apply nth_error_None in Hn.
      assert (E1 : nth_error cs j = None) by (apply nth_error_None; lia).
      assert (E2 : nth_error cs' j = None) by (apply nth_error_None; lia).
      now rewrite E1, E2. }
  assert (Det2 : forall j j', first_bad ps argv j -> first_bad ps argv j' -> j = j').
  { intros j j' [(a & Hn & Hbad) Hgood] [(a' & Hn' & Hbad') Hgood'].
    destruct (Nat.lt_trichotomy j j') as [Hlt|[Heq|Hlt]]; [|exact Heq|].
    - exfalso. apply Hbad. now apply (Hgood' j a).
    - exfalso. apply Hbad'. now apply (Hgood j' a'). }
  split.
  - intro cs. split; [apply Fwd1|]. intro Hc.
    destruct (conv_args ps lastp argv 1) as [cs'|k] eqn:E.
    + f_equal. symmetry. apply Det1; [exact Hc | now apply Fwd1].
    + exfalso. destruct (Fwd2 k eq_refl) as (j & _ & Hb). exact (Excl _ _ Hc Hb).
  - intro k. split; [apply Fwd2|]. intros (j & -> & Hb).
    destruct (conv_args ps lastp argv 1) as [cs'|k] eqn:E.
    + exfalso. exact (Excl _ _ (Fwd1 cs' eq_refl) Hb).
    + destruct (Fwd2 k eq_refl) as (j' & -> & Hb'). f_equal. f_equal. now apply Det2.
Qed.

Theorem C20_arg_type sg ctx argv :
  let argv1 := with_context sg ctx argv in
  let argv2 := pad_spec (bs_params sg) argv1 in
  undef_handler (bs_undef sg) argv1 = false ->
  count_fits (bs_variadic sg) (List.length (bs_params sg)) (List.length argv2) ->
  (* success: every (padded) argument converted against its parameter, in order *)
  (forall cs, prepare_call sg ctx argv = PrepArgs cs <-> converts_all (bs_params sg) argv2 cs) /\
  (* ArgTypeError names the 1-based position of the FIRST argument that does not convert *)
  (forall k, prepare_call sg ctx argv = PrepArgType k <->
             exists j, k = S j /\ first_bad (bs_params sg) argv2 j) /\
  (* and one of the two happens *)
  ((exists cs, prepare_call sg ctx argv = PrepArgs cs) \/ (exists k, prepare_call sg ctx argv = PrepArgType k)).
Proof.
  cbv zeta. intros Hu Hfit.
  destruct (C20_arg_count sg ctx argv) as [_ Hc]. cbv zeta in Hc. destruct (Hc Hu) as [_ Hcnt]. clear Hc.
  assert (Hnc : prepare_call sg ctx argv <> PrepArgCount) by (intro E; now apply Hcnt in E).
  unfold prepare_call in *. fold (with_context sg ctx argv) in *. rewrite Hu in *.
  rewrite pad_optionals_spec in *.
  set (argv2 := pad_spec (bs_params sg) (with_context sg ctx argv)) in *.
  destruct (conv_args_spec (bs_params sg) argv2) as [S1 S2]. cbv zeta in S1, S2.
  destruct (bs_variadic sg && (List.length argv2 <? List.length (bs_params sg) - 1)) eqn:E1;
    [now elim Hnc|].
  destruct (negb (bs_variadic sg) && negb (List.length argv2 =? List.length (bs_params sg))) eqn:E2;
    [now elim Hnc|].
  destruct (conv_args (bs_params sg) (last (map Some (bs_params sg)) None) argv2 1) as [cs0|k0] eqn:E.
  - split; [|split].
    + intro cs. rewrite <- S1. split; intro H; inversion H; reflexivity.
    + intro k. rewrite <- S2. split; intro H; discriminate.
    + left. eauto.
  - split; [|split].
    + intro cs. rewrite <- S1. split; intro H; discriminate.
    + intro k. rewrite <- S2. split; intro H; inversion H; reflexivity.
    + right. eauto.
Qed.
Print Assumptions C20_arg_type.

(* surplus arguments of a variadic call are checked against the last parameter *)
Lemma param_for_surplus ps j : List.length ps <= j -> param_for ps j = last_param ps.
Proof. intro H. unfold param_for. apply nth_error_None in H. now rewrite H. Qed.
Lemma param_for_within ps j p : nth_error ps j = Some p -> param_for ps j = Some p.
Proof. intro H. unfold param_for. now rewrite H. Qed.

Example C20_arg_type_example :
  let sg := mkSig [GP GString; GP GFloat] true UNone CNone in
  let str s := Some (VStr s) in let num z := Some (VNum (f_of_Z z)) in
  (* f(string, ...float64): surplus arguments are converted with the last parameter *)
  prepare_call sg None [str "a"; num 1%Z; num 2%Z; num 3%Z]
    = PrepArgs [AStr "a"; AFloat (f_of_Z 1); AFloat (f_of_Z 2); AFloat (f_of_Z 3)] /\
  (* ... and the first one that does not convert is named (position 3, not 4) *)
  prepare_call sg None [str "a"; num 1%Z; str "b"; Some VNull] = PrepArgType 3 /\
  (* a missing argument to a variadic float64 tail: ArgTypeError (no panic in this path) *)
  prepare_call sg None [str "a"; None] = PrepArgType 2 /\
  prepare_call sg None [num 1%Z] = PrepArgType 1 /\
  first_bad (bs_params sg) [str "a"; num 1%Z; str "b"; Some VNull] 2.
Proof.
  cbv zeta. repeat split; try (vm_compute; reflexivity).
  - exists (Some (VStr "b")). split; [reflexivity|].
    intros (p & c & Hp & Hc). vm_compute in Hp. inversion Hp; subst p.
    apply C20_convert in Hc. discriminate.
  - intros j' a Hlt Hn. apply conv_at_ok.
    destruct j' as [|[|j']]; [| |lia]; inversion Hn; subst a; eexists; vm_compute; reflexivity.
Qed.

(* ------------------------------------------------------------------------------------------ *)
(** * 4. Registration-time validation *)

(* an invalid registration changes nothing and is reported *)
Lemma rejected_global b p vals : proc_step b p (OpRegisterGlobal vals false) = (p, ORejected).
Proof. reflexivity. Qed.

Lemma rejected_expr b p e vals :
  fst (proc_step b p (OpRegisterExpr e vals false)) = p /\
  (e < List.length (p_exprs p) -> snd (proc_step b p (OpRegisterExpr e vals false)) = ORejected).
Proof.
  cbn [proc_step]. destruct (nth_error (p_exprs p) e) eqn:E; split; try reflexivity.
  intro H. apply nth_error_None in E. lia.
Qed.

Lemma last_param_cons p r :
  last_param (p :: r) = match r with [] => Some p | _ :: _ => last_param r end.
Proof.
  unfold last_param. destruct r as [|q r']; [reflexivity|]. cbn [List.length].
  replace (S (S (List.length r')) - 1) with (S (S (List.length r') - 1)) by lia. reflexivity.
Qed.

Definition opt_closed (ps : list gparam) : Prop :=
  forall i j p q, i < j -> nth_error ps i = Some p -> nth_error ps j = Some q ->
                  is_opt p = true -> is_opt q = true.

Lemma opt_closed_cons p r :
  opt_closed (p :: r) <->
  (is_opt p = true -> Forall (fun q => is_opt q = true) r) /\ opt_closed r.
Proof.
  split.
  - intro H. split.
    + intro Hp. apply Forall_forall. intros q Hin. apply In_nth_error in Hin as (j & Hj).
      apply (H 0 (S j) p q); [lia | reflexivity | exact Hj | exact Hp].
    + intros i j p' q' Hlt Hi Hj. apply (H (S i) (S j) p' q'); [lia | exact Hi | exact Hj].
  - intros [Hf Hr] i j p' q' Hlt Hi Hj Hp'. destruct i as [|i'].
    + inversion Hi; subst p'. destruct j as [|j']; [lia|]. cbn [nth_error] in Hj.
      apply nth_error_In in Hj. pose proof (Hf Hp') as F. rewrite Forall_forall in F. now apply F.
    + destruct j as [|j']; [lia|]. apply (Hr i' j' p' q'); [lia | exact Hi | exact Hj | exact Hp'].
Qed.

Lemma opt_closed_nil : opt_closed [].
Proof. intros [|i] j p q _ Hi; discriminate. Qed.

Definition variadic_ok (v : bool) (ps : list gparam) : Prop :=
  v = true -> forall p, last_param ps = Some p -> is_opt p = false.
Definition variants_ok (ps : list gparam) : Prop :=
  forall ts, In (GVariant ts) ps -> 2 <= List.length ts.

Lemma variadic_ok_cons v p r :
  variadic_ok v (p :: r) <->
  match r with [] => v = true -> is_opt p = false | _ :: _ => variadic_ok v r end.
Proof.
  unfold variadic_ok. rewrite last_param_cons. destruct r as [|q r']; [|reflexivity].
  split.
  - intros H Hv. now apply (H Hv p).
  - intros H Hv p0 Hp. inversion Hp; subst. now apply H.
Qed.

Lemma valid_params_from_spec v : forall ps seen,
  valid_params_from ps v seen = true <->
  (seen = true -> Forall (fun q => is_opt q = true) ps) /\
  opt_closed ps /\ variadic_ok v ps /\ variants_ok ps.
Proof.
  induction ps as [|p r IH]; intro seen.
  - cbn [valid_params_from]. split; [|reflexivity]. intros _.
    split; [constructor|]. split; [apply opt_closed_nil|].
    split; [intros _ p H; discriminate | intros ts []].
  - cbn [valid_params_from].
    assert (Hlast : (match r with [] => true | _ :: _ => false end) = true <-> r = []).
    { destruct r; split; congruence. }
    rewrite opt_closed_cons, variadic_ok_cons.
    assert (Hvar : forall (P : Prop), variants_ok (p :: r) <->
                     (forall ts, p = GVariant ts -> 2 <= List.length ts) /\ variants_ok r).
    { intros _. unfold variants_ok. split.
      - intro H. split; [intros ts ->; apply H; now left | intros ts Hin; apply H; now right].
      - intros [H1 H2] ts [Hp|Hin]; [now apply H1 | now apply H2]. }
    rewrite (Hvar True). clear Hvar.
    destruct p as [t|t|ts0].
    + (* plain parameter *)
      rewrite andb_true_iff, negb_true_iff, IH. cbn [is_opt]. split.
      * intros (Hs & A & B & C & D). subst seen.
        split; [discriminate|]. split; [split; [discriminate | exact B]|].
        split; [destruct r; [reflexivity | exact C]|]. split; [discriminate | exact D].
      * intros (A & (_ & B) & C & _ & D).
        assert (Hs : seen = false).
        { destruct seen; [|reflexivity]. specialize (A eq_refl). inversion A; discriminate. }
        split; [exact Hs|]. subst seen. split; [discriminate|]. split; [exact B|].
        split; [|exact D]. destruct r; [|exact C]. intros _ p Hp; discriminate.
    + (* optional parameter *)
      rewrite andb_true_iff, negb_true_iff, IH. cbn [is_opt]. split.
      * intros (Hn & A & B & C & D). specialize (A eq_refl).
        split; [intros _; now constructor|]. split; [split; [intros _; exact A | exact B]|].
        split; [|split; [discriminate | exact D]].
        destruct r as [|q r']; [|exact C]. intro Hv. subst v. discriminate.
      * intros (_ & (A & B) & C & _ & D).
        split; [|split; [intros _; now apply A|]; split; [exact B|]; split; [|exact D]].
        -- destruct r as [|q r']; [|now rewrite andb_false_r].
           destruct v; [|reflexivity]. specialize (C eq_refl). discriminate.
        -- destruct r; [|exact C]. intros _ p Hp; discriminate.
    + (* variant parameter *)
      rewrite !andb_true_iff, negb_true_iff, IH, Nat.leb_le. cbn [is_opt]. split.
      * intros ((Hs & Hl) & A & B & C & D). subst seen.
        split; [discriminate|]. split; [split; [discriminate | exact B]|].
        split; [destruct r; [reflexivity | exact C]|].
        split; [intros ts E; inversion E; subst; exact Hl | exact D].
      * intros (A & (_ & B) & C & Hl & D).
        assert (Hs : seen = false).
        { destruct seen; [|reflexivity]. specialize (A eq_refl). inversion A; discriminate. }
        split; [split; [exact Hs | now apply Hl]|]. subst seen.
        split; [discriminate|]. split; [exact B|].
        split; [|exact D]. destruct r; [|exact C]. intros _ p Hp; discriminate.
Qed.

Theorem valid_shape_spec s : valid_shape s = true <-> shape_ok s.
Proof.
  unfold valid_shape, shape_ok. rewrite andb_true_iff, valid_params_from_spec.
  assert (Hf : valid_func s = true <->
               es_nout s = 1 \/ (es_nout s = 2 /\ es_second_is_error s = true)).
  { unfold valid_func. destruct (es_nout s) as [|[|[|n]]].
    - split; [discriminate | intros [H|[H _]]; discriminate].
    - split; [now left | reflexivity].
    - split; [intro H; right; now split | intros [H|[_ H]]; [discriminate | exact H]].
    - split; [discriminate | intros [H|[H _]]; discriminate]. }
  rewrite Hf. unfold opt_closed, variadic_ok, variants_ok. split.
  - intros (A & _ & B & C & D). auto.
  - intros (A & B & C & D). split; [exact A|]. split; [discriminate|]. auto.
Qed.

Theorem valid_name_spec s : valid_name s = true <-> name_ok s.
Proof.
  unfold valid_name, name_ok. rewrite andb_true_iff, negb_true_iff, forallb_forall, Forall_forall.
  split; intros [A B]; split.
  - intro E. subst s. discriminate.
  - intros c Hin. specialize (B c Hin). unfold name_char_ok in B. unfold word_char. cbv zeta in *. lia.
  - destruct (seqb s "") eqn:E; [|reflexivity]. apply seqb_eq in E. contradiction.
  - intros c Hin. specialize (B c Hin). unfold name_char_ok. unfold word_char in B. cbv zeta in *. lia.
Qed.

(* a registration request: names, and for extensions (not variables) the shape of the Go function;
   [registration_ok] is the flag that processExts / processVars compute for it *)
Definition registration_ok (req : list (string * option ext_shape)) : bool :=
  forallb (fun ns => valid_name (fst ns) &&
                     match snd ns with Some s => valid_shape s | None => true end) req.

Theorem C20_registration b p req vals :
  (exists n sh, In (n, sh) req /\ (~ name_ok n \/ exists s, sh = Some s /\ ~ shape_ok s)) ->
  proc_step b p (OpRegisterGlobal vals (registration_ok req)) = (p, ORejected) /\
  forall e, fst (proc_step b p (OpRegisterExpr e vals (registration_ok req))) = p /\
            (e < List.length (p_exprs p) ->
             snd (proc_step b p (OpRegisterExpr e vals (registration_ok req))) = ORejected).
Proof.
  intros (n & sh & Hin & Hbad).
  assert (E : registration_ok req = false).
  { destruct (registration_ok req) eqn:E; [|reflexivity]. exfalso.
    unfold registration_ok in E. rewrite forallb_forall in E. specialize (E _ Hin).
    cbn [fst snd] in E. apply andb_true_iff in E as [E1 E2].
    destruct Hbad as [Hn|(s & -> & Hs)].
    - apply Hn. now apply valid_name_spec.
    - apply Hs. now apply valid_shape_spec. }
  rewrite E. split; [apply rejected_global | intro e; apply rejected_expr].
Qed.
Print Assumptions C20_registration.

Example C20_registration_example :
  (* func(OptionalInt, string): non-optional after optional; func(...OptionalInt); three results;
     a name with a dash; the empty name *)
  valid_shape (mkShape [GOpt GInt; GP GString] false 1 false) = false /\
  valid_shape (mkShape [GP GString; GOpt GInt] true 1 false) = false /\
  valid_shape (mkShape [GP GString] false 3 true) = false /\
  valid_shape (mkShape [GP GString] false 2 false) = false /\
  valid_shape (mkShape [GP GString; GOpt GInt; GOpt GString] false 2 true) = true /\
  valid_name "my-func" = false /\ valid_name "" = false /\ valid_name "my_Func2" = true /\
  proc_step (fun _ => false) (mkProc [("a", 1)] [])
            (OpRegisterGlobal [("my-func", 2)] (registration_ok [("my-func", None)]))
    = (mkProc [("a", 1)] [], ORejected).
Proof. vm_compute. repeat split. Qed.

(* ------------------------------------------------------------------------------------------ *)
(** * 5. Registry visibility *)

(** ** registries: the last binding of a name wins *)

Lemma seqb_false_neq a b : seqb a b = false <-> a <> b.
Proof.
  split.
  - intros H E. subst. rewrite seqb_refl in H. discriminate.
  - intro N. destruct (seqb a b) eqn:E; [|reflexivity]. apply seqb_eq in E. contradiction.
Qed.

Lemma reg_get_reg_set name n b r :
  reg_get name (reg_set n b r) = if seqb n name then Some b else reg_get name r.
Proof.
  induction r as [|[n0 x] t IH]; cbn [reg_set reg_get]; [reflexivity|].
  destruct (seqb n0 n) eqn:E0.
  - apply seqb_eq in E0. subst n0. cbn [reg_get]. now destruct (seqb n name).
  - cbn [reg_get]. rewrite IH. destruct (seqb n0 name) eqn:E1; [|reflexivity].
    destruct (seqb n name) eqn:E2; [|reflexivity].
    apply seqb_eq in E1, E2. subst. rewrite seqb_refl in E0. discriminate.
Qed.

Lemma reg_update_cons r n b vs : reg_update r ((n, b) :: vs) = reg_update (reg_set n b r) vs.
Proof. reflexivity. Qed.

Lemma reg_update_nil r : reg_update r [] = r.
Proof. reflexivity. Qed.

Lemma reg_update_app r a c : reg_update r (a ++ c) = reg_update (reg_update r a) c.
Proof. unfold reg_update. apply fold_left_app. Qed.

Theorem reg_get_reg_update name : forall vals r,
  reg_get name (reg_update r vals) =
  match last_binding name vals with Some b => Some b | None => reg_get name r end.
Proof.
  induction vals as [|[n b] vs IH]; intro r; [reflexivity|].
  rewrite reg_update_cons, IH, reg_get_reg_set. cbn [last_binding].
  destruct (last_binding name vs); [reflexivity|]. now destruct (seqb n name).
Qed.

Lemma last_binding_app name a c :
  last_binding name (a ++ c) =
  match last_binding name c with Some x => Some x | None => last_binding name a end.
Proof.
  induction a as [|[n b] r IH]; cbn [app last_binding].
  - now destruct (last_binding name c).
  - rewrite IH. now destruct (last_binding name c).
Qed.

Lemma last_binding_none name vals :
  last_binding name vals = None <-> forall b, ~ In (name, b) vals.
Proof.
  induction vals as [|[n x] r IH]; cbn [last_binding].
  - split; [intros _ b [] | reflexivity].
  - destruct (last_binding name r) as [y|] eqn:E.
    + split; [discriminate|]. intro H. exfalso.
      assert (N : Some y = None) by (apply IH; intros b Hin; apply (H b); now right). discriminate.
    + destruct (seqb n name) eqn:En.
      * apply seqb_eq in En. subst n. split; [discriminate|]. intro H. exfalso. apply (H x). now left.
      * apply seqb_false_neq in En. split; [|reflexivity]. intros _ b [Hb|Hb].
        -- inversion Hb. contradiction.
        -- revert Hb. now apply IH.
Qed.

(* [last_binding] is what its name says: the rightmost pair for that name *)
Theorem last_binding_some name vals b :
  last_binding name vals = Some b <->
  exists l1 l2, vals = l1 ++ (name, b) :: l2 /\ forall b', ~ In (name, b') l2.
Proof.
  split.
  - revert b. induction vals as [|[n x] r IH]; intro b; cbn [last_binding]; [discriminate|].
    destruct (last_binding name r) as [y|] eqn:E.
    + intro H. inversion H; subst y. destruct (IH b eq_refl) as (l1 & l2 & -> & Hl).
      exists ((n, x) :: l1), l2. split; [reflexivity | exact Hl].
    + destruct (seqb n name) eqn:En; [|discriminate]. intro H. inversion H; subst x.
      apply seqb_eq in En. subst n. exists [], r. split; [reflexivity|]. now apply last_binding_none.
  - intros (l1 & l2 & -> & Hl). rewrite last_binding_app. cbn [last_binding].
    apply last_binding_none in Hl. rewrite Hl, seqb_refl. reflexivity.
Qed.

(** ** Compile's copy of the package-level registry is faithful: a registry has unique keys, and
    re-inserting its bindings one by one into the empty registry rebuilds it *)

Lemma reg_set_keys_in k n b r :
  In k (map fst (reg_set n b r)) -> k = n \/ In k (map fst r).
Proof.
  induction r as [|[n0 x] t IH]; cbn [reg_set map fst In].
  - intros [H|[]]. now left.
  - destruct (seqb n0 n) eqn:E; cbn [map fst In].
    + intros [H|H]; [now left | right; now right].
    + intros [H|H]; [right; now left|]. destruct (IH H) as [H1|H1]; [now left | right; now right].
Qed.

Lemma reg_set_keys_nodup n b r : NoDup (map fst r) -> NoDup (map fst (reg_set n b r)).
Proof.
  induction r as [|[n0 x] t IH]; cbn [reg_set map fst]; intro H.
  - constructor; [intros [] | constructor].
  - inversion H as [|k l Hnin Hnd]; subst. destruct (seqb n0 n) eqn:E; cbn [map fst].
    + apply seqb_eq in E. subst n0. now constructor.
    + apply seqb_false_neq in E. constructor; [|now apply IH].
      intro Hin. apply reg_set_keys_in in Hin as [Hk|Hk]; [contradiction | contradiction].
Qed.

Lemma reg_update_keys_nodup vals : forall r, NoDup (map fst r) -> NoDup (map fst (reg_update r vals)).
Proof.
  induction vals as [|[n b] vs IH]; intros r H; [exact H|].
  rewrite reg_update_cons. apply IH. now apply reg_set_keys_nodup.
Qed.

Lemma reg_set_fresh n b r : ~ In n (map fst r) -> reg_set n b r = r ++ [(n, b)].
Proof.
  induction r as [|[n0 x] t IH]; cbn [reg_set map fst In app]; intro H; [reflexivity|].
  destruct (seqb n0 n) eqn:E.
  - apply seqb_eq in E. exfalso. apply H. now left.
  - rewrite IH; [reflexivity|]. intro Hin. apply H. now right.
Qed.

Lemma reg_update_fresh r : forall acc,
  NoDup (map fst r) -> (forall k, In k (map fst r) -> ~ In k (map fst acc)) ->
  reg_update acc r = acc ++ r.
Proof.
  induction r as [|[n b] t IH]; intros acc Hnd Hdis.
  - cbn. now rewrite app_nil_r.
  - rewrite reg_update_cons. cbn [map fst] in Hnd, Hdis. inversion Hnd as [|k l Hnin Hnd']; subst.
    rewrite reg_set_fresh by (apply Hdis; now left).
    rewrite IH; [now rewrite <- app_assoc | exact Hnd' |].
    intros k Hk. rewrite map_app, in_app_iff. cbn [map fst In].
    intros [Ha|[Hn|[]]].
    + revert Ha. apply Hdis. now right.
    + subst k. contradiction.
Qed.

Theorem reg_update_copy r : NoDup (map fst r) -> reg_update [] r = r.
Proof. intro H. rewrite reg_update_fresh; [reflexivity | exact H | intros k _ []]. Qed.

Corollary reg_update_copy_idem G : reg_update [] (reg_update [] G) = reg_update [] G.
Proof. apply reg_update_copy, reg_update_keys_nodup. constructor. Qed.

(** ** the process after a history *)

Definition final (b : string -> bool) (p : proc) (ops : list op) : proc := fst (proc_run b p ops).
Definition observations (b : string -> bool) (p : proc) (ops : list op) : list obs :=
  snd (proc_run b p ops).
Definition expr_of (p : proc) (e : nat) : option expr_state := nth_error (p_exprs p) e.

Lemma final_nil b p : final b p [] = p.
Proof. reflexivity. Qed.
Lemma final_cons b p o r : final b p (o :: r) = final b (fst (proc_step b p o)) r.
Proof.
  unfold final. cbn [proc_run]. destruct (proc_step b p o) as [p1 ob].
  cbn [fst]. now destruct (proc_run b p1 r).
Qed.
Lemma observations_cons b p o r :
  observations b p (o :: r) = snd (proc_step b p o) :: observations b (fst (proc_step b p o)) r.
Proof.
  unfold observations. cbn [proc_run]. destruct (proc_step b p o) as [p1 ob].
  cbn [fst snd]. now destruct (proc_run b p1 r).
Qed.
Lemma final_app b p a c : final b p (a ++ c) = final b (final b p a) c.
Proof.
  revert p. induction a as [|o r IH]; intro p; [reflexivity|].
  cbn [app]. now rewrite !final_cons, IH.
Qed.
Lemma observations_app b p a c :
  observations b p (a ++ c) = observations b p a ++ observations b (final b p a) c.
Proof.
  revert p. induction a as [|o r IH]; intro p; [reflexivity|].
  cbn [app]. now rewrite !observations_cons, final_cons, IH.
Qed.
Lemma observations_length b p ops : List.length (observations b p ops) = List.length ops.
Proof.
  revert p. induction ops as [|o r IH]; intro p; [reflexivity|].
  rewrite observations_cons. cbn [List.length]. now rewrite IH.
Qed.

(* the observation of step number [length a] of a history *)
Lemma observation_at b p a o c :
  nth_error (observations b p (a ++ o :: c)) (List.length a) = Some (snd (proc_step b (final b p a) o)).
Proof.
  rewrite observations_app, nth_error_app2 by (rewrite observations_length; lia).
  rewrite observations_length, Nat.sub_diag, observations_cons. reflexivity.
Qed.

Lemma list_set_spec {A} : forall (l : list A) n x y,
  nth_error l n = Some y ->
  List.length (list_set n x l) = List.length l /\
  forall m, nth_error (list_set n x l) m = if Nat.eqb m n then Some x else nth_error l m.
Proof.
  induction l as [|a l IH]; intros [|n] x y H; try discriminate.
  - split; [reflexivity|]. intros [|m]; reflexivity.
  - cbn [nth_error] in H. destruct (IH n x y H) as [Hl Hn].
    change (list_set (S n) x (a :: l)) with (a :: list_set n x l).
    split; [cbn [List.length]; now rewrite Hl|]. intros [|m]; [reflexivity|]. cbn [nth_error]. apply Hn.
Qed.

Lemma globals_cons o r : globals (o :: r) = global_vals o ++ globals r.
Proof. reflexivity. Qed.
Lemma owns_cons e o r : owns e (o :: r) = own_vals e o ++ owns e r.
Proof. reflexivity. Qed.
Lemma globals_app a c : globals (a ++ c) = globals a ++ globals c.
Proof. unfold globals. now rewrite map_app, concat_app. Qed.
Lemma owns_app e a c : owns e (a ++ c) = owns e a ++ owns e c.
Proof. unfold owns. now rewrite map_app, concat_app. Qed.
Lemma ncompiles_cons o r : ncompiles (o :: r) = (if is_compile o then 1 else 0) + ncompiles r.
Proof. unfold ncompiles. cbn [filter]. now destruct (is_compile o). Qed.

(* one step: the package-level registry, the number of expressions, an existing expression *)
Lemma step_global b p o :
  p_global (fst (proc_step b p o)) = reg_update (p_global p) (global_vals o).
Proof.
  destruct o as [vals [|]|src|e vals ok|e name]; cbn [proc_step global_vals]; try reflexivity.
  - destruct (nth_error (p_exprs p) e); [destruct ok|]; reflexivity.
  - destruct (nth_error (p_exprs p) e); reflexivity.
Qed.

Lemma step_length b p o :
  List.length (p_exprs (fst (proc_step b p o))) =
  List.length (p_exprs p) + (if is_compile o then 1 else 0).
Proof.
  destruct o as [vals [|]|src|e vals ok|e name]; cbn [proc_step is_compile fst p_exprs]; try lia.
  - rewrite app_length. reflexivity.
  - destruct (nth_error (p_exprs p) e) as [ex|] eqn:E; [destruct ok|]; cbn [fst p_exprs]; try lia.
    destruct (list_set_spec _ _ (mkExpr (ex_src ex) (reg_update (ex_registry ex) vals)) _ E) as [Hl _].
    lia.
  - destruct (nth_error (p_exprs p) e); cbn [fst]; lia.
Qed.

Lemma expr_eta ex : mkExpr (ex_src ex) (ex_registry ex) = ex.
Proof. now destruct ex. Qed.

Lemma step_existing b p o e ex :
  expr_of p e = Some ex ->
  expr_of (fst (proc_step b p o)) e =
  Some (mkExpr (ex_src ex) (reg_update (ex_registry ex) (own_vals e o))).
Proof.
  unfold expr_of. intro H.
  destruct o as [vals [|]|src|e' vals ok|e' name]; cbn [proc_step own_vals fst p_exprs];
    rewrite ?reg_update_nil, ?expr_eta; try exact H.
  - rewrite nth_error_app1; [exact H|]. apply nth_error_Some. congruence.
  - destruct (nth_error (p_exprs p) e') as [ex'|] eqn:E'.
    + destruct ok; cbn [fst p_exprs].
      * destruct (list_set_spec _ _ (mkExpr (ex_src ex') (reg_update (ex_registry ex') vals)) _ E')
          as [_ Hn]. rewrite Hn. rewrite (Nat.eqb_sym e e').
        destruct (Nat.eqb e' e) eqn:Ee.
        -- apply Nat.eqb_eq in Ee. subst e'. rewrite H in E'. inversion E'; subst ex'. reflexivity.
        -- rewrite reg_update_nil, expr_eta. exact H.
      * rewrite reg_update_nil, expr_eta. exact H.
    + cbn [fst]. destruct ok; [|now rewrite reg_update_nil, expr_eta].
      destruct (Nat.eqb e' e) eqn:Ee.
      * apply Nat.eqb_eq in Ee. subst e'. congruence.
      * now rewrite reg_update_nil, expr_eta.
  - destruct (nth_error (p_exprs p) e'); exact H.
Qed.

(* after a history: the package-level registry is the initial one updated with every successful
   package-level registration, in order *)
Lemma final_global b ops : forall p,
  p_global (final b p ops) = reg_update (p_global p) (globals ops).
Proof.
  induction ops as [|o r IH]; intro p; [reflexivity|].
  now rewrite final_cons, IH, step_global, globals_cons, reg_update_app.
Qed.

Lemma final_length b ops : forall p,
  List.length (p_exprs (final b p ops)) = List.length (p_exprs p) + ncompiles ops.
Proof.
  induction ops as [|o r IH]; intro p; [unfold ncompiles; cbn; lia|].
  rewrite final_cons, IH, step_length, ncompiles_cons. lia.
Qed.

(* an expression that exists keeps its source, and its registry is updated with exactly the
   successful registrations on IT, in order: nothing else in the history matters *)
Lemma final_existing b e ops : forall p ex,
  expr_of p e = Some ex ->
  expr_of (final b p ops) e = Some (mkExpr (ex_src ex) (reg_update (ex_registry ex) (owns e ops))).
Proof.
  induction ops as [|o r IH]; intros p ex H.
  - cbn. now rewrite expr_eta.
  - rewrite final_cons. rewrite (IH _ _ (step_existing b p o e ex H)). cbn [ex_src ex_registry].
    now rewrite owns_cons, reg_update_app.
Qed.

Lemma created_at_split ops e k src :
  created_at ops e k src ->
  ops = firstn k ops ++ OpCompile src :: skipn (S k) ops /\ ncompiles (firstn k ops) = e.
Proof.
  intros [Hn Hc]. split; [|exact Hc]. clear Hc. revert k Hn.
  induction ops as [|o r IH]; intros [|k] Hn; try discriminate.
  - inversion Hn. reflexivity.
  - cbn [nth_error] in Hn. cbn [firstn skipn app]. f_equal. now apply IH.
Qed.

(* the state of expression e at the end of a history that starts in the initial state *)
Theorem C20_visibility_state b ops e k src :
  created_at ops e k src ->
  expr_of (final b proc_init ops) e =
  Some (mkExpr src (reg_update (reg_update [] (globals (firstn k ops)))
                               (owns e (skipn (S k) ops)))).
Proof.
  intro H. apply created_at_split in H as [Hs Hc].
  set (pre := firstn k ops) in *. set (post := skipn (S k) ops) in *.
  rewrite Hs, final_app, final_cons.
  pose proof (final_global b pre proc_init) as Hg.
  pose proof (final_length b pre proc_init) as Hl. cbn [proc_init p_global p_exprs List.length] in Hg, Hl.
  set (p1 := final b proc_init pre) in *.
  assert (He : expr_of (fst (proc_step b p1 (OpCompile src))) e
               = Some (mkExpr src (reg_update [] (globals pre)))).
  { unfold expr_of. cbn [proc_step fst p_exprs]. rewrite nth_error_app2 by lia.
    replace (e - List.length (p_exprs p1)) with 0 by lia. cbn [nth_error].
    now rewrite Hg, reg_update_copy_idem. }
  rewrite (final_existing b e post _ _ He). reflexivity.
Qed.

(* an expression number that no Compile of the history has produced does not exist *)
Lemma not_created b ops e : ncompiles ops <= e -> expr_of (final b proc_init ops) e = None.
Proof.
  intro H. unfold expr_of. apply nth_error_None. rewrite final_length. cbn. lia.
Qed.

Lemma resolve_visible b src G own name :
  resolve b (mkExpr src (reg_update (reg_update [] G) own)) name = visible b G own name.
Proof.
  unfold resolve, visible. cbn [ex_registry]. rewrite !reg_get_reg_update. cbn [reg_get].
  destruct (last_binding name own); [reflexivity|]. now destruct (last_binding name G).
Qed.

(* what an evaluation of expression e sees for $name after the history [ops]:
   the last RegisterExpr e of that name, else the last RegisterGlobal of it BEFORE Compile e,
   else the time callables for millis/now, else the built-in, else unbound *)
Theorem C20_visibility b ops e k src name :
  created_at ops e k src ->
  snd (proc_step b (final b proc_init ops) (OpResolve e name)) =
  OResolved (visible b (globals (firstn k ops)) (owns e (skipn (S k) ops)) name).
Proof.
  intro H. pose proof (C20_visibility_state b ops e k src H) as Hs. unfold expr_of in Hs.
  cbn [proc_step]. rewrite Hs. cbn [snd]. now rewrite resolve_visible.
Qed.
Print Assumptions C20_visibility.

(* ... and the same for a lookup in the middle of a history *)
Corollary C20_visibility_at b ops rest e k src name :
  created_at ops e k src ->
  nth_error (observations b proc_init (ops ++ OpResolve e name :: rest)) (List.length ops) =
  Some (OResolved (visible b (globals (firstn k ops)) (owns e (skipn (S k) ops)) name)).
Proof. intro H. rewrite observation_at. f_equal. now apply (C20_visibility b ops e k src). Qed.

(* an evaluation of an expression that has not been compiled (cannot happen in Go: there is no
   handle) is reported as such *)
Lemma C20_visibility_uncreated b ops e name :
  ncompiles ops <= e ->
  snd (proc_step b (final b proc_init ops) (OpResolve e name)) = ONoSuchExpr.
Proof.
  intro H. pose proof (not_created b ops e H) as Hn. unfold expr_of in Hn. cbn [proc_step].
  now rewrite Hn.
Qed.

(* the four layers of [visible], spelled out *)
Lemma visible_own b G own name x :
  last_binding name own = Some x -> visible b G own name = RRegistered x.
Proof. unfold visible. now intros ->. Qed.
Lemma visible_global b G own name x :
  last_binding name own = None -> last_binding name G = Some x -> visible b G own name = RRegistered x.
Proof. unfold visible. now intros -> ->. Qed.
Lemma visible_base b G own name :
  last_binding name own = None -> last_binding name G = None ->
  visible b G own name =
  if seqb name "millis" || seqb name "now" then RTime else if b name then RBuiltin else RUnbound.
Proof. unfold visible. now intros -> ->. Qed.

(** ** what does NOT matter to expression e *)

(* two process states are indistinguishable for expression e: e is the same in both, and, as long
   as e has not been compiled, so are the package-level registry and the number of expressions
   (which determine what the Compile that will create e sees, and which Compile that is) *)
Definition sim (e : nat) (p p' : proc) : Prop :=
  expr_of p e = expr_of p' e /\
  (expr_of p e = None ->
   p_global p = p_global p' /\ List.length (p_exprs p) = List.length (p_exprs p')).

Lemma sim_refl e p : sim e p p.
Proof. split; auto. Qed.

Lemma sim_step b e p p' o :
  sim e p p' -> sim e (fst (proc_step b p o)) (fst (proc_step b p' o)).
Proof.
  intros [He Hn]. destruct (expr_of p e) as [ex|] eqn:E.
  - (* e exists: its next state is a function of its present state and the step *)
    symmetry in He. split.
    + now rewrite (step_existing b p o e ex E), (step_existing b p' o e ex He).
    + rewrite (step_existing b p o e ex E). discriminate.
  - destruct (Hn eq_refl) as [Hg Hl]. symmetry in He.
    assert (Hg' : p_global (fst (proc_step b p o)) = p_global (fst (proc_step b p' o))).
    { now rewrite !step_global, Hg. }
    assert (Hl' : List.length (p_exprs (fst (proc_step b p o)))
                  = List.length (p_exprs (fst (proc_step b p' o)))).
    { now rewrite !step_length, Hl. }
    split; [|auto].
    unfold expr_of in *. apply nth_error_None in E. apply nth_error_None in He.
    destruct (is_compile o) eqn:Ec.
    + destruct o as [| src | |]; try discriminate. cbn [proc_step fst p_exprs].
      rewrite !nth_error_app2 by lia. now rewrite Hg, Hl.
    + pose proof (step_length b p o) as L1. pose proof (step_length b p' o) as L2.
      rewrite Ec in L1, L2.
      assert (N1 : nth_error (p_exprs (fst (proc_step b p o))) e = None) by (apply nth_error_None; lia).
      assert (N2 : nth_error (p_exprs (fst (proc_step b p' o))) e = None) by (apply nth_error_None; lia).
      now rewrite N1, N2.
Qed.

Lemma sim_resolve b e p p' name :
  sim e p p' -> snd (proc_step b p (OpResolve e name)) = snd (proc_step b p' (OpResolve e name)).
Proof. intros [He _]. unfold expr_of in He. cbn [proc_step]. rewrite He. now destruct (nth_error (p_exprs p') e). Qed.

(* indistinguishable states stay indistinguishable along any history, and every evaluation of e
   in it observes the same *)
Lemma sim_run b e ops : forall p p',
  sim e p p' ->
  sim e (final b p ops) (final b p' ops) /\
  forall k name, nth_error ops k = Some (OpResolve e name) ->
                 nth_error (observations b p ops) k = nth_error (observations b p' ops) k.
Proof.
  induction ops as [|o r IH]; intros p p' H.
  - split; [exact H|]. intros [|k] name Hk; discriminate.
  - rewrite !final_cons, !observations_cons.
    destruct (IH _ _ (sim_step b e p p' o H)) as [Hf Ho]. split; [exact Hf|].
    intros [|k] name Hk; cbn [nth_error] in *.
    + inversion Hk; subst o. f_equal. now apply sim_resolve.
    + now apply (Ho k name).
Qed.

(* a step that does not concern e leaves the state indistinguishable from what it was *)
Lemma step_sim_self b e p o :
  own_vals e o = [] ->
  (expr_of p e = None -> global_vals o = [] /\ is_compile o = false) ->
  sim e (fst (proc_step b p o)) p.
Proof.
  intros Hown Hpre. destruct (expr_of p e) as [ex|] eqn:E.
  - pose proof (step_existing b p o e ex E) as H. rewrite Hown, reg_update_nil, expr_eta in H.
    split; [congruence|]. rewrite H. discriminate.
  - destruct (Hpre eq_refl) as [Hg Hc].
    pose proof (step_global b p o) as G. rewrite Hg, reg_update_nil in G.
    pose proof (step_length b p o) as L. rewrite Hc in L.
    assert (N : expr_of (fst (proc_step b p o)) e = None).
    { unfold expr_of in *. apply nth_error_None. apply nth_error_None in E. lia. }
    split; [congruence|]. intros _. split; [exact G | lia].
Qed.

Theorem irrelevant_step b e p h1 o h2 :
  own_vals e o = [] ->
  (expr_of (final b p h1) e = None -> global_vals o = [] /\ is_compile o = false) ->
  (* the expression ends up the same *)
  expr_of (final b p (h1 ++ o :: h2)) e = expr_of (final b p (h1 ++ h2)) e /\
  (* and every evaluation of it after the step observes the same *)
  forall k name, nth_error h2 k = Some (OpResolve e name) ->
    nth_error (observations b p (h1 ++ o :: h2)) (List.length h1 + 1 + k) =
    nth_error (observations b p (h1 ++ h2)) (List.length h1 + k).
Proof.
  intros Hown Hpre. pose proof (step_sim_self b e (final b p h1) o Hown Hpre) as Hs.
  destruct (sim_run b e h2 _ _ Hs) as [[Hf _] Ho]. split.
  - now rewrite !final_app, final_cons.
  - intros k name Hk. rewrite !observations_app.
    rewrite !nth_error_app2 by (rewrite observations_length; lia). rewrite !observations_length.
    replace (List.length h1 + 1 + k - List.length h1) with (S k) by lia.
    replace (List.length h1 + k - List.length h1) with k by lia.
    rewrite observations_cons. cbn [nth_error]. now apply (Ho k name).
Qed.

(* operations on other expressions - registrations on them, evaluations of them (and evaluations
   of e itself), rejected registrations - do not affect what e resolves *)
Definition concerns_other (e : nat) (o : op) : Prop :=
  match o with
  | OpRegisterExpr e' _ ok => e' <> e \/ ok = false
  | OpResolve _ _ => True
  | OpRegisterGlobal _ ok => ok = false
  | OpCompile _ => False
  end.

Theorem resolve_other_expr_irrelevant b e p h1 o h2 :
  concerns_other e o ->
  expr_of (final b p (h1 ++ o :: h2)) e = expr_of (final b p (h1 ++ h2)) e /\
  forall k name, nth_error h2 k = Some (OpResolve e name) ->
    nth_error (observations b p (h1 ++ o :: h2)) (List.length h1 + 1 + k) =
    nth_error (observations b p (h1 ++ h2)) (List.length h1 + k).
Proof.
  intro H. apply irrelevant_step.
  - destruct o as [vals ok|src|e' vals ok|e' name]; cbn in *; try reflexivity.
    destruct ok; [|reflexivity]. destruct H as [H|H]; [|discriminate].
    apply Nat.eqb_neq in H. now rewrite H.
  - intros _. destruct o as [vals ok|src|e' vals ok|e' name]; cbn in *; auto.
    + subst ok. auto.
    + contradiction.
Qed.
Print Assumptions resolve_other_expr_irrelevant.

(* package-level registrations (and Compile calls) made after e was compiled do not affect it *)
Theorem resolve_later_global_irrelevant b e p h1 o h2 :
  (exists vals ok, o = OpRegisterGlobal vals ok) \/ (exists src, o = OpCompile src) ->
  expr_of (final b p h1) e <> None ->
  expr_of (final b p (h1 ++ o :: h2)) e = expr_of (final b p (h1 ++ h2)) e /\
  forall k name, nth_error h2 k = Some (OpResolve e name) ->
    nth_error (observations b p (h1 ++ o :: h2)) (List.length h1 + 1 + k) =
    nth_error (observations b p (h1 ++ h2)) (List.length h1 + k).
Proof.
  intros Ho He. apply irrelevant_step.
  - destruct Ho as [(vals & ok & ->)|(src & ->)]; reflexivity.
  - intro N. contradiction.
Qed.
Print Assumptions resolve_later_global_irrelevant.

(* Two expressions with same-named, different extensions evaluated alternately; a package-level
   registration between the two Compiles and one after both; a rejected registration; a built-in
   shadowed at package level for the second expression only. *)
Example C20_visibility_example :
  let h := [ OpRegisterGlobal [("f", 1); ("v", 2)] true      (* 0 *)
           ; OpCompile 100                                    (* 1: expression 0 *)
           ; OpRegisterGlobal [("f", 3); ("sum", 4)] true     (* 2 *)
           ; OpCompile 200                                    (* 3: expression 1 *)
           ; OpRegisterExpr 0 [("g", 5)] true                 (* 4 *)
           ; OpRegisterExpr 1 [("g", 6); ("v", 7)] true       (* 5 *)
           ; OpRegisterExpr 0 [("bad-name", 8)] false         (* 6: rejected *)
           ; OpRegisterGlobal [("v", 9)] true                 (* 7: after both Compiles *)
           ; OpRegisterExpr 0 [("g", 10)] true ] in           (* 8 *)
  created_at h 0 1 100 /\ created_at h 1 3 200 /\
  globals (firstn 1 h) = [("f", 1); ("v", 2)] /\
  globals (firstn 3 h) = [("f", 1); ("v", 2); ("f", 3); ("sum", 4)] /\
  owns 0 (skipn 2 h) = [("g", 5); ("g", 10)] /\ owns 1 (skipn 4 h) = [("g", 6); ("v", 7)] /\
  observations is_builtin_name proc_init
    (h ++ [ OpResolve 0 "g"; OpResolve 1 "g"; OpResolve 0 "f"; OpResolve 1 "f"
          ; OpResolve 0 "v"; OpResolve 1 "v"; OpResolve 0 "sum"; OpResolve 1 "sum"
          ; OpResolve 0 "now"; OpResolve 1 "nope"; OpResolve 0 "g"; OpResolve 2 "g" ])
  = [ ONone; ONone; ONone; ONone; ONone; ONone; ORejected; ONone; ONone
    ; OResolved (RRegistered 10); OResolved (RRegistered 6)
    ; OResolved (RRegistered 1); OResolved (RRegistered 3)
    ; OResolved (RRegistered 2); OResolved (RRegistered 7)
    ; OResolved RBuiltin; OResolved (RRegistered 4)
    ; OResolved RTime; OResolved RUnbound; OResolved (RRegistered 10); ONoSuchExpr ].
Proof. vm_compute. repeat split. Qed.

Print Assumptions pad_optionals_spec.
Print Assumptions conv_args_spec.
Print Assumptions valid_shape_spec.
Print Assumptions valid_name_spec.
Print Assumptions reg_get_reg_update.
Print Assumptions last_binding_some.
Print Assumptions reg_update_copy_idem.
Print Assumptions C20_visibility_state.
