(* Proofs/C11Proofs.v — property C11: JSON texts are expressions that denote themselves.
   Theorems about the model (Model/Lexer.v, Model/Parser.v, Model/Eval.v) against Spec/C11.v.

   1. unescape decodes exactly the JSON escapes: unescape_prefix, unescape_bs (one step, in terms
      of the text after the backslash), unescape_spec / unescape_units (every body of the JSON
      string grammar, incl. surrogate pairs), unescape_rejects_escape / _hex / _surrogate /
      _later (what is rejected, and that a rejection anywhere rejects the string).
   2. String literals end to end: parseString_accepts / _rejects, C11_rejects_escape / _hex,
      body_ok_render, parse_string_literal, C11_single_quote, C11_string_rejects
      (uses scan_string_spec of Proofs/C04Proofs.v).
   3. JSON literals denote themselves at the AST level: obj_of_list_perm, eval_array_literal,
      object_literal, C11_literal_denotes.
   4. null / true / false, negative number literals, and the text-level corollaries
      C11_string_denotes, C11_denotes_partial.
   5. Number tokens: scan_number_fun / scan_number_spec (what scanNumber accepts, as the
      function num_len of the remaining input), num_len_json / scan_json_number (the JSON number
      grammar is accepted token-exactly). *)
From JV Require Import Model.Value Model.Eval Proofs.MonadFacts Spec.C14 Proofs.C14Proofs.
From JV Require Import Model.Lexer Model.Parser Proofs.LexerProofs Proofs.ParserProofs
  Proofs.Utf8Proofs Proofs.C04Proofs Spec.C11.
From Coq Require Import List Lia ZifyBool ZifyNat Permutation Sorted Bool Arith.
Import ListNotations.
Open Scope list_scope.
Open Scope string_scope.
Open Scope Z_scope.

(* ==================================================================================== *)
(* 1. unescape decodes exactly the JSON escapes                                          *)
(* ==================================================================================== *)

(* ---- 1.0 the body of unescape, one step ---- *)

Definition unesc_finish (f : nat) (src prefix repl : string) (pos : Z) : res (string * bool) :=
  rbind (slice_from pos src) (fun s2 =>
  rbind (unescape f s2) (fun '(rest, ok) =>
  if negb ok then ROk (rest, ok) else ROk (prefix ++ repl ++ rest, true))).

Definition unesc_body (f : nat) (src : string) (pos0 : Z) : res (string * bool) :=
  rbind (slice_range 0 pos0 src) (fun prefix =>
  let pos := pos0 + 1 in
  rbind (slice_from pos src) (fun s1 =>
  let '(esc, w) := decode_rune s1 in
  let pos := pos + Z.of_nat w in
  let repl := jsonEscapes esc in
  if negb (is_empty repl) then unesc_finish f src prefix repl pos
  else if esc =? 117 then
    rbind (slice_from pos src) (fun s2 =>
    rbind (decodeRunes s2 4) (fun '(hex, w) =>
    let pos := pos + w in
    let r := parseRune hex in
    if valid_rune r then unesc_finish f src prefix (encode_rune r) pos
    else if utf16_is_surrogate r then
      rbind (slice_from pos src) (fun s3 =>
      rbind (decodeRunes s3 6) (fun '(hex2, w) =>
      let pos := pos + w in
      if sprefix "\u" hex2 then
        rbind (slice_from 2 hex2) (fun h2 =>
        let r := utf16_decode_rune r (parseRune h2) in
        if negb (r =? RuneError) then unesc_finish f src prefix (encode_rune r) pos
        else ROk ("u" ++ hex, false))
      else ROk ("u" ++ hex, false)))
    else ROk ("u" ++ hex, false)))
  else ROk (encode_rune esc, false))).

Lemma unescape_S f src :
  unescape (S f) src =
  match index_byte 92 src with
  | None => ROk (src, true)
  | Some pos0 => unesc_body f src pos0
  end.
Proof. reflexivity. Qed.

(* ---- 1.1 text before the first backslash is copied ---- *)

Fixpoint no_bs (s : string) : bool :=
  match s with EmptyString => true | String c r => negb (byte_of c =? 92) && no_bs r end.

Lemma index_byte_from_none s : no_bs s = true -> forall off, index_byte_from 92 s off = None.
Proof.
  induction s as [|c r IH]; intros H off; [reflexivity|]. cbn [no_bs] in H.
  apply andb_true_iff in H as [H1 H2]. cbn [index_byte_from].
  destruct (byte_of c =? 92); [discriminate|]. apply IH; exact H2.
Qed.

Lemma index_byte_from_app pre t : no_bs pre = true -> forall off,
  index_byte_from 92 (pre ++ t) off =
  index_byte_from 92 t (off + Z.of_nat (slen pre)).
Proof.
  induction pre as [|c r IH]; intros H off.
  - cbn. f_equal. lia.
  - cbn [no_bs] in H. apply andb_true_iff in H as [H1 H2]. cbn [append index_byte_from].
    destruct (byte_of c =? 92); [discriminate|]. rewrite IH by exact H2. f_equal. unfold slen. cbn [String.length]. lia.
Qed.

Lemma index_byte_from_shift s : forall off k,
  index_byte_from 92 s (off + k) = option_map (fun p => p + k) (index_byte_from 92 s off).
Proof.
  induction s as [|c r IH]; intros off k; [reflexivity|]. cbn [index_byte_from].
  destruct (byte_of c =? 92); [reflexivity|].
  replace (off + k + 1) with (off + 1 + k) by lia. apply IH.
Qed.

Lemma slice_from_shift pre t p : 0 <= p ->
  slice_from (Z.of_nat (slen pre) + p) (pre ++ t) = slice_from p t.
Proof.
  intros Hp. unfold slice_from. rewrite slen_app.
  destruct (Z.leb_spec p (Z.of_nat (slen t))) as [L|L].
  - replace ((0 <=? Z.of_nat (slen pre) + p) && (Z.of_nat (slen pre) + p <=? Z.of_nat (slen pre + slen t))) with true by lia.
    replace ((0 <=? p) && true) with true by lia. f_equal.
    replace (Z.to_nat (Z.of_nat (slen pre) + p)) with (slen pre + Z.to_nat p)%nat by lia.
    rewrite <- sdrop_sdrop, sdrop_app_exact. reflexivity.
  - replace ((0 <=? Z.of_nat (slen pre) + p) && (Z.of_nat (slen pre) + p <=? Z.of_nat (slen pre + slen t))) with false by lia.
    replace ((0 <=? p) && false) with false by lia. reflexivity.
Qed.

Lemma stake_app_plus a n t : stake (slen a + n) (a ++ t) = a ++ stake n t.
Proof. unfold slen. induction a as [|c r IH]; [reflexivity|]. cbn. rewrite IH. reflexivity. Qed.

Lemma slice_range_shift pre t p : 0 <= p <= Z.of_nat (slen t) ->
  slice_range 0 (Z.of_nat (slen pre) + p) (pre ++ t) = ROk (pre ++ stake (Z.to_nat p) t) /\
  slice_range 0 p t = ROk (stake (Z.to_nat p) t).
Proof.
  intros Hp. unfold slice_range. rewrite slen_app.
  replace ((0 <=? 0) && (0 <=? Z.of_nat (slen pre) + p) && (Z.of_nat (slen pre) + p <=? Z.of_nat (slen pre + slen t))) with true by lia.
  replace ((0 <=? 0) && (0 <=? p) && (p <=? Z.of_nat (slen t))) with true by lia.
  unfold sslice. cbn [Z.to_nat sdrop]. rewrite !Nat.sub_0_r. split; [|reflexivity]. f_equal.
  replace (Z.to_nat (Z.of_nat (slen pre) + p)) with (slen pre + Z.to_nat p)%nat by lia.
  apply stake_app_plus.
Qed.

Definition lift_pre (pre : string) (r : res (string * bool)) : res (string * bool) :=
  match r with
  | ROk (rt, true) => ROk (pre ++ rt, true)
  | o => o
  end.

Lemma unesc_finish_shift f pre t px repl p : 0 <= p ->
  unesc_finish f (pre ++ t) (pre ++ px) repl (Z.of_nat (slen pre) + p) =
  lift_pre pre (unesc_finish f t px repl p).
Proof.
  intros Hp. unfold unesc_finish. rewrite slice_from_shift by exact Hp.
  destruct (slice_from p t) as [s2| | |]; try reflexivity. cbn [rbind].
  destruct (unescape f s2) as [[rest [|]]| | |]; try reflexivity. cbn [rbind negb lift_pre].
  rewrite sapp_assoc. reflexivity.
Qed.

Lemma decodeRunes_nonneg s n hex w : decodeRunes s n = ROk (hex, w) -> 0 <= w.
Proof.
  intros H. destruct (decodeRunesLoop_ok n s 0 []) as (hex' & w' & H' & Hb); [lia|].
  unfold decodeRunes in H. rewrite H in H'. injection H' as <- <-. lia.
Qed.

Lemma unesc_body_shift f pre t p0 : 0 <= p0 < Z.of_nat (slen t) ->
  unesc_body f (pre ++ t) (Z.of_nat (slen pre) + p0) = lift_pre pre (unesc_body f t p0).
Proof.
  intros Hp. set (L := Z.of_nat (slen pre)).
  destruct (slice_range_shift pre t p0 ltac:(lia)) as [E1 E2]. fold L in E1.
  unfold unesc_body. rewrite E1, E2. cbn [rbind]. cbv zeta.
  replace (L + p0 + 1) with (L + (p0 + 1)) by lia. unfold L at 1. rewrite slice_from_shift by lia.
  destruct (slice_from (p0 + 1) t) as [s1| | |]; try reflexivity. cbn [rbind].
  destruct (decode_rune s1) as [esc w].
  replace (L + (p0 + 1) + Z.of_nat w) with (L + (p0 + 1 + Z.of_nat w)) by lia.
  destruct (negb (is_empty (jsonEscapes esc))).
  { apply unesc_finish_shift. lia. }
  destruct (esc =? 117); [|reflexivity].
  unfold L at 1. rewrite slice_from_shift by lia.
  destruct (slice_from (p0 + 1 + Z.of_nat w) t) as [s2| | |]; try reflexivity. cbn [rbind].
  destruct (decodeRunes s2 4) as [[hex w4]| | |] eqn:Ed; try reflexivity. cbn [rbind].
  pose proof (decodeRunes_nonneg _ _ _ _ Ed) as Hw4.
  replace (L + (p0 + 1 + Z.of_nat w) + w4) with (L + (p0 + 1 + Z.of_nat w + w4)) by lia.
  destruct (valid_rune (parseRune hex)).
  { apply unesc_finish_shift. lia. }
  destruct (utf16_is_surrogate (parseRune hex)); [|reflexivity].
  unfold L at 1. rewrite slice_from_shift by lia.
  destruct (slice_from (p0 + 1 + Z.of_nat w + w4) t) as [s3| | |]; try reflexivity. cbn [rbind].
  destruct (decodeRunes s3 6) as [[hex2 w6]| | |] eqn:Ed2; try reflexivity. cbn [rbind].
  pose proof (decodeRunes_nonneg _ _ _ _ Ed2) as Hw6.
  destruct (sprefix "\u" hex2); [|reflexivity].
  destruct (slice_from 2 hex2) as [h2| | |]; try reflexivity. cbn [rbind].
  destruct (negb (utf16_decode_rune (parseRune hex) (parseRune h2) =? RuneError)); [|reflexivity].
  replace (L + (p0 + 1 + Z.of_nat w + w4) + w6) with (L + (p0 + 1 + Z.of_nat w + w4 + w6)) by lia.
  apply unesc_finish_shift. lia.
Qed.

(* unescape_prefix: text in front of the first backslash is copied unchanged, and does not
   influence how the rest is decoded (nor whether it is rejected) *)
Theorem unescape_prefix fuel pre t : no_bs pre = true ->
  unescape fuel (pre ++ t) = lift_pre pre (unescape fuel t).
Proof.
  intros Hpre. destruct fuel as [|f]; [reflexivity|].
  rewrite !unescape_S. unfold index_byte.
  rewrite index_byte_from_app by exact Hpre.
  replace (0 + Z.of_nat (slen pre)) with (0 + Z.of_nat (slen pre)) by reflexivity.
  rewrite index_byte_from_shift.
  destruct (index_byte_from 92 t 0) as [p0|] eqn:Ei; cbn [option_map].
  - apply index_byte_from_bound in Ei.
    replace (p0 + Z.of_nat (slen pre)) with (Z.of_nat (slen pre) + p0) by lia.
    apply unesc_body_shift. lia.
  - reflexivity.
Qed.

(* ---- 1.2 one escape, at the start of the string ---- *)

Definition bs : ascii := ascii_of_Z 92.

(* continue after an escape that was replaced by repl *)
Definition fin (f : nat) (repl s2 : string) : res (string * bool) :=
  rbind (unescape f s2) (fun '(rest, ok) =>
  if negb ok then ROk (rest, ok) else ROk (repl ++ rest, true)).

Lemma slice_from_drop p s : 0 <= p <= Z.of_nat (slen s) -> slice_from p s = ROk (sdrop (Z.to_nat p) s).
Proof. intros H. unfold slice_from. replace ((0 <=? p) && (p <=? Z.of_nat (slen s))) with true by lia. reflexivity. Qed.

Lemma unesc_finish_bs f s1 repl k : (k <= slen s1)%nat ->
  unesc_finish f (String bs s1) "" repl (1 + Z.of_nat k) = fin f repl (sdrop k s1).
Proof.
  intros Hk. unfold unesc_finish, fin. rewrite slice_from_drop by (unfold slen in *; cbn [String.length]; lia).
  replace (Z.to_nat (1 + Z.of_nat k)) with (S k) by lia. reflexivity.
Qed.

Lemma decodeRunes_bound s n hex w : decodeRunes s n = ROk (hex, w) -> 0 <= w <= Z.of_nat (slen s).
Proof.
  intros H. destruct (decodeRunesLoop_ok n s 0 []) as (hex' & w' & H' & Hb); [lia|].
  unfold decodeRunes in H. rewrite H in H'. injection H' as <- <-. lia.
Qed.

(* unescape_bs: what unescape does with a string that starts with a backslash, in terms of the
   text after the backslash *)
Theorem unescape_bs f s1 :
  unescape (S f) (String bs s1) =
  let '(esc, w) := decode_rune s1 in
  if negb (is_empty (jsonEscapes esc)) then fin f (jsonEscapes esc) (sdrop w s1)
  else if esc =? 117 then
    let s2 := sdrop w s1 in
    rbind (decodeRunes s2 4) (fun '(hex, w4) =>
    let r := parseRune hex in
    if valid_rune r then fin f (encode_rune r) (sdrop (Z.to_nat w4) s2)
    else if utf16_is_surrogate r then
      let s3 := sdrop (Z.to_nat w4) s2 in
      rbind (decodeRunes s3 6) (fun '(hex2, w6) =>
      if sprefix "\u" hex2 then
        let r' := utf16_decode_rune r (parseRune (sdrop 2 hex2)) in
        if negb (r' =? RuneError) then fin f (encode_rune r') (sdrop (Z.to_nat w6) s3)
        else ROk ("u" ++ hex, false)
      else ROk ("u" ++ hex, false))
    else ROk ("u" ++ hex, false))
  else ROk (encode_rune esc, false).
Proof.
  rewrite unescape_S. change (index_byte 92 (String bs s1)) with (Some 0).
  unfold unesc_body.
  assert (E0 : slice_range 0 0 (String bs s1) = ROk EmptyString).
  { unfold slice_range. replace ((0 <=? 0) && (0 <=? 0) && (0 <=? Z.of_nat (slen (String bs s1)))) with true by lia. reflexivity. }
  rewrite E0. cbn [rbind]. cbv zeta.
  rewrite slice_from_drop by (unfold slen; cbn [String.length]; lia).
  change (sdrop (Z.to_nat (0 + 1)) (String bs s1)) with s1. cbn [rbind].
  pose proof (decode_rune_le s1) as Hw.
  destruct (decode_rune s1) as [esc w]. cbn [snd] in Hw.
  change (0 + 1 + Z.of_nat w) with (1 + Z.of_nat w).
  destruct (negb (is_empty (jsonEscapes esc))).
  { apply unesc_finish_bs. exact Hw. }
  destruct (esc =? 117); [|reflexivity].
  rewrite slice_from_drop by (unfold slen in *; cbn [String.length]; lia).
  replace (Z.to_nat (1 + Z.of_nat w)) with (S w) by lia.
  change (sdrop (S w) (String bs s1)) with (sdrop w s1). cbn [rbind].
  destruct (decodeRunes (sdrop w s1) 4) as [[hex w4]| | |] eqn:Ed; try reflexivity. cbn [rbind].
  pose proof (decodeRunes_bound _ _ _ _ Ed) as Hw4. rewrite slen_sdrop in Hw4.
  assert (Hs2 : forall k, (k <= slen (sdrop w s1))%nat ->
            sdrop (w + k) s1 = sdrop k (sdrop w s1)) by (intros; rewrite sdrop_sdrop; reflexivity).
  destruct (valid_rune (parseRune hex)).
  { replace (1 + Z.of_nat w + w4) with (1 + Z.of_nat (w + Z.to_nat w4)) by lia.
    rewrite unesc_finish_bs by lia. rewrite sdrop_sdrop. reflexivity. }
  destruct (utf16_is_surrogate (parseRune hex)); [|reflexivity].
  rewrite slice_from_drop by (unfold slen in *; cbn [String.length]; lia).
  replace (Z.to_nat (1 + Z.of_nat w + w4)) with (S (w + Z.to_nat w4)) by lia.
  change (sdrop (S (w + Z.to_nat w4)) (String bs s1)) with (sdrop (w + Z.to_nat w4) s1). cbn [rbind].
  rewrite <- sdrop_sdrop.
  destruct (decodeRunes (sdrop (Z.to_nat w4) (sdrop w s1)) 6) as [[hex2 w6]| | |] eqn:Ed2; try reflexivity.
  cbn [rbind].
  pose proof (decodeRunes_bound _ _ _ _ Ed2) as Hw6. rewrite !slen_sdrop in Hw6.
  destruct (sprefix "\u" hex2) eqn:Ep; [|reflexivity].
  apply sprefix_len in Ep. rewrite slice_from_drop by (unfold slen in *; cbn [String.length] in *; lia).
  cbn [rbind]. change (Z.to_nat 2) with 2%nat.
  destruct (negb (utf16_decode_rune (parseRune hex) (parseRune (sdrop 2 hex2)) =? RuneError)); [|reflexivity].
  replace (1 + Z.of_nat w + w4 + w6) with (1 + Z.of_nat (w + Z.to_nat w4 + Z.to_nat w6)) by lia.
  rewrite unesc_finish_bs by lia. rewrite !sdrop_sdrop. rewrite Nat.add_assoc. reflexivity.
Qed.

(* ---- 1.3 the JSON units ---- *)

Local Ltac Zify.zify_post_hook ::= Z.div_mod_to_equations.

Lemma no_bs_app a b : no_bs (a ++ b) = no_bs a && no_bs b.
Proof. induction a as [|c r IH]; [reflexivity|]. cbn [append no_bs]. rewrite IH, andb_assoc. reflexivity. Qed.

Lemma encode_no_bs r : valid_rune r = true -> r <> 92 -> no_bs (encode_rune r) = true.
Proof.
  intros Hv Hr. unfold encode_rune. rewrite Hv. unfold valid_rune, MaxRune in Hv.
  zcases; cbn [string_of_bytes map string_of_list no_bs]; rewrite ?byte_of_ascii_of_Z by lia;
    repeat (apply andb_true_iff; split); try reflexivity; lia.
Qed.

Lemma encode_ascii c : byte_of c < 128 -> encode_rune (byte_of c) = String c EmptyString.
Proof.
  intros H. pose proof (byte_of_range c) as R. unfold encode_rune.
  replace (valid_rune (byte_of c)) with true by (unfold valid_rune, MaxRune; lia).
  replace (byte_of c <? 128) with true by lia.
  cbn [string_of_bytes map string_of_list]. rewrite ascii_of_Z_byte_of. reflexivity.
Qed.

Fixpoint all_ascii (s : string) : bool :=
  match s with EmptyString => true | String c r => (byte_of c <? 128) && all_ascii r end.

Lemma slice_from_split pos src a b : src = a ++ b -> pos = Z.of_nat (slen a) -> slice_from pos src = ROk b.
Proof.
  intros -> ->. rewrite slice_from_drop by (rewrite slen_app; lia).
  rewrite Nat2Z.id, sdrop_app_exact. reflexivity.
Qed.

Lemma decodeRunesLoop_ascii rest : forall h pre acc, all_ascii h = true ->
  decodeRunesLoop (slen h) (pre ++ h ++ rest) (Z.of_nat (slen pre)) acc =
  ROk (string_of_runes (rev acc) ++ h, Z.of_nat (slen pre) + Z.of_nat (slen h)).
Proof.
  induction h as [|c h IH]; intros pre acc Ha.
  - cbn [slen String.length decodeRunesLoop]. rewrite sapp_nil_r. f_equal. f_equal. cbn. lia.
  - cbn [all_ascii] in Ha. apply andb_true_iff in Ha as [Hc Ha].
    change (slen (String c h)) with (S (slen h)). cbn [decodeRunesLoop].
    rewrite (slice_from_split _ _ pre (String c h ++ rest)) by reflexivity. cbn [rbind append].
    rewrite decode_rune_ascii by lia.
    replace (Z.of_nat (slen pre) + Z.of_nat 1) with (Z.of_nat (slen (pre ++ String c EmptyString)))
      by (rewrite slen_app; cbn [slen String.length]; lia).
    replace (pre ++ String c (h ++ rest)) with ((pre ++ String c EmptyString) ++ h ++ rest)
      by (rewrite sapp_assoc; reflexivity).
    rewrite IH by exact Ha. f_equal. f_equal.
    + cbn [rev]. rewrite string_of_runes_app, string_of_runes_cons, string_of_runes_nil, sapp_nil_r.
      rewrite encode_ascii by lia. rewrite sapp_assoc. reflexivity.
    + rewrite slen_app. cbn [slen String.length]. lia.
Qed.

Lemma decodeRunes_ascii h rest : all_ascii h = true ->
  decodeRunes (h ++ rest) (slen h) = ROk (h, Z.of_nat (slen h)).
Proof.
  intros Ha. unfold decodeRunes.
  pose proof (decodeRunesLoop_ascii rest h EmptyString [] Ha) as H. cbn [append slen String.length rev] in H.
  exact H.
Qed.

Lemma hex_val_facts c x : hex_val c = Some x ->
  0 <= x <= 15 /\ byte_of c < 128 /\ byte_of c <> 43 /\ byte_of c <> 45.
Proof.
  unfold hex_val. intros H.
  destruct ((48 <=? byte_of c) && (byte_of c <=? 57)) eqn:E1; [injection H as <-; lia|].
  destruct ((97 <=? byte_of c) && (byte_of c <=? 102)) eqn:E2; [injection H as <-; lia|].
  destruct ((65 <=? byte_of c) && (byte_of c <=? 70)) eqn:E3; [injection H as <-; lia|].
  discriminate.
Qed.

(* four hex digits: an ASCII string that parseRune reads as its value, a 16-bit number *)
Lemma hex4_facts h v : hex4 h v ->
  all_ascii h = true /\ slen h = 4%nat /\ parseRune h = v /\ 0 <= v < 65536.
Proof.
  intros [Hl Hv].
  destruct h as [|c0 [|c1 [|c2 [|c3 [|c4 r]]]]]; try discriminate Hl.
  unfold Z_of_hex in Hv. cbn [Z_of_hex_acc] in Hv.
  destruct (hex_val c0) as [x0|] eqn:E0; [|discriminate].
  destruct (hex_val c1) as [x1|] eqn:E1; [|discriminate].
  destruct (hex_val c2) as [x2|] eqn:E2; [|discriminate].
  destruct (hex_val c3) as [x3|] eqn:E3; [|discriminate].
  assert (Hv' : 16 * (16 * (16 * (16 * 0 + x0) + x1) + x2) + x3 = v) by (injection Hv; intros Hq; exact Hq).
  clear Hv.
  destruct (hex_val_facts _ _ E0) as (B0 & A0 & P0 & M0).
  destruct (hex_val_facts _ _ E1) as (B1 & A1 & _).
  destruct (hex_val_facts _ _ E2) as (B2 & A2 & _).
  destruct (hex_val_facts _ _ E3) as (B3 & A3 & _).
  assert (Hr : 0 <= v < 65536) by lia.
  split; [cbn [all_ascii]; lia|]. split; [reflexivity|]. split; [|exact Hr].
  unfold parseRune, parse_uint16_32, parse_uint16. cbn [all_hex]. rewrite E0, E1, E2, E3.
  unfold Z_of_hex. cbn [Z_of_hex_acc]. rewrite E0, E1, E2, E3.
  replace (16 * (16 * (16 * (16 * 0 + x0) + x1) + x2) + x3) with v by lia.
  replace (v >=? 4294967296) with false by lia.
  replace (v >=? 2147483648) with false by lia. reflexivity.
Qed.

Lemma esc_char_facts c r : esc_char c = Some r ->
  byte_of c < 128 /\ jsonEscapes (byte_of c) = encode_rune r /\ is_empty (jsonEscapes (byte_of c)) = false.
Proof.
  unfold esc_char, jsonEscapes.
  change (ch """") with 34. change (ch "\") with 92. change (ch "/") with 47. change (ch "b") with 98.
  change (ch "f") with 102. change (ch "n") with 110. change (ch "r") with 114. change (ch "t") with 116.
  intros H.
  repeat match type of H with
         | (if ?b then _ else _) = _ =>
             let E := fresh "E" in destruct b eqn:E;
             [injection H as <-; repeat split; try lia; reflexivity|]
         end.
  discriminate H.
Qed.

Lemma fin_ok f repl s2 d : unescape f s2 = ROk (d, true) -> fin f repl s2 = ROk (repl ++ d, true).
Proof. intros H. unfold fin. rewrite H. reflexivity. Qed.

Lemma render_cons u us : render (u :: us) = render_unit u ++ render us.
Proof. reflexivity. Qed.

Lemma backslash_bs : backslash = String bs EmptyString.
Proof. reflexivity. Qed.

Lemma sdrop_app_exact' a b n : n = slen a -> sdrop n (a ++ b) = b.
Proof. intros ->. apply sdrop_app_exact. Qed.

(* unescape_spec (headline for strings): the model decodes exactly the JSON escapes.  For every
   body generated by the JSON string grammar — raw characters, the eight two-character escapes,
   four-hex-digit escapes in either case, surrogate pairs — unescape succeeds and returns the
   UTF-8 encoding of the denoted code points (an astral code point for a surrogate pair). *)
Theorem unescape_units us cs : jstring_body us cs ->
  forall pre fuel, no_bs pre = true -> (slen (render us) < fuel)%nat ->
  unescape fuel (pre ++ render us) = ROk (pre ++ denote cs, true).
Proof.
  induction 1 as [|u r us cs Hu Hb IH]; intros pre fuel Hpre Hf.
  - rewrite unescape_prefix by exact Hpre. destruct fuel as [|f]; [cbn in Hf; lia|]. reflexivity.
  - rewrite render_cons in *. rewrite slen_app in Hf.
    unfold denote. rewrite string_of_runes_cons. fold (denote cs).
    destruct u as [x|c|h|h1 h2]; cbn [unit_code render_unit] in *.
    + (* raw character *)
      destruct Hu as (-> & Hv & H32 & H34 & H92).
      rewrite <- !sapp_assoc. apply IH; [|lia].
      rewrite no_bs_app, Hpre, (encode_no_bs r Hv H92). reflexivity.
    + (* two-character escape *)
      destruct (esc_char_facts c r Hu) as (Hc & Hj & Hne).
      rewrite unescape_prefix by exact Hpre.
      destruct fuel as [|f]; [lia|].
      rewrite backslash_bs. cbn [append]. rewrite unescape_bs.
      rewrite decode_rune_ascii by exact Hc. rewrite Hne. cbn [negb]. change (sdrop 1 (String c (render us))) with (render us).
      rewrite (fin_ok f _ _ (denote cs)).
      * rewrite Hj. reflexivity.
      * apply (IH EmptyString f eq_refl). change (slen (backslash ++ String c EmptyString)) with 2%nat in Hf. lia.
    + (* four hex digits *)
      destruct Hu as (Hh & Hhi & Hlo).
      destruct (hex4_facts h r Hh) as (Ha & Hl & Hp & Hr).
      rewrite unescape_prefix by exact Hpre.
      destruct fuel as [|f]; [lia|].
      rewrite backslash_bs. cbn [append]. rewrite unescape_bs.
      rewrite decode_rune_ascii by (vm_compute; reflexivity).
      change (byte_of "u") with 117. change (jsonEscapes 117) with EmptyString.
      cbn [is_empty negb]. change (117 =? 117) with true. cbv iota zeta.
      change (sdrop 1 (String "u" (h ++ render us))) with (h ++ render us).
      replace (decodeRunes (h ++ render us) 4) with (decodeRunes (h ++ render us) (slen h)) by (rewrite Hl; reflexivity).
      rewrite decodeRunes_ascii by exact Ha. cbn [rbind]. rewrite Hp.
      replace (valid_rune r) with true
        by (unfold valid_rune, MaxRune, is_high_surrogate, is_low_surrogate in *; lia).
      rewrite Nat2Z.id, sdrop_app_exact.
      rewrite (fin_ok f _ _ (denote cs)); [reflexivity|].
      apply (IH EmptyString f eq_refl). rewrite !slen_app in Hf. change (slen backslash) with 1%nat in Hf. change (slen "u") with 1%nat in Hf. lia.
    + (* surrogate pair *)
      destruct Hu as (v1 & v2 & Hh1 & Hh2 & Hhi & Hlo & ->).
      destruct (hex4_facts h1 v1 Hh1) as (Ha1 & Hl1 & Hp1 & Hr1).
      destruct (hex4_facts h2 v2 Hh2) as (Ha2 & Hl2 & Hp2 & Hr2).
      rewrite unescape_prefix by exact Hpre.
      destruct fuel as [|f]; [lia|].
      rewrite backslash_bs. cbn [append]. rewrite unescape_bs.
      rewrite decode_rune_ascii by (vm_compute; reflexivity).
      change (byte_of "u") with 117. change (jsonEscapes 117) with EmptyString.
      cbn [is_empty negb]. change (117 =? 117) with true. cbv iota zeta.
      rewrite !sapp_assoc. cbn [append].
      set (hx := String bs (String "u" h2)).
      change (String bs (String "u" (h2 ++ render us))) with (hx ++ render us).
      change (sdrop 1 (String "u" (h1 ++ hx ++ render us))) with (h1 ++ hx ++ render us).
      replace (decodeRunes (h1 ++ hx ++ render us) 4)
        with (decodeRunes (h1 ++ hx ++ render us) (slen h1)) by (rewrite Hl1; reflexivity).
      rewrite decodeRunes_ascii by exact Ha1. cbn [rbind]. rewrite Hp1.
      unfold is_high_surrogate, is_low_surrogate in *.
      replace (valid_rune v1) with false by (unfold valid_rune, MaxRune; lia).
      replace (utf16_is_surrogate v1) with true by (unfold utf16_is_surrogate; lia).
      rewrite Nat2Z.id, sdrop_app_exact.
      assert (Hhx : all_ascii hx = true) by (unfold hx; cbn [all_ascii]; rewrite Ha2; reflexivity).
      assert (Hlx : slen hx = 6%nat) by (unfold hx, slen in *; cbn [String.length]; lia).
      replace (decodeRunes (hx ++ render us) 6) with (decodeRunes (hx ++ render us) (slen hx)) by (rewrite Hlx; reflexivity).
      rewrite decodeRunes_ascii by exact Hhx. cbn [rbind].
      unfold hx at 1. change (sprefix "\u" (String bs (String "u" h2))) with true. cbv iota.
      change (sdrop 2 hx) with h2. rewrite Hp2.
      assert (Hdec : utf16_decode_rune v1 v2 = pair_code v1 v2).
      { unfold utf16_decode_rune, pair_code.
        replace ((55296 <=? v1) && (v1 <? 56320) && (56320 <=? v2) && (v2 <? 57344)) with true by lia. lia. }
      rewrite Hdec.
      replace (pair_code v1 v2 =? RuneError) with false by (unfold pair_code, RuneError; lia).
      cbn [negb]. rewrite Nat2Z.id, sdrop_app_exact.
      rewrite (fin_ok f _ _ (denote cs)); [reflexivity|].
      apply (IH EmptyString f eq_refl). rewrite !slen_app in Hf. change (slen backslash) with 1%nat in Hf. change (slen "u") with 1%nat in Hf. lia.
Qed.

Theorem unescape_spec us cs : jstring_body us cs ->
  forall fuel, (slen (render us) < fuel)%nat ->
  unescape fuel (render us) = ROk (denote cs, true).
Proof. intros H fuel Hf. apply (unescape_units us cs H EmptyString fuel eq_refl Hf). Qed.

Print Assumptions unescape_prefix.
Print Assumptions unescape_spec.

(* every escape form once: tab, quote, e-acute written as a hex escape in both cases, an astral
   character as a surrogate pair, raw 2- and 4-byte characters *)
Example unescape_spec_ex :
  let us := [URaw 97; UEsc "t"; UEsc """"; UHex "00e9"; UHex "00E9"; UPair "D83D" "dE00";
             URaw 233; URaw 128512; UEsc "/"] in
  let cs := [97; 9; 34; 233; 233; 128512; 233; 128512; 47] in
  jstring_body us cs /\
  unescape 100 (render us) = ROk (denote cs, true).
Proof.
  split; [|vm_compute; reflexivity].
  repeat (apply jb_cons;
          [cbn [unit_code];
           first [exists 55357, 56832; vm_compute; intuition congruence
                 |vm_compute; intuition congruence]|]).
  apply jb_nil.
Qed.

(* ---- 1.4 what is rejected ---- *)

(* a backslash followed by anything but the eight escape letters and u *)
Theorem unescape_rejects_escape f pre s1 : no_bs pre = true ->
  jsonEscapes (fst (decode_rune s1)) = EmptyString -> fst (decode_rune s1) <> 117 ->
  unescape (S f) (pre ++ String bs s1) = ROk (encode_rune (fst (decode_rune s1)), false).
Proof.
  intros Hpre Hj Hu. rewrite unescape_prefix by exact Hpre. rewrite unescape_bs.
  destruct (decode_rune s1) as [esc w]. cbn [fst] in *. rewrite Hj. cbn [is_empty negb].
  replace (esc =? 117) with false by lia. reflexivity.
Qed.

(* anything but four hexadecimal digits after backslash u is rejected: no sign, no blank, no
   shorter number (since the repair "fix: a sign is accepted in a \u escape") *)
Lemma parseRune_not_hex hex : all_hex hex = false -> parseRune hex = -1.
Proof. intros H. unfold parseRune, parse_uint16_32, parse_uint16. rewrite H. destruct hex; reflexivity. Qed.

Theorem unescape_rejects_hex f pre s2 hex w4 : no_bs pre = true ->
  decodeRunes s2 4 = ROk (hex, w4) -> all_hex hex = false ->
  unescape (S f) (pre ++ String bs (String "u" s2)) = ROk ("u" ++ hex, false)%string.
Proof.
  intros Hpre Hd Hp. rewrite unescape_prefix by exact Hpre. rewrite unescape_bs.
  rewrite decode_rune_ascii by (vm_compute; reflexivity).
  change (byte_of "u") with 117. change (jsonEscapes 117) with EmptyString.
  cbn [is_empty negb]. change (117 =? 117) with true. cbv iota zeta.
  change (sdrop 1 (String "u" s2)) with s2. rewrite Hd. cbn [rbind].
  rewrite (parseRune_not_hex hex Hp). reflexivity.
Qed.

(* conversely the four runes after an accepted backslash u are hexadecimal digits *)
Lemma parseRune_accepts hex : parseRune hex <> -1 -> all_hex hex = true /\ hex <> EmptyString.
Proof.
  intros H. destruct (all_hex hex) eqn:E; [|rewrite parseRune_not_hex in H by exact E; congruence].
  split; [reflexivity|]. intros ->. apply H. reflexivity.
Qed.

(* an unpaired surrogate escape: a surrogate code unit that is not followed by backslash u, or
   whose partner does not make a pair (in particular every escape that starts with a LOW
   surrogate) *)
Theorem unescape_rejects_surrogate f pre s2 hex w4 hex2 w6 : no_bs pre = true ->
  decodeRunes s2 4 = ROk (hex, w4) ->
  utf16_is_surrogate (parseRune hex) = true ->
  decodeRunes (sdrop (Z.to_nat w4) s2) 6 = ROk (hex2, w6) ->
  (sprefix "\u" hex2 = false \/
   utf16_decode_rune (parseRune hex) (parseRune (sdrop 2 hex2)) = RuneError) ->
  unescape (S f) (pre ++ String bs (String "u" s2)) = ROk ("u" ++ hex, false)%string.
Proof.
  intros Hpre Hd Hs Hd2 Hbad. rewrite unescape_prefix by exact Hpre. rewrite unescape_bs.
  rewrite decode_rune_ascii by (vm_compute; reflexivity).
  change (byte_of "u") with 117. change (jsonEscapes 117) with EmptyString.
  cbn [is_empty negb]. change (117 =? 117) with true. cbv iota zeta.
  change (sdrop 1 (String "u" s2)) with s2. rewrite Hd. cbn [rbind].
  replace (valid_rune (parseRune hex)) with false
    by (unfold utf16_is_surrogate in Hs; unfold valid_rune, MaxRune; lia).
  rewrite Hs, Hd2. cbn [rbind].
  destruct (sprefix "\u" hex2); [|reflexivity].
  destruct Hbad as [Hb|Hb]; [discriminate|]. rewrite Hb, Z.eqb_refl. reflexivity.
Qed.

Lemma utf16_low_first r1 r2 : 56320 <= r1 -> utf16_decode_rune r1 r2 = RuneError.
Proof. intros H. unfold utf16_decode_rune. replace ((55296 <=? r1) && (r1 <? 56320)) with false by lia. reflexivity. Qed.

(* a failure anywhere in the string is a failure of the whole string, with the same message *)
Theorem unescape_rejects_later us cs t f m : jstring_body us cs ->
  (forall f', (f - slen (render us) <= f')%nat -> unescape f' t = ROk (m, false)) ->
  (slen (render us) <= f)%nat ->
  unescape f (render us ++ t) = ROk (m, false).
Proof.
  intros Hb. revert f.
  assert (G : forall pre f, no_bs pre = true ->
            (forall f', (f - slen (render us) <= f')%nat -> unescape f' t = ROk (m, false)) ->
            (slen (render us) <= f)%nat ->
            unescape f (pre ++ render us ++ t) = ROk (m, false)).
  2:{ intros f Ht Hf. apply (G EmptyString f eq_refl Ht Hf). }
  induction Hb as [|u r us cs Hu Hb IH]; intros pre f Hpre Ht Hf.
  - cbn [render map sconcat append]. rewrite unescape_prefix by exact Hpre.
    rewrite Ht by (cbn; lia). reflexivity.
  - rewrite render_cons in *. rewrite slen_app in Hf, Ht.
    assert (Hstep : forall f0 s d, unescape f0 s = ROk (m, false) -> fin f0 d s = ROk (m, false)).
    { intros f0 s d H. unfold fin. rewrite H. reflexivity. }
    destruct u as [x|c|h|h1 h2]; cbn [unit_code render_unit] in *.
    + destruct Hu as (-> & Hv & H32 & H34 & H92).
      rewrite !sapp_assoc. rewrite <- (sapp_assoc pre). apply IH; [| |lia].
      * rewrite no_bs_app, Hpre, (encode_no_bs r Hv H92). reflexivity.
      * intros f' Hf'. apply Ht. lia.
    + destruct (esc_char_facts c r Hu) as (Hc & Hj & Hne).
      rewrite unescape_prefix by exact Hpre.
      change (slen (backslash ++ String c EmptyString)) with 2%nat in *.
      destruct f as [|f]; [lia|].
      rewrite backslash_bs. cbn [append]. rewrite unescape_bs.
      rewrite decode_rune_ascii by exact Hc. rewrite Hne. cbn [negb].
      change (sdrop 1 (String c (render us ++ t))) with (render us ++ t).
      rewrite Hstep; [reflexivity|].
      apply (IH EmptyString f eq_refl); [|lia]. intros f' Hf'. apply Ht. lia.
    + destruct Hu as (Hh & Hhi & Hlo).
      destruct (hex4_facts h r Hh) as (Ha & Hl & Hp & Hr).
      rewrite unescape_prefix by exact Hpre.
      rewrite !slen_app in *. change (slen backslash) with 1%nat in *. change (slen "u") with 1%nat in *.
      destruct f as [|f]; [lia|].
      rewrite backslash_bs. cbn [append]. rewrite unescape_bs.
      rewrite decode_rune_ascii by (vm_compute; reflexivity).
      change (byte_of "u") with 117. change (jsonEscapes 117) with EmptyString.
      cbn [is_empty negb]. change (117 =? 117) with true. cbv iota zeta.
      rewrite !sapp_assoc.
      change (sdrop 1 (String "u" (h ++ render us ++ t))) with (h ++ render us ++ t).
      replace (decodeRunes (h ++ render us ++ t) 4) with (decodeRunes (h ++ render us ++ t) (slen h)) by (rewrite Hl; reflexivity).
      rewrite decodeRunes_ascii by exact Ha. cbn [rbind]. rewrite Hp.
      replace (valid_rune r) with true
        by (unfold valid_rune, MaxRune, is_high_surrogate, is_low_surrogate in *; lia).
      rewrite Nat2Z.id, sdrop_app_exact.
      rewrite Hstep; [reflexivity|].
      apply (IH EmptyString f eq_refl); [|lia]. intros f' Hf'. apply Ht. lia.
    + destruct Hu as (v1 & v2 & Hh1 & Hh2 & Hhi & Hlo & ->).
      destruct (hex4_facts h1 v1 Hh1) as (Ha1 & Hl1 & Hp1 & Hr1).
      destruct (hex4_facts h2 v2 Hh2) as (Ha2 & Hl2 & Hp2 & Hr2).
      rewrite unescape_prefix by exact Hpre.
      rewrite !slen_app in *. change (slen backslash) with 1%nat in *. change (slen "u") with 1%nat in *.
      destruct f as [|f]; [lia|].
      rewrite backslash_bs. cbn [append]. rewrite unescape_bs.
      rewrite decode_rune_ascii by (vm_compute; reflexivity).
      change (byte_of "u") with 117. change (jsonEscapes 117) with EmptyString.
      cbn [is_empty negb]. change (117 =? 117) with true. cbv iota zeta.
      rewrite !sapp_assoc. cbn [append].
      set (hx := String bs (String "u" h2)).
      change (String bs (String "u" (h2 ++ render us ++ t))) with (hx ++ render us ++ t).
      change (sdrop 1 (String "u" (h1 ++ hx ++ render us ++ t))) with (h1 ++ hx ++ render us ++ t).
      replace (decodeRunes (h1 ++ hx ++ render us ++ t) 4)
        with (decodeRunes (h1 ++ hx ++ render us ++ t) (slen h1)) by (rewrite Hl1; reflexivity).
      rewrite decodeRunes_ascii by exact Ha1. cbn [rbind]. rewrite Hp1.
      unfold is_high_surrogate, is_low_surrogate in *.
      replace (valid_rune v1) with false by (unfold valid_rune, MaxRune; lia).
      replace (utf16_is_surrogate v1) with true by (unfold utf16_is_surrogate; lia).
      rewrite Nat2Z.id, sdrop_app_exact.
      assert (Hhx : all_ascii hx = true) by (unfold hx; cbn [all_ascii]; rewrite Ha2; reflexivity).
      assert (Hlx : slen hx = 6%nat) by (unfold hx, slen in *; cbn [String.length]; lia).
      replace (decodeRunes (hx ++ render us ++ t) 6) with (decodeRunes (hx ++ render us ++ t) (slen hx)) by (rewrite Hlx; reflexivity).
      rewrite decodeRunes_ascii by exact Hhx. cbn [rbind].
      unfold hx at 1. change (sprefix "\u" (String bs (String "u" h2))) with true. cbv iota.
      change (sdrop 2 hx) with h2. rewrite Hp2.
      assert (Hdec : utf16_decode_rune v1 v2 = pair_code v1 v2).
      { unfold utf16_decode_rune, pair_code.
        replace ((55296 <=? v1) && (v1 <? 56320) && (56320 <=? v2) && (v2 <? 57344)) with true by lia. lia. }
      rewrite Hdec.
      replace (pair_code v1 v2 =? RuneError) with false by (unfold pair_code, RuneError; lia).
      cbn [negb]. rewrite Nat2Z.id, sdrop_app_exact.
      rewrite Hstep; [reflexivity|].
      apply (IH EmptyString f eq_refl); [|lia]. intros f' Hf'. apply Ht. lia.
Qed.

Print Assumptions unescape_rejects_escape.
Print Assumptions unescape_rejects_hex.
Print Assumptions unescape_rejects_surrogate.
Print Assumptions unescape_rejects_later.

Example unescape_rejects_ex :
  unescape 20 "ab\x" = ROk ("x", false)%string /\
  unescape 20 "ab\u12" = ROk (("u12" ++ encode_rune RuneError ++ encode_rune RuneError)%string, false) /\
  unescape 20 "\uD83Dx" = ROk ("uD83D", false)%string /\
  unescape 20 "\uDE00\uD83D" = ROk ("uDE00", false)%string /\
  unescape 20 "a\tb\q" = ROk ("q", false)%string.
Proof. vm_compute. repeat split. Qed.

(* ==================================================================================== *)
(* 2. String literals: lexer, parser, evaluator                                          *)
(* ==================================================================================== *)

(* ---- 2.1 parseString turns the two outcomes of unescape into a node / a compile error ---- *)

Lemma parseString_accepts t p d :
  unescape (S (slen (tvalue t))) (tvalue t) = ROk (d, true) -> parseString t p = ROk (NString d, p).
Proof. intros H. unfold parseString, sbind, sfail. rewrite H. reflexivity. Qed.

Definition first_is_u (m : string) : bool :=
  match m with String c _ => byte_of c =? 117 | EmptyString => false end.

Lemma parseString_rejects t p m :
  unescape (S (slen (tvalue t))) (tvalue t) = ROk (m, false) ->
  parseString t p =
  RErr (mkError (if first_is_u m then ErrIllegalEscapeHex else ErrIllegalEscape) t m).
Proof.
  intros H. unfold parseString, sbind, sfail. rewrite H. cbn [negb]. unfold perr, first_is_u.
  destruct m as [|c m']; [reflexivity|]. change (ch "u") with 117. destruct (byte_of c =? 117); reflexivity.
Qed.

Lemma encode_first_not_u r : r <> 117 -> first_is_u (encode_rune r) = false.
Proof.
  intros Hr. unfold encode_rune. destruct (valid_rune r) eqn:Hv.
  - unfold valid_rune, MaxRune in Hv. unfold first_is_u.
    zcases; cbn [string_of_bytes map string_of_list]; rewrite byte_of_ascii_of_Z by lia; lia.
  - reflexivity.
Qed.

(* C11_rejects, string part: a malformed escape is the compile error IllegalEscape, a malformed
   or unpaired hexadecimal escape is IllegalEscapeHex — never a silently altered string *)
Theorem C11_rejects_escape t p pre s1 : tvalue t = pre ++ String bs s1 -> no_bs pre = true ->
  jsonEscapes (fst (decode_rune s1)) = EmptyString -> fst (decode_rune s1) <> 117 ->
  parseString t p = RErr (mkError ErrIllegalEscape t (encode_rune (fst (decode_rune s1)))).
Proof.
  intros Hv Hpre Hj Hu.
  rewrite (parseString_rejects t p (encode_rune (fst (decode_rune s1)))).
  - rewrite encode_first_not_u by exact Hu. reflexivity.
  - rewrite Hv. apply unescape_rejects_escape; auto.
Qed.

Theorem C11_rejects_hex t p pre s2 hex w4 : tvalue t = pre ++ String bs (String "u" s2) ->
  no_bs pre = true -> decodeRunes s2 4 = ROk (hex, w4) ->
  (all_hex hex = false \/
   (utf16_is_surrogate (parseRune hex) = true /\
    exists hex2 w6, decodeRunes (sdrop (Z.to_nat w4) s2) 6 = ROk (hex2, w6) /\
      (sprefix "\u" hex2 = false \/
       utf16_decode_rune (parseRune hex) (parseRune (sdrop 2 hex2)) = RuneError))) ->
  parseString t p = RErr (mkError ErrIllegalEscapeHex t ("u" ++ hex)).
Proof.
  intros Hv Hpre Hd Hbad.
  rewrite (parseString_rejects t p ("u" ++ hex)); [reflexivity|].
  rewrite Hv. destruct Hbad as [Hn|(Hs & hex2 & w6 & Hd2 & Hb)].
  - eapply unescape_rejects_hex; eauto.
  - eapply unescape_rejects_surrogate; eauto.
Qed.

(* ---- 2.2 the spelling of a JSON string body is a complete lexer string body ---- *)

Lemma body_ok_app q : forall n a b, (slen a <= n)%nat -> body_ok q a = true ->
  body_ok q (a ++ b) = body_ok q b.
Proof.
  induction n as [|n IH]; intros a b Hn Ha.
  - destruct a; [reflexivity|simpl in Hn; lia].
  - destruct a as [|c a]; [reflexivity|]. cbn [append body_ok] in *.
    destruct (byte_of c =? q); [discriminate|].
    destruct (byte_of c =? 92).
    + destruct a as [|c2 a2]; [discriminate|]. cbn [append]. apply IH; [simpl in Hn; lia|exact Ha].
    + apply IH; [simpl in Hn; lia|exact Ha].
Qed.

Lemma encode_all_high r : valid_rune r = true -> 128 <= r -> all_high (encode_rune r) = true.
Proof.
  intros Hv Hr. unfold encode_rune. rewrite Hv. unfold valid_rune, MaxRune in Hv.
  zcases; cbn [string_of_bytes map string_of_list all_high]; rewrite ?byte_of_ascii_of_Z by lia;
    repeat (apply andb_true_iff; split); try reflexivity; lia.
Qed.

Lemma body_ok_encode q r rest : 0 <= q < 128 -> valid_rune r = true -> r <> q -> r <> 92 ->
  body_ok q (encode_rune r ++ rest) = body_ok q rest.
Proof.
  intros Hq Hv Hrq Hr92. destruct (Z.ltb_spec r 128) as [L|L].
  - unfold encode_rune. rewrite Hv. unfold valid_rune, MaxRune in Hv.
    replace (r <? 128) with true by lia. cbn [string_of_bytes map string_of_list append body_ok].
    rewrite byte_of_ascii_of_Z by lia.
    replace (r =? q) with false by lia. replace (r =? 92) with false by lia. reflexivity.
  - rewrite (body_ok_skip q Hq (slen (encode_rune r)) (encode_rune r ++ rest)).
    + rewrite sdrop_app_exact. reflexivity.
    + rewrite stake_app_exact. apply encode_all_high; auto.
Qed.

Lemma hex_val_plain c x : hex_val c = Some x -> byte_of c <> 34 /\ byte_of c <> 39 /\ byte_of c <> 92.
Proof.
  unfold hex_val. intros H.
  destruct ((48 <=? byte_of c) && (byte_of c <=? 57)) eqn:E1; [lia|].
  destruct ((97 <=? byte_of c) && (byte_of c <=? 102)) eqn:E2; [lia|].
  destruct ((65 <=? byte_of c) && (byte_of c <=? 70)) eqn:E3; [lia|].
  discriminate.
Qed.

Lemma body_ok_hex4 q h v rest : q = 34 \/ q = 39 -> hex4 h v ->
  body_ok q (h ++ rest) = body_ok q rest.
Proof.
  intros Hq [Hl Hv].
  destruct h as [|c0 [|c1 [|c2 [|c3 [|c4 r]]]]]; try discriminate Hl.
  unfold Z_of_hex in Hv. cbn [Z_of_hex_acc] in Hv.
  destruct (hex_val c0) as [x0|] eqn:E0; [|discriminate].
  destruct (hex_val c1) as [x1|] eqn:E1; [|discriminate].
  destruct (hex_val c2) as [x2|] eqn:E2; [|discriminate].
  destruct (hex_val c3) as [x3|] eqn:E3; [|discriminate].
  apply hex_val_plain in E0, E1, E2, E3.
  cbn [append body_ok].
  replace (byte_of c0 =? q) with false by lia. replace (byte_of c0 =? 92) with false by lia.
  replace (byte_of c1 =? q) with false by lia. replace (byte_of c1 =? 92) with false by lia.
  replace (byte_of c2 =? q) with false by lia. replace (byte_of c2 =? 92) with false by lia.
  replace (byte_of c3 =? q) with false by lia. replace (byte_of c3 =? 92) with false by lia.
  reflexivity.
Qed.

(* raw characters other than the quote q (for the double quote this is part of the grammar) *)
Definition no_raw (q : Z) (us : list junit) : bool :=
  forallb (fun u => match u with URaw r => negb (r =? q) | _ => true end) us.

Lemma jstring_body_no_raw_dquote us cs : jstring_body us cs -> no_raw 34 us = true.
Proof.
  induction 1 as [|u r us cs Hu Hb IH]; [reflexivity|]. cbn [no_raw forallb]. fold (no_raw 34 us).
  rewrite IH. destruct u; try reflexivity. cbn [unit_code] in Hu. destruct Hu as (_ & _ & _ & H & _).
  replace (r0 =? 34) with false by lia. reflexivity.
Qed.

Lemma body_ok_render q us cs : q = 34 \/ q = 39 -> jstring_body us cs -> no_raw q us = true ->
  body_ok q (render us) = true.
Proof.
  intros Hq Hb. assert (Hq' : 0 <= q < 128) by lia.
  induction Hb as [|u r us cs Hu Hb IH]; intros Hn; [reflexivity|].
  cbn [no_raw forallb] in Hn. fold (no_raw q us) in Hn. apply andb_true_iff in Hn as [Hn1 Hn2].
  rewrite render_cons. specialize (IH Hn2).
  destruct u as [x|c|h|h1 h2]; cbn [unit_code render_unit] in *.
  - destruct Hu as (-> & Hv & H32 & H34 & H92).
    rewrite body_ok_encode; auto. lia.
  - rewrite backslash_bs. cbn [append body_ok].
    change (byte_of bs) with 92. replace (92 =? q) with false by lia. exact IH.
  - destruct Hu as (Hh & _). rewrite backslash_bs. cbn [append body_ok].
    change (byte_of bs) with 92. replace (92 =? q) with false by lia. cbn [Z.eqb Pos.eqb].
    rewrite (body_ok_hex4 q h r _ Hq Hh). exact IH.
  - destruct Hu as (v1 & v2 & Hh1 & Hh2 & _). rewrite backslash_bs. cbn [append body_ok].
    change (byte_of bs) with 92. replace (92 =? q) with false by lia. cbn [Z.eqb Pos.eqb].
    rewrite !sapp_assoc. rewrite (body_ok_hex4 q h1 v1 _ Hq Hh1). cbn [append body_ok].
    change (byte_of bs) with 92. replace (92 =? q) with false by lia. cbn [Z.eqb Pos.eqb].
    rewrite (body_ok_hex4 q h2 v2 _ Hq Hh2). exact IH.
Qed.

(* ---- 2.3 a string literal as a whole program ---- *)

(* at the end of the input the lexer returns the EOF token *)
Lemma next_at_end fuel b inp st wd : (0 < fuel)%nat ->
  next fuel b (mkL inp st (Z.of_nat (slen inp)) wd) =
  ROk ({| ttype := typeEOF; tvalue := ""; tpos := Z.of_nat (slen inp) |},
       mkL inp (Z.of_nat (slen inp)) (Z.of_nat (slen inp)) 0).
Proof.
  intros Hf. set (n := Z.of_nat (slen inp)).
  assert (Hd : sdrop (Z.to_nat n) inp = EmptyString) by (apply sdrop_all; lia).
  unfold next. unfold sbind at 1.
  rewrite skipWhitespace_mkL; [|lia|rewrite Hd; cbn; lia].
  rewrite Hd. cbn [ws_len]. replace (n + Z.of_nat 0) with n by lia. rewrite Hd.
  cbn [decode_rune snd]. change (Z.of_nat 0) with 0.
  unfold sbind at 1. rewrite nextRune_mkL by lia. rewrite Hd. reflexivity.
Qed.

Section StringLiteral.
Variable parse_number : string -> numlit.
Variable regex_check : string -> option string.
Variable fmt_g : f64 -> string.
Variable quote : string -> string.

Notation Parse := (parse parse_number regex_check fmt_g quote).
Notation ParseRaw := (parse_raw parse_number regex_check fmt_g quote).

Definition quoted (q : Z) (body : string) : string :=
  String (ascii_of_Z q) (body ++ String (ascii_of_Z q) EmptyString).

(* a quoted string whose body is complete and unescapes to d is a program that parses to the
   string node d *)
Lemma parse_quoted q body d : q = 34 \/ q = 39 -> body_ok q body = true ->
  unescape (S (slen body)) body = ROk (d, true) ->
  Parse (parse_fuel (quoted q body)) (quoted q body) = ROk (NString d).
Proof.
  intros Hq Hok Hun. set (src := quoted q body).
  assert (Hlen : slen src = (slen body + 2)%nat).
  { unfold src, quoted. cbn [slen String.length]. fold (slen (body ++ String (ascii_of_Z q) EmptyString)).
    rewrite slen_app. cbn [slen String.length]. lia. }
  unfold parse, parse_raw, newParser, advance. cbn [plexer].
  change (newLexer src) with (mkL src 0 0 0).
  rewrite (scan_string_spec q body (lex_fuel (mkL src 0 0 0)) true src 0 0 0 EmptyString Hq Hok);
    [|lia|reflexivity|unfold lex_fuel; cbn [input mkL]; lia].
  cbn [ttype tt_eqb tt_num Nat.eqb rbind].
  replace (0 + 1 + Z.of_nat (slen body) + 1) with (Z.of_nat (slen src)) by lia.
  set (tok := {| ttype := typeString; tvalue := body; tpos := 0 + 1 |}).
  set (l1 := mkL src (Z.of_nat (slen src)) (Z.of_nat (slen src)) 1).
  assert (Hfuel : exists f, parse_fuel src = S (S f)) by (unfold parse_fuel; exists (2 * slen src + 4)%nat; lia).
  destruct Hfuel as (f & ->).
  rewrite parseExpression_unfold, bind_curToken. cbn [ptoken]. unfold tok at 1.
  cbn [ttype tt_eqb tt_num Nat.eqb].
  unfold sbind at 1. unfold advance. cbn [plexer]. unfold l1.
  rewrite next_at_end by (unfold lex_fuel; lia).
  cbn [ttype tt_eqb tt_num Nat.eqb].
  change (lookupNud parse_number regex_check (S f)
            (parseExpression parse_number regex_check fmt_g quote (S f)) (ttype tok))
    with (Some parseString).
  cbv iota. unfold sbind at 1.
  rewrite (parseString_accepts tok _ d Hun).
  rewrite ledLoop_unfold, bind_curToken. cbn [ptoken ttype].
  change (0 <? lookupBp typeEOF) with false. cbv iota. unfold sret.
  cbn [ptoken ttype tt_eqb tt_num Nat.eqb negb rbind]. reflexivity.
Qed.

(* parse_string_literal: the JSON string text "body" is a JSONata program that parses to the
   string node holding the decoded string *)
Theorem parse_string_literal us cs : jstring_body us cs ->
  Parse (parse_fuel (quoted 34 (render us))) (quoted 34 (render us)) = ROk (NString (denote cs)).
Proof.
  intros Hb. apply parse_quoted; [auto| |].
  - apply (body_ok_render 34 us cs); auto. apply (jstring_body_no_raw_dquote us cs Hb).
  - apply unescape_spec; auto.
Qed.

(* C11_single_quote: the same body between single quotes (a body that contains no unescaped
   single quote) is the same node *)
Theorem C11_single_quote us cs : jstring_body us cs -> no_raw 39 us = true ->
  Parse (parse_fuel (quoted 39 (render us))) (quoted 39 (render us)) =
  Parse (parse_fuel (quoted 34 (render us))) (quoted 34 (render us)).
Proof.
  intros Hb Hn. rewrite (parse_string_literal us cs Hb).
  apply parse_quoted; [auto| |].
  - apply (body_ok_render 39 us cs); auto.
  - apply unescape_spec; auto.
Qed.

(* a string whose first malformed escape comes after well-formed units does not compile *)
Theorem C11_string_rejects q body m : q = 34 \/ q = 39 -> body_ok q body = true ->
  unescape (S (slen body)) body = ROk (m, false) ->
  exists e, Parse (parse_fuel (quoted q body)) (quoted q body) = RErr e /\
            etype e = (if first_is_u m then ErrIllegalEscapeHex else ErrIllegalEscape) /\
            ehint e = m.
Proof.
  intros Hq Hok Hun. set (src := quoted q body).
  assert (Hlen : slen src = (slen body + 2)%nat).
  { unfold src, quoted. cbn [slen String.length]. fold (slen (body ++ String (ascii_of_Z q) EmptyString)).
    rewrite slen_app. cbn [slen String.length]. lia. }
  unfold parse, parse_raw, newParser, advance. cbn [plexer].
  change (newLexer src) with (mkL src 0 0 0).
  rewrite (scan_string_spec q body (lex_fuel (mkL src 0 0 0)) true src 0 0 0 EmptyString Hq Hok);
    [|lia|reflexivity|unfold lex_fuel; cbn [input mkL]; lia].
  cbn [ttype tt_eqb tt_num Nat.eqb rbind].
  replace (0 + 1 + Z.of_nat (slen body) + 1) with (Z.of_nat (slen src)) by lia.
  set (tok := {| ttype := typeString; tvalue := body; tpos := 0 + 1 |}).
  set (l1 := mkL src (Z.of_nat (slen src)) (Z.of_nat (slen src)) 1).
  assert (Hfuel : exists f, parse_fuel src = S (S f)) by (unfold parse_fuel; exists (2 * slen src + 4)%nat; lia).
  destruct Hfuel as (f & ->).
  rewrite parseExpression_unfold, bind_curToken. cbn [ptoken]. unfold tok at 1.
  cbn [ttype tt_eqb tt_num Nat.eqb].
  unfold sbind at 1. unfold advance. cbn [plexer]. unfold l1.
  rewrite next_at_end by (unfold lex_fuel; lia).
  cbn [ttype tt_eqb tt_num Nat.eqb].
  change (lookupNud parse_number regex_check (S f)
            (parseExpression parse_number regex_check fmt_g quote (S f)) (ttype tok))
    with (Some parseString).
  cbv iota. unfold sbind at 1.
  rewrite (parseString_rejects tok _ m Hun).
  eexists. split; [reflexivity|]. split; reflexivity.
Qed.

End StringLiteral.

Print Assumptions parse_string_literal.
Print Assumptions C11_single_quote.
Print Assumptions C11_string_rejects.
Print Assumptions C11_rejects_escape.
Print Assumptions C11_rejects_hex.

Open Scope list_scope.
Open Scope nat_scope.

(* ==================================================================================== *)
(* 3. JSON literals denote themselves (evaluator)                                        *)
(* ==================================================================================== *)

(* ---- 3.0 objects: the value of obj_of_list does not depend on the order of distinct keys ---- *)

Lemma wf_obj_ext m1 : forall m2, wf_obj m1 -> wf_obj m2 ->
  (forall k, assoc_get k m1 = assoc_get k m2) -> m1 = m2.
Proof.
  induction m1 as [|[k1 v1] r1 IH]; intros [|[k2 v2] r2] W1 W2 H.
  - reflexivity.
  - specialize (H k2). simpl in H. rewrite seqb_refl in H. discriminate.
  - specialize (H k1). simpl in H. rewrite seqb_refl in H. discriminate.
  - apply wf_obj_cons in W1 as [W1 F1]. apply wf_obj_cons in W2 as [W2 F2].
    assert (Hk : k1 = k2).
    { destruct (seqb k1 k2) eqn:E; [apply seqb_eq; exact E|]. exfalso.
      pose proof (H k1) as H1. pose proof (H k2) as H2. simpl in H1, H2.
      rewrite seqb_refl in H1, H2. rewrite E in H1. rewrite seqb_sym, E in H2.
      symmetry in H1. apply assoc_get_In in H1. apply assoc_get_In in H2.
      apply (in_map fst) in H1. apply (in_map fst) in H2. simpl in H1, H2.
      rewrite Forall_forall in F1, F2. specialize (F2 _ H1). specialize (F1 _ H2).
      unfold slt in *. rewrite (sltb_asym _ _ F1) in F2. discriminate. }
    subst k2.
    assert (Hv : v1 = v2).
    { specialize (H k1). simpl in H. rewrite seqb_refl in H. congruence. }
    subst v2. f_equal. apply IH; auto.
    intros k. destruct (seqb k k1) eqn:E.
    + apply seqb_eq in E. subst k.
      assert (N : forall r : list (string * value), Forall (slt k1) (map fst r) -> assoc_get k1 r = None).
      { intros r F. apply assoc_get_None. intro I. rewrite Forall_forall in F.
        specialize (F _ I). unfold slt in F. rewrite sltb_irrefl in F. discriminate. }
      rewrite (N r1 F1), (N r2 F2). reflexivity.
    + specialize (H k). simpl in H. rewrite E in H. exact H.
Qed.

Lemma option_ext {A} (o1 o2 : option A) : (forall v, o1 = Some v <-> o2 = Some v) -> o1 = o2.
Proof.
  intros H. destruct o1 as [a|], o2 as [b|]; auto.
  - destruct (H a) as [H1 _]. symmetry. auto.
  - destruct (H a) as [H1 _]. specialize (H1 eq_refl). discriminate.
  - destruct (H b) as [_ H2]. specialize (H2 eq_refl). discriminate.
Qed.

Theorem obj_of_list_perm (l l' : list (string * value)) :
  NoDup (map fst l) -> Permutation l' l -> obj_of_list l' = obj_of_list l.
Proof.
  intros ND P.
  assert (ND' : NoDup (map fst l')).
  { eapply Permutation_NoDup; [|exact ND]. apply Permutation_map, Permutation_sym, P. }
  apply wf_obj_ext; try apply obj_of_list_wf.
  intros k. rewrite !obj_of_list_last. apply option_ext. intros v.
  rewrite (later_wins_NoDup l' k v ND'), (later_wins_NoDup l k v ND).
  split; intro I; [eapply Permutation_in; eauto|eapply Permutation_in; [apply Permutation_sym|]; eauto].
Qed.

Lemma distinct_NoDup l : distinct l = true -> NoDup l.
Proof.
  induction l as [|x r IH]; simpl; intros H; [constructor|].
  apply andb_true_iff in H as [H1 H2]. constructor; [|auto].
  intro I. apply negb_true_iff in H1. apply not_true_iff_false in H1. apply H1.
  apply existsb_exists. exists x. split; [exact I|apply seqb_refl].
Qed.

(* ---- 3.1 mapM over evaluations that succeed without touching the world ---- *)

Lemma mapM_pure_In {A B} (f : A -> M B) (g : A -> B) l w :
  (forall x, In x l -> f x w = Ok (g x) w) -> mapM f l w = Ok (map g l) w.
Proof.
  induction l as [|x r IH]; intros H; cbn [mapM map]; [reflexivity|].
  unfold bind at 1. rewrite (H x (or_introl eq_refl)).
  unfold bind at 1. rewrite IH by (intros y Hy; apply H; right; exact Hy). reflexivity.
Qed.

Section EvalLiterals.
Variable fmt_num : f64 -> string.
Variable regex_find : string -> string -> option (list (list (Z * Z))).
Variable pow_fn : f64 -> f64 -> option f64.
Variable xlib : string -> list carg -> option (lres ovalue).

Notation ev := (eval fmt_num regex_find pow_fn xlib).

(* scalars: null, true, false, numbers and strings are themselves, on any input *)
Lemma eval_scalars f input env w :
  (forall s, ev (S f) (NString s) input env w = Ok (Some (VStr s)) w) /\
  (forall x, ev (S f) (NNumber x) input env w = Ok (Some (VNum x)) w) /\
  (forall b, ev (S f) (NBoolean b) input env w = Ok (Some (VBool b)) w) /\
  ev (S f) NNull input env w = Ok (Some VNull) w.
Proof. repeat split. Qed.

Lemma eval_array_unfold f items input env :
  ev (S f) (NArray items) input env =
  (l <- array_items (fun it => ev f it input env) items ;; ret (Some (VArr l))).
Proof. reflexivity. Qed.

Lemma eval_object_unfold f pairs input env :
  ev (S (S f)) (NObject pairs) input env = object_with (fun nd it => ev f nd it env) pairs input.
Proof. reflexivity. Qed.

Definition not_array (v : value) : Prop := match v with VArr _ => False | _ => True end.

(* eval_array_literal: an array constructor whose items each evaluate (without effect) to a
   value, where every item is itself an array constructor or yields a non-array value, is the
   array of those values in order: nothing is flattened, a single item does not collapse *)
Theorem eval_array_literal f items (g : node -> value) input env w :
  (forall it, In it items ->
     ev f it input env w = Ok (Some (g it)) w /\ (is_array_node it = true \/ not_array (g it))) ->
  ev (S f) (NArray items) input env w = Ok (Some (VArr (map g items))) w.
Proof.
  intros H. rewrite eval_array_unfold. unfold bind at 1, array_items. unfold bind at 1.
  rewrite (mapM_pure_In _ (fun it => [g it]) items w).
  - unfold ret. f_equal. f_equal. f_equal.
    clear. induction items as [|x r IH]; [reflexivity|]. cbn [map concat app]. rewrite IH. reflexivity.
  - intros it Hit. destruct (H it Hit) as [He Hk]. unfold bind. rewrite He. unfold ret. f_equal.
    destruct (is_array_node it); [reflexivity|]. destruct Hk as [Hk|Hk]; [discriminate|].
    destruct (g it); try reflexivity. destruct Hk.
Qed.

(* ---- 3.2 object constructors with literal string keys ---- *)

(* the groups of an object constructor with distinct literal keys: one per pair, in order *)
Fixpoint groups_of (i : nat) (pairs : list (node * node)) : groups_t :=
  match pairs with
  | [] => []
  | (k, _) :: r => (key_of k, (i, [])) :: groups_of (S i) r
  end.

Definition str_keys (pairs : list (node * node)) : Prop :=
  Forall (fun kv : node * node => exists s, fst kv = NString s) pairs.

Lemma groups_of_keys i pairs : map fst (groups_of i pairs) = map (fun kv : node * node => key_of (fst kv)) pairs.
Proof. revert i; induction pairs as [|[k v] r IH]; intros i; [reflexivity|]. cbn. rewrite IH. reflexivity. Qed.

Lemma group_pairs_literal evn items : forall pairs i acc w,
  str_keys pairs ->
  NoDup (map fst acc ++ map (fun kv : node * node => key_of (fst kv)) pairs) ->
  group_pairs evn items pairs i acc w = Ok (acc ++ groups_of i pairs) w.
Proof.
  induction pairs as [|[k v] r IH]; intros i acc w Hs Hd.
  - cbn. rewrite app_nil_r. reflexivity.
  - inversion Hs as [|? ? [s Hk] Hs']; subst. cbn [fst] in Hk. subst k.
    cbn [group_pairs groups_of key_of map fst] in *.
    assert (Hn : assoc_get s acc = None).
    { apply assoc_get_None. apply NoDup_remove_2 in Hd. intro I. apply Hd. apply in_or_app. left. exact I. }
    rewrite Hn. rewrite IH; auto.
    + rewrite <- app_assoc. reflexivity.
    + rewrite map_app. cbn [map fst]. rewrite <- app_assoc. exact Hd.
Qed.

Lemma groups_of_In pairs : forall i k p idxs, In (k, (p, idxs)) (groups_of i pairs) ->
  idxs = [] /\ i <= p /\ exists kn vn, nth_error pairs (p - i) = Some (kn, vn) /\ k = key_of kn.
Proof.
  induction pairs as [|[kn vn] r IH]; intros i k p idxs H; [destruct H|].
  cbn [groups_of] in H. destruct H as [H|H].
  - injection H as <- <- <-. split; [reflexivity|]. split; [lia|].
    rewrite Nat.sub_diag. exists kn, vn. split; reflexivity.
  - apply IH in H as (H1 & H2 & kn' & vn' & H3 & H4). split; [exact H1|]. split; [lia|].
    exists kn', vn'. split; [|exact H4].
    replace (p - i) with (S (p - S i)) by lia. exact H3.
Qed.

(* the member a group contributes *)
Definition member_of (pairs : list (node * node)) (g : string * (nat * list nat)) : list (string * value) :=
  match nth_error pairs (fst (snd g)) with
  | Some (_, vn) => [(fst g, jvalue vn)]
  | None => []
  end.

Lemma members_of_groups pre : forall suf,
  flat_map (member_of (pre ++ suf)) (groups_of (length pre) suf) =
  map (fun kv : node * node => let '(k, v) := kv in (key_of k, jvalue v)) suf.
Proof.
  intros suf. revert pre. induction suf as [|[k v] r IH]; intros pre; [reflexivity|].
  cbn [groups_of flat_map map]. unfold member_of at 1. cbn [fst snd].
  rewrite nth_error_app2 by lia. rewrite Nat.sub_diag. cbn [nth_error app]. f_equal.
  specialize (IH (pre ++ [(k, v)])). rewrite app_length in IH. cbn [length] in IH.
  rewrite Nat.add_1_r in IH. rewrite <- app_assoc in IH. exact IH.
Qed.

Lemma object_literal evn pairs data w :
  str_keys pairs ->
  NoDup (map (fun kv : node * node => key_of (fst kv)) pairs) ->
  (forall kn vn arg, In (kn, vn) pairs -> evn vn arg w = Ok (Some (jvalue vn)) w) ->
  object_with evn pairs data w = Ok (Some (jvalue (NObject pairs))) w.
Proof.
  intros Hs Hd Hev. unfold object_with. unfold bind at 1.
  rewrite (group_pairs_literal evn _ pairs 0 [] w Hs Hd). cbn [app].
  set (items := match data with Some (VArr l) => map Some l | _ => [data] end).
  set (sorted := stable_sort (fun a b => sltb (fst a) (fst b)) (groups_of 0 pairs)).
  assert (Hperm : Permutation sorted (groups_of 0 pairs)) by apply stable_sort_perm.
  unfold bind at 1.
  rewrite (mapM_pure_In _ (member_of pairs) sorted w).
  - unfold ret. f_equal. f_equal. cbn [jvalue]. f_equal.
    rewrite <- flat_map_concat_map.
    pose proof (members_of_groups [] pairs) as E. cbn [app length] in E.
    rewrite <- E.
    apply obj_of_list_perm; [|apply Permutation_flat_map; exact Hperm].
    rewrite E. rewrite map_map.
    erewrite map_ext; [exact Hd|]. intros [k v]. reflexivity.
  - intros [key [p idxs]] Hin.
    apply (Permutation_in _ Hperm) in Hin.
    apply groups_of_In in Hin as (-> & _ & kn & vn & Hn & ->).
    rewrite Nat.sub_0_r in Hn.
    unfold member_of. cbn [fst snd length]. rewrite Hn.
    cbn [Nat.eqb negb andb].
    unfold bind. rewrite (Hev kn vn _ (nth_error_In _ _ Hn)). reflexivity.
Qed.

(* ---- 3.3 the induction ---- *)

Lemma jfuel_item items it : In it items ->
  jfuel it <= fold_right (fun x m => Nat.max (jfuel x) m) O items.
Proof.
  induction items as [|x r IH]; intros H; [destruct H|]. cbn [fold_right].
  destruct H as [<-|H]; [lia|]. specialize (IH H). lia.
Qed.

Lemma jfuel_value pairs kn vn : In (kn, vn) pairs ->
  jfuel vn <= fold_right (fun (kv : node * node) m => Nat.max (let '(_, v) := kv in jfuel v) m) O pairs.
Proof.
  induction pairs as [|[k v] r IH]; intros H; [destruct H|]. cbn [fold_right].
  destruct H as [H|H]; [injection H as <- <-; lia|]. specialize (IH H). lia.
Qed.

Lemma jliteral_not_array n : jliteral n = true -> is_array_node n = true \/ not_array (jvalue n).
Proof. destruct n; intros H; try discriminate H; cbn; auto. Qed.

(* C11_literal_denotes: a JSON literal (scalars, nested arrays, objects with unique string keys)
   evaluates to the value it denotes — on ANY input, in ANY environment and world, leaving the
   world unchanged — for every fuel from [jfuel n] up *)
Theorem C11_literal_denotes : forall fuel n input env w,
  jliteral n = true -> jkeys_unique n = true -> jfuel n <= fuel ->
  ev fuel n input env w = Ok (Some (jvalue n)) w.
Proof.
  induction fuel as [fuel IH] using lt_wf_ind. intros n input env w Hl Hu Hf.
  destruct n; try discriminate Hl.
  - destruct fuel; [cbn in Hf; lia|]. reflexivity.
  - destruct fuel; [cbn in Hf; lia|]. reflexivity.
  - destruct fuel; [cbn in Hf; lia|]. reflexivity.
  - destruct fuel; [cbn in Hf; lia|]. reflexivity.
  - (* array *)
    destruct fuel as [|f]; [cbn in Hf; lia|].
    cbn [jliteral jkeys_unique jfuel] in Hl, Hu, Hf.
    rewrite forallb_forall in Hl, Hu.
    change (jvalue (NArray items)) with (VArr (map jvalue items)).
    apply eval_array_literal. intros it Hit. split.
    + apply IH; auto. pose proof (jfuel_item items it Hit). lia.
    + apply jliteral_not_array. auto.
  - (* object *)
    destruct fuel as [|[|f]]; [cbn in Hf; lia|cbn in Hf; lia|].
    cbn [jliteral jkeys_unique jfuel] in Hl, Hu, Hf.
    apply andb_true_iff in Hu as [Hd Hu].
    rewrite forallb_forall in Hl, Hu.
    rewrite eval_object_unfold. apply object_literal.
    + apply Forall_forall. intros [k v] Hin. specialize (Hl _ Hin). cbn in Hl.
      destruct k; try discriminate Hl. eexists; reflexivity.
    + apply distinct_NoDup. exact Hd.
    + intros kn vn arg Hin. apply IH; [lia| | |].
      * specialize (Hl _ Hin). cbn in Hl. destruct kn; try discriminate Hl. exact Hl.
      * specialize (Hu _ Hin). exact Hu.
      * pose proof (jfuel_value pairs kn vn Hin). lia.
Qed.

End EvalLiterals.

Print Assumptions obj_of_list_perm.
Print Assumptions eval_array_literal.
Print Assumptions C11_literal_denotes.

(* ==================================================================================== *)
(* 4. null, true, false; negative numbers; text-level corollaries                        *)
(* ==================================================================================== *)

Open Scope string_scope.

Section Keywords.
Variable parse_number : string -> numlit.
Variable regex_check : string -> option string.
Variable fmt_g : f64 -> string.
Variable quote : string -> string.

Notation Parse := (parse parse_number regex_check fmt_g quote).

(* the three literal names are programs that parse to the literal nodes (whatever the oracles) *)
Theorem parse_keyword_literals :
  Parse (parse_fuel "null") "null" = ROk NNull /\
  Parse (parse_fuel "true") "true" = ROk (NBoolean true) /\
  Parse (parse_fuel "false") "false" = ROk (NBoolean false).
Proof. repeat split; vm_compute; reflexivity. Qed.

(* NegationNode.optimize folds the sign into a number literal: -x is the literal fopp x, so that
   -0 is the negative zero and not 0 - 0 *)
Theorem optimize_negative_literal x :
  optimize fmt_g quote (NNegation (NNumber x)) = ROk (NNumber (fopp x)).
Proof. reflexivity. Qed.

(* number tokens: parseNumber is the oracle strconv.ParseFloat on the token text; out of range
   and malformed numbers are compile errors *)
Theorem parseNumber_oracle t p :
  parseNumber parse_number t p =
  match parse_number (tvalue t) with
  | NumOk x => ROk (NNumber x, p)
  | NumRange => RErr (mkError ErrNumberRange t "")
  | NumSyntax => RErr (mkError ErrInvalidNumber t "")
  end.
Proof. unfold parseNumber. destruct (parse_number (tvalue t)); reflexivity. Qed.

(* a minus sign in front of a number token: the program -d..d parses to the negated literal *)
Theorem parse_minus_zero z : parse_number "0" = NumOk z ->
  Parse (parse_fuel "-0") "-0" = ROk (NNumber (fopp z)).
Proof.
  intros H. unfold parse, parse_raw.
  change (newParser "-0") with
    (ROk {| plexer := {| input := "-0"; start := 1; current := 1; width := 0; err := None |};
            ptoken := {| ttype := typeMinus; tvalue := "-"; tpos := 0 |} |}).
  cbn [rbind]. change (parse_fuel "-0") with 10%nat.
  rewrite parseExpression_unfold, bind_curToken. cbn [ptoken ttype tt_eqb tt_num Nat.eqb opens_operand orb].
  unfold sbind at 1.
  change (advance true _) with
    (ROk (tt, {| plexer := {| input := "-0"; start := 2; current := 2; width := 0; err := None |};
                 ptoken := {| ttype := typeNumber; tvalue := "0"; tpos := 1 |} |})) at 1.
  cbv iota beta.
  change (lookupNud parse_number regex_check 9 (parseExpression parse_number regex_check fmt_g quote 9) typeMinus)
    with (Some (parseNegation (parseExpression parse_number regex_check fmt_g quote 9))).
  cbv iota. unfold sbind at 1. unfold parseNegation. unfold sbind at 1.
  rewrite parseExpression_unfold, bind_curToken. cbn [ptoken ttype tt_eqb tt_num Nat.eqb opens_operand orb].
  unfold sbind at 1.
  change (advance false _) with
    (ROk (tt, {| plexer := {| input := "-0"; start := 2; current := 2; width := 0; err := None |};
                 ptoken := {| ttype := typeEOF; tvalue := ""; tpos := 2 |} |})) at 1.
  cbv iota beta.
  change (lookupNud parse_number regex_check 8 (parseExpression parse_number regex_check fmt_g quote 8) typeNumber)
    with (Some (parseNumber parse_number)).
  cbv iota. unfold sbind at 1. rewrite parseNumber_oracle. cbn [tvalue]. rewrite H.
  rewrite ledLoop_unfold, bind_curToken. cbn [ptoken ttype].
  change (bp typeMinus <? lookupBp typeEOF)%Z with false. cbv iota. unfold sret.
  rewrite ledLoop_unfold, bind_curToken. cbn [ptoken ttype].
  change (0 <? lookupBp typeEOF)%Z with false. cbv iota.
  cbn [ptoken ttype tt_eqb tt_num Nat.eqb negb rbind]. reflexivity.
Qed.

End Keywords.

Section Denotes.
Variable parse_number : string -> numlit.
Variable regex_check : string -> option string.
Variable fmt_g : f64 -> string.
Variable quote : string -> string.
Variable fmt_num : f64 -> string.
Variable regex_find : string -> string -> option (list (list (Z * Z))).
Variable pow_fn : f64 -> f64 -> option f64.
Variable xlib : string -> list carg -> option (lres ovalue).
(* the number-token denotation of Spec/C11.jtext is irrelevant for the texts covered here *)
Variable jnumber : string -> f64 -> Prop.

Notation Parse := (parse parse_number regex_check fmt_g quote).
Notation ev := (eval fmt_num regex_find pow_fn xlib).

(* C11_string_denotes: a JSON string text is a program; it compiles, and on any input, in any
   environment and world, it evaluates to the string the text denotes *)
Theorem C11_string_denotes us cs : jstring_body us cs ->
  let t := (dquote ++ render us ++ dquote)%string in
  jtext jnumber (VStr (denote cs)) t /\
  exists n, Parse (parse_fuel t) t = ROk n /\
    forall fuel input env w, ev (S fuel) n input env w = Ok (Some (VStr (denote cs))) w.
Proof.
  intros Hb t. split; [apply jt_string; exact Hb|].
  exists (NString (denote cs)). split.
  - apply (parse_string_literal parse_number regex_check fmt_g quote us cs Hb).
  - intros. reflexivity.
Qed.

(* the JSON texts for which the whole chain text -> tokens -> AST -> value is proved here *)
Inductive jtext_scalar : value -> string -> Prop :=
| js_null : jtext_scalar VNull "null"
| js_true : jtext_scalar (VBool true) "true"
| js_false : jtext_scalar (VBool false) "false"
| js_string us cs : jstring_body us cs ->
    jtext_scalar (VStr (denote cs)) (dquote ++ render us ++ dquote)%string.

Lemma jtext_scalar_jtext v t : jtext_scalar v t -> jtext jnumber v t.
Proof. destruct 1; constructor; auto. Qed.

(* C11_denotes_partial: "every JSON text is an expression that evaluates, on any input, to the
   value the text denotes" — proved end to end (text to value) for null, true, false and every
   string text.  PARTIAL with respect to the property: numbers, arrays, objects and inter-token
   whitespace are covered per layer instead (C11_literal_denotes for the ASTs of all JSON
   literals incl. nested containers with unique keys; parseNumber_oracle, parse_minus_zero and
   optimize_negative_literal for numbers; C04_ws for whitespace); what is missing for the full
   statement is the parser-level lemma that the text of an array / object parses to the
   NArray / NObject of the parses of its element texts, and the number-token grammar. *)
Theorem C11_denotes_partial v t : jtext_scalar v t ->
  exists n, Parse (parse_fuel t) t = ROk n /\ jliteral n = true /\ jvalue n = v /\
    forall fuel input env w, ev (S fuel) n input env w = Ok (Some v) w.
Proof.
  destruct 1 as [| | |us cs Hb].
  - exists NNull. split; [apply parse_keyword_literals|]. repeat split.
  - exists (NBoolean true). split; [apply parse_keyword_literals|]. repeat split.
  - exists (NBoolean false). split; [apply parse_keyword_literals|]. repeat split.
  - exists (NString (denote cs)). split.
    + apply (parse_string_literal parse_number regex_check fmt_g quote us cs Hb).
    + repeat split.
Qed.

End Denotes.

Print Assumptions parse_keyword_literals.
Print Assumptions parse_minus_zero.
Print Assumptions C11_string_denotes.
Print Assumptions C11_denotes_partial.

(* ---- examples: the hypotheses are satisfiable on non-trivial instances ---- *)

(* [[1], [[]], {"b": [1], "a": null}, "x"] : nested arrays stay nested, the singleton [1] stays an
   array, the object is keyed by name *)
Example C11_literal_denotes_ex :
  let one := NNumber (f_of_Z 1) in
  let n := NArray [NArray [one]; NArray [NArray []];
                   NObject [(NString "b", NArray [one]); (NString "a", NNull)]; NString "x"] in
  jliteral n = true /\ jkeys_unique n = true /\ jfuel n = 5%nat /\
  jvalue n = VArr [VArr [VNum (f_of_Z 1)]; VArr [VArr []];
                   VObj [("a", VNull); ("b", VArr [VNum (f_of_Z 1)])]; VStr "x"].
Proof. vm_compute. repeat split. Qed.

Example parse_string_literal_ex :
  let us := [URaw 97%Z; UEsc "n"; UPair "d83d" "DE00"] in
  jstring_body us [97; 10; 128512]%Z /\
  quoted 34 (render us) = String (ascii_of_Z 34) ("a\n\ud83d\uDE00" ++ String (ascii_of_Z 34) "") /\
  no_raw 39 us = true.
Proof.
  split; [|split; reflexivity].
  repeat (apply jb_cons;
          [cbn [unit_code];
           first [exists 55357%Z, 56832%Z; vm_compute; intuition congruence
                 |vm_compute; intuition congruence]|]).
  apply jb_nil.
Qed.

Example C11_rejects_ex (pn : string -> numlit) (rc : string -> option string) (fg : f64 -> string) (q : string -> string) :
  let bad1 := quoted 34 "a\q" in
  let bad2 := quoted 34 "\uD83D!" in
  let bad3 := quoted 34 "\u+123" in
  let bad4 := quoted 34 "\uD83D\u-E00" in
  (exists e, parse pn rc fg q (parse_fuel bad1) bad1 = RErr e /\ etype e = ErrIllegalEscape) /\
  (exists e, parse pn rc fg q (parse_fuel bad2) bad2 = RErr e /\ etype e = ErrIllegalEscapeHex) /\
  (exists e, parse pn rc fg q (parse_fuel bad3) bad3 = RErr e /\ etype e = ErrIllegalEscapeHex
             /\ ehint e = "u+123") /\
  (exists e, parse pn rc fg q (parse_fuel bad4) bad4 = RErr e /\ etype e = ErrIllegalEscapeHex).
Proof.
  split; [|split; [|split]].
  - eexists; split; vm_compute; reflexivity.
  - eexists; split; vm_compute; reflexivity.
  - eexists; split; [|split]; vm_compute; reflexivity.
  - eexists; split; vm_compute; reflexivity.
Qed.

Open Scope Z_scope.

(* ==================================================================================== *)
(* 5. Number tokens                                                                      *)
(* ==================================================================================== *)

(* ---- 5.0 accept / acceptAll for classes of ASCII characters ---- *)

Section Classes.
Variable P : rune -> bool.
Hypothesis P_ascii : forall r, P r = true -> 0 <= r < 128.

Definition headP (s : string) : bool :=
  match s with String c _ => P (byte_of c) | EmptyString => false end.
Fixpoint span (s : string) : nat :=
  match s with String c r => if P (byte_of c) then S (span r) else O | EmptyString => O end.

Lemma P_eof : P eof = false.
Proof. destruct (P eof) eqn:E; [apply P_ascii in E; unfold eof in E; lia|reflexivity]. Qed.

Lemma first_rune_P c s : P (fst (decode_rune (String c s))) = P (byte_of c).
Proof.
  destruct (Z.ltb_spec (byte_of c) 128) as [L|L].
  - rewrite decode_rune_ascii by exact L. reflexivity.
  - destruct (decode_rune_high c s L) as (Hr & _).
    destruct (P (fst _)) eqn:E1; [apply P_ascii in E1; lia|].
    destruct (P (byte_of c)) eqn:E2; [apply P_ascii in E2; lia|reflexivity].
Qed.

Lemma accept_cls inp st cur wd : 0 <= cur ->
  exists w, accept P (mkL inp st cur wd) =
            if headP (sdrop (Z.to_nat cur) inp) then ROk (true, mkL inp st (cur + 1) 1)
            else ROk (false, mkL inp st cur w).
Proof.
  intros Hc. rewrite accept_mkL by (auto using P_eof). cbv zeta.
  destruct (sdrop (Z.to_nat cur) inp) as [|c s] eqn:Es; cbn [headP].
  - eexists; reflexivity.
  - eexists. rewrite first_rune_P. destruct (P (byte_of c)) eqn:E.
    + rewrite decode_rune_ascii by (apply P_ascii in E; lia). cbn [snd]. reflexivity.
    + reflexivity.
Qed.

Lemma acceptAll_cls : forall fuel inp st cur wd b, 0 <= cur ->
  (span (sdrop (Z.to_nat cur) inp) < fuel)%nat ->
  let n := span (sdrop (Z.to_nat cur) inp) in
  exists w, acceptAllLoop fuel P b (mkL inp st cur wd) =
            ROk (b || negb (Nat.eqb n 0), mkL inp st (cur + Z.of_nat n) w).
Proof.
  induction fuel as [|f IH]; intros inp st cur wd b Hc Hf n; [lia|].
  cbn [acceptAllLoop]. unfold sbind.
  destruct (accept_cls inp st cur wd Hc) as (w & Ha). rewrite Ha. subst n.
  destruct (sdrop (Z.to_nat cur) inp) as [|c s] eqn:Es; cbn [headP span] in *.
  - exists w. unfold sret. rewrite orb_false_r. f_equal. f_equal. apply mkL_eq; lia.
  - destruct (P (byte_of c)) eqn:E.
    + assert (Es' : sdrop (Z.to_nat (cur + 1)) inp = s).
      { replace (Z.to_nat (cur + 1)) with (S (Z.to_nat cur)) by lia. eapply sdrop_next; eauto. }
      destruct (IH inp st (cur + 1) 1 true) as (w' & Hb'); [lia|rewrite Es'; lia|].
      rewrite Es' in Hb'. exists w'. rewrite Hb'. cbn [Nat.eqb negb orb]. rewrite orb_true_r.
      f_equal. f_equal. apply mkL_eq; lia.
    + exists w. unfold sret. rewrite orb_false_r. f_equal. f_equal. apply mkL_eq; lia.
Qed.

End Classes.

Lemma newToken_mkL ty inp st cur wd : 0 <= st <= cur -> cur <= Z.of_nat (slen inp) ->
  newToken ty (mkL inp st cur wd) =
  ROk ({| ttype := ty; tvalue := sslice (Z.to_nat st) (Z.to_nat cur) inp; tpos := st |},
       mkL inp cur cur 0).
Proof.
  intros H1 H2. unfold newToken, llength. cbn [mkL start current input].
  replace ((0 <=? st) && (st <=? cur) && (cur <=? Z.of_nat (slen inp))) with true by lia. reflexivity.
Qed.

Lemma isDigit_ascii r : isDigit r = true -> 0 <= r < 128.
Proof. unfold isDigit. change (ch "0") with 48. change (ch "9") with 57. lia. Qed.
Lemma isNonZeroDigit_ascii r : isNonZeroDigit r = true -> 0 <= r < 128.
Proof. unfold isNonZeroDigit. change (ch "1") with 49. change (ch "9") with 57. lia. Qed.
Lemma is1_ascii a r : 0 <= a < 128 -> (r =? a) = true -> 0 <= r < 128.
Proof. lia. Qed.
Lemma is2_ascii a b r : 0 <= a < 128 -> 0 <= b < 128 -> ((r =? a) || (r =? b)) = true -> 0 <= r < 128.
Proof. lia. Qed.

(* ---- 5.1 what scanNumber accepts, as a function of the remaining input ---- *)

Definition is0 (r : rune) : bool := r =? 48.
Definition isDot (r : rune) : bool := r =? 46.
Definition isE (r : rune) : bool := (r =? 101) || (r =? 69).
Definition isSign (r : rune) : bool := (r =? 43) || (r =? 45).

(* 0, or a non-zero digit followed by digits *)
Definition int_len (s : string) : nat :=
  if headP is0 s then 1%nat
  else if headP isNonZeroDigit s then S (span isDigit (sdrop 1 s))
  else 0%nat.
(* e or E, an optional sign, digits (possibly none) *)
Definition exp_len (s : string) : nat :=
  if headP isE s then
    let s' := sdrop 1 s in
    let k := if headP isSign s' then 1%nat else 0%nat in
    (1 + k + span isDigit (sdrop k s'))%nat
  else 0%nat.
(* the integer part; then, if a dot and at least one digit follow, the fraction; then the
   exponent.  A dot that is not followed by a digit ends the token BEFORE the dot (and no
   exponent is looked for). *)
Definition num_len (s : string) : nat :=
  let i := int_len s in
  let s1 := sdrop i s in
  if headP isDot s1 then
    let d := span isDigit (sdrop 1 s1) in
    if Nat.eqb d 0 then i else (i + 1 + d + exp_len (sdrop (1 + d) s1))%nat
  else (i + exp_len s1)%nat.

Lemma span_le P s : (span P s <= slen s)%nat.
Proof. induction s as [|c r IH]; cbn [span slen String.length]; [lia|]. destruct (P (byte_of c)); unfold slen in *; lia. Qed.

Lemma headP_nonempty P s : headP P s = true -> (1 <= slen s)%nat.
Proof. destruct s; [discriminate|]. cbn [slen String.length]. lia. Qed.

Lemma int_len_le s : (int_len s <= slen s)%nat.
Proof.
  unfold int_len. destruct (headP is0 s) eqn:E0; [apply headP_nonempty in E0; lia|].
  destruct (headP isNonZeroDigit s) eqn:E1; [|lia].
  destruct s as [|c r]; [discriminate|]. cbn [sdrop]. pose proof (span_le isDigit r). cbn [slen String.length]. unfold slen in *. lia.
Qed.

Lemma exp_len_le s : (exp_len s <= slen s)%nat.
Proof.
  unfold exp_len. destruct (headP isE s) eqn:E0; [|lia].
  destruct s as [|c r]; [discriminate|]. cbn [sdrop]. cbv zeta.
  destruct (headP isSign r) eqn:E1.
  - destruct r as [|c2 r2]; [discriminate|]. cbn [sdrop]. pose proof (span_le isDigit r2).
    cbn [slen String.length]. unfold slen in *. lia.
  - cbn [sdrop]. pose proof (span_le isDigit r). cbn [slen String.length]. unfold slen in *. lia.
Qed.

Lemma num_len_le s : (num_len s <= slen s)%nat.
Proof.
  unfold num_len. cbv zeta. pose proof (int_len_le s) as Hi.
  set (i := int_len s) in *. set (s1 := sdrop i s).
  assert (H1 : slen s1 = (slen s - i)%nat) by apply slen_sdrop.
  destruct (headP isDot s1) eqn:Ed.
  - pose proof (headP_nonempty _ _ Ed).
    pose proof (span_le isDigit (sdrop 1 s1)) as Hd. rewrite slen_sdrop in Hd.
    destruct (Nat.eqb (span isDigit (sdrop 1 s1)) 0); [lia|].
    pose proof (exp_len_le (sdrop (1 + span isDigit (sdrop 1 s1)) s1)) as He. rewrite slen_sdrop in He. lia.
  - pose proof (exp_len_le s1). lia.
Qed.

Lemma sdrop_at inp cur s k : 0 <= cur -> sdrop (Z.to_nat cur) inp = s ->
  sdrop (Z.to_nat (cur + Z.of_nat k)) inp = sdrop k s.
Proof.
  intros Hc <-. replace (Z.to_nat (cur + Z.of_nat k)) with (Z.to_nat cur + k)%nat by lia.
  rewrite sdrop_sdrop. reflexivity.
Qed.

Lemma not_digit_span s : headP is0 s = false -> headP isNonZeroDigit s = false -> span isDigit s = 0%nat.
Proof.
  destruct s as [|c r]; [reflexivity|]. cbn [headP span]. unfold is0, isNonZeroDigit, isDigit.
  change (ch "0") with 48. change (ch "1") with 49. change (ch "9") with 57. intros H1 H2.
  replace ((48 <=? byte_of c) && (byte_of c <=? 57)) with false by lia. reflexivity.
Qed.

(* the integer part *)
Lemma scan_int fuel inp st cur wd s : 0 <= cur -> sdrop (Z.to_nat cur) inp = s -> (slen s < fuel)%nat ->
  exists w,
    (do z <- acceptRune (ch "0");
     if negb z then (do _a <- accept isNonZeroDigit; do _b <- acceptAll fuel isDigit; sret tt)
     else sret tt) (mkL inp st cur wd) =
    ROk (tt, mkL inp st (cur + Z.of_nat (int_len s)) w).
Proof.
  intros Hc Hs Hf. unfold sbind at 1. unfold acceptRune.
  destruct (accept_cls is0 ltac:(unfold is0; intros; lia) inp st cur wd Hc) as (w0 & H0).
  change (fun c : rune => c =? ch "0") with is0. rewrite H0. rewrite Hs. unfold int_len.
  destruct (headP is0 s) eqn:E0.
  - cbn [negb]. exists 1. reflexivity.
  - cbn [negb]. unfold sbind at 1.
    destruct (accept_cls isNonZeroDigit isNonZeroDigit_ascii inp st cur w0 Hc) as (w1 & H1).
    rewrite H1, Hs.
    destruct (headP isNonZeroDigit s) eqn:E1.
    + assert (Hs1 : sdrop (Z.to_nat (cur + 1)) inp = sdrop 1 s) by (apply (sdrop_at inp cur s 1); auto).
      pose proof (span_le isDigit (sdrop 1 s)) as Hle. rewrite slen_sdrop in Hle.
      destruct (acceptAll_cls isDigit isDigit_ascii fuel inp st (cur + 1) 1 false) as (w2 & H2);
        [lia|rewrite Hs1; lia|].
      unfold sbind, acceptAll. rewrite H2, Hs1. exists w2. unfold sret. try (f_equal; try (f_equal; try (apply mkL_eq; lia))).
    + pose proof (not_digit_span s E0 E1) as Hsp.
      destruct (acceptAll_cls isDigit isDigit_ascii fuel inp st cur w1 false) as (w2 & H2);
        [lia|rewrite Hs; lia|].
      unfold sbind, acceptAll. rewrite H2, Hs, Hsp. exists w2. unfold sret. try (f_equal; try (f_equal; try (apply mkL_eq; lia))).
Qed.

(* the exponent part and the token *)
Lemma scan_exp fuel inp st cur wd s : 0 <= st <= cur -> sdrop (Z.to_nat cur) inp = s ->
  (slen s < fuel)%nat -> cur + Z.of_nat (slen s) <= Z.of_nat (slen inp) ->
  (do e <- acceptRunes2 (ch "e") (ch "E");
   (if e then (do _a <- acceptRunes2 (ch "+") (ch "-"); do _b <- acceptAll fuel isDigit; sret tt)
    else sret tt) ;;
   newToken typeNumber) (mkL inp st cur wd) =
  let c' := cur + Z.of_nat (exp_len s) in
  ROk ({| ttype := typeNumber; tvalue := sslice (Z.to_nat st) (Z.to_nat c') inp; tpos := st |},
       mkL inp c' c' 0).
Proof.
  intros Hc Hs Hf Hlen. cbv zeta. pose proof (exp_len_le s) as Hle.
  unfold sbind, acceptRunes2, acceptAll, sret.
  destruct (accept_cls isE ltac:(unfold isE; intros; lia) inp st cur wd ltac:(lia)) as (w0 & H0).
  change (fun c : rune => (c =? ch "e") || (c =? ch "E")) with isE. rewrite H0, Hs.
  unfold exp_len in *. destruct (headP isE s) eqn:E0; cbv beta iota.
  - cbv zeta in *.
    destruct (accept_cls isSign ltac:(unfold isSign; intros; lia) inp st (cur + 1) 1 ltac:(lia)) as (w1 & H1).
    change (fun c : rune => (c =? ch "+") || (c =? ch "-")) with isSign. rewrite H1.
    assert (Hs1 : sdrop (Z.to_nat (cur + 1)) inp = sdrop 1 s) by (apply (sdrop_at inp cur s 1); auto; lia).
    rewrite Hs1.
    destruct (headP isSign (sdrop 1 s)) eqn:E1; cbv beta iota.
    + assert (Hs2 : sdrop (Z.to_nat (cur + 1 + 1)) inp = sdrop 1 (sdrop 1 s)).
      { replace (cur + 1 + 1) with (cur + Z.of_nat 2) by lia. rewrite (sdrop_at inp cur s 2); auto; [|lia].
        rewrite sdrop_sdrop. reflexivity. }
      pose proof (span_le isDigit (sdrop 1 (sdrop 1 s))) as Hsp. rewrite !slen_sdrop in Hsp.
      destruct (acceptAll_cls isDigit isDigit_ascii fuel inp st (cur + 1 + 1) 1 false) as (w2 & H2);
        [lia|rewrite Hs2; lia|].
      rewrite H2, Hs2. cbv beta iota.
      rewrite newToken_mkL by lia.
      f_equal. f_equal; [f_equal; f_equal; lia|apply mkL_eq; lia].
    + pose proof (span_le isDigit (sdrop 1 s)) as Hsp. rewrite !slen_sdrop in Hsp.
      destruct (acceptAll_cls isDigit isDigit_ascii fuel inp st (cur + 1) w1 false) as (w2 & H2);
        [lia|rewrite Hs1; lia|].
      rewrite H2, Hs1. cbv beta iota. change (sdrop 0 (sdrop 1 s)) with (sdrop 1 s) in *.
      rewrite newToken_mkL by lia.
      f_equal. f_equal; [f_equal; f_equal; lia|apply mkL_eq; lia].
  - rewrite newToken_mkL by lia.
    f_equal. f_equal; [f_equal; f_equal; lia|apply mkL_eq; lia].
Qed.

Lemma sbind_assoc {S A B C} (m : SM S A) (k : A -> SM S B) (h : B -> SM S C) s :
  sbind m (fun z => sbind (k z) h) s = sbind (sbind m k) h s.
Proof. unfold sbind. destruct (m s) as [[a s']| | |]; reflexivity. Qed.

(* scan_number_fun: scanNumber, from a state whose token starts at the current position, returns
   the number token made of the first [num_len s] bytes of the remaining input s *)
Theorem scan_number_fun fuel inp cur wd s : 0 <= cur <= Z.of_nat (slen inp) ->
  sdrop (Z.to_nat cur) inp = s -> (slen s < fuel)%nat ->
  scanNumber fuel (mkL inp cur cur wd) =
  ROk ({| ttype := typeNumber; tvalue := stake (num_len s) s; tpos := cur |},
       mkL inp (cur + Z.of_nat (num_len s)) (cur + Z.of_nat (num_len s)) 0).
Proof.
  intros [Hc Hcl] Hs Hf.
  assert (Hlen : cur + Z.of_nat (slen s) <= Z.of_nat (slen inp)).
  { rewrite <- Hs, slen_sdrop. lia. }
  assert (Hval : forall n, (n <= slen s)%nat ->
            sslice (Z.to_nat cur) (Z.to_nat (cur + Z.of_nat n)) inp = stake n s).
  { intros n Hn. unfold sslice. replace (Z.to_nat (cur + Z.of_nat n) - Z.to_nat cur)%nat with n by lia.
    rewrite Hs. reflexivity. }
  pose proof (num_len_le s) as Hnl. pose proof (int_len_le s) as Hil.
  unfold scanNumber. rewrite sbind_assoc.
  destruct (scan_int fuel inp cur cur wd s Hc Hs Hf) as (w0 & H0).
  unfold sbind at 1. rewrite H0. clear H0.
  unfold num_len in *. cbv zeta in *. set (i := int_len s) in *.
  unfold sbind at 1. cbn [mkL current].
  assert (Hs1 : sdrop (Z.to_nat (cur + Z.of_nat i)) inp = sdrop i s) by (apply sdrop_at; auto).
  assert (Hl1 : slen (sdrop i s) = (slen s - i)%nat) by apply slen_sdrop.
  unfold sbind at 1. unfold acceptRune.
  destruct (accept_cls isDot ltac:(unfold isDot; intros; lia) inp cur (cur + Z.of_nat i) w0 ltac:(lia)) as (w1 & H1).
  change (fun c : rune => c =? ch ".") with isDot. rewrite H1, Hs1.
  destruct (headP isDot (sdrop i s)) eqn:Ed.
  - pose proof (headP_nonempty _ _ Ed) as Hne.
    assert (Hs2 : sdrop (Z.to_nat (cur + Z.of_nat i + 1)) inp = sdrop 1 (sdrop i s)).
    { replace (cur + Z.of_nat i + 1) with (cur + Z.of_nat (i + 1)) by lia.
      rewrite (sdrop_at inp cur s (i + 1)); auto. rewrite sdrop_sdrop. reflexivity. }
    pose proof (span_le isDigit (sdrop 1 (sdrop i s))) as Hsp. rewrite !slen_sdrop in Hsp.
    destruct (acceptAll_cls isDigit isDigit_ascii fuel inp cur (cur + Z.of_nat i + 1) 1 false) as (w2 & H2);
      [lia|rewrite Hs2; lia|].
    change (acceptAllLoop fuel isDigit false) with (acceptAll fuel isDigit) in H2.
    unfold sbind at 1. rewrite H2, Hs2. cbn [orb].
    set (d := span isDigit (sdrop 1 (sdrop i s))) in *.
    destruct (Nat.eqb d 0) eqn:Ed0.
    + cbn [negb]. unfold sbind at 1.
      change (set_current (cur + Z.of_nat i) (mkL inp cur (cur + Z.of_nat i + 1 + Z.of_nat d) w2))
        with (mkL inp cur (cur + Z.of_nat i) w2).
      rewrite newToken_mkL by lia. rewrite Hval by lia. reflexivity.
    + cbn [negb].
      assert (Hs3 : sdrop (Z.to_nat (cur + Z.of_nat i + 1 + Z.of_nat d)) inp = sdrop (1 + d) (sdrop i s)).
      { replace (cur + Z.of_nat i + 1 + Z.of_nat d) with (cur + Z.of_nat (i + (1 + d))) by lia.
        rewrite (sdrop_at inp cur s (i + (1 + d))); auto. rewrite sdrop_sdrop. reflexivity. }
      rewrite (scan_exp fuel inp cur (cur + Z.of_nat i + 1 + Z.of_nat d) w2 _ ltac:(lia) Hs3); [|rewrite !slen_sdrop; lia|rewrite !slen_sdrop; lia].
      cbv zeta.
      pose proof (exp_len_le (sdrop (1 + d) (sdrop i s))) as Hel. rewrite !slen_sdrop in Hel.
      replace (cur + Z.of_nat i + 1 + Z.of_nat d + Z.of_nat (exp_len (sdrop (1 + d) (sdrop i s))))
        with (cur + Z.of_nat (i + 1 + d + exp_len (sdrop (1 + d) (sdrop i s)))) by lia.
      rewrite Hval by lia. reflexivity.
  - rewrite (scan_exp fuel inp cur (cur + Z.of_nat i) w1 _ ltac:(lia) Hs1); [|rewrite Hl1; lia|rewrite Hl1; lia].
    cbv zeta.
    pose proof (exp_len_le (sdrop i s)) as Hel. rewrite Hl1 in Hel.
    replace (cur + Z.of_nat i + Z.of_nat (exp_len (sdrop i s)))
      with (cur + Z.of_nat (i + exp_len (sdrop i s))) by lia.
    rewrite Hval by lia. reflexivity.
Qed.

Lemma lookupSymbol1_digit c : isDigit c = true -> lookupSymbol1 c = typeEOF.
Proof.
  unfold isDigit, lookupSymbol1, symbols1, symbol1Count. change (ch "0") with 48. change (ch "9") with 57. intros H.
  destruct ((c <? 0) || (126 <=? c)); [reflexivity|].
  repeat (match goal with |- (if ?b then _ else _) = _ =>
            let E := fresh "E" in destruct b eqn:E;
            [apply Z.eqb_eq in E; subst c; discriminate H|] end).
  reflexivity.
Qed.

Lemma backup_mkL inp st cur wd : backup (mkL inp st cur wd) = ROk (tt, mkL inp st (cur - wd) wd).
Proof. reflexivity. Qed.

(* scan_number_spec: where the remaining input starts with a digit, [next] returns the number
   token consisting of its first [num_len] bytes *)
Theorem scan_number_spec fuel allowRegex inp st cur wd s :
  0 <= cur -> sdrop (Z.to_nat cur) inp = s -> headP isDigit s = true -> (slen s < fuel)%nat ->
  next fuel allowRegex (mkL inp st cur wd) =
  ROk ({| ttype := typeNumber; tvalue := stake (num_len s) s; tpos := cur |},
       mkL inp (cur + Z.of_nat (num_len s)) (cur + Z.of_nat (num_len s)) 0).
Proof.
  intros Hc Hs Hd Hf.
  destruct s as [|c r] eqn:Es; [discriminate|]. cbn [headP] in Hd.
  pose proof (isDigit_ascii _ Hd) as Hca.
  assert (Hlt : (Z.to_nat cur < slen inp)%nat).
  { apply sdrop_nonempty_lt. rewrite Hs. discriminate. }
  assert (Hws : ws_len (String c r) = 0%nat).
  { cbn [ws_len]. unfold is_ws_byte. destruct (isWhitespace (byte_of c)) eqn:E; [|reflexivity].
    unfold isWhitespace, isDigit in *. change (ch " ") with 32 in E. change (ch "0") with 48 in Hd. lia. }
  unfold next. unfold sbind at 1.
  rewrite skipWhitespace_mkL; [|exact Hc|rewrite Hs, Hws; lia].
  rewrite Hs, Hws. replace (cur + Z.of_nat 0) with cur by lia. rewrite Hs.
  unfold sbind at 1. rewrite nextRune_mkL by exact Hc. rewrite Hs. cbv beta iota zeta.
  rewrite decode_rune_ascii by lia. cbn [fst snd].
  replace (byte_of c =? eof) with false by (unfold eof; lia).
  replace (allowRegex && (byte_of c =? ch "/")) with false
    by (unfold isDigit in Hd; change (ch "0") with 48 in Hd; change (ch "/") with 47; lia).
  rewrite (lookupSymbol2_digit _ Hd). cbn [trySymbols2]. unfold sbind at 1. unfold sret at 1.
  rewrite (lookupSymbol1_digit _ Hd). cbn [tt_pos tt_eqb tt_num Nat.eqb negb].
  replace ((byte_of c =? ch """") || (byte_of c =? ch "'")) with false
    by (unfold isDigit in Hd; change (ch "0") with 48 in Hd; change (ch """") with 34; change (ch "'") with 39; lia).
  change ((ch "0" <=? byte_of c) && (byte_of c <=? ch "9")) with (isDigit (byte_of c)). rewrite Hd.
  unfold sbind at 1. rewrite backup_mkL.
  replace (cur + Z.of_nat 1 - Z.of_nat 1) with cur by lia.
  apply scan_number_fun; auto. lia.
Qed.

(* ---- 5.2 the JSON number grammar is accepted token-exactly ---- *)

(* what may follow a number: anything that cannot continue the token *)
Definition number_stop (rest : string) : bool :=
  negb (headP isDigit rest) && negb (headP isDot rest) && negb (headP isE rest).

Lemma span_digits d rest : all_digits d = true -> headP isDigit rest = false ->
  span isDigit (d ++ rest) = slen d.
Proof.
  intros Hd Hr. induction d as [|c d IH]; cbn [append span slen String.length].
  - destruct rest as [|c r]; [reflexivity|]. cbn [headP span] in *. rewrite Hr. reflexivity.
  - cbn [all_digits] in Hd. apply andb_true_iff in Hd as [H1 H2].
    replace (isDigit (byte_of c)) with true by (unfold isDigit, is_digit_char in *; change (ch "0") with 48; change (ch "9") with 57; lia).
    rewrite IH by exact H2. reflexivity.
Qed.

Lemma digits1_facts d : digits1 d = true -> all_digits d = true /\ (1 <= slen d)%nat /\
  headP isDigit d = true.
Proof.
  destruct d as [|c r]; [discriminate|]. cbn [digits1 all_digits headP]. intros H.
  split; [exact H|]. split; [cbn [slen String.length]; lia|].
  apply andb_true_iff in H as [H _]. unfold isDigit, is_digit_char in *.
  change (ch "0") with 48. change (ch "9") with 57. lia.
Qed.

Lemma headP_app_nonempty P c a b : headP P (String c a ++ b) = P (byte_of c).
Proof. reflexivity. Qed.

Lemma exp_len_json e rest : jexp e = true -> number_stop rest = true ->
  exp_len (e ++ rest) = slen e.
Proof.
  intros He Hst. unfold number_stop in Hst.
  apply andb_true_iff in Hst as [Hst H3]. apply andb_true_iff in Hst as [H1 H2].
  apply negb_true_iff in H1, H2, H3.
  destruct e as [|c r].
  - cbn [append slen String.length]. unfold exp_len. rewrite H3. reflexivity.
  - cbn [jexp] in He. apply andb_true_iff in He as [Hc Hr].
    unfold exp_len. cbn [append headP]. replace (isE (byte_of c)) with true by (unfold isE; lia).
    cbn [sdrop]. cbv zeta.
    destruct r as [|sg d]; [discriminate|].
    destruct ((byte_of sg =? 43) || (byte_of sg =? 45)) eqn:Es.
    + destruct (digits1_facts d Hr) as (Hd & _ & _).
      cbn [append headP]. replace (isSign (byte_of sg)) with true by (unfold isSign; lia).
      cbn [sdrop]. rewrite span_digits by auto. cbn [slen String.length]. unfold slen. lia.
    + destruct (digits1_facts (String sg d) Hr) as (Hd & _ & _).
      cbn [append headP]. replace (isSign (byte_of sg)) with false by (unfold isSign; lia).
      cbn [sdrop]. change (String sg (d ++ rest)) with (String sg d ++ rest).
      rewrite span_digits by auto. cbn [slen String.length]. lia.
Qed.

Lemma exp_head_not_digit_dot e rest : jexp e = true -> number_stop rest = true ->
  headP isDigit (e ++ rest) = false /\ headP isDot (e ++ rest) = false.
Proof.
  intros He Hst. unfold number_stop in Hst.
  apply andb_true_iff in Hst as [Hst H3]. apply andb_true_iff in Hst as [H1 H2].
  apply negb_true_iff in H1, H2, H3.
  destruct e as [|c r]; [cbn [append]; auto|].
  cbn [jexp] in He. apply andb_true_iff in He as [Hc _]. cbn [append headP].
  unfold isDigit, isDot. change (ch "0") with 48. change (ch "9") with 57. split; lia.
Qed.

(* num_len_json: on the text of a JSON number followed by something that cannot continue a
   number, scanNumber stops exactly at the end of the number *)
Theorem num_len_json i f e rest : jint i = true -> jfrac f = true -> jexp e = true ->
  number_stop rest = true ->
  num_len ((i ++ f ++ e) ++ rest) = slen (i ++ f ++ e).
Proof.
  intros Hi Hfr He Hst.
  destruct (exp_head_not_digit_dot e rest He Hst) as [Hed Hedot].
  rewrite !sapp_assoc. set (x := f ++ e ++ rest).
  assert (Hx : headP isDigit x = false).
  { unfold x. destruct f as [|c d]; [exact Hed|]. cbn [jfrac] in Hfr. apply andb_true_iff in Hfr as [Hc _].
    cbn [append headP]. unfold isDigit. change (ch "0") with 48. change (ch "9") with 57. lia. }
  assert (Hil : int_len (i ++ x) = slen i).
  { unfold int_len. destruct i as [|c r]; [discriminate|]. cbn [jint] in Hi. cbn [append headP].
    destruct (byte_of c =? 48) eqn:E0.
    - destruct r; [|discriminate]. replace (is0 (byte_of c)) with true by (unfold is0; lia). reflexivity.
    - apply andb_true_iff in Hi as [Hc Hr].
      replace (is0 (byte_of c)) with false by (unfold is0; lia).
      replace (isNonZeroDigit (byte_of c)) with true
        by (unfold isNonZeroDigit; change (ch "1") with 49; change (ch "9") with 57; lia).
      cbn [sdrop]. rewrite span_digits by auto. reflexivity. }
  unfold num_len. cbv zeta. rewrite Hil, sdrop_app_exact. subst x.
  rewrite !slen_app.
  destruct f as [|c d].
  - cbn [append]. rewrite Hedot. rewrite exp_len_json by auto. cbn [slen String.length]. lia.
  - cbn [jfrac] in Hfr. apply andb_true_iff in Hfr as [Hc Hd].
    destruct (digits1_facts d Hd) as (Had & Hl & _).
    cbn [append headP]. replace (isDot (byte_of c)) with true by (unfold isDot; lia).
    cbn [sdrop]. rewrite span_digits by auto.
    destruct (Nat.eqb_spec (slen d) 0) as [E|E]; [lia|].
    change (String c (d ++ e ++ rest)) with (String c d ++ e ++ rest).
    replace (1 + slen d)%nat with (slen (String c d)) by reflexivity.
    rewrite sdrop_app_exact. rewrite exp_len_json by auto.
    cbn [slen String.length]. unfold slen. lia.
Qed.

(* C11 numbers, lexer part: the text of a JSON number (followed by something that cannot
   continue a number) lexes as ONE number token whose value is exactly that text *)
Theorem scan_json_number fuel allowRegex inp st cur wd t rest :
  jnumber_text t -> number_stop rest = true -> 0 <= cur ->
  sdrop (Z.to_nat cur) inp = t ++ rest -> (slen (t ++ rest) < fuel)%nat ->
  next fuel allowRegex (mkL inp st cur wd) =
  ROk ({| ttype := typeNumber; tvalue := t; tpos := cur |},
       mkL inp (cur + Z.of_nat (slen t)) (cur + Z.of_nat (slen t)) 0).
Proof.
  intros Ht Hst Hc Hs Hf. destruct Ht as [i f e Hi Hfr He].
  rewrite (scan_number_spec fuel allowRegex inp st cur wd _ Hc Hs); [| |exact Hf].
  - rewrite num_len_json by auto. rewrite stake_app_exact. reflexivity.
  - destruct i as [|c r]; [discriminate|]. cbn [jint] in Hi. cbn [append headP].
    unfold isDigit. change (ch "0") with 48. change (ch "9") with 57.
    destruct (byte_of c =? 48) eqn:E0; [lia|]. apply andb_true_iff in Hi as [Hi _]. lia.
Qed.

Print Assumptions scan_number_spec.
Print Assumptions scan_json_number.

Example scan_json_number_ex :
  jnumber_text "12.50e-3" /\ number_stop "]" = true /\
  (exists l, next 20 true (newLexer "12.50e-3]") = ROk ({| ttype := typeNumber; tvalue := "12.50e-3"; tpos := 0 |}, l)) /\
  (* what scanNumber accepts beyond JSON: an exponent without digits is still one token (and is
     then rejected by the number conversion); a dot without digits ends the token before it *)
  num_len "1e+" = 3%nat /\ num_len "1.e5" = 1%nat /\ num_len "01" = 1%nat.
Proof.
  split; [apply (jn_parts "12" ".50" "e-3"); reflexivity|].
  split; [reflexivity|]. split; [eexists; vm_compute; reflexivity|]. vm_compute. auto.
Qed.

(* do not leak the div/mod pre-processing of [lia] to importers *)
Ltac Zify.zify_post_hook ::= idtac.
